package main

import (
	"fmt"
	"go/constant"
	"go/token"
	"go/types"
	"reflect"
	"sort"
	"strings"

	"golang.org/x/tools/go/ssa"
)

// C14 — RLP canonical, round-trips, hostile bytes safe.

func init() {
	register(&propDef{
		ID:          "C14",
		Explanation: "Round-trip equality and accept-implies-canonical are value properties and are not decided. Decided (structure, SSA of every package with custom codecs and of package rlp): for every type with both EncodeRLP and DecodeRLP the element written at position i comes from the field the decoder assigns position i to, and arities agree (E1); every field the encoder writes is restored by the decoder, including all rlp-visible fields of carrier structs (E2); no EncodeRLP iterates a map without sorting what it collects (E3); in package rlp every allocation sized by a decoded length is dominated by a successful Kind(), which bounds sizes by the remaining input, and every unlimited stream outside rlp is a tabled site that reads from a byte/string reader or a local file (E5). Hash inputs (E4) are decided by C01.R5 and C17.T1.",
		Assumptions: []string{"the reflection-based struct/list codecs of package rlp treat struct fields positionally and skip unexported and rlp:\"-\" fields"},
		Run:         runC14,
		Variants:    c14Variants,
	})
}

// codecDesc describes what an encoder element / decoder target refers to.
func fieldDesc(fn *ssa.Function, v ssa.Value) string {
	v = stripConv(v)
	if f, base := loadedField(v); f != nil && sourceDerived(fn, base) {
		return f.Name()
	}
	if lk, ok := v.(*ssa.Lookup); ok {
		if f, base := loadedField(lk.X); f != nil && sourceDerived(fn, base) {
			if cv, ok := lk.Index.(*ssa.Const); ok && cv.Value != nil {
				return f.Name() + "[" + cv.Value.String() + "]"
			}
		}
	}
	return "?"
}

// encoderElements: for `rlp.Encode(w, []interface{}{a, b, c})` returns the
// element descriptors; ok=false for other shapes.
func encoderElements(fn *ssa.Function) ([]string, ssa.Value, bool) {
	for _, ci := range callInstrs(fn) {
		o := calleeObj(ci)
		if o == nil || o.Name() != "Encode" || o.Pkg() == nil || o.Pkg().Path() != full("rlp") {
			continue
		}
		arg := stripConv(callArgs(ci)[1])
		sl, ok := arg.(*ssa.Slice)
		if !ok {
			return nil, arg, false
		}
		al, ok := sl.X.(*ssa.Alloc)
		if !ok {
			return nil, arg, false
		}
		at, ok := deref(al.Type()).Underlying().(*types.Array)
		if !ok {
			return nil, arg, false
		}
		elems := make([]string, at.Len())
		for i := range elems {
			elems[i] = "?"
		}
		for _, r := range *al.Referrers() {
			ia, ok := r.(*ssa.IndexAddr)
			if !ok {
				continue
			}
			idx, ok := constInt(ia.Index)
			if !ok {
				continue
			}
			for _, r2 := range *ia.Referrers() {
				if st, ok := r2.(*ssa.Store); ok && st.Addr == ia {
					elems[idx] = fieldDesc(fn, st.Val)
				}
			}
		}
		return elems, arg, true
	}
	return nil, nil, false
}

// decoderMapping: for `s.Decode(&data)` into a local struct, returns
// data-field-index -> target descriptor, the number of fields of data, and the
// set of receiver fields the decoder writes at all.
func decoderMapping(fn *ssa.Function) (map[int]string, int, map[string]bool, bool) {
	written := map[string]bool{}
	var dataAlloc *ssa.Alloc
	for _, ci := range callInstrs(fn) {
		o := calleeObj(ci)
		if o == nil || o.Name() != "Decode" || recvName(o) != "Stream" {
			continue
		}
		if a, ok := stripConv(callArgs(ci)[0]).(*ssa.Alloc); ok {
			dataAlloc = a
		}
	}
	for _, fw := range fieldWrites(fn) {
		if sourceDerived(fn, fw.Base) {
			written[fw.Field.Name()] = true
		}
	}
	// whole-struct assignment *v = T(x)
	for _, b := range fn.Blocks {
		for _, in := range b.Instrs {
			if st, ok := in.(*ssa.Store); ok && len(fn.Params) > 0 && st.Addr == ssa.Value(fn.Params[0]) {
				if s, ok := deref(fn.Params[0].Type()).Underlying().(*types.Struct); ok {
					for i := 0; i < s.NumFields(); i++ {
						written[s.Field(i).Name()] = true
					}
				}
			}
			// method calls on receiver fields (index.data.Store(...))
			if ci, ok := in.(ssa.CallInstruction); ok {
				if r := callRecv(ci); r != nil {
					if fa, ok := r.(*ssa.FieldAddr); ok && sourceDerived(fn, fa.X) {
						written[fieldOfAddr(fa).Name()] = true
					}
					if f, base := loadedField(r); f != nil && sourceDerived(fn, base) {
						switch calleeName(ci) {
						case "Store", "Add", "Set", "SetBytes", "Delete":
							written[f.Name()] = true
						}
					}
				}
			}
		}
	}
	if dataAlloc == nil {
		return nil, 0, written, false
	}
	ds, ok := deref(dataAlloc.Type()).Underlying().(*types.Struct)
	if !ok {
		return nil, 0, written, false
	}
	mapping := map[int]string{}
	dataField := func(v ssa.Value) int {
		v = stripConv(v)
		if u, ok := v.(*ssa.UnOp); ok {
			if fa, ok := u.X.(*ssa.FieldAddr); ok && fa.X == ssa.Value(dataAlloc) {
				return fa.Field
			}
		}
		return -1
	}
	for _, b := range fn.Blocks {
		for _, in := range b.Instrs {
			switch x := in.(type) {
			case *ssa.Store:
				if fa, ok := x.Addr.(*ssa.FieldAddr); ok && sourceDerived(fn, fa.X) {
					if j := dataField(x.Val); j >= 0 {
						mapping[j] = fieldOfAddr(fa).Name()
					}
				}
			case *ssa.MapUpdate:
				if f, base := loadedField(x.Map); f != nil && sourceDerived(fn, base) {
					if j := dataField(x.Value); j >= 0 {
						if cv, ok := x.Key.(*ssa.Const); ok && cv.Value != nil {
							mapping[j] = f.Name() + "[" + cv.Value.String() + "]"
						}
					}
				}
			}
		}
	}
	return mapping, ds.NumFields(), written, true
}

func rlpVisibleFields(s *types.Struct) []string {
	var out []string
	for i := 0; i < s.NumFields(); i++ {
		f := s.Field(i)
		if !f.Exported() {
			continue
		}
		if tag := reflect.StructTag(s.Tag(i)).Get("rlp"); tag == "-" {
			continue
		}
		out = append(out, f.Name())
	}
	return out
}

func runC14(c *Ctx) {
	w := c.W
	// collect codec pairs
	type pair struct {
		T        *types.Named
		enc, dec *ssa.Function
	}
	var pairs []pair
	for path, p := range w.Pkgs {
		if path == full("rlp") || strings.HasPrefix(path, full("p2p")) {
			continue
		}
		sc := p.Types.Scope()
		for _, n := range sc.Names() {
			tn, ok := sc.Lookup(n).(*types.TypeName)
			if !ok {
				continue
			}
			named, ok := tn.Type().(*types.Named)
			if !ok {
				continue
			}
			var enc, dec *ssa.Function
			for i := 0; i < named.NumMethods(); i++ {
				m := named.Method(i)
				fn := w.Prog.FuncValue(m)
				if fn == nil || fn.Blocks == nil || strings.HasSuffix(w.fileOf(fn.Pos()), "_test.go") {
					continue
				}
				switch m.Name() {
				case "EncodeRLP":
					enc = fn
				case "DecodeRLP":
					dec = fn
				}
			}
			if enc != nil && dec != nil {
				pairs = append(pairs, pair{named, enc, dec})
			}
		}
	}
	sort.Slice(pairs, func(i, j int) bool { return fname(pairs[i].enc) < fname(pairs[j].enc) })

	// ------------------------------------------------------------ E1
	c.Rule("C14.E1", "SIBLINGS", "for codec pairs of the list-literal shape (rlp.Encode(w, []interface{}{…}) / Decode into a local struct) the field written at position i is the field the decoder assigns position i to, and the number of elements equals the number of fields decoded")
	c.Min(3)
	type e2info struct {
		p         pair
		encFields map[string]bool
		written   map[string]bool
	}
	var e2 []e2info
	for _, p := range pairs {
		c.sawFunc(fname(p.enc))
		c.sawFunc(fname(p.dec))
		elems, arg, listShape := encoderElements(p.enc)
		mapping, nDec, written, decShape := decoderMapping(p.dec)
		encFields := map[string]bool{}
		// fields the encoder reads from its receiver
		if s, ok := p.T.Underlying().(*types.Struct); ok {
			for _, b := range p.enc.Blocks {
				for _, in := range b.Instrs {
					if f, base := loadedField(valueOf(in)); f != nil && sourceDerived(p.enc, base) && ownerOfField(s, f) {
						encFields[f.Name()] = true
					}
				}
			}
			// carrier shape: the whole receiver is converted into a carrier struct
			if !listShape && arg != nil {
				if convertsWholeReceiver(p.enc) {
					for _, f := range rlpVisibleFields(s) {
						encFields[f] = true
					}
					// fields excluded from the wire but re-encoded through the carrier stay in encFields (read above)
				}
			}
		}
		e2 = append(e2, e2info{p, encFields, written})
		if !listShape || !decShape {
			continue
		}
		c.sites++
		key := types.TypeString(p.T, func(*types.Package) string { return "" })
		var bad []string
		if len(elems) != nDec {
			bad = append(bad, fmt.Sprintf("encoder writes %d elements, decoder reads %d", len(elems), nDec))
		}
		for i, e := range elems {
			if e == "?" {
				continue
			}
			if m, ok := mapping[i]; ok && m != e {
				bad = append(bad, fmt.Sprintf("position %d is written from %s but decoded into %s", i, e, m))
			}
		}
		c.Check(fname(p.enc)+"~DecodeRLP#positions", p.enc.Pos(), len(bad) == 0, ifelse(len(bad) == 0, fmt.Sprintf("%s: %d positions agree", key, len(elems)), strings.Join(bad, "; ")+": a decoded value differs from the encoded one"))
	}

	// ------------------------------------------------------------ E2
	c.Rule("C14.E2", "EXHAUSTIVE", "every field an EncodeRLP reads from its receiver (for carrier structs: every rlp-visible field of the type) is assigned by the matching DecodeRLP, unless tabled as derived/not transmitted")
	c.Min(12)
	tabled := map[string]string{
		"Receipt.Logs":          "decoded through the storage/consensus carrier and assigned below via the receiptRLP struct",
		"Block.header":          "", // handled: stores to b.header
		"Transaction.data":      "",
		"Transaction.size":      "cache of the encoded size, set by the decoder",
		"Detail.RewardsPayload": "transport-only scratch field: the encoder fills it from Rewards, the decoder restores Rewards from it",
		"Detail.InnerTxPayload": "transport-only scratch field: the encoder fills it from InnerTxs, the decoder restores InnerTxs from it",
		"Validator.deleted":     "in-memory flag, never transmitted",
		"Validator.consAddr":    "cache of the derived address",
	}
	_ = tabled
	for _, x := range e2 {
		tname := x.p.T.Obj().Name()
		var missing []string
		for f := range x.encFields {
			if x.written[f] {
				continue
			}
			if _, ok := tabled[tname+"."+f]; ok {
				continue
			}
			missing = append(missing, f)
		}
		sort.Strings(missing)
		c.sites++
		c.Check(fname(x.p.dec)+"#restores-encoded-fields", x.p.dec.Pos(), len(missing) == 0, ifelse(len(missing) == 0, fmt.Sprintf("%d encoded fields restored", len(x.encFields)), "DecodeRLP does not restore field(s) "+strings.Join(missing, ", ")+" that EncodeRLP writes: the decoded value differs from the encoded one"))
	}

	// ------------------------------------------------------------ E3
	c.Rule("C14.E3", "MAP-ORDER", "no EncodeRLP method (nor a repository function it calls statically, depth 3) iterates a map in a way whose result depends on iteration order: what it collects is sorted before it is encoded")
	c.Min(10)
	nEnc := 0
	for _, fn := range w.AllFuncs() {
		if fn.Name() != "EncodeRLP" || fn.Signature.Recv() == nil || strings.HasSuffix(w.fileOf(fn.Pos()), "_test.go") {
			continue
		}
		nEnc++
		c.sawFunc(fname(fn))
		var bad []string
		seen := map[*ssa.Function]bool{}
		var visit func(f *ssa.Function, d int)
		visit = func(f *ssa.Function, d int) {
			if seen[f] || d < 0 || f.Blocks == nil {
				return
			}
			seen[f] = true
			for _, s := range mapRanges(f) {
				if sus := w.orderSuspects(s); len(sus) > 0 {
					bad = append(bad, fmt.Sprintf("%s at %s: %s", fname(f), w.Pos(s.Range.Pos()), strings.Join(sus, "; ")))
				} else if len(orderedAppendInLoop(s)) > 0 {
					bad = append(bad, fmt.Sprintf("%s at %s: %s", fname(f), w.Pos(s.Range.Pos()), strings.Join(orderedAppendInLoop(s), "; ")))
				}
			}
			for _, ci := range callInstrs(f) {
				if callee := ci.Common().StaticCallee(); callee != nil && callee.Pkg != nil && w.SSAPkgs[callee.Pkg.Pkg.Path()] == callee.Pkg {
					visit(callee, d-1)
				}
				for _, a := range ci.Common().Args {
					if mc, ok := stripConv(a).(*ssa.MakeClosure); ok {
						if cf, ok := mc.Fn.(*ssa.Function); ok {
							visit(cf, d-1)
						}
					}
				}
			}
		}
		visit(fn, 3)
		c.Check(fname(fn)+"#deterministic", fn.Pos(), len(bad) == 0, ifelse(len(bad) == 0, "no order-dependent map iteration", "the encoding depends on map iteration order ("+strings.Join(bad, " | ")+"): equal values have several encodings and hashes"))
	}
	c.sites += nEnc

	// ------------------------------------------------------------ E5
	c.Rule("C14.E5", "GATE+CONFINED", "in package rlp every make() whose length derives from a decoded size is dominated by a successful (*Stream).Kind() and has one-byte elements; no reflective allocation (reflect.MakeSlice …) is sized by a decoded length; slices of the stream's scratch buffer are never returned or stored; Kind/readKind compare the size with the remaining input and fail with ErrValueTooLarge; every stream created without an input limit outside rlp is a tabled site")
	c.Min(4)
	c14E5(c, w)

	// ------------------------------------------------------------ E6
	c.Rule("C14.E6", "TYPESTATE", "the pooled encode buffer behind an EncodeToReader reader goes back to the pool only when the reader holds no piece of it any more: every encbufPool.Put in (*encReader).Read is gated by 'the piece just obtained is nil' and followed by clearing the buffer reference; the one-shot encoders return their buffer in a defer after copying the bytes out")
	c.Min(2)
	{
		rd := w.Fn("rlp", "encReader", "Read")
		c.sawFunc(fname(rd))
		pieceF := w.Field("rlp", "encReader", "piece")
		bufF := w.Field("rlp", "encReader", "buf")
		nPut := 0
		for _, ci := range callInstrs(rd) {
			o := calleeObj(ci)
			if o == nil || o.Name() != "Put" || recvName(o) != "Pool" {
				continue
			}
			nPut++
			c.sites++
			gated := false
			for _, a := range atomsOf(factsAtInstr(ci)) {
				if a.Kind == "isnil" && a.Truth {
					if f, _ := loadedField(stripConv(a.X)); f == pieceF {
						gated = true
					}
					if cc, ok := stripConv(a.X).(*ssa.Call); ok && calleeObj(cc) != nil && calleeObj(cc).Name() == "next" {
						gated = true
					}
				}
			}
			cleared := false
			for _, fw := range fieldWrites(rd) {
				if fw.Field == bufF && fw.Kind == "store" && instrDominates(ci, fw.Instr) {
					if cv, ok := fw.Instr.(*ssa.Store).Val.(*ssa.Const); ok && cv.IsNil() {
						cleared = true
					}
				}
			}
			ok := gated && cleared
			c.Check(fmt.Sprintf("%s#pool-put@%s-only-without-piece", fname(rd), siteOrdinal(rd, ci, "")), ci.Pos(), ok, ifelse(ok, "the buffer is released under piece == nil and the reference is cleared", "the encode buffer is put back into the pool while the reader may still hold (or later hand out) a piece that points into it: the next encoder that takes the buffer overwrites bytes this reader has yet to deliver, and the stream is no longer the encoding of the value"))
		}
		if nPut == 0 {
			c.Undecided(fname(rd)+"#pool-put", rd.Pos(), "Read no longer returns the buffer to the pool")
		}
		// next() hands out a kept piece only while the buffer is still owned
		nx := w.Fn("rlp", "encReader", "next")
		c.sawFunc(fname(nx))
		c.sites++
		badNext := false
		for _, rp := range returnPaths(nx, 0) {
			if f, _ := loadedField(stripConv(rp.Val)); f == pieceF {
				owned := false
				for _, a := range rp.Atoms() {
					if a.Kind == "isnil" && !a.Truth {
						if bf, _ := loadedField(stripConv(a.X)); bf == bufF {
							owned = true
						}
					}
				}
				if !owned {
					badNext = true
				}
			}
		}
		c.Check(fname(nx)+"#kept-piece-only-while-buffer-owned", nx.Pos(), !badNext, ifelse(!badNext, "a kept piece is returned only under buf != nil", "next() returns a kept piece without knowing that the buffer is still owned: after the buffer went back to the pool the piece is served from memory another encoder is writing"))
	}
	// ------------------------------------------------------------ E7
	c.Rule("C14.E7", "OWNERSHIP", "the writers and decoders built per type are cached in a table shared by all goroutines, so they carry no mutable state: a closure created in a function of package rlp that returns a writer or decoder never stores through a captured variable and never calls a mutating reflect.Value method (Set…, Grow, Slice-of-addressable scratch) on a captured value — a shared scratch value lets two concurrent encodes overwrite each other's bytes")
	c.Min(8)
	c14E7(c, w)

	// ------------------------------------------------------------ E8
	c.Rule("C14.E8", "GATE", "a nil pointer has one encoding: in the decoder built by makeOptionalPtrDecoder every path that turns an empty value into a nil pointer without error has compared the value's kind with the kind the encoder writes for nil (not merely 'not a single byte') — otherwise 0x80 and 0xC0 are both accepted for an rlp:\"nil\" field (the transaction's recipient) and accepted bytes do not re-encode to themselves")
	c.Min(1)
	c14E8(c, w)

	// ------------------------------------------------------------ E9
	c.Rule("C14.E9", "GATE", "a pointer field tagged rlp:\"nil\" can be nil after decoding hostile bytes: every dereference of such a field in the repository (field access, load, or handing it to a function that dereferences its parameter unconditionally) is dominated by a nil test of that field — message handlers reject rather than crash")
	c.Min(1)
	c14E9(c, w)

	// ------------------------------------------------------------ E10
	c.Rule("C14.E10", "GATE", "integers have one encoding: in package rlp every (*big.Int).SetBytes of bytes read with (*Stream).Bytes() is reached only on paths that established that the bytes are empty or that the first byte is not zero (ErrCanonInt otherwise) — a zero-padded integer of nine or more bytes would otherwise be accepted into transaction values, signatures, header numbers and stakes and re-encode to different bytes")
	c.Min(1)
	{
		bytesObj := w.FuncObj("rlp", "Stream", "Bytes")
		nSB := 0
		for _, fn := range w.FuncsIn("rlp") {
			if fn.Blocks == nil || strings.HasSuffix(w.fileOf(fn.Pos()), "_test.go") {
				continue
			}
			for _, ci := range callInstrs(fn) {
				o := calleeObj(ci)
				if o == nil || o.Name() != "SetBytes" || o.Pkg() == nil || o.Pkg().Path() != "math/big" {
					continue
				}
				arg := callArgs(ci)[0]
				var src *ssa.Call
				backward(arg, func(v ssa.Value) bool {
					if cc, ok := v.(*ssa.Call); ok {
						if sameFunc(calleeObj(cc), bytesObj) {
							src = cc
						}
						return false
					}
					return src == nil
				})
				if src == nil {
					continue
				}
				nSB++
				c.sawFunc(fname(fn))
				fromSrc := func(v ssa.Value) bool {
					return derivesFrom(v, func(x ssa.Value) bool { return x == ssa.Value(src) })
				}
				nPaths, bad := 0, 0
				okEnum := pathsBetween(fn, fn.Blocks[0], ci.Block(), 4096, func(blocks []*ssa.BasicBlock, facts []Fact) {
					// only paths on which the bytes were read
					read := false
					for _, b := range blocks {
						if b == src.Block() {
							read = true
						}
					}
					if !read {
						return
					}
					atoms := atomsOf(facts)
					if contradictoryAtoms(atoms) {
						return
					}
					nPaths++
					okPath := canonEvidence(atoms, fromSrc, 0)
					if !okPath {
						bad++
					}
				})
				c.sites += nPaths
				cons := fmt.Sprintf("%s#SetBytes-only-of-canonical-bytes-%d", fname(fn), nSB)
				if !okEnum {
					c.Undecided(cons, ci.Pos(), "paths to SetBytes could not be enumerated")
					continue
				}
				c.Check(cons, ci.Pos(), bad == 0 && nPaths > 0, ifelse(bad == 0 && nPaths > 0, fmt.Sprintf("all %d paths rejected a leading zero byte (or have no bytes)", nPaths), fmt.Sprintf("%d of %d paths convert bytes read from the stream into a big integer without the leading-zero test: 0x8a0001… is accepted and re-encodes shorter, so equal objects (same hash) have several encodings", bad, nPaths)))
			}
		}
		if nSB == 0 {
			c.Undecided("rlp#SetBytes-of-stream-bytes", token.NoPos, "no SetBytes of bytes read with Stream.Bytes found in package rlp (decodeBigInt is expected)")
		}
	}

	// ------------------------------------------------------------ E11
	c.Rule("C14.E11", "GATE", "hand-written decoders keep the width of what they read: in every DecodeRLP method of the repository (and its small helpers) an integer read with the 64-bit (*rlp.Stream).Uint() is not converted to a narrower integer type without a dominating range comparison on it — the reflective decoder enforces the field's width, a conversion keeps the low byte(s) and accepts 0x0103 as 3")
	c.Min(8)
	{
		uintObj := w.FuncObj("rlp", "Stream", "Uint")
		nDec := 0
		for _, fn := range w.AllFuncs() {
			if fn.Blocks == nil || fn.Pkg == nil || !strings.HasPrefix(fn.Pkg.Pkg.Path(), modPath) || fn.Name() != "DecodeRLP" || strings.HasSuffix(w.fileOf(fn.Pos()), "_test.go") {
				continue
			}
			nDec++
			c.sites++
			bad := ""
			for _, g := range withSmallHelpers(fn) {
				for _, b := range g.Blocks {
					for _, in := range b.Instrs {
						cv, ok := in.(*ssa.Convert)
						if !ok {
							continue
						}
						bt, isBasic := cv.Type().Underlying().(*types.Basic)
						if !isBasic || bt.Info()&types.IsInteger == 0 {
							continue
						}
						switch bt.Kind() {
						case types.Uint64, types.Int64, types.Uint, types.Int, types.Uintptr:
							continue
						}
						var src ssa.Value
						backward(cv.X, func(v ssa.Value) bool {
							if cc, isCall := v.(*ssa.Call); isCall {
								if sameFunc(calleeObj(cc), uintObj) {
									src = cv.X
								}
								return false
							}
							return src == nil
						})
						if src == nil {
							continue
						}
						ranged := false
						for _, a := range atomsOf(factsAtInstr(cv)) {
							if a.Kind == "cmp" && (stripConv(a.X) == stripConv(cv.X) || (a.Y != nil && stripConv(a.Y) == stripConv(cv.X))) {
								ranged = true
							}
						}
						if !ranged && bad == "" {
							bad = w.Pos(cv.Pos()) + " (to " + bt.Name() + ")"
						}
					}
				}
			}
			c.Check(fname(fn)+"#no-silent-narrowing", fn.Pos(), bad == "", ifelse(bad == "", "no integer read with Stream.Uint() is narrowed without a range check", "an integer read with the 64-bit Stream.Uint() is narrowed at "+bad+" without a range check: a wider encoding of the same low byte is accepted, re-encodes to different bytes, and every variant of a signed message verifies"))
		}
		if nDec == 0 {
			c.Undecided("DecodeRLP-methods", token.NoPos, "no DecodeRLP method found")
		}
	}
	c14IndexGate(c, c.W)
	c14DecodeForms(c, c.W)
}

func c14E7(c *Ctx, w *World) {
	mutators := map[string]bool{"Set": true, "SetBool": true, "SetBytes": true, "SetCap": true, "SetComplex": true, "SetFloat": true, "SetInt": true, "SetLen": true, "SetMapIndex": true, "SetPointer": true, "SetString": true, "SetUint": true, "SetZero": true, "SetIterKey": true, "SetIterValue": true, "Grow": true, "Clear": true}
	isCodecType := func(t types.Type) bool {
		n := ownerName(t)
		return n == "writer" || n == "decoder"
	}
	n := 0
	for _, fn := range w.FuncsIn("rlp") {
		if strings.HasSuffix(w.fileOf(fn.Pos()), "_test.go") || fn.Blocks == nil || fn.Parent() != nil {
			continue
		}
		res := fn.Signature.Results()
		returnsCodec := false
		for i := 0; i < res.Len(); i++ {
			if isCodecType(res.At(i).Type()) {
				returnsCodec = true
			}
		}
		if !returnsCodec {
			continue
		}
		var closures []*ssa.Function
		var collect func(f *ssa.Function)
		collect = func(f *ssa.Function) {
			for _, a := range f.AnonFuncs {
				closures = append(closures, a)
				collect(a)
			}
		}
		collect(fn)
		for k, cl := range closures {
			n++
			c.sites++
			c.sawFunc(fname(fn))
			bad := ""
			// the location / value is a captured variable or lies inside one
			fromFree := func(v ssa.Value) bool {
				for i := 0; i < 16 && v != nil; i++ {
					switch x := v.(type) {
					case *ssa.FreeVar:
						return true
					case *ssa.FieldAddr:
						v = x.X
					case *ssa.IndexAddr:
						v = x.X
					case *ssa.Field:
						v = x.X
					case *ssa.UnOp:
						if x.Op != token.MUL {
							return false
						}
						v = x.X
					default:
						return false
					}
				}
				return false
			}
			for _, b := range cl.Blocks {
				for _, in := range b.Instrs {
					switch x := in.(type) {
					case *ssa.Store:
						// a store whose address is (derived from) a captured variable
						if fromFree(x.Addr) && bad == "" {
							bad = "stores through a captured variable at " + w.Pos(x.Pos())
						}
					case *ssa.MapUpdate:
						if fromFree(x.Map) && bad == "" {
							bad = "updates a captured map at " + w.Pos(x.Pos())
						}
					case ssa.CallInstruction:
						o := calleeObj(x)
						if o == nil || o.Pkg() == nil || o.Pkg().Path() != "reflect" || recvName(o) != "Value" {
							continue
						}
						r := callRecv(x)
						if r == nil {
							if a := x.Common().Args; len(a) > 0 {
								r = a[0]
							}
						}
						if r == nil || !fromFree(r) {
							continue
						}
						if mutators[o.Name()] && bad == "" {
							bad = "calls reflect.Value." + o.Name() + " on a captured value at " + w.Pos(x.Pos())
						}
					}
				}
			}
			c.Check(fmt.Sprintf("%s#cached-closure-%d-stateless", fname(fn), k), cl.Pos(), bad == "", ifelse(bad == "", "captured values are only read", "a cached codec function "+bad+": the function is shared by every goroutine through the type cache, so concurrent encodes / decodes of this type corrupt each other"))
		}
	}
	if n == 0 {
		c.Undecided("rlp#cached-codec-closures", token.NoPos, "no closure-building writer / decoder constructors found in package rlp")
	}
}

func c14E8(c *Ctx, w *World) {
	mk := w.Fn("rlp", "", "makeOptionalPtrDecoder")
	c.sawFunc(fname(mk))
	kindObj := w.FuncObj("rlp", "Stream", "Kind")
	byteV, _ := constant.Int64Val(constant.ToInt(constOf(w, "rlp", "Byte")))
	n := 0
	for _, cl := range mk.AnonFuncs {
		kcalls := callsTo(cl, kindObj)
		if len(kcalls) == 0 {
			continue
		}
		var kindVal, errVal ssa.Value
		for _, r := range *kcalls[0].Value().Referrers() {
			if ex, ok := r.(*ssa.Extract); ok {
				switch ex.Index {
				case 0:
					kindVal = ex
				case 2:
					errVal = ex
				}
			}
		}
		if kindVal == nil {
			continue
		}
		// nil-setting sites: val.Set(reflect.Zero(..)) on the decoder's value parameter
		isNilSet := func(in ssa.Instruction) bool {
			ci, ok := in.(ssa.CallInstruction)
			if !ok {
				return false
			}
			o := calleeObj(ci)
			if o == nil || o.Name() != "Set" || recvName(o) != "Value" {
				return false
			}
			args := ci.Common().Args
			if len(args) < 2 {
				return false
			}
			return derivesFrom(args[len(args)-1], func(x ssa.Value) bool {
				cc, isC := x.(*ssa.Call)
				return isC && calleeObj(cc) != nil && calleeObj(cc).Name() == "Zero"
			})
		}
		nPaths, bad := 0, 0
		okEnum := enumPaths(cl, 4096, func(pr PathResult) {
			sets := false
			for b := range pr.Blocks {
				for _, in := range b.Instrs {
					if isNilSet(in) {
						sets = true
					}
				}
			}
			if !sets {
				return
			}
			atoms := atomsOf(pr.Facts)
			if contradictoryAtoms(atoms) {
				return
			}
			// paths on which Kind failed are not acceptances
			for _, a := range atoms {
				if a.Kind == "isnil" && !a.Truth && errVal != nil && stripConv(a.X) == errVal {
					return
				}
			}
			nPaths++
			tested := false
			for _, a := range atoms {
				if a.Kind != "eq" || !a.Truth || a.Y == nil {
					continue
				}
				other := ssa.Value(nil)
				if stripConv(a.X) == kindVal {
					other = a.Y
				} else if stripConv(a.Y) == kindVal {
					other = a.X
				}
				if other == nil {
					continue
				}
				if kv, isC := constInt(other); isC && kv == byteV {
					continue
				}
				tested = true
			}
			if !tested {
				bad++
			}
		})
		n++
		c.sites += nPaths
		if !okEnum {
			c.Undecided(fname(mk)+"#nil-only-for-the-canonical-empty-kind", cl.Pos(), "the decoder closure could not be enumerated")
			continue
		}
		c.Check(fname(mk)+"#nil-only-for-the-canonical-empty-kind", cl.Pos(), nPaths > 0 && bad == 0, ifelse(nPaths > 0 && bad == 0, fmt.Sprintf("all %d accepting paths that set the pointer to nil established kind == the encoder's nil kind", nPaths), fmt.Sprintf("%d of %d accepting paths set the pointer to nil for any empty value (string or list): two byte strings decode to the same object and only one of them is what the encoder writes", bad, nPaths)))
	}
	if n == 0 {
		c.Undecided(fname(mk)+"#nil-only-for-the-canonical-empty-kind", mk.Pos(), "the decoder closure calling (*Stream).Kind was not found")
	}
}

func c14E9(c *Ctx, w *World) {
	// fields tagged rlp:"nil" in the repository's own packages
	tagged := map[*types.Var]string{}
	for _, p := range w.Pkgs {
		if p.Types == nil {
			continue
		}
		sc := p.Types.Scope()
		for _, name := range sc.Names() {
			tn, ok := sc.Lookup(name).(*types.TypeName)
			if !ok {
				continue
			}
			st, ok := tn.Type().Underlying().(*types.Struct)
			if !ok {
				continue
			}
			for i := 0; i < st.NumFields(); i++ {
				for _, t := range strings.Split(reflect.StructTag(st.Tag(i)).Get("rlp"), ",") {
					if strings.TrimSpace(t) == "nil" {
						tagged[st.Field(i)] = tn.Name() + "." + st.Field(i).Name()
					}
				}
			}
		}
	}
	if len(tagged) == 0 {
		c.Undecided("rlp-nil-tagged-fields", token.NoPos, "no field tagged rlp:\"nil\" found (txdata.Recipient is expected)")
		return
	}
	// does g dereference its parameter #idx without a dominating nil test?
	derefsParam := func(g *ssa.Function, idx int) bool {
		if g == nil || g.Blocks == nil || idx >= len(g.Params) {
			return false
		}
		prm := g.Params[idx]
		for _, r := range *prm.Referrers() {
			if !isDeref(r, prm) {
				continue
			}
			nonNil := false
			for _, a := range atomsOf(factsAtInstr(r)) {
				if a.Kind == "isnil" && !a.Truth && stripConv(a.X) == ssa.Value(prm) {
					nonNil = true
				}
			}
			if !nonNil {
				return true
			}
		}
		return false
	}
	n := 0
	perFn := map[*ssa.Function]int{}
	for _, fn := range w.AllFuncs() {
		if fn.Blocks == nil || fn.Pkg == nil || !strings.HasPrefix(fn.Pkg.Pkg.Path(), modPath) || strings.HasSuffix(w.fileOf(fn.Pos()), "_test.go") {
			continue
		}
		for _, b := range fn.Blocks {
			for _, in := range b.Instrs {
				ld, ok := in.(*ssa.UnOp)
				if !ok || ld.Op != token.MUL {
					continue
				}
				fa, ok := ld.X.(*ssa.FieldAddr)
				if !ok {
					continue
				}
				name, isTagged := tagged[fieldOfAddr(fa)]
				if !isTagged {
					continue
				}
				// uses of the loaded pointer
				var uses []ssa.Instruction
				var walk func(v ssa.Value, depth int)
				walk = func(v ssa.Value, depth int) {
					if v.Referrers() == nil || depth > 3 {
						return
					}
					for _, r := range *v.Referrers() {
						if isDeref(r, v) {
							uses = append(uses, r)
							continue
						}
						switch x := r.(type) {
						case *ssa.Phi:
							walk(x, depth+1)
						case *ssa.ChangeType:
							walk(x, depth+1)
						case ssa.CallInstruction:
							if g := staticCallee(x); g != nil {
								for i, a := range x.Common().Args {
									if a == v && derefsParam(g, i) {
										uses = append(uses, r)
									}
								}
							}
						}
					}
				}
				walk(ld, 0)
				for _, u := range uses {
					n++
					perFn[fn]++
					c.sites++
					c.sawFunc(fname(fn))
					guarded := false
					for _, a := range atomsOf(factsAtInstr(u)) {
						if a.Kind == "isnil" && !a.Truth && (stripConv(a.X) == ssa.Value(ld) || samePath(stripConv(a.X), ld)) {
							guarded = true
						}
					}
					c.Check(fmt.Sprintf("%s#%s-dereferenced-after-nil-test-%d", fname(fn), name, perFn[fn]), u.Pos(), guarded, ifelse(guarded, "dominated by a nil test of the field", "the optional field "+name+" (nil after decoding an empty value) is dereferenced without a nil test: a peer can crash the node with a message whose field is empty"))
				}
			}
		}
	}
	if n == 0 {
		c.Undecided("rlp-nil-tagged-fields#dereferences", token.NoPos, "no dereference of an rlp:\"nil\" field found (Transaction.To is expected)")
	}
}

// isDeref: instruction r dereferences pointer v (load, field or element address, or use as a method receiver that is loaded).
func isDeref(r ssa.Instruction, v ssa.Value) bool {
	switch x := r.(type) {
	case *ssa.UnOp:
		return x.Op == token.MUL && x.X == v
	case *ssa.FieldAddr:
		return x.X == v
	case *ssa.IndexAddr:
		return x.X == v
	case *ssa.Store:
		return x.Addr == v
	}
	return false
}

func valueOf(in ssa.Instruction) ssa.Value {
	if v, ok := in.(ssa.Value); ok {
		return v
	}
	return nil
}

// convertsWholeReceiver: the encoder converts its whole receiver value into another struct type (carrier).
func convertsWholeReceiver(fn *ssa.Function) bool {
	for _, b := range fn.Blocks {
		for _, in := range b.Instrs {
			if ct, ok := in.(*ssa.ChangeType); ok {
				if _, isStruct := ct.X.Type().Underlying().(*types.Struct); !isStruct {
					continue // pointer conversions for method calls are not carriers
				}
				if u, ok := ct.X.(*ssa.UnOp); ok && sourceDerived(fn, u.X) {
					return true
				}
				if ct.X == ssa.Value(fn.Params[0]) {
					return true
				}
			}
		}
	}
	return false
}

// orderedAppendInLoop: appends inside the map loop to a field of a local
// struct that is later encoded (the escape analysis of orderSuspects follows
// values, not fields of local structs).
func orderedAppendInLoop(s mapRangeSite) []string {
	var out []string
	for b := range s.Loop {
		for _, in := range b.Instrs {
			st, ok := in.(*ssa.Store)
			if !ok {
				continue
			}
			cc, ok := st.Val.(*ssa.Call)
			if !ok {
				continue
			}
			if bi, ok := cc.Call.Value.(*ssa.Builtin); !ok || bi.Name() != "append" {
				continue
			}
			if fa, ok := st.Addr.(*ssa.FieldAddr); ok && isLocalAlloc(fa.X) {
				// is the local sorted afterwards?
				sorted := false
				for _, ci := range callInstrs(s.Fn) {
					if o := calleeObj(ci); o != nil && o.Pkg() != nil && o.Pkg().Path() == "sort" {
						sorted = true
					}
				}
				if !sorted {
					out = append(out, "appends map elements to a local list that is encoded unsorted")
				}
			}
		}
	}
	return out
}

func c14E5(c *Ctx, w *World) {
	kind := w.FuncObj("rlp", "Stream", "Kind")
	for _, fn := range w.FuncsIn("rlp") {
		f := w.fileOf(fn.Pos())
		if strings.HasSuffix(f, "_test.go") || !(strings.HasSuffix(f, "rlp/decode.go") || strings.HasSuffix(f, "rlp/raw.go")) {
			continue
		}
		for _, b := range fn.Blocks {
			for _, in := range b.Instrs {
				ms, ok := in.(*ssa.MakeSlice)
				if !ok {
					continue
				}
				// does the length derive from a Kind() result?
				var kc ssa.CallInstruction
				backward(ms.Len, func(v ssa.Value) bool {
					if cc, ok := v.(*ssa.Call); ok {
						if sameFunc(calleeObj(cc), kind) {
							kc = cc
						}
						return false
					}
					return true
				})
				if kc == nil {
					if _, isConst := ms.Len.(*ssa.Const); isConst {
						continue
					}
					// lengths not derived from decoded sizes (e.g. len of input) are not in scope
					if !derivesFrom(ms.Len, func(v ssa.Value) bool { f, _ := loadedField(v); return f != nil && f.Name() == "size" }) {
						continue
					}
					c.Fail(fname(fn)+"#alloc", ms.Pos(), "an allocation is sized by the stream's decoded size field without a Kind() check in this function")
					continue
				}
				c.sites++
				c.sawFunc(fname(fn))
				ok2 := gatedByErrNil(ms, kc)
				c.Check(fname(fn)+"#alloc-after-Kind", ms.Pos(), ok2, ifelse(ok2, "allocation dominated by Kind() == nil", "an allocation sized by attacker-controlled input happens before the size was validated by Kind(): a short message can demand gigabytes"))
			}
		}
	}
	// allocations sized by a decoded length are byte-for-byte: one input byte never buys more than one byte of memory
	list := w.FuncObj("rlp", "Stream", "List")
	decodedSize := func(v ssa.Value) bool {
		found := false
		backward(v, func(x ssa.Value) bool {
			if cc, ok := x.(*ssa.Call); ok {
				if sameFunc(calleeObj(cc), kind) || sameFunc(calleeObj(cc), list) {
					found = true
				}
				return false
			}
			if f, _ := loadedField(x); f != nil && f.Name() == "size" && fieldOwner(w, f) == "Stream" {
				found = true
				return false
			}
			return true
		})
		return found
	}
	nAlloc := 0
	for _, fn := range w.FuncsIn("rlp") {
		f := w.fileOf(fn.Pos())
		if strings.HasSuffix(f, "_test.go") || !(strings.HasSuffix(f, "rlp/decode.go") || strings.HasSuffix(f, "rlp/raw.go")) {
			continue
		}
		for _, b := range fn.Blocks {
			for _, in := range b.Instrs {
				switch x := in.(type) {
				case *ssa.MakeSlice:
					if !decodedSize(x.Len) && !decodedSize(x.Cap) {
						continue
					}
					nAlloc++
					c.sites++
					el := x.Type().Underlying().(*types.Slice).Elem()
					bt, isBasic := el.Underlying().(*types.Basic)
					byteSized := isBasic && (bt.Kind() == types.Uint8 || bt.Kind() == types.Int8 || bt.Kind() == types.Bool)
					c.Check(fname(fn)+"#decoded-size-alloc-is-bytes", x.Pos(), byteSized, ifelse(byteSized, "the allocation sized by a decoded length has one-byte elements", "an allocation of "+el.String()+" elements is sized by a length announced in the input: each announced byte buys a whole element of memory before a single element was decoded"))
				case ssa.CallInstruction:
					o := calleeObj(x)
					if o == nil || o.Pkg() == nil || o.Pkg().Path() != "reflect" {
						continue
					}
					switch o.Name() {
					case "MakeSlice", "MakeMapWithSize", "MakeChan", "ArrayOf":
					default:
						continue
					}
					nAlloc++
					c.sites++
					bad := false
					for _, a := range callArgs(x)[1:] {
						if decodedSize(a) {
							bad = true
						}
					}
					c.Check(fmt.Sprintf("%s#reflect.%s@%s-not-sized-by-input", fname(fn), o.Name(), siteOrdinal(fn, x, "")), x.Pos(), !bad, ifelse(!bad, "the reflective allocation is sized by constants / the slice's own capacity", "a reflective allocation is sized by a length announced in the input: a list header announcing N bytes allocates N elements (N × element size bytes) before any element was decoded and validated"))
				}
			}
		}
	}
	if nAlloc < 3 {
		c.Undecided("rlp#allocation-sites", 0, fmt.Sprintf("only %d allocation sites found in the decoder (expected the byte-string allocation and the reflective slice growth)", nAlloc))
	}
	// the stream's scratch buffers never leave it
	for _, bufName := range []string{"uintbuf"} {
		bufF := w.Field("rlp", "Stream", bufName)
		nUse, leaks := 0, 0
		var leakPos token.Pos
		for _, fn := range w.FuncsIn("rlp") {
			if strings.HasSuffix(w.fileOf(fn.Pos()), "_test.go") {
				continue
			}
			for _, b := range fn.Blocks {
				for _, in := range b.Instrs {
					u, ok := in.(*ssa.UnOp)
					if !ok || u.Op != token.MUL {
						continue
					}
					if f, _ := loadedField(u); f != bufF {
						continue
					}
					nUse++
					// forward: the loaded slice header and slices of it
					work := []ssa.Value{u}
					seen := map[ssa.Value]bool{}
					for len(work) > 0 {
						v := work[0]
						work = work[1:]
						if seen[v] {
							continue
						}
						seen[v] = true
						for _, r := range *v.Referrers() {
							switch y := r.(type) {
							case *ssa.Slice:
								work = append(work, y)
							case *ssa.Phi:
								work = append(work, y)
							case *ssa.ChangeType:
								work = append(work, y)
							case *ssa.MakeInterface:
								work = append(work, y)
							case *ssa.Return:
								leaks++
								leakPos = y.Pos()
							case *ssa.Store:
								if y.Val == v {
									if fa, isFA := y.Addr.(*ssa.FieldAddr); isFA && fieldOfAddr(fa) == bufF {
										continue
									}
									leaks++
									leakPos = y.Pos()
								}
							case *ssa.MapUpdate, *ssa.Send:
								leaks++
								leakPos = r.Pos()
							}
						}
					}
				}
			}
		}
		c.sites += nUse
		if nUse == 0 {
			c.Undecided("rlp.Stream."+bufName+"#confined", 0, "no use of the scratch buffer found")
			continue
		}
		c.Check("rlp.Stream."+bufName+"#confined", leakPos, leaks == 0, ifelse(leaks == 0, fmt.Sprintf("%d loads of the scratch buffer: it is indexed, passed to readers and converted to integers, never returned or stored", nUse), "a slice of the stream's scratch buffer is returned or stored: the decoded value aliases memory the stream overwrites when it reads the next header or integer, so the value changes after it was decoded"))
	}

	// Kind enforces the input limit
	kf := w.Fn("rlp", "Stream", "Kind")
	c.sawFunc(fname(kf))
	remaining := w.Field("rlp", "Stream", "remaining")
	enforces := false
	for _, fn := range append(withSmallHelpers(kf), w.Fn("rlp", "Stream", "readKind")) {
		for _, b := range fn.Blocks {
			for _, in := range b.Instrs {
				if bo, ok := in.(*ssa.BinOp); ok {
					fx, _ := loadedField(stripConv(bo.X))
					fy, _ := loadedField(stripConv(bo.Y))
					if fx == remaining || fy == remaining {
						// one branch returns ErrValueTooLarge
						for _, r := range *bo.Referrers() {
							if ifi, ok := r.(*ssa.If); ok {
								for _, s := range ifi.Block().Succs {
									if blockMentionsGlobal(s, "ErrValueTooLarge") {
										enforces = true
									}
								}
							}
						}
					}
				}
			}
		}
	}
	c.Check(fname(kf)+"#bounds-size-by-remaining-input", kf.Pos(), enforces, ifelse(enforces, "size > remaining input fails with ErrValueTooLarge", "Kind() no longer rejects sizes larger than the remaining input"))
	// unlimited streams outside rlp
	tabled := map[string]string{
		"consensus/ucon.ReadVoteData":    "bytes.Reader over a database value",
		"core/rawdb.ReadHeader":          "bytes.Reader over a database value",
		"core/rawdb.ReadBody":            "bytes.Reader over a database value",
		"core.decodePrealloc":            "strings.Reader over a compiled-in genesis allocation",
		"core.decodeValidatorPrealloc":   "strings.Reader over a compiled-in genesis allocation",
		"core/state.NewStateSync":        "bytes.Reader over a trie leaf",
		"(core/state.NodeIterator).step": "bytes.Reader over a trie leaf",
		"(core.txJournal).load":          "the node's own transaction journal file",
		"p2p/nat/check.decodePacket":     "bytes.Reader over a UDP datagram (bounded by the datagram size)",
		"p2p/discover.decodePacket":      "bytes.Reader over a UDP datagram (bounded by the datagram size)",
		"(p2p.rlpx).doProtoHandshake":    "",
		"p2p.readProtocolHandshake":      "Payload is a bytes.Reader over a size-checked frame",
		"(p2p.rlpxFrameRW).ReadMsg":      "bytes.Reader over a size-checked frame",
		"(p2p.handshakeMsgDecoder)":      "",
		"(p2p.Peer).handle":              "Payload is a bytes.Reader over a size-checked frame",
		"(p2p.rlpx).close":               "",
		"p2p.readHandshakeMsg":           "bytes.Reader over a handshake packet whose size prefix was checked",
		"(p2p/enr.Record).DecodeRLP":     "bytes.Reader over a record whose raw size was checked against SizeLimit",
		"p2p/enr.decodeRecord":           "bytes.Reader over a record whose raw size was checked against SizeLimit",
	}
	newStream := w.FuncObj("rlp", "", "NewStream")
	decode := w.FuncObj("rlp", "", "Decode")
	for _, fn := range w.AllFuncs() {
		if fn.Pkg == nil || fn.Pkg.Pkg.Path() == full("rlp") || strings.HasSuffix(w.fileOf(fn.Pos()), "_test.go") {
			continue
		}
		for _, ci := range callsToAny(fn, newStream, decode) {
			a := callArgs(ci)
			if sameFunc(calleeObj(ci), newStream) {
				if n, ok := constInt(a[1]); !ok || n != 0 {
					continue // limited by the caller
				}
			}
			c.sites++
			// reader created from bytes / strings in this function?
			rd := stripConv(a[0])
			local := false
			if cc, ok := rd.(*ssa.Call); ok {
				if o := calleeObj(cc); o != nil && o.Name() == "NewReader" && o.Pkg() != nil && (o.Pkg().Path() == "bytes" || o.Pkg().Path() == "strings") {
					local = true
				}
			}
			name := outerName(fname(fn))
			if local {
				c.Pass(name+"#unlimited-stream", ci.Pos(), "reads from a bytes/strings reader created here: the stream limits itself to its length")
				continue
			}
			r, ok := tabled[name]
			c.Check(name+"#unlimited-stream", ci.Pos(), ok, ifelse(ok, "tabled: "+r, "a new site decodes RLP from a reader without an input limit: size fields in hostile input are not bounded by the message size"))
		}
	}
}

func blockMentionsGlobal(b *ssa.BasicBlock, name string) bool {
	for _, in := range b.Instrs {
		for _, op := range in.Operands(nil) {
			if op != nil && *op != nil {
				if g, ok := (*op).(*ssa.Global); ok && g.Name() == name {
					return true
				}
			}
		}
	}
	return false
}

func c14Variants() []Variant {
	return []Variant{
		{Name: "swap-offline-fields", File: "core/state/validator.go", Old: "	v.offlineStake = data.OfflineStake\n	v.offlineToken = data.OfflineToken\n", New: "	v.offlineStake = data.OfflineToken\n	v.offlineToken = data.OfflineStake\n", Rule: "C14.E1", Construct: "ValKindStat"},
		{Name: "forget-last-inactive", File: "core/state/validator.go", Old: "	v.LastInactive = r.LastInactive\n", New: "", Rule: "C14.E2", Construct: "Validator"},
		{Name: "map-order-encoding", File: "staking/evidence.go", Old: "	sort.Slice(hashes, func(i, j int) bool { return bytes.Compare(hashes[i][:], hashes[j][:]) < 0 })\n", New: "	_ = sort.Slice\n	_ = bytes.Compare\n", Rule: "C14.E3", Construct: "EvidenceDoubleSign"},
		{Name: "alloc-before-kind", File: "rlp/decode.go", Old: "func (s *Stream) Bytes() ([]byte, error) {\n	kind, size, err := s.Kind()\n	if err != nil {\n		return nil, err\n	}", New: "func (s *Stream) Bytes() ([]byte, error) {\n	kind, size, err := s.Kind()\n	pre := make([]byte, size)\n	_ = pre\n	if err != nil {\n		return nil, err\n	}", Rule: "C14.E5", Construct: "Bytes"},
		{Name: "stat-maps-not-made", File: "core/state/validator.go", Old: "	if m.Kinds == nil {\n		m.Kinds = make(map[params.ValidatorKind]*ValKindStat)\n	}\n", New: "", Rule: "C14.E14", Construct: "ValidatorsStat"},
	}
}

// canonEvidence: the path conditions establish that the bytes read from the
// stream are empty or start with a non-zero byte. A condition moved into a
// small boolean helper counts when every way the helper has of giving the
// observed answer establishes it too.
func canonEvidence(atoms []Atom, fromSrc func(ssa.Value) bool, depth int) bool {
	okPath := false
	for _, a := range atoms {
		switch a.Kind {
		case "eq":
			// b[0] == 0 decided false (or != 0 decided true)
			if a.Y == nil || a.Truth {
				continue
			}
			for _, pair := range [][2]ssa.Value{{a.X, a.Y}, {a.Y, a.X}} {
				if n, isC := constInt(pair[1]); isC && n == 0 {
					if ld, isLd := stripConv(pair[0]).(*ssa.UnOp); isLd && ld.Op == token.MUL {
						if ia, isIA := ld.X.(*ssa.IndexAddr); isIA && fromSrc(ia.X) {
							if k, isK := constInt(ia.Index); isK && k == 0 {
								okPath = true
							}
						}
					}
				}
			}
		case "cmp":
			// len(b) > 0 decided false: no bytes
			if cc, isCall := stripConv(a.X).(*ssa.Call); isCall {
				if bi, isB := cc.Call.Value.(*ssa.Builtin); isB && bi.Name() == "len" && fromSrc(cc.Call.Args[0]) {
					if n, isC := constInt(a.Y); isC && ((a.Op == token.GTR && n == 0 && !a.Truth) || (a.Op == token.GEQ && n == 1 && !a.Truth) || (a.Op == token.LSS && n == 1 && a.Truth) || (a.Op == token.LEQ && n == 0 && a.Truth)) {
						okPath = true
					}
				}
			}
		}
	}
	if okPath || depth > 1 {
		return okPath
	}
	for _, a := range atoms {
		if a.Kind != "true" {
			continue
		}
		call, ok := stripConv(a.X).(*ssa.Call)
		if !ok {
			continue
		}
		g := call.Call.StaticCallee()
		if !isSmallHelper(g) || g.Signature.Results().Len() != 1 || !isBoolType(g.Signature.Results().At(0).Type()) {
			continue
		}
		uses := false
		for _, arg := range call.Call.Args {
			if fromSrc(arg) {
				uses = true
			}
		}
		if !uses {
			continue
		}
		enterHelper(call)
		inHelper := func(v ssa.Value) bool {
			return derivesFrom(v, func(x ssa.Value) bool {
				p, isP := x.(*ssa.Parameter)
				if !isP || p.Parent() != g {
					return false
				}
				if b, has := paramBind[p]; has {
					return fromSrc(b)
				}
				return false
			})
		}
		nWays, bad := 0, 0
		okEnum := enumPaths(g, 256, func(pr PathResult) {
			rv := pr.Resolve(pr.Ret.Results[0])
			facts := pr.Facts
			if cv, isC := rv.(*ssa.Const); isC && cv.Value != nil && cv.Value.Kind() == constant.Bool {
				if constant.BoolVal(cv.Value) != a.Truth {
					return
				}
			} else {
				facts = append(append([]Fact(nil), facts...), Fact{Cond: rv, Truth: a.Truth})
			}
			nWays++
			if !canonEvidence(atomsOf(facts), inHelper, depth+1) {
				bad++
			}
		})
		if okEnum && nWays > 0 && bad == 0 {
			return true
		}
	}
	return false
}

// c14IndexGate (E12): an index decoded from a message reaches the validator list only through a bounds test.
func c14IndexGate(c *Ctx, w *World) {
	c.Rule("C14.E12", "GATE", "hostile bytes are rejected, not crashed on: Validators.GetByIndex is the only guard between an index decoded from the wire (SingleVote.VoterIdx in votes and header vote containers, EvidenceDoubleSignV5.SignerIdx in Header.SlashData) and the look-back validator slice — every element access with the caller's index is reached only on paths that established 0 <= index and index < len(list) (len of that slice, or a Len() method returning it). With `index > Len()` a container naming index == number of validators panics every node that decodes it")
	c.Min(1)
	fn := w.Fn(statePkg, "Validators", "GetByIndex")
	c.sawFunc(fname(fn))
	isLenOf := func(v ssa.Value) bool {
		v = stripConvNoBind(v)
		cc, ok := v.(*ssa.Call)
		if !ok {
			return false
		}
		if b, isB := cc.Call.Value.(*ssa.Builtin); isB && b.Name() == "len" {
			return true
		}
		if g := cc.Call.StaticCallee(); g != nil && g.Name() == "Len" && len(g.Blocks) == 1 {
			// Len() { return len(field) }
			if ret, isRet := g.Blocks[0].Instrs[len(g.Blocks[0].Instrs)-1].(*ssa.Return); isRet && len(ret.Results) == 1 {
				if lc, isC := ret.Results[0].(*ssa.Call); isC {
					if b, isB := lc.Call.Value.(*ssa.Builtin); isB && b.Name() == "len" {
						return true
					}
				}
			}
		}
		return false
	}
	n := 0
	for _, in := range allInstrs(fn) {
		ia, ok := in.(*ssa.IndexAddr)
		if !ok {
			continue
		}
		idx := stripConvNoBind(ia.Index)
		if _, isP := idx.(*ssa.Parameter); !isP {
			continue
		}
		n++
		c.sites++
		upper, lower := false, false
		for _, a := range atomsOf(factsAt(ia.Block())) {
			if a.Kind != "cmp" {
				continue
			}
			x, y := stripConvNoBind(a.X), stripConvNoBind(a.Y)
			op := a.Op
			if !a.Truth {
				op = map[token.Token]token.Token{token.LSS: token.GEQ, token.GEQ: token.LSS, token.GTR: token.LEQ, token.LEQ: token.GTR}[op]
			}
			if x == idx && isLenOf(y) && op == token.LSS {
				upper = true
			}
			if y == idx && isLenOf(x) && op == token.GTR {
				upper = true
			}
			if k, isK := constInt(y); isK && x == idx && ((op == token.GEQ && k == 0) || (op == token.GTR && k == -1)) {
				lower = true
			}
			if k, isK := constInt(x); isK && y == idx && ((op == token.LEQ && k == 0) || (op == token.LSS && k == -1)) {
				lower = true
			}
		}
		ok2 := upper && lower
		c.Check(fmt.Sprintf("%s#element-access-%d-within-bounds", fname(fn), n), ia.Pos(), ok2, ifelse(ok2, "the access is reached only with 0 <= index < len", fmt.Sprintf("the element access is reachable without both bounds established (index >= 0: %v, index < len: %v): an index equal to the number of validators, decoded from a vote container or an evidence, panics instead of being rejected", lower, upper)))
	}
	if n == 0 {
		c.Undecided(fname(fn)+"#element-access", fn.Pos(), "no element access with the caller's index found in GetByIndex")
	}
}

// c14DecodeForms: E13 (a flag carried as an integer has two encodings only) and E14 (a decoder does not rely on a
// pre-built receiver).
func c14DecodeForms(c *Ctx, w *World) {
	var decoders []*ssa.Function
	for _, rel := range []string{statePkg, "staking", "consensus/ucon", "core/types"} {
		for _, fn := range w.FuncsIn(rel) {
			if fn.Blocks != nil && fn.Name() == "DecodeRLP" && fn.Signature.Recv() != nil && !strings.HasSuffix(w.fileOf(fn.Pos()), "_test.go") {
				decoders = append(decoders, fn)
			}
		}
	}
	sort.Slice(decoders, func(i, j int) bool { return fname(decoders[i]) < fname(decoders[j]) })

	c.Rule("C14.E13", "GATE", "accepted bytes re-encode to exactly those bytes: where a DecodeRLP method turns an integer of the decoded form into a boolean by comparing it with 1 (the encoder writes 0 or 1), the same integer is also range-checked — some ordering comparison of it with a constant guards an error return — so that the other 254 values are rejected instead of all decoding to false and re-encoding as 0")
	c.Min(1)
	nFlags := 0
	for _, fn := range decoders {
		k := 0
		for _, in := range allInstrs(fn) {
			bo, ok := in.(*ssa.BinOp)
			if !ok || bo.Op != token.EQL {
				continue
			}
			var carrier ssa.Value
			if n, isK := constInt(bo.Y); isK && n == 1 {
				carrier = bo.X
			} else if n, isK := constInt(bo.X); isK && n == 1 {
				carrier = bo.Y
			}
			if carrier == nil {
				continue
			}
			f, _ := loadedField(stripConvNoBind(carrier))
			if f == nil {
				continue
			}
			if b, isB := f.Type().Underlying().(*types.Basic); !isB || b.Info()&types.IsInteger == 0 {
				continue
			}
			// the comparison's result becomes a boolean field of the receiver: the receiver has a bool field of
			// the carrier's name (the decoded form mirrors the type), or the result is stored into a bool field
			becomesFlag := false
			if rst, isSt := deref(fn.Signature.Recv().Type()).Underlying().(*types.Struct); isSt {
				for fi := 0; fi < rst.NumFields(); fi++ {
					if rst.Field(fi).Name() == f.Name() && isBoolType(rst.Field(fi).Type()) {
						becomesFlag = true
					}
				}
			}
			for _, r := range *bo.Referrers() {
				if st, isSt := r.(*ssa.Store); isSt {
					if fa, isFA := st.Addr.(*ssa.FieldAddr); isFA {
						if tf := fieldOfAddr(fa); tf != nil && isBoolType(tf.Type()) {
							becomesFlag = true
						}
					}
				}
				// if carrier == 1 { recv.flag = true }
				if iff, isIf := r.(*ssa.If); isIf {
					for _, sc := range iff.Block().Succs {
						for _, sin := range sc.Instrs {
							if st, isSt := sin.(*ssa.Store); isSt {
								if fa, isFA := st.Addr.(*ssa.FieldAddr); isFA {
									if tf := fieldOfAddr(fa); tf != nil && isBoolType(tf.Type()) {
										if _, isK := st.Val.(*ssa.Const); isK {
											becomesFlag = true
										}
									}
								}
							}
						}
					}
				}
			}
			if !becomesFlag {
				continue
			}
			nFlags++
			c.sites++
			c.sawFunc(fname(fn))
			checked := false
			// a switch over the carrier with a case for 0, a case for 1 and a default is a range check too
			eqConsts := map[int64]bool{}
			for _, in2 := range allInstrs(fn) {
				if b2, ok := in2.(*ssa.BinOp); ok && b2.Op == token.EQL {
					for _, pair := range [][2]ssa.Value{{b2.X, b2.Y}, {b2.Y, b2.X}} {
						if f2, _ := loadedField(stripConvNoBind(pair[0])); f2 == f {
							if k2, isK := constInt(pair[1]); isK {
								eqConsts[k2] = true
							}
						}
					}
				}
			}
			if eqConsts[0] && eqConsts[1] {
				checked = true
			}
			for _, in2 := range allInstrs(fn) {
				b2, ok := in2.(*ssa.BinOp)
				if !ok || !(b2.Op == token.GTR || b2.Op == token.GEQ || b2.Op == token.LSS || b2.Op == token.LEQ) {
					continue
				}
				for _, side := range []ssa.Value{b2.X, b2.Y} {
					if f2, _ := loadedField(stripConvNoBind(side)); f2 == f {
						checked = true
					}
				}
			}
			c.Check(fmt.Sprintf("%s#flag-%d-%s-has-two-encodings", fname(fn), k, f.Name()), bo.Pos(), checked, ifelse(checked, "the carrier is range-checked", "the integer "+f.Name()+" of the decoded form becomes a boolean by `== 1` and is not range-checked: every value 2…255 is accepted, decodes to false and re-encodes as 0 — 254 byte strings for one object"))
			k++
		}
	}
	if nFlags == 0 {
		c.Undecided("DecodeRLP#integer-carried-flags", token.NoPos, "no DecodeRLP method that turns an integer into a boolean found (Validator.DecodeRLP is expected)")
	}

	c.Rule("C14.E14", "GATE", "decoding an encoding yields an equal value whoever allocated the receiver: a DecodeRLP method that writes into a map field of its receiver has made or nil-tested that map in the same method — the rlp package allocates zero-value receivers itself (pointers inside lists and structs), and an assignment to an entry of a nil map panics")
	c.Min(2)
	nMaps := 0
	for _, fn := range decoders {
		recv := fn.Params[0]
		seenField := map[string]bool{}
		for _, in := range allInstrs(fn) {
			mu, ok := in.(*ssa.MapUpdate)
			if !ok {
				continue
			}
			f, base := loadedField(stripConvNoBind(mu.Map))
			if f == nil || base == nil || stripConvNoBind(base) != ssa.Value(recv) || seenField[f.Name()] {
				continue
			}
			seenField[f.Name()] = true
			nMaps++
			c.sites++
			c.sawFunc(fname(fn))
			prepared := false
			scopeInstrs := allInstrs(fn)
			for _, ci := range callInstrs(fn) {
				if g := ci.Common().StaticCallee(); g != nil && g.Pkg == fn.Pkg && g.Blocks != nil && g != fn && instrDominates(ci.(ssa.Instruction), mu) {
					scopeInstrs = append(scopeInstrs, allInstrs(g)...) // a helper that prepares the receiver, called before the write
				}
			}
			for _, in2 := range scopeInstrs {
				switch x := in2.(type) {
				case *ssa.Store:
					if fa, isFA := x.Addr.(*ssa.FieldAddr); isFA && fieldOfAddr(fa) == f {
						if _, isMk := stripConvNoBind(x.Val).(*ssa.MakeMap); isMk {
							prepared = true
						}
					}
				case *ssa.BinOp:
					if x.Op == token.EQL || x.Op == token.NEQ {
						for _, pair := range [][2]ssa.Value{{x.X, x.Y}, {x.Y, x.X}} {
							if f2, _ := loadedField(stripConvNoBind(pair[0])); f2 == f && isNilConst(pair[1]) {
								prepared = true
							}
						}
					}
				}
			}
			c.Check(fmt.Sprintf("%s#map-%s-made-before-written", fname(fn), f.Name()), mu.Pos(), prepared, ifelse(prepared, "the map is made (or nil-tested) in the decoder", "the decoder assigns into the receiver's map "+f.Name()+" without making it: decoding into a zero value (as the rlp package allocates them) panics with \"assignment to entry in nil map\""))
		}
	}
	if nMaps == 0 {
		c.Undecided("DecodeRLP#receiver-maps", token.NoPos, "no DecodeRLP method writing into a map of its receiver found (ValidatorsStat.DecodeRLP is expected)")
	}
}

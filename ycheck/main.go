// ycheck decides structural necessary conditions of the properties in
// /verif/properties.jsonl by static analysis of /repo's current source.
// Nothing from /repo is executed.
package main

import (
	"encoding/json"
	"flag"
	"fmt"
	"os"
	"runtime/debug"
	"sort"
	"strconv"
	"time"
)

type propDef struct {
	ID          string
	Explanation string
	Assumptions []string
	Run         func(c *Ctx)
	// Thorough runs additional whole-program rules (optional).
	Thorough func(c *Ctx)
	Variants func() []Variant
}

var props = map[string]*propDef{}

func register(p *propDef) { props[p.ID] = p }

func main() {
	prop := flag.String("property", "", "property id (C01..C20) or 'all'")
	tier := flag.String("tier", "quick", "quick or thorough")
	repo := flag.String("repo", "/repo", "repository root")
	verif := flag.String("verif", "/verif", "verif root (evidence, known findings)")
	replay := flag.String("replay", "", "re-evaluate the obligations of a violations file")
	inv := flag.String("inventory", "", "print an inventory (development aid)")
	evd := flag.String("evidence-dir", "", "write evidence and violation files here instead of <verif>/evidence (development aid)")
	snapSymbols := flag.String("snapshot-symbols", "", "write the symbol record used by the rename normalisation to this file and exit (development aid; commit it as ycheck/symbols.json)")
	snapAnchors := flag.String("snapshot-anchors", "", "after the run, write the fingerprints of all resolved anchors to this file (development aid; commit it as ycheck/anchors.json)")
	flag.Parse()
	evidenceOverride = *evd

	if t := os.Getenv("VERIF_TIER"); t == "quick" || t == "thorough" {
		*tier = t
	}
	seed := 0
	if s := os.Getenv("VERIF_SEED"); s != "" {
		if n, err := strconv.Atoi(s); err == nil {
			seed = n
		}
	}
	if *replay != "" {
		b, err := os.ReadFile(*replay)
		if err != nil {
			fmt.Println("cannot read replay file:", err)
			os.Exit(2)
		}
		var r struct {
			Property   string        `json:"property"`
			Tier       string        `json:"tier"`
			Violations []*Obligation `json:"violations"`
		}
		if err := json.Unmarshal(b, &r); err != nil {
			fmt.Println("bad replay file:", err)
			os.Exit(2)
		}
		*prop = r.Property
		if r.Tier != "" {
			*tier = r.Tier
		}
		fmt.Printf("replaying %d obligations of %s\n", len(r.Violations), r.Property)
	}
	if *inv != "" {
		w, err := loadWorld(*repo, nil, "")
		if err != nil {
			fmt.Println(err)
			os.Exit(2)
		}
		runInventory(w, *inv)
		return
	}
	var ids []string
	if *prop == "all" {
		for id := range props {
			ids = append(ids, id)
		}
		sort.Strings(ids)
	} else if props[*prop] != nil {
		ids = []string{*prop}
	} else {
		fmt.Printf("unknown property %q\n", *prop)
		os.Exit(2)
	}
	if *snapSymbols != "" {
		w, err := loadWorld(*repo, nil, "")
		if err != nil {
			fmt.Println(err)
			os.Exit(2)
		}
		writeSymbolSnapshot(w, *snapSymbols)
		return
	}
	t0 := time.Now()
	w, err := loadWorldNormalized(*repo, nil, "")
	if err != nil {
		fmt.Printf("UNDECIDED: %v\n", err)
		os.Exit(2)
	}
	loadS := time.Since(t0).Seconds()
	exit := 0
	for _, id := range ids {
		t1 := time.Now()
		code := runProperty(w, props[id], *tier, *verif, seed, loadS, t1)
		if code > exit {
			if code == 1 || exit != 1 {
				exit = code
			}
		}
		if code == 1 {
			exit = 1
		}
	}
	if *snapAnchors != "" {
		b, _ := json.MarshalIndent(anchorRecord, "", " ")
		os.WriteFile(*snapAnchors, append(b, '\n'), 0o644)
		fmt.Printf("wrote %d anchor fingerprints to %s\n", len(anchorRecord), *snapAnchors)
	}
	os.Exit(exit)
}

// runRules evaluates a property's rules on a world, converting unresolved
// anchors and checker panics into undecided obligations.
func runRules(w *World, p *propDef, tier string) *Ctx {
	c := &Ctx{W: w, Prop: p.ID, Tier: tier}
	func() {
		defer func() {
			if r := recover(); r != nil {
				if u, ok := r.(undecidedErr); ok {
					c.add("anchor", 0, Undecided, u.msg)
					return
				}
				c.add("checker-panic", 0, Undecided, fmt.Sprintf("checker panicked: %v\n%s", r, debug.Stack()))
			}
		}()
		p.Run(c)
		if tier == "thorough" && p.Thorough != nil {
			p.Thorough(c)
		}
	}()
	return c
}

func runProperty(w *World, p *propDef, tier, verif string, seed int, loadS float64, t1 time.Time) int {
	c := runRules(w, p, tier)
	if tier == "thorough" && p.Variants != nil {
		runSelfTest(c, p, verif)
		runNeutralTest(c, p, verif)
	}
	wall := loadS + time.Since(t1).Seconds()
	return c.finish(verif, seed, wall, p.Explanation, p.Assumptions)
}

package main

import (
	"fmt"
	"go/token"
	"go/types"
	"strings"

	"golang.org/x/tools/go/ssa"
)

// C20 — the transaction pool's views stay consistent.

func init() {
	register(&propDef{
		ID:          "C20",
		Explanation: "Structural necessary conditions of pool consistency, decided on the SSA form of package core: a must-hold lock-set dataflow shows that every access to the pool's guarded indexes happens with TxPool.mu held, and no exported method or goroutine entry reaches guarded state unlocked; txLookup is self-locking (L1); every insertion into the hash index is paired with the price index, every removal from the hash index is followed by the price-index bookkeeping, and transactions taken out of an account list are removed from the hash index or re-queued (L2); insertion into the pool is dominated by a successful validateTx (L3); the block builder's source of transactions is Pending() (L4). Not decided: the nonce-gap and affordability invariants as data, races outside the pool's lock.",
		Assumptions: []string{"closures passed as arguments run synchronously at the call", "fields tabled as immutable after construction are not reassigned (checked: no store outside NewTxPool)"},
		Run:         runC20,
		Variants:    c20Variants,
	})
}

func runC20(c *Ctx) {
	w := c.W
	// ------------------------------------------------------------ L1
	c.Rule("C20.L1", "GUARDED-BY", "TxPool.{pending, queue, beats, priced, pendingNonces, currentState, currentMaxGas, locals, gasPrice} are accessed only with TxPool.mu held: a function that touches them unlocked is a helper all of whose callers hold the lock; exported methods and goroutine entries that need the lock on entry are violations. txLookup.all is accessed only under txLookup.lock")
	c.Min(20)
	guarded := map[string]bool{}
	for _, f := range []string{"pending", "queue", "beats", "priced", "pendingNonces", "currentState", "currentMaxGas", "locals", "gasPrice"} {
		guarded[f] = true
	}
	runGuardedBy(c, GuardSpec{Pkg: "core", Type: "TxPool", Mutex: "mu", Guarded: guarded,
		Exempt: map[string]string{}})
	runGuardedBy(c, GuardSpec{Pkg: "core", Type: "txLookup", Mutex: "lock", Guarded: map[string]bool{"all": true}, Exempt: map[string]string{}})
	// the nonce tracker: its table under its own lock; its fallback state database only under the WRITE lock,
	// because StateDB getters load objects into the database's maps
	runGuardedBy(c, GuardSpec{Pkg: "core", Type: "txNoncer", Mutex: "lock", Guarded: map[string]bool{"nonces": true}, Exempt: map[string]string{}})
	runGuardedBy(c, GuardSpec{Pkg: "core", Type: "txNoncer", Mutex: "lock", Guarded: map[string]bool{"fallback": true}, Exempt: map[string]string{}, Exclusive: true})
	// immutable-after-construction fields: no store outside the constructor
	immut := map[string]bool{"config": true, "chain": true, "signer": true, "all": true, "journal": true, "router": true, "globalGasPrice": true}
	txp := w.Struct("core", "TxPool")
	for _, fn := range w.FuncsIn("core") {
		if strings.HasSuffix(w.fileOf(fn.Pos()), "_test.go") {
			continue
		}
		for _, fw := range fieldWrites(fn) {
			if fw.Kind != "store" || !ownerOfField(txp, fw.Field) || !immut[fw.Field.Name()] || isLocalAlloc(fw.Base) {
				continue
			}
			name := outerName(fname(fn))
			ok := name == "core.NewTxPool" || name == "(core.TxPool).SetRouter"
			// a store under the pool lock is fine too
			c.Check(name+"#assigns-"+fw.Field.Name(), fw.Instr.Pos(), ok, ifelse(ok, "set during construction/wiring only", "TxPool."+fw.Field.Name()+" is tabled as immutable after construction (read without the lock) but is reassigned here"))
		}
	}

	// ------------------------------------------------------------ L2
	c.Rule("C20.L2", "ALWAYS-WITH", "every all.Add(tx) is paired with priced.Put(tx) of the same transaction; every function that calls all.Remove also calls priced.Removed on every path after it (the count is reported once after the loop), except removeTx under !outofbound whose caller has already dropped the price entry; transactions returned by Forward/Filter/Cap/Ready of an account list are all handed to all.Remove or enqueueTx/promoteTx")
	c.Min(6)
	allAdd := w.FuncObj("core", "txLookup", "Add")
	allRemove := w.FuncObj("core", "txLookup", "Remove")
	pricedPut := w.FuncObj("core", "txPricedList", "Put")
	pricedRemoved := w.FuncObj("core", "txPricedList", "Removed")
	for _, fn := range w.FuncsIn("core") {
		if strings.HasSuffix(w.fileOf(fn.Pos()), "_test.go") {
			continue
		}
		puts := callsTo(fn, pricedPut)
		for i, ci := range callsTo(fn, allAdd) {
			c.sites++
			c.sawFunc(fname(fn))
			ok := false
			for _, p := range puts {
				if samePath(callArgs(p)[0], callArgs(ci)[0]) && alwaysWith(ci, []ssa.Instruction{p}) {
					ok = true
				}
			}
			c.Check(fmt.Sprintf("%s#all.Add-%d", fname(fn), i), ci.Pos(), ok, ifelse(ok, "paired with priced.Put of the same transaction", "a transaction enters the hash index without entering the price index: eviction by price never sees it and the pool's size accounting drifts"))
		}
		removed := callsAsInstrs(callsTo(fn, pricedRemoved))
		for i, ci := range callsTo(fn, allRemove) {
			c.sites++
			c.sawFunc(fname(fn))
			ok := mustPassAfter(ci, removed)
			why := ""
			if !ok && outerName(fname(fn)) == "(core.TxPool).removeTx" {
				// tabled: `if outofbound { pool.priced.Removed(1) }`
				for _, r := range removed {
					for _, a := range atomsOf(factsAtInstr(r)) {
						if p, isP := stripConv(a.X).(*ssa.Parameter); isP && a.Kind == "true" && a.Truth && p.Name() == "outofbound" {
							ok = true
							why = "tabled: removeTx(hash, outofbound=false) is only called by the price-limit eviction, which has already dropped the entry from the price heap"
						}
					}
				}
			}
			c.Check(fmt.Sprintf("%s#all.Remove-%d", fname(fn), i), ci.Pos(), ok, ifelse(ok, ifelse(why != "", why, "followed by priced.Removed on every path"), "a transaction leaves the hash index without the price index being told: stale entries accumulate in the price heap"))
		}
	}
	// removeTx(…, false) callers
	rt := w.FuncObj("core", "TxPool", "removeTx")
	for _, fn := range w.FuncsIn("core") {
		if strings.HasSuffix(w.fileOf(fn.Pos()), "_test.go") {
			continue
		}
		for _, ci := range callsTo(fn, rt) {
			a := callArgs(ci)
			if cv, ok := stripConv(a[1]).(*ssa.Const); ok && cv.Value != nil && cv.Value.String() == "false" {
				// the hash removed must come from priced.Discard
				ok := derivesFrom(a[0], func(v ssa.Value) bool {
					cc, isC := v.(*ssa.Call)
					return isC && calleeObj(cc) != nil && recvName(calleeObj(cc)) == "txPricedList" && (calleeObj(cc).Name() == "Discard" || calleeObj(cc).Name() == "Cap")
				})
				c.Check(outerName(fname(fn))+"#removeTx-without-price-update", ci.Pos(), ok, ifelse(ok, "the transaction was popped from the price heap by Discard/Cap", "removeTx is told to skip the price-index bookkeeping for a transaction that is still in the price heap"))
			}
		}
	}
	// transactions taken out of a list are disposed of
	c20Dropped(c, w, allRemove)

	// ------------------------------------------------------------ L5
	c.Rule("C20.L5", "ALWAYS-WITH", "txSortedMap keeps a cached sorted view of its items: every write to items (insert, overwrite, delete) is accompanied by a write of cache — before it on every path, or after it on every path except where cache is nil or nothing was removed — so Pending()/Flatten() never hand out a transaction the list no longer holds")
	c.Min(6)
	itemsF := w.Field("core", "txSortedMap", "items")
	cacheF := w.Field("core", "txSortedMap", "cache")
	for _, fn := range w.FuncsIn("core") {
		if strings.HasSuffix(w.fileOf(fn.Pos()), "_test.go") || fn.Signature.Recv() == nil || !strings.Contains(fn.Signature.Recv().Type().String(), "txSortedMap") {
			continue
		}
		var cacheStores []ssa.Instruction
		for _, fw := range fieldWrites(fn) {
			if fw.Field == cacheF && fw.Kind == "store" {
				cacheStores = append(cacheStores, fw.Instr)
			}
		}
		n := 0
		for _, fw := range fieldWrites(fn) {
			if fw.Field != itemsF || isLocalAlloc(fw.Base) || fw.Kind == "store" {
				continue
			}
			c.sites++
			c.sawFunc(fname(fn))
			ok := mustPassBefore(fw.Instr, cacheStores)
			if !ok {
				cs := map[*ssa.BasicBlock]bool{}
				for _, s := range cacheStores {
					cs[s.Block()] = true
				}
				wb := fw.Instr.Block()
				ok = true
				for _, b := range fn.Blocks {
					if _, isRet := b.Instrs[len(b.Instrs)-1].(*ssa.Return); !isRet || b == fn.Recover || !blockReaches(wb, b) {
						continue
					}
					if cs[wb] && mustPassAfter(fw.Instr, cacheStores) {
						continue
					}
					if b == wb {
						ok = false // returns right after the write without touching the cache
						continue
					}
					if cs[b] {
						continue // the returning block itself resets the cache
					}
					good := allPathsBetween(wb, b, func(x *ssa.BasicBlock) bool { return cs[x] }, func(from, to *ssa.BasicBlock) bool {
						f, isIf := edgeFact(from, to)
						if !isIf {
							return false
						}
						a := atomsOf([]Fact{f})[0]
						// cache == nil: nothing to maintain
						if a.Kind == "isnil" && a.Truth {
							if lf, _ := loadedField(stripConv(a.X)); lf == cacheF {
								return true
							}
						}
						// len(removed) > 0 is false although this write appended to removed: infeasible
						if a.Kind == "cmp" {
							op := a.Op
							if !a.Truth {
								op = negateCmp(op)
							}
							if lc, isCall := stripConv(a.X).(*ssa.Call); isCall && op == token.LEQ {
								if bi, isB := lc.Call.Value.(*ssa.Builtin); isB && bi.Name() == "len" {
									for _, in := range wb.Instrs {
										if ap, isAp := in.(*ssa.Call); isAp {
											if b2, isB2 := ap.Call.Value.(*ssa.Builtin); isB2 && b2.Name() == "append" && derivesFrom(lc.Call.Args[0], func(v ssa.Value) bool { return v == ssa.Value(ap) }) {
												return true
											}
										}
									}
								}
							}
						}
						return false
					})
					if !good && !(b == wb && mustPassAfter(fw.Instr, cacheStores)) {
						ok = false
					}
				}
			}
			c.Check(fmt.Sprintf("%s#items-write-%d-invalidates-cache", fname(fn), n), fw.Instr.Pos(), ok, ifelse(ok, "the cached order is reset or adjusted with the write", "the item map changes while the cached sorted view is kept: Flatten()/Pending() keep returning a transaction the list no longer holds (or miss a new one)"))
			n++
		}
	}

	// ------------------------------------------------------------ L7
	c.Rule("C20.L7", "GUARDED-BY", "while TxPool.mu is held only in shared mode (RLock) nothing guarded is modified: no store / map update / delete on a guarded index, and no call of a method that writes its receiver on an account list, sorted map, priced list, account set or nonce tracker (Flatten rebuilds its cache lazily — it is a write); functions that do such things, directly or through package-local callees, are called with the exclusive lock or none")
	c.Min(5)
	{
		mutTypes := map[string]bool{"txList": true, "txSortedMap": true, "txPricedList": true, "accountSet": true, "txNoncer": true}
		poolT := w.Named("core", "TxPool")
		muF := w.Field("core", "TxPool", "mu")
		isPoolMu := func(recv ssa.Value) bool {
			if fa, ok := recv.(*ssa.FieldAddr); ok {
				return fieldOfAddr(fa) == muF
			}
			return false
		}
		lockNamed := func(ci ssa.CallInstruction, names ...string) bool {
			o := calleeObj(ci)
			if o == nil || o.Pkg() == nil || o.Pkg().Path() != "sync" {
				return false
			}
			for _, n := range names {
				if o.Name() == n {
					r := callRecv(ci)
					return r != nil && isPoolMu(r)
				}
			}
			return false
		}
		var pkgFns []*ssa.Function
		for _, fn := range w.FuncsIn("core") {
			if !strings.HasSuffix(w.fileOf(fn.Pos()), "_test.go") {
				pkgFns = append(pkgFns, fn)
			}
		}
		// methods that write their own receiver (transitively through methods of the same receiver)
		writesRecv := map[*ssa.Function]bool{}
		for changed := true; changed; {
			changed = false
			for _, fn := range pkgFns {
				if writesRecv[fn] || fn.Signature.Recv() == nil || len(fn.Params) == 0 || !mutTypes[ownerName(fn.Params[0].Type())] {
					continue
				}
				recv := ssa.Value(fn.Params[0])
				hit := false
				// a method that takes a mutex of its own receiver is self-locking (txNoncer)
				selfLocking := false
				for _, ci := range callInstrs(fn) {
					if o := calleeObj(ci); o != nil && o.Pkg() != nil && o.Pkg().Path() == "sync" && o.Name() == "Lock" {
						if fa, ok := callRecv(ci).(*ssa.FieldAddr); ok && fa.X == recv {
							selfLocking = true
						}
					}
				}
				if selfLocking {
					continue
				}
				for _, fw := range fieldWrites(fn) {
					if derivesFrom(fw.Base, func(v ssa.Value) bool { return v == recv }) {
						hit = true
					}
				}
				for _, ci := range callInstrs(fn) {
					if callee := staticCallee(ci); callee != nil && writesRecv[callee] {
						if r := callRecv(ci); r != nil && derivesFrom(r, func(v ssa.Value) bool { return v == recv }) {
							hit = true
						}
					}
				}
				if hit {
					writesRecv[fn] = true
					changed = true
				}
			}
		}
		// write-ish actions per function
		type action struct {
			instr ssa.Instruction
			what  string
		}
		direct := map[*ssa.Function][]action{}
		for _, fn := range pkgFns {
			for _, fw := range fieldWrites(fn) {
				if guarded[fw.Field.Name()] && ownerOfField(poolT.Underlying().(*types.Struct), fw.Field) && !isLocalAlloc(fw.Base) {
					direct[fn] = append(direct[fn], action{fw.Instr, "writes TxPool." + fw.Field.Name()})
				}
			}
			for _, ci := range callInstrs(fn) {
				callee := staticCallee(ci)
				if callee == nil || !writesRecv[callee] {
					continue
				}
				r := callRecv(ci)
				if r == nil || isLocalAlloc(r) {
					continue
				}
				// the receiver comes out of a guarded index of the pool (or is the pool's own priced list / nonce tracker)
				fromPool := derivesFrom(r, func(v ssa.Value) bool {
					f, _ := loadedField(v)
					return f != nil && guarded[f.Name()] && ownerOfField(poolT.Underlying().(*types.Struct), f)
				})
				if fromPool {
					direct[fn] = append(direct[fn], action{ci, "calls " + fname(callee) + ", which writes its receiver"})
				}
			}
		}
		mutates := map[*ssa.Function]string{}
		for fn, as := range direct {
			if len(as) > 0 {
				mutates[fn] = as[0].what + " at " + w.Pos(as[0].instr.Pos())
			}
		}
		for changed := true; changed; {
			changed = false
			for _, fn := range pkgFns {
				if mutates[fn] != "" {
					continue
				}
				for _, ci := range callInstrs(fn) {
					if callee := staticCallee(ci); callee != nil && mutates[callee] != "" && callee.Signature.Recv() != nil && ownerName(callee.Params[0].Type()) == "TxPool" {
						mutates[fn] = "calls " + fname(callee) + " (which " + mutates[callee] + ")"
						changed = true
						break
					}
				}
			}
		}
		nShared := 0
		for _, fn := range pkgFns {
			// shared-only state: RLock held and exclusive not held
			rs := lockStates(fn, func(ci ssa.CallInstruction) bool { return lockNamed(ci, "RLock") }, func(ci ssa.CallInstruction) bool { return lockNamed(ci, "RUnlock") }, false)
			anyShared := false
			for _, held := range rs {
				if held {
					anyShared = true
				}
			}
			if !anyShared {
				continue
			}
			nShared++
			c.sites++
			c.sawFunc(fname(fn))
			bad := ""
			for _, a := range direct[fn] {
				if rs[a.instr] {
					bad = a.what + " at " + w.Pos(a.instr.Pos())
				}
			}
			for _, ci := range callInstrs(fn) {
				if callee := staticCallee(ci); callee != nil && mutates[callee] != "" && rs[ci] && callee.Signature.Recv() != nil && ownerName(callee.Params[0].Type()) == "TxPool" {
					bad = "calls " + fname(callee) + " (which " + mutates[callee] + ") at " + w.Pos(ci.Pos())
				}
			}
			c.Check(outerName(fname(fn))+"#shared-lock-is-read-only", fn.Pos(), bad == "", ifelse(bad == "", "nothing guarded is modified while the lock is held in shared mode", "holding TxPool.mu only in shared mode, this function "+bad+": two readers run it at once and race on the same storage (the lazily rebuilt sorted cache comes out partial, unsorted or duplicated)"))
		}
		if nShared < 4 {
			c.Undecided("core.TxPool#shared-lock-users", 0, fmt.Sprintf("only %d functions take TxPool.mu in shared mode", nShared))
		}
	}

	// ------------------------------------------------------------ L6
	c.Rule("C20.L6", "ALWAYS-WITH", "wherever a transaction is taken out of an account's pending list by (*txList).Remove, the account's pending nonce is lowered (pendingNonces.setIfLower) on every path that follows the successful removal")
	c.Min(1)
	txlRemove := w.FuncObj("core", "txList", "Remove")
	pendingF := w.Field("core", "TxPool", "pending")
	for _, fn := range w.FuncsIn("core") {
		if strings.HasSuffix(w.fileOf(fn.Pos()), "_test.go") {
			continue
		}
		for _, ci := range callsTo(fn, txlRemove) {
			if !derivesFrom(callRecv(ci), func(v ssa.Value) bool { f, _ := loadedField(v); return f == pendingF }) {
				continue
			}
			c.sites++
			c.sawFunc(fname(fn))
			var lowers []ssa.Instruction
			for _, cj := range callInstrs(fn) {
				if o := calleeObj(cj); o != nil && o.Name() == "setIfLower" {
					lowers = append(lowers, cj)
				}
			}
			// the block entered when removed == true
			ok := false
			cv := ci.Value()
			for _, ref := range *cv.Referrers() {
				e, isE := ref.(*ssa.Extract)
				if !isE || e.Index != 0 {
					continue
				}
				for _, r2 := range *e.Referrers() {
					ifi, isIf := r2.(*ssa.If)
					if !isIf {
						continue
					}
					tb := ifi.Block().Succs[0]
					ok = len(tb.Instrs) > 0 && (mustPassAfter(tb.Instrs[0], lowers) || instrSet(lowers)[tb.Instrs[0]])
				}
			}
			c.Check(fname(fn)+"#pending-removal-lowers-nonce", ci.Pos(), ok, ifelse(ok, "every path after a successful removal passes pendingNonces.setIfLower", "a transaction leaves the pending list without the account's pending nonce being lowered on some path: later submissions are promoted above a gap and Nonce() reports a nonce nobody holds"))
		}
	}

	// ------------------------------------------------------------ L3
	c.Rule("C20.L3", "GATE", "in (*TxPool).add every insertion (enqueueTx, the pending replacement all.Add, journalTx) is dominated by validateTx == nil; promoteTx sets the pending nonce to tx.Nonce()+1")
	c.Min(3)
	add := w.Fn("core", "TxPool", "add")
	c.sawFunc(fname(add))
	val := callsTo(add, w.FuncObj("core", "TxPool", "validateTx"))
	for _, ci := range callInstrs(add) {
		o := calleeObj(ci)
		if o == nil {
			continue
		}
		what := ""
		switch {
		case sameFunc(o, w.FuncObj("core", "TxPool", "enqueueTx")):
			what = "enqueueTx"
		case sameFunc(o, allAdd):
			what = "all.Add"
		case sameFunc(o, w.FuncObj("core", "TxPool", "journalTx")):
			what = "journalTx"
		default:
			continue
		}
		c.sites++
		ok := false
		for _, v := range val {
			if gatedByErrNil(ci, v) {
				ok = true
			}
		}
		c.Check(fmt.Sprintf("%s#%s@%s", fname(add), what, siteOrdinal(add, ci, what)), ci.Pos(), ok, ifelse(ok, "dominated by validateTx == nil", "a transaction is inserted without having passed validateTx (signature, nonce, funds, gas limits)"))
	}
	pt := w.Fn("core", "TxPool", "promoteTx")
	c.sawFunc(fname(pt))
	okNonce := false
	for _, ci := range callInstrs(pt) {
		if o := calleeObj(ci); o != nil && o.Name() == "set" && recvName(o) == "txNoncer" {
			a := callArgs(ci)
			okNonce = derivesFrom(a[1], func(v ssa.Value) bool {
				cc, isC := v.(*ssa.Call)
				return isC && calleeObj(cc) != nil && calleeObj(cc).Name() == "Nonce"
			})
			if b, isB := stripConv(a[1]).(*ssa.BinOp); !isB || b.Op.String() != "+" {
				okNonce = false
			}
		}
	}
	c.Check(fname(pt)+"#pending-nonce", pt.Pos(), okNonce, ifelse(okNonce, "pendingNonces.set(addr, tx.Nonce()+1)", "promotion no longer advances the pending nonce to the promoted transaction's nonce + 1"))

	// ------------------------------------------------------------ L4
	c.Rule("C20.L4", "CONFINED", "the block builder takes its transactions from TxPool.Pending(), which returns flattened copies of the pending lists under the lock")
	c.Min(2)
	pend := w.Fn("core", "TxPool", "Pending")
	flat := false
	for _, ci := range callInstrs(pend) {
		if o := calleeObj(ci); o != nil && o.Name() == "Flatten" {
			flat = true
		}
	}
	c.Check(fname(pend)+"#flattened", pend.Pos(), flat, ifelse(flat, "returns list.Flatten() copies", "Pending hands out the pool's internal lists"))
	usesPending := false
	for _, fn := range w.FuncsIn("miner") {
		for _, ci := range callInstrs(fn) {
			if o := calleeObj(ci); o != nil && o.Name() == "Pending" && len(callArgs(ci)) == 0 {
				usesPending = true
			}
		}
	}
	c.Check("miner#source-of-transactions", 0, usesPending, ifelse(usesPending, "the miner calls Pending()", "the miner no longer takes its transactions from Pending()"))

	// ------------------------------------------------------------ L8
	c.Rule("C20.L8", "GATE", "txSortedMap.index is a binary heap: only its first element has a meaning (the lowest nonce). A positional use of any other element — reading index[k] for anything but an equality search, or keeping a prefix index[:n] — is dominated by sort.Sort(index) in the same function, otherwise 'the highest nonces' that Cap drops are arbitrary ones and the pending run gets a gap")
	c.Min(2)
	{
		idxF := w.Field("core", "txSortedMap", "index")
		fromIndex := func(v ssa.Value) bool {
			return derivesFrom(v, func(x ssa.Value) bool {
				f, _ := loadedField(x)
				return f == idxF
			})
		}
		nSites := 0
		for _, fn := range w.FuncsIn("core") {
			if strings.HasSuffix(w.fileOf(fn.Pos()), "_test.go") {
				continue
			}
			var sorts []ssa.Instruction
			for _, ci := range callInstrs(fn) {
				if o := calleeObj(ci); o != nil && o.Pkg() != nil && o.Pkg().Path() == "sort" && (o.Name() == "Sort" || o.Name() == "Stable") {
					if a := callArgs(ci); len(a) > 0 && fromIndex(a[0]) {
						sorts = append(sorts, ci.(ssa.Instruction))
					}
				}
			}
			k := 0
			for _, b := range fn.Blocks {
				for _, in := range b.Instrs {
					positional, what := false, ""
					switch x := in.(type) {
					case *ssa.IndexAddr:
						if !fromIndex(x.X) {
							continue
						}
						if n, isC := constInt(x.Index); isC && n == 0 {
							continue // the heap minimum
						}
						// an element that is only compared for equality is a search, not a rank
						for _, r := range *x.Referrers() {
							ld, isLd := r.(*ssa.UnOp)
							if !isLd {
								positional = true // stored through
								continue
							}
							for _, rr := range *ld.Referrers() {
								if bo, isB := rr.(*ssa.BinOp); isB && (bo.Op == token.EQL || bo.Op == token.NEQ) {
									continue
								}
								if _, isDbg := rr.(*ssa.DebugRef); isDbg {
									continue
								}
								positional = true
							}
						}
						what = "index[k]"
					case *ssa.Slice:
						if !fromIndex(x.X) || x.High == nil {
							continue
						}
						if n, isC := constInt(x.High); isC && n == 0 {
							continue // emptied
						}
						positional, what = true, "index[:n]"
					default:
						continue
					}
					if !positional {
						continue
					}
					nSites++
					c.sites++
					c.sawFunc(fname(fn))
					ok := mustPassBefore(in, sorts)
					c.Check(fmt.Sprintf("%s#positional-%s-after-sort-%d", fname(fn), what, k), in.Pos(), ok, ifelse(ok, "dominated by sort.Sort(index)", "an element of the nonce heap other than the first is used by position without the heap having been sorted: heap order is not nonce order once anything was popped, so the transactions dropped or kept are not the highest / lowest nonces and the account's pending run is no longer gap-free"))
					k++
				}
			}
		}
		if nSites == 0 {
			c.Undecided("core.txSortedMap#positional-index-uses", token.NoPos, "no positional use of txSortedMap.index found (Cap is expected to have some)")
		}
	}
	// ------------------------------------------------------------ L9
	c.Rule("C20.L9", "TYPESTATE", "an account's list is looked up again after anything that can re-shape the index it came from: in the methods of TxPool a value read from pool.pending[addr] or pool.queue[addr] is not used on a path that passed — after the lookup and without a new lookup — a call of a TxPool method that (transitively) inserts into or deletes from that same index (removeTx, promoteTx, enqueueTx, the executable / unexecutable sweeps). Making room in a full pool can evict a transaction of the very sender whose list was cached: the replacement then goes into a list that is no longer the pool's (a nonce gap in pending, or a transaction known to the pool but neither pending nor queued)")
	c.Min(10)
	{
		poolT := w.Named("core", "TxPool")
		idx := map[*types.Var]bool{w.Field("core", "TxPool", "pending"): true, w.Field("core", "TxPool", "queue"): true}
		var methods []*ssa.Function
		for _, fn := range w.FuncsIn("core") {
			if fn.Blocks == nil || strings.HasSuffix(w.fileOf(fn.Pos()), "_test.go") {
				continue
			}
			methods = append(methods, fn)
		}
		// which functions re-shape which index (map update / delete on the field), transitively through static calls
		reshapes := map[*ssa.Function]map[*types.Var]bool{}
		for _, fn := range methods {
			for _, fw := range fieldWrites(fn) {
				if idx[fw.Field] && (fw.Kind == "mapupdate" || fw.Kind == "delete" || fw.Kind == "store") {
					if reshapes[fn] == nil {
						reshapes[fn] = map[*types.Var]bool{}
					}
					reshapes[fn][fw.Field] = true
				}
			}
		}
		for changed := true; changed; {
			changed = false
			for _, fn := range methods {
				for _, x := range withClosures(fn) {
					for _, ci := range callInstrs(x) {
						g := ci.Common().StaticCallee()
						if g == nil || reshapes[g] == nil {
							continue
						}
						for f := range reshapes[g] {
							if reshapes[fn] == nil {
								reshapes[fn] = map[*types.Var]bool{}
							}
							if !reshapes[fn][f] {
								reshapes[fn][f] = true
								changed = true
							}
						}
					}
				}
			}
		}
		reaches := func(from, to, barrier *ssa.BasicBlock) bool {
			seen := map[*ssa.BasicBlock]bool{}
			work := append([]*ssa.BasicBlock(nil), from.Succs...)
			for len(work) > 0 {
				b := work[len(work)-1]
				work = work[:len(work)-1]
				if seen[b] || b == barrier {
					continue
				}
				seen[b] = true
				if b == to {
					return true
				}
				work = append(work, b.Succs...)
			}
			return false
		}
		nLk := 0
		for _, fn := range methods {
			if fn.Signature.Recv() == nil || !types.Identical(deref(fn.Signature.Recv().Type()), poolT) {
				continue
			}
			k := 0
			for _, b := range fn.Blocks {
				for _, in := range b.Instrs {
					lk, ok := in.(*ssa.Lookup)
					if !ok {
						continue
					}
					f, _ := loadedField(stripConv(lk.X))
					if !idx[f] {
						continue
					}
					// the looked-up list value (commaOk lookups: component 0)
					var val ssa.Value = lk
					if lk.CommaOk {
						val = nil
						for _, r := range *lk.Referrers() {
							if ex, isEx := r.(*ssa.Extract); isEx && ex.Index == 0 {
								val = ex
							}
						}
					}
					if val == nil || val.Referrers() == nil {
						continue
					}
					nLk++
					c.sites++
					c.sawFunc(fname(fn))
					bad := ""
					for _, ci := range callInstrs(fn) {
						g := ci.Common().StaticCallee()
						if g == nil || reshapes[g] == nil || !reshapes[g][f] {
							continue
						}
						cin := ci.(ssa.Instruction)
						for _, u := range *val.Referrers() {
							if _, isDbg := u.(*ssa.DebugRef); isDbg {
								continue
							}
							if _, isPhi := u.(*ssa.Phi); isPhi {
								continue
							}
							// nil tests of the stale value are harmless only if nothing else follows; count every other use
							if bo, isB := u.(*ssa.BinOp); isB && (bo.Op == token.EQL || bo.Op == token.NEQ) {
								continue
							}
							stale := false
							switch {
							case cin.Block() == b && u.Block() == b:
								stale = instrIndex(in) < instrIndex(cin) && instrIndex(cin) < instrIndex(u)
							case cin.Block() == b:
								// the call follows the lookup in its block; the use is elsewhere
								stale = instrIndex(in) < instrIndex(cin) && reaches(b, u.Block(), b)
							case u.Block() == b:
								// entering the lookup's block re-reads the index before the use
								stale = false
							case u.Block() == cin.Block():
								stale = instrIndex(cin) < instrIndex(u) && (b.Dominates(cin.Block()))
							default:
								stale = b.Dominates(cin.Block()) && reaches(cin.Block(), u.Block(), b)
							}
							if stale && bad == "" {
								bad = fmt.Sprintf("%s at %s, then used at %s", g.Name(), w.Pos(ci.Pos()), w.Pos(u.Pos()))
							}
						}
					}
					c.Check(fmt.Sprintf("%s#%s-lookup-%d-not-used-after-reshaping", fname(fn), f.Name(), k), lk.Pos(), bad == "", ifelse(bad == "", "no use of the looked-up list after a call that re-shapes the index", "the list read from pool."+f.Name()+" is used after the index may have been re-shaped ("+bad+") without being looked up again: the account's list may have been replaced or deleted meanwhile, so the transaction lands in a list that is no longer the pool's"))
					k++
				}
			}
		}
		if nLk == 0 {
			c.Undecided("core.TxPool#index-lookups", token.NoPos, "no lookup in pool.pending / pool.queue found")
		}
	}

	// ------------------------------------------------------------ L10
	c.Rule("C20.L10", "GATE", "the pool follows every head the chain announces — also a sibling of equal height or a lower block after a rewind: in (*TxPool).loop the reset request for a received chain-head event depends on nothing in the event but the presence of a block (ev.Block != nil). Filtering heads by number leaves the pool describing an abandoned head: transactions the sibling already included stay pending and are handed to the block builder, dropped ones are not re-injected")
	c.Min(1)
	{
		lp := w.Fn("core", "TxPool", "loop")
		c.sawFunc(fname(lp))
		headCh := w.Field("core", "TxPool", "chainHeadCh")
		reqReset := w.FuncObj("core", "TxPool", "requestReset")
		// values received from chainHeadCh: a select state on the channel, or a plain receive
		isEvent := func(v ssa.Value) bool {
			return derivesFrom(v, func(x ssa.Value) bool {
				switch y := x.(type) {
				case *ssa.Select:
					for _, st := range y.States {
						if f, _ := loadedField(stripConv(st.Chan)); f == headCh {
							return true
						}
					}
				case *ssa.UnOp:
					if y.Op == token.ARROW {
						if f, _ := loadedField(stripConv(y.X)); f == headCh {
							return true
						}
					}
				}
				return false
			})
		}
		n := 0
		for _, ci := range callsTo(lp, reqReset) {
			n++
			c.sites++
			bad := ""
			for _, a := range atomsOf(factsAtInstr(ci.(ssa.Instruction))) {
				fromEv := isEvent(a.X) || (a.Y != nil && isEvent(a.Y))
				if !fromEv {
					continue
				}
				// which select case was taken is not a property of the event
				if _, isSel := stripConv(a.X).(*ssa.Extract); isSel && a.Kind == "eq" {
					if ex := stripConv(a.X).(*ssa.Extract); ex.Index == 0 {
						continue
					}
				}
				if a.Kind == "isnil" {
					continue
				}
				bad = fmt.Sprintf("%s condition on the event at the reset request", a.Kind)
			}
			c.Check(fmt.Sprintf("%s#every-announced-head-resets-%d", fname(lp), n), ci.Pos(), bad == "", ifelse(bad == "", "the reset depends only on ev.Block != nil", "the reset for a new head is skipped depending on the announced block itself ("+bad+"): a head switch to a block that is not higher — a sibling, an equal-length branch, a rewind — leaves pending, queue and nonces describing the abandoned head"))
		}
		if n == 0 {
			c.Undecided(fname(lp)+"#every-announced-head-resets", lp.Pos(), "no requestReset call found in the pool's event loop")
		}
	}
	c20RoundE(c, c.W)
	c20QueueCap(c, c.W)
	c20DirtyMerge(c, c.W)
}

// c20Dropped: in promoteExecutables / demoteUnexecutables / truncate*, every
// slice of transactions returned by an account list operation is iterated with
// all.Remove (or re-queued).
func c20Dropped(c *Ctx, w *World, allRemove *types.Func) {
	enq := w.FuncObj("core", "TxPool", "enqueueTx")
	for _, fnName := range []string{"promoteExecutables", "demoteUnexecutables"} {
		fn := w.Fn("core", "TxPool", fnName)
		c.sawFunc(fname(fn))
		for _, ci := range callInstrs(fn) {
			o := calleeObj(ci)
			if o == nil || recvName(o) != "txList" {
				continue
			}
			switch o.Name() {
			case "Forward", "Filter", "Cap":
			default:
				continue
			}
			cv := ci.Value()
			if cv == nil {
				continue
			}
			c.sites++
			// every result slice must flow into a loop that calls all.Remove / enqueueTx with its elements
			nres := ci.Common().Signature().Results().Len()
			allOK := true
			for r := 0; r < nres; r++ {
				var res ssa.Value
				if nres == 1 {
					res = cv
				} else {
					for _, ref := range *cv.Referrers() {
						if e, ok := ref.(*ssa.Extract); ok && e.Index == r {
							res = e
						}
					}
				}
				if res != nil && res != cv && len(*res.Referrers()) == 0 {
					res = nil // assigned to the blank identifier
				}
				if res == nil {
					if fnName == "promoteExecutables" && o.Name() == "Filter" && r == 1 {
						// tabled: queue lists are non-strict (newTxList(false)); Filter
						// returns no "invalids" for them, as in upstream go-ethereum
						continue
					}
					allOK = false // result dropped
					continue
				}
				used := false
				for _, cj := range callInstrs(fn) {
					oj := calleeObj(cj)
					if oj == nil || !(sameFunc(oj, allRemove) || sameFunc(oj, enq)) {
						continue
					}
					for _, a := range callArgs(cj) {
						if derivesFrom(a, func(v ssa.Value) bool { return v == res }) {
							used = true
						}
					}
				}
				if !used {
					allOK = false
				}
			}
			c.Check(fmt.Sprintf("%s#%s@%s-disposed", fname(fn), o.Name(), siteOrdinal(fn, ci, "")), ci.Pos(), allOK, ifelse(allOK, "every transaction taken out of the account list is removed from the hash index or re-queued", "transactions taken out of an account list are neither removed from the hash index nor re-queued: they stay in `all` but in no list"))
		}
	}
}

func c20Variants() []Variant {
	f := "core/tx_pool.go"
	return []Variant{
		{Name: "stats-without-lock", File: f, Old: "func (pool *TxPool) TransactionsNumber() (int, int) {\n	pool.mu.RLock()\n	defer pool.mu.RUnlock()\n", New: "func (pool *TxPool) TransactionsNumber() (int, int) {\n", Rule: "C20.L1", Construct: "TransactionsNumber"},
		{Name: "add-without-price-index", File: f, Old: "		pool.all.Add(tx)\n		pool.priced.Put(tx)\n		pool.journalTx(from, tx)", New: "		pool.all.Add(tx)\n		pool.journalTx(from, tx)", Rule: "C20.L2", Construct: "all.Add"},
		{Name: "enqueue-before-validate", File: f, Old: "	// If the transaction fails basic validation, discard it\n	if err := pool.validateTx(tx, local); err != nil {", New: "	pool.enqueueTx(hash, tx)\n	// If the transaction fails basic validation, discard it\n	if err := pool.validateTx(tx, local); err != nil {", Rule: "C20.L3", Construct: "enqueueTx"},
	}
}

// c20RoundE: L11 (the caps of a list cover every stored transaction) and L12 (the front-gap test of demotion).
func c20RoundE(c *Ctx, w *World) {
	c.Rule("C20.L11", "ALWAYS-WITH", "pending transactions are affordable: txList.Filter returns early when the balance and gas limit are not below the list's costcap / gascap, so those caps must be upper bounds of every stored transaction — in txList.Add every path from the insertion (txs.Put) to a return passes the comparison of the new transaction's cost with costcap and of its gas with gascap. A replacement that returns before the bump leaves a more expensive transaction under a stale cap: after a balance drop into the window it stays pending and is handed to the block builder")
	c.Min(1)
	{
		add := w.Fn("core", "txList", "Add")
		c.sawFunc(fname(add))
		var capTests [2][]ssa.Instruction
		for _, in := range allInstrs(add) {
			u, ok := in.(*ssa.UnOp)
			if !ok || u.Op != token.MUL {
				continue
			}
			fa, ok := u.X.(*ssa.FieldAddr)
			if !ok {
				continue
			}
			f := fieldOfAddr(fa)
			if f == nil {
				continue
			}
			// the load must feed a comparison
			cmp := false
			for _, r := range *u.Referrers() {
				switch x := r.(type) {
				case *ssa.BinOp:
					if x.Op == token.LSS || x.Op == token.GTR || x.Op == token.LEQ || x.Op == token.GEQ {
						cmp = true
					}
				case *ssa.Call:
					if o := calleeObj(x); o != nil && o.Name() == "Cmp" {
						cmp = true
					}
				}
			}
			if !cmp {
				continue
			}
			switch f.Name() {
			case "costcap":
				capTests[0] = append(capTests[0], u)
			case "gascap":
				capTests[1] = append(capTests[1], u)
			}
		}
		n := 0
		for _, ci := range callInstrs(add) {
			o := calleeObj(ci)
			if o == nil || o.Name() != "Put" || recvName(o) != "txSortedMap" {
				continue
			}
			c.sites++
			ok := len(capTests[0]) > 0 && len(capTests[1]) > 0 && mustPassAfter(ci.(ssa.Instruction), capTests[0]) && mustPassAfter(ci.(ssa.Instruction), capTests[1])
			c.Check(fmt.Sprintf("%s#insertion-%d-then-cap-bump", fname(add), n), ci.Pos(), ok, ifelse(ok, "every path from the insertion to a return compares the transaction with costcap and gascap", "a transaction is stored and Add returns without comparing its cost / gas with the list's caps: Filter's early return then trusts a cap below a stored transaction's cost"))
			n++
		}
		if n == 0 {
			c.Undecided(fname(add)+"#insertion", add.Pos(), "no txs.Put call found in txList.Add")
		}
	}

	c.Rule("C20.L12", "EXIT", "pending is a gap-free run starting at the account's nonce: in demoteUnexecutables every iteration, after the balance / gas filter, looks whether the transaction with the account's current nonce is still there (list.Len() > 0 && list.txs.Get(nonce) == nil → postpone the whole list) — on every path from the Filter call onwards, also when the filter produced invalids. A head reset that lowers the nonce and makes a middle transaction unaffordable otherwise leaves a pending prefix that starts above the account nonce")
	c.Min(1)
	{
		dm := w.Fn("core", "TxPool", "demoteUnexecutables")
		c.sawFunc(fname(dm))
		// the per-account body may live in a method split off from the loop
		hasFilter := func(fn *ssa.Function) bool {
			for _, ci := range callInstrs(fn) {
				if o := calleeObj(ci); o != nil && o.Name() == "Filter" && recvName(o) == "txList" {
					return true
				}
			}
			return false
		}
		if !hasFilter(dm) {
			for _, ci := range callInstrs(dm) {
				if g := ci.Common().StaticCallee(); g != nil && g.Pkg == dm.Pkg && g.Blocks != nil && hasFilter(g) && onlyCalledFrom(w, g, dm) {
					dm = g
					c.sawFunc(fname(dm))
					break
				}
			}
		}
		var filter ssa.Instruction
		var nonceCalls []ssa.Value
		for _, ci := range callInstrs(dm) {
			o := calleeObj(ci)
			if o == nil {
				continue
			}
			if o.Name() == "Filter" && recvName(o) == "txList" {
				filter = ci.(ssa.Instruction)
			}
			if o.Name() == "GetNonce" && ci.Value() != nil {
				nonceCalls = append(nonceCalls, ci.Value())
			}
		}
		var gets, gates []ssa.Instruction
		for _, ci := range callInstrs(dm) {
			o := calleeObj(ci)
			if o == nil || o.Name() != "Get" || recvName(o) != "txSortedMap" {
				continue
			}
			arg := callArgs(ci)[0]
			for _, nv := range nonceCalls {
				if derivesFrom(arg, func(x ssa.Value) bool { return x == nv }) {
					gets = append(gets, ci.(ssa.Instruction))
				}
			}
		}
		gates = append(gates, gets...)
		if filter != nil {
			for _, ci := range callInstrs(dm) {
				o := calleeObj(ci)
				if o == nil || !(o.Name() == "Len" || o.Name() == "Empty") || recvName(o) != "txList" {
					continue
				}
				for _, g := range gets {
					if instrDominates(ci.(ssa.Instruction), g) && instrDominates(filter, ci.(ssa.Instruction)) {
						gates = append(gates, ci.(ssa.Instruction))
					}
				}
			}
		}
		c.sites++
		if filter == nil || len(gets) == 0 {
			c.Fail("(core.TxPool).demoteUnexecutables#front-gap-test-on-every-path", dm.Pos(), "the balance filter or the look-up of the transaction with the account's nonce is no longer found in demoteUnexecutables")
		} else {
			ok := mustPassAfter(filter, gates)
			c.Check("(core.TxPool).demoteUnexecutables#front-gap-test-on-every-path", filter.Pos(), ok, ifelse(ok, "every path from the filter passes the front-gap test", "an iteration can end after the filter without having looked for the transaction with the account's current nonce: a pending list that starts above the account nonce is kept and handed to the block builder"))
		}
	}
}

// c20QueueCap (L13): demotions respect the per-account queue limit.
func c20QueueCap(c *Ctx, w *World) {
	c.Rule("C20.L13", "ALWAYS-WITH", "per-account limits are respected at all times: promoteExecutables is the only place that caps an account's queue (list.Cap(AccountQueue)), so every function that DEMOTES — hands transactions it took out of a pending list (results of txList.Filter / Cap / Remove) to enqueueTx — passes, after the last such call, a cap of that account's queue or a request to promote. Otherwise one remote account with 400 pending transactions whose first one is dropped (SetGasPrice, or a head reset that makes it unaffordable) sits with 399 queued transactions against a limit of 256")
	c.Min(2)
	enq := w.FuncObj("core", "TxPool", "enqueueTx")
	n := 0
	for _, fn := range w.FuncsIn("core") {
		if fn.Blocks == nil || strings.HasSuffix(w.fileOf(fn.Pos()), "_test.go") {
			continue
		}
		var demotes []ssa.Instruction
		for _, ci := range callsTo(fn, enq) {
			args := callArgs(ci)
			tx := args[len(args)-1]
			if derivesFrom(tx, func(x ssa.Value) bool {
				cc, ok := x.(*ssa.Call)
				if !ok {
					return false
				}
				o := calleeObj(cc)
				return o != nil && recvName(o) == "txList" && (o.Name() == "Filter" || o.Name() == "Cap" || o.Name() == "Remove")
			}) {
				demotes = append(demotes, ci.(ssa.Instruction))
			}
		}
		if len(demotes) == 0 {
			continue
		}
		n++
		c.sites += len(demotes)
		c.sawFunc(fname(fn))
		var gates []ssa.Instruction
		var scan func(g *ssa.Function, depth int) bool
		caps := func(ci ssa.CallInstruction) bool {
			o := calleeObj(ci)
			if o == nil {
				return false
			}
			if recvName(o) == "txList" && o.Name() == "Cap" {
				return derivesFrom(callArgs(ci)[0], func(x ssa.Value) bool {
					f, _ := loadedField(x)
					return f != nil && f.Name() == "AccountQueue"
				})
			}
			return o.Name() == "promoteExecutables" || o.Name() == "requestPromoteExecutables"
		}
		scan = func(g *ssa.Function, depth int) bool {
			for _, ci := range callInstrs(g) {
				if caps(ci) {
					return true
				}
				if h := ci.Common().StaticCallee(); h != nil && h.Pkg == g.Pkg && h.Blocks != nil && depth < 1 && scan(h, depth+1) {
					return true
				}
			}
			return false
		}
		for _, ci := range callInstrs(fn) {
			if caps(ci) {
				gates = append(gates, ci.(ssa.Instruction))
			} else if h := ci.Common().StaticCallee(); h != nil && h.Pkg == fn.Pkg && h.Blocks != nil && h.Object() != enq && scan(h, 0) {
				gates = append(gates, ci.(ssa.Instruction))
			}
		}
		ok := len(gates) > 0
		for _, d := range demotes {
			if !mustPassAfter(d, gates) {
				ok = false
			}
		}
		// a loop body split off into a method of its own is the same site as its only caller
		keyFn := fn
		callers := map[*ssa.Function]bool{}
		for _, site := range w.Callers(fn) {
			callers[site.Parent()] = true
		}
		if len(callers) == 1 {
			for cf := range callers {
				if cf.Pkg == fn.Pkg && onlyCalledFrom(w, fn, cf) && len(callsTo(cf, enq)) == 0 && (cf == w.Fn("core", "TxPool", "demoteUnexecutables") || cf == w.Fn("core", "TxPool", "removeTx")) {
					keyFn = cf
				}
			}
		}
		c.Check(fname(keyFn)+"#demotion-then-queue-cap", demotes[0].Pos(), ok, ifelse(ok, "every path after a demotion passes a cap of the account's queue", "transactions taken out of pending are put into the account's queue and the function returns without capping the queue at AccountQueue (nor asking for a promotion run, which would): the per-account queue limit is exceeded until some later promotion of that account"))
	}
	if n == 0 {
		c.Undecided("core#demoting-functions", token.NoPos, "no function that hands transactions from a pending list to enqueueTx found (demoteUnexecutables and removeTx are expected)")
	}
}

// c20DirtyMerge (L14): coalesced promotion requests are merged, not replaced.
func c20DirtyMerge(c *Ctx, w *World) {
	c.Rule("C20.L14", "GATE", "what the pool reports as pending is what is executable: scheduleReorgLoop coalesces the promotion requests that arrive while a run is busy — the accumulated set of dirty accounts is replaced by an incoming request only where the accumulated set is known to be nil; otherwise the request is merged into it. Replacing a non-nil set drops the accounts of the earlier requests: their executable transactions stay queued after the submitter was told they are in, until some later head reset")
	c.Min(1)
	sl := w.Fn("core", "TxPool", "scheduleReorgLoop")
	c.sawFunc(fname(sl))
	asT := w.Named("core", "accountSet")
	n := 0
	var phis []*ssa.Phi
	for _, in := range allInstrs(sl) {
		if ph, ok := in.(*ssa.Phi); ok && types.Identical(deref(ph.Type()), asT) {
			phis = append(phis, ph)
		}
	}
	isPhi := func(v ssa.Value) bool {
		for _, p := range phis {
			if stripConvNoBind(v) == ssa.Value(p) {
				return true
			}
		}
		return false
	}
	for _, ph := range phis {
		for i, e := range ph.Edges {
			ev := stripConvNoBind(e)
			if isPhi(ev) {
				continue
			}
			if cv, isC := ev.(*ssa.Const); isC && cv.IsNil() {
				continue
			}
			// an incoming request (received from a channel / select)
			if !derivesFrom(ev, func(x ssa.Value) bool {
				if _, isSel := x.(*ssa.Select); isSel {
					return true
				}
				if u, isU := x.(*ssa.UnOp); isU && u.Op == token.ARROW {
					return true
				}
				return false
			}) {
				continue
			}
			n++
			c.sites++
			pred := ph.Block().Preds[i]
			knownNil := false
			for _, a := range atomsOf(factsAt(pred)) {
				if a.Kind == "isnil" && a.Truth && isPhi(a.X) {
					knownNil = true
				}
			}
			pos := ph.Pos()
			if t := pred.Instrs[len(pred.Instrs)-1]; t.Pos().IsValid() {
				pos = t.Pos()
			}
			c.Check(fmt.Sprintf("%s#dirty-set-replaced-%d-only-when-nil", fname(sl), n), pos, knownNil, ifelse(knownNil, "the accumulated set is nil where the request takes its place", "an incoming promotion request replaces the accumulated set of dirty accounts where that set may be non-nil: the accounts of earlier, not yet served requests are dropped"))
		}
	}
	if n == 0 {
		c.Undecided(fname(sl)+"#dirty-set", sl.Pos(), "no place where an incoming request becomes the accumulated dirty set found in scheduleReorgLoop")
	}
}

package main

import (
	"fmt"
	"go/token"
	"go/types"
	"sort"
	"strings"

	"golang.org/x/tools/go/ssa"
)

// C10 — committed state recoverable; copies complete and independent.

func init() {
	register(&propDef{
		ID:          "C10",
		Explanation: "Structural necessary conditions of copy/commit exactness, decided on the SSA form of core/state and core/types: every copy function (StateDB.Copy, stateObject.deepCopy, Validator.DeepCopy/PartialCopy and the copies of statistics, withdraw records/queue, staking records, pending relationships, validator index, delegations, CopyHeader) handles every field of its type or the field is a tabled exclusion, and no reference-typed field is shared by plain assignment unless tabled; account balances, which copies share by pointer, are never mutated in place (K1); the three tries are opened, copied, hashed and committed alike (K2); Commit references every separately stored blob an account names, and the state-sync leaf callback schedules the same set (K4). Map-order freedom of the flush (K3) is decided by C06.N1 and C14.E3. Not decided: reopen equality and order-independence as values.",
		Assumptions: []string{"tabled exclusions (journals, revision lists, transaction context, db error, caches) are legitimately not copied: 'snapshots of the copied state cannot be applied to the copy'", "contract code and preimage byte slices are immutable once stored"},
		Run:         runC10,
		Variants:    c10Variants,
	})
}

type copySpec struct {
	pkg, recv, fn, typ string
	exclude            map[string]string // field -> reason it is not copied
	shallowOK          map[string]string // field -> reason sharing is fine
}

func isRefType(t types.Type) bool {
	switch t.Underlying().(type) {
	case *types.Pointer, *types.Map, *types.Slice, *types.Chan:
		return true
	}
	return false
}

// sourceDerived: v is the source object of a copy function (its receiver /
// first parameter), or a local spill of it.
func sourceDerived(fn *ssa.Function, v ssa.Value) bool {
	if len(fn.Params) == 0 {
		return false
	}
	src := ssa.Value(fn.Params[0])
	for i := 0; i < 4; i++ {
		if v == src {
			return true
		}
		switch x := v.(type) {
		case *ssa.Alloc:
			for _, r := range *x.Referrers() {
				if st, ok := r.(*ssa.Store); ok && st.Addr == x && st.Val == src {
					return true
				}
			}
			return false
		case *ssa.UnOp:
			v = x.X
		default:
			return false
		}
	}
	return false
}

// copyCoverage returns the fields of named type T that fn (and the
// constructors it calls) initialise on a non-source object, and the fields
// shared shallowly with the source.
func copyCoverage(w *World, fn *ssa.Function, T *types.Named, depth int, handled map[string]bool, shallow map[string]token.Pos, seen map[*ssa.Function]bool) {
	if seen[fn] || depth < 0 || fn.Blocks == nil {
		return
	}
	seen[fn] = true
	st := T.Underlying().(*types.Struct)
	isT := func(t types.Type) bool {
		if p, ok := t.Underlying().(*types.Pointer); ok {
			t = p.Elem()
		}
		return types.Identical(t, T)
	}
	for _, b := range fn.Blocks {
		for _, in := range b.Instrs {
			switch x := in.(type) {
			case *ssa.FieldAddr:
				if !isT(x.X.Type()) || sourceDerived(fn, x.X) {
					continue
				}
				f := fieldOfAddr(x)
				if !ownerOfField(st, f) {
					continue
				}
				for _, r := range *x.Referrers() {
					switch y := r.(type) {
					case *ssa.Store:
						if y.Addr == x {
							handled[f.Name()] = true
							// shallow share?
							if isRefType(f.Type()) {
								if sf, base := loadedField(stripConv(y.Val)); sf == f && sourceDerived(fn, base) {
									shallow[f.Name()] = y.Pos()
								}
							}
							// a struct value copied whole from the source shares the references inside it,
							// unless each of them is re-assigned on the copy afterwards
							if stt, isStruct := f.Type().Underlying().(*types.Struct); isStruct {
								if sf, base := loadedField(stripConv(y.Val)); sf == f && sourceDerived(fn, base) {
									for i := 0; i < stt.NumFields(); i++ {
										nf := stt.Field(i)
										if !isRefType(nf.Type()) {
											continue
										}
										reassigned := false
										for _, r3 := range *x.Referrers() {
											if nfa, ok := r3.(*ssa.FieldAddr); ok && fieldOfAddr(nfa) == nf {
												for _, r4 := range *nfa.Referrers() {
													if st4, ok := r4.(*ssa.Store); ok && st4.Addr == nfa {
														if lf, lb := loadedField(stripConv(st4.Val)); !(lf == nf && lb != nil) && !appendsOntoField(st4.Val, nf) {
															reassigned = true
														}
													}
												}
											}
										}
										// other FieldAddr instructions on the same field of the same base
										for _, b2 := range fn.Blocks {
											for _, in2 := range b2.Instrs {
												if ofa, ok := in2.(*ssa.FieldAddr); ok && ofa != x && fieldOfAddr(ofa) == f && samePath(ofa.X, x.X) {
													for _, r3 := range *ofa.Referrers() {
														if nfa, ok := r3.(*ssa.FieldAddr); ok && fieldOfAddr(nfa) == nf {
															for _, r4 := range *nfa.Referrers() {
																if st4, ok := r4.(*ssa.Store); ok && st4.Addr == nfa {
																	if lf, _ := loadedField(stripConv(st4.Val)); lf != nf && !appendsOntoField(st4.Val, nf) {
																		reassigned = true
																	}
																}
															}
														}
													}
												}
											}
										}
										if !reassigned {
											shallow[f.Name()+"."+nf.Name()] = y.Pos()
										}
									}
								}
							}
						}
					case *ssa.UnOp:
						// loaded and then mutated through a method / index / map update
						for _, r2 := range *y.Referrers() {
							switch z := r2.(type) {
							case ssa.CallInstruction:
								if rv := callRecv(z); rv == y {
									handled[f.Name()] = true
								}
							case *ssa.MapUpdate:
								if z.Map == y {
									handled[f.Name()] = true
								}
							case *ssa.IndexAddr:
								handled[f.Name()] = true
							}
						}
					case ssa.CallInstruction:
						handled[f.Name()] = true // &x.f passed or method on addressable field
					case *ssa.FieldAddr:
						// nested struct field written below
						for _, r2 := range *y.Referrers() {
							if st2, ok := r2.(*ssa.Store); ok && st2.Addr == y {
								handled[f.Name()] = true
							}
						}
					}
				}
			case *ssa.Store:
				// whole-struct copy: *new = *src
				if a, ok := x.Addr.(*ssa.Alloc); ok && isT(a.Type()) {
					if u, ok := x.Val.(*ssa.UnOp); ok && u.Op == token.MUL && sourceDerived(fn, u.X) {
						for i := 0; i < st.NumFields(); i++ {
							handled[st.Field(i).Name()] = true
							if isRefType(st.Field(i).Type()) {
								if _, has := shallow[st.Field(i).Name()]; !has {
									shallow[st.Field(i).Name()] = x.Pos()
								}
							}
						}
					}
				}
			case ssa.CallInstruction:
				callee := x.Common().StaticCallee()
				if callee == nil || callee.Blocks == nil {
					continue
				}
				// a tail of the copy function split off into a method of the source that takes the copy
				if rv := callRecv(x); rv != nil && sourceDerived(fn, rv) && callee.Signature.Recv() != nil {
					takesCopy := false
					for _, a := range callArgs(x) {
						if isT(a.Type()) && !sourceDerived(fn, a) {
							takesCopy = true
						}
					}
					if takesCopy {
						copyCoverage(w, callee, T, depth-1, handled, shallow, seen)
						continue
					}
				}
				res := callee.Signature.Results()
				if res.Len() >= 1 && isT(res.At(0).Type()) {
					// a constructor / nested copy of the same type: what it sets is set
					sub := map[string]token.Pos{}
					copyCoverage(w, callee, T, depth-1, handled, sub, seen)
					if sourceDerivedCall(fn, x) {
						for k, v := range sub {
							shallow[k] = v
						}
					}
				}
			}
		}
	}
	// a deep re-assignment after a whole-struct copy clears the shallow mark
	for _, b := range fn.Blocks {
		for _, in := range b.Instrs {
			if stt, ok := in.(*ssa.Store); ok {
				if fa, ok := stt.Addr.(*ssa.FieldAddr); ok && isT(fa.X.Type()) && !sourceDerived(fn, fa.X) {
					f := fieldOfAddr(fa)
					if sf, base := loadedField(stripConv(stt.Val)); !(sf == f && sourceDerived(fn, base)) {
						delete(shallow, f.Name())
					}
				}
			}
		}
	}
}

type sharedElem struct {
	container, how string
	pos            token.Pos
}

// sharedElements finds, in a copy function, reference-typed elements that
// are transferred from one container into another without a call in between
// (dst[i] = src[i], dst[k] = v in a range over a map, copy(dst, src)).
func sharedElements(fn *ssa.Function) []sharedElem {
	var out []sharedElem
	describe := func(v ssa.Value) string {
		if f, _ := loadedField(stripConv(v)); f != nil {
			return f.Name()
		}
		if fa, ok := v.(*ssa.FieldAddr); ok {
			return fieldOfAddr(fa).Name()
		}
		return types.TypeString(v.Type(), func(p *types.Package) string { return p.Name() })
	}
	plainElem := func(v ssa.Value) bool {
		switch x := stripConv(v).(type) {
		case *ssa.UnOp:
			if x.Op == token.MUL {
				_, isIdx := x.X.(*ssa.IndexAddr)
				return isIdx
			}
		case *ssa.Extract:
			_, isNext := x.Tuple.(*ssa.Next)
			return isNext
		case *ssa.Lookup:
			return true
		}
		return false
	}
	for _, b := range fn.Blocks {
		for _, in := range b.Instrs {
			switch x := in.(type) {
			case *ssa.Store:
				if ia, ok := x.Addr.(*ssa.IndexAddr); ok && isRefType(x.Val.Type()) && plainElem(x.Val) {
					out = append(out, sharedElem{describe(ia.X), "each element is assigned from the element of another container", x.Pos()})
				}
			case *ssa.MapUpdate:
				if isRefType(x.Value.Type()) && plainElem(x.Value) {
					out = append(out, sharedElem{describe(x.Map), "each value is assigned from the value of another map", x.Pos()})
				}
			case *ssa.Call:
				if bi, ok := x.Call.Value.(*ssa.Builtin); ok && bi.Name() == "copy" && len(x.Call.Args) == 2 {
					if sl, ok := x.Call.Args[0].Type().Underlying().(*types.Slice); ok && isRefType(sl.Elem()) {
						out = append(out, sharedElem{describe(x.Call.Args[0]), "it is filled with the built-in copy", x.Pos()})
					}
				}
				if bi, ok := x.Call.Value.(*ssa.Builtin); ok && bi.Name() == "append" && len(x.Call.Args) == 2 {
					// append(src.f[:n], …): the result lives in the backing array of the source's own slice
					base := x.Call.Args[0]
					for {
						if sl, isSl := base.(*ssa.Slice); isSl {
							base = sl.X
							continue
						}
						break
					}
					if f, b := loadedField(stripConv(base)); f != nil && b != nil {
						root := b
						for i := 0; i < 4; i++ {
							if fa, isFA := root.(*ssa.FieldAddr); isFA {
								root = fa.X
								continue
							}
							if u, isU := root.(*ssa.UnOp); isU {
								root = u.X
								continue
							}
							break
						}
						if sourceDerived(fn, root) || sourceDerived(fn, b) {
							out = append(out, sharedElem{f.Name(), "it is built by appending onto the source's own slice (append(src." + f.Name() + "[:n], …) reuses that backing array when it has room)", x.Pos()})
						}
					}
					// append(fresh, src...) with reference-typed elements
					if sl, ok := x.Call.Args[0].Type().Underlying().(*types.Slice); ok && isRefType(sl.Elem()) {
						if _, isSlice := x.Call.Args[1].Type().Underlying().(*types.Slice); isSlice {
							if _, fromLit := x.Call.Args[1].(*ssa.Slice); !fromLit {
								out = append(out, sharedElem{describe(x.Call.Args[0]), "it is filled by appending another slice whole", x.Pos()})
							}
						}
					}
				}
			}
		}
	}
	return out
}

// appendsOntoField: v is append(x[:…], …) (possibly nested) where x is a load of
// field f: the "copy" reuses the backing array of the source's slice.
func appendsOntoField(v ssa.Value, f *types.Var) bool {
	for i := 0; i < 6; i++ {
		switch x := stripConv(v).(type) {
		case *ssa.Call:
			if bi, ok := x.Call.Value.(*ssa.Builtin); ok && bi.Name() == "append" {
				v = x.Call.Args[0]
				continue
			}
			return false
		case *ssa.Slice:
			v = x.X
			continue
		case *ssa.UnOp:
			lf, _ := loadedField(x)
			return lf == f
		default:
			return false
		}
	}
	return false
}

// sourceDerivedCall: the call is a method on the source object (v.PartialCopy()).
func sourceDerivedCall(fn *ssa.Function, ci ssa.CallInstruction) bool {
	r := callRecv(ci)
	return r != nil && sourceDerived(fn, r)
}

func runC10(c *Ctx) {
	w := c.W
	// ------------------------------------------------------------ K1
	c.Rule("C10.K1", "EXHAUSTIVE", "each copy function initialises every field of its type on the copy (directly, through a constructor it calls, or by a whole-struct copy) or the field is a tabled exclusion; reference-typed fields are not shared with the source by plain assignment unless tabled; account balances are never mutated in place")
	c.Min(40)
	specs := []copySpec{
		{"core/state", "StateDB", "Copy", "StateDB",
			map[string]string{
				"validatorsSorted": "cache of the sorted validator set, rebuilt on demand",
				"dbErr":            "memoised database error of the source",
				"thash":            "transaction context, set by Prepare", "bhash": "transaction context, set by Prepare", "txIndex": "transaction context, set by Prepare",
				"validRevisions": "snapshots of the source cannot be applied to the copy", "valValidRevisions": "snapshots of the source cannot be applied to the copy", "nextRevisionId": "snapshots of the source cannot be applied to the copy",
			},
			map[string]string{"db": "the backing database is shared by design"}},
		{"core/state", "stateObject", "deepCopy", "stateObject",
			map[string]string{"dbErr": "memoised database error of the source", "addrHash": "recomputed from the address by newObject"},
			map[string]string{"code": "contract code bytes are immutable once set", "db": "the owning StateDB is passed in",
				"data.Balance": "shared pointer, sound because balances are never mutated in place (companion rule below)", "data.DelegationBalance": "shared pointer, never mutated in place (companion rule below)",
				"data.CodeHash": "immutable hash bytes", "data.DelegationsHash": "immutable hash bytes"}},
		{"core/state", "Validator", "PartialCopy", "Validator",
			map[string]string{},
			map[string]string{"Delegations": "PartialCopy shares the delegation slice by contract (DeepCopy re-copies it)", "MainPubKey": "immutable key bytes", "BlsPubKey": "immutable key bytes", "Ext.Data": "the extension bytes are replaced by a new slice (UpdateLastActive), never edited in place"}},
		{"core/state", "Validator", "DeepCopy", "Validator",
			map[string]string{},
			map[string]string{"MainPubKey": "immutable key bytes", "BlsPubKey": "immutable key bytes", "Delegations": "re-copied element-wise when non-empty (shared only when empty)", "Ext.Data": "the extension bytes are replaced by a new slice (UpdateLastActive), never edited in place"}},
		{"core/state", "ValKindStat", "DeepCopy", "ValKindStat", map[string]string{}, map[string]string{}},
		{"core/state", "WithdrawRecord", "DeepCopy", "WithdrawRecord", map[string]string{}, map[string]string{}},
		{"core/state", "WithdrawQueue", "DeepCopy", "WithdrawQueue", map[string]string{}, map[string]string{}},
		{"core/state", "stakingRecord", "DeepCopy", "stakingRecord", map[string]string{}, map[string]string{}},
		{"core/state", "pendingRelationship", "DeepCopy", "pendingRelationship", map[string]string{}, map[string]string{}},
		{"core/state", "DelegationFrom", "DeepCopy", "DelegationFrom", map[string]string{}, map[string]string{}},
		{"core/state", "ValidatorsStat", "DeepCopy", "ValidatorsStat", map[string]string{}, map[string]string{}},
		{"core/state", "ValidatorIndex", "DeepCopy", "ValidatorIndex", map[string]string{"data": "filled element-wise through Add in the Range callback over the source (a method call on the copy, not a field assignment)"}, map[string]string{}},
		{"core/types", "", "CopyHeader", "Header", map[string]string{},
			map[string]string{"Coinbase": "", "extraCache": ""}},
	}
	// fields for which the constructor's fresh value is the right content of a copy
	freshOK := map[string]string{}
	for _, sp := range specs {
		fn := w.Fn(sp.pkg, sp.recv, sp.fn)
		c.sawFunc(fname(fn))
		T := w.Named(sp.pkg, sp.typ)
		st := T.Underlying().(*types.Struct)
		handled := map[string]bool{}
		shallow := map[string]token.Pos{}
		copyCoverage(w, fn, T, 2, handled, shallow, map[*ssa.Function]bool{})
		direct := map[string]bool{}
		copyCoverage(w, fn, T, 0, direct, map[string]token.Pos{}, map[*ssa.Function]bool{})
		for i := 0; i < st.NumFields(); i++ {
			f := st.Field(i)
			c.sites++
			key := fname(fn) + "#" + f.Name()
			if r, ok := sp.exclude[f.Name()]; ok {
				c.Pass(key, fn.Pos(), "tabled exclusion: "+r)
				continue
			}
			// a field that only a constructor initialises is carried over only if the constructor fills it from an
			// argument that comes from the source; a fresh empty container is not a copy of the source's content
			if handled[f.Name()] && !direct[f.Name()] && ctorGivesFreshContainer(fn, f) {
				if r, ok := freshOK[key]; ok {
					c.Pass(key, fn.Pos(), "fresh in the copy by design, tabled: "+r)
				} else {
					c.Fail(key, fn.Pos(), "field "+sp.typ+"."+f.Name()+" is only initialised by the constructor "+fn.Name()+" calls, not filled from the source: the copy starts with an empty "+f.Name()+" where the original has content (for stateObject.originStorage: a pending write equal to the zero value is then skipped and never reaches the trie)")
				}
				continue
			}
			if !handled[f.Name()] {
				c.Fail(key, fn.Pos(), "field "+sp.typ+"."+f.Name()+" is not carried over by "+fn.Name()+": the copy differs from (or depends on) the original")
				continue
			}
			nestedBad := ""
			var nestedPos token.Pos
			for k, p := range shallow {
				if strings.HasPrefix(k, f.Name()+".") {
					if _, ok := sp.shallowOK[k]; !ok {
						nestedBad, nestedPos = k, p
					}
				}
			}
			if nestedBad != "" {
				c.Fail(key, nestedPos, "the struct field "+sp.typ+"."+f.Name()+" is copied by value from the source, which shares the reference "+nestedBad+" inside it: original and copy write into the same backing storage")
				continue
			}
			if p, sh := shallow[f.Name()]; sh {
				if r, ok := sp.shallowOK[f.Name()]; ok {
					c.Pass(key, p, "copied; shared by reference, tabled: "+r)
					continue
				}
				c.Fail(key, p, "reference-typed field "+sp.typ+"."+f.Name()+" is assigned from the source without copying: the copy and the original share it, a write through one shows in the other")
				continue
			}
			c.Pass(key, fn.Pos(), "copied")
		}
	}
	// each field is copied from the SAME field of the source
	for _, sp := range specs {
		fn := w.Fn(sp.pkg, sp.recv, sp.fn)
		T := w.Named(sp.pkg, sp.typ)
		for _, m := range wrongSourceFields(w, fn, T) {
			if _, ex := sp.exclude[m.field]; ex {
				continue
			}
			c.Fail(fname(fn)+"#"+m.field+"-copied-from-"+m.from, m.pos, "field "+sp.typ+"."+m.field+" of the copy is computed from the source's "+m.from+" and not from its "+m.field+": the copy is not equal to the original")
		}
		c.Pass(fname(fn)+"#fields-copied-from-same-field", fn.Pos(), "every directly assigned field that reads the source reads the same field")
	}
	// the elements put into a copied container are copies too
	elemOK := map[string]string{
		"(core/state.StateDB).Copy#elements-of-preimages": "SHA3 preimage bytes are recorded once (AddPreimage copies them) and never edited",
	}
	nElem := 0
	for _, sp := range specs {
		fn := w.Fn(sp.pkg, sp.recv, sp.fn)
		for _, fn2 := range withClosures(fn) {
			for _, se := range sharedElements(fn2) {
				nElem++
				c.sites++
				key := fname(fn) + "#elements-of-" + se.container
				if r, ok := elemOK[key]; ok {
					c.Pass(key, se.pos, "elements shared, tabled: "+r)
					continue
				}
				c.Fail(key, se.pos, "the copy gets a container of its own for "+se.container+" but "+se.how+": the reference-typed elements are shared with the source, and an in-place edit of one (a penalty on a delegation entry, an append to a record's hash list) shows in both states")
			}
		}
		c.Pass(fname(fn)+"#container-elements-copied", fn.Pos(), "no reference-typed element is moved from a source container into the copy's container without being copied")
	}
	// balances are never mutated in place (the Account struct is copied by value)
	c10NoInPlaceBalance(c, w)

	// ------------------------------------------------------------ K6
	c.Rule("C10.K6", "SUPERSET", "StateDB.Copy hands the source's tracking sets on: for every set it ranges over (stateObjectsDirty, stateObjectsPending, validatorObjectsDirty) the copy's set receives the key on every iteration — unconditionally, or, where the mark sits under 'not yet in the copy', every other insertion into the copy's object container carries that mark itself; Commit writes code, delegation lists and storage only for objects marked dirty")
	c.Min(3)
	{
		cp := w.Fn("core/state", "StateDB", "Copy")
		c.sawFunc(fname(cp))
		var cpFns []*ssa.Function
		cpFns = append(cpFns, withSmallHelpers(cp)...)
		for _, ci := range callInstrs(cp) {
			// a tail of Copy split off into a method that takes the copy
			if g := staticCallee(ci); g != nil && g.Pkg != nil && g.Pkg.Pkg.Path() == full("core/state") && g.Signature.Recv() != nil && ownerName(g.Params[0].Type()) == "StateDB" && g != cp {
				dup := false
				for _, x := range cpFns {
					if x == g {
						dup = true
					}
				}
				if !dup && len(g.Blocks) > 0 && len(callArgs(ci)) >= 1 && ownerName(callArgs(ci)[0].Type()) == "StateDB" {
					cpFns = append(cpFns, g)
				}
			}
		}
		type setSpec struct{ set, container string }
		for _, sp := range []setSpec{{"stateObjectsDirty", "stateObjects"}, {"stateObjectsPending", "stateObjects"}, {"validatorObjectsDirty", "validatorObjects"}} {
			setF := w.Field("core/state", "StateDB", sp.set)
			contF := w.Field("core/state", "StateDB", sp.container)
			c.sites++
			key := fname(cp) + "#hands-on-" + sp.set
			found := false
			verdict, why := true, ""
			for _, fn := range cpFns {
				isSrc := func(base ssa.Value) bool {
					return sourceDerived(fn, base) || (fn != cp && base == ssa.Value(fn.Params[0]))
				}
				// marks of the copy's set, insertions into the copy's container
				var marks, inserts []ssa.Instruction
				for _, in := range allInstrs(fn) {
					switch x := in.(type) {
					case *ssa.MapUpdate:
						if f, base := loadedField(stripConv(x.Map)); base != nil && !isSrc(base) {
							if f == setF {
								marks = append(marks, x)
							}
							if f == contF {
								inserts = append(inserts, x)
							}
						}
					case ssa.CallInstruction:
						if o := calleeObj(x); o != nil && o.Name() == "Store" && recvName(o) == "Map" {
							if fa, ok := stripConv(callRecv(x)).(*ssa.FieldAddr); ok && fieldOfAddr(fa) == contF && !isSrc(fa.X) {
								inserts = append(inserts, x)
							}
						}
					}
				}
				for _, site := range mapRanges(fn) {
					f, base := loadedField(stripConv(site.Range.X))
					if f != setF || base == nil || !isSrc(base) {
						continue
					}
					found = true
					// a mark that runs on every iteration: its block dominates every back edge of the loop
					uncond := false
					for _, m := range marks {
						if !site.Loop[m.Block()] {
							continue
						}
						all := true
						for _, p := range site.Header.Preds {
							if site.Loop[p] && !m.Block().Dominates(p) {
								all = false
							}
						}
						if all {
							uncond = true
						}
					}
					if uncond {
						continue
					}
					inLoopMark := false
					for _, m := range marks {
						if site.Loop[m.Block()] {
							inLoopMark = true
						}
					}
					if !inLoopMark {
						verdict, why = false, "the loop over the source's "+sp.set+" never marks the copy"
						continue
					}
					for _, ins := range inserts {
						if site.Loop[ins.Block()] {
							continue
						}
						if !alwaysWith(ins, marks) {
							verdict, why = false, "the copy's "+sp.set+" is marked only for objects the loop copies itself, while "+w.Pos(ins.Pos())+" puts objects into the copy's "+sp.container+" without the mark: an object that was already copied there (after Finalise: by the pending loop) loses it"
						}
					}
				}
			}
			if !found {
				c.Undecided(key, cp.Pos(), "Copy does not range over the source's "+sp.set)
				continue
			}
			c.Check(key, cp.Pos(), verdict, ifelse(verdict, "every key of the source's set ends up in the copy's set", why+"; Commit on the copy then writes neither its code nor its delegation list nor its storage trie, and the reopened state is not the live one"))
		}
	}

	// ------------------------------------------------------------ K7
	c.Rule("C10.K7", "OWNERSHIP", "every opener gets a trie of its own: what (*cachingDB).OpenTrie and CopyTrie hand out is the result of trie.NewSecure or of a Copy() — never an element of the cache of past tries itself. Two states reopened from the same still-cached root would otherwise share one mutable trie: the writes one of them flushes show up in the other, whose IntermediateRoot no longer returns the roots it was opened from")
	c.Min(3)
	{
		nRet := 0
		for _, name := range []string{"OpenTrie", "CopyTrie", "OpenStorageTrie"} {
			fn := w.FnOpt(statePkg, "cachingDB", name)
			if fn == nil {
				continue
			}
			c.sawFunc(fname(fn))
			k := 0
			for _, b := range fn.Blocks {
				r, ok := b.Instrs[len(b.Instrs)-1].(*ssa.Return)
				if !ok || b == fn.Recover || len(r.Results) == 0 {
					continue
				}
				res := stripConv(r.Results[0])
				if isNilConst(res) {
					continue
				}
				// the trie inside the returned value
				var leaves []ssa.Value
				var collect func(v ssa.Value, d int)
				collect = func(v ssa.Value, d int) {
					v = stripConv(v)
					if d > 6 {
						return
					}
					switch x := v.(type) {
					case *ssa.MakeInterface:
						collect(x.X, d+1)
					case *ssa.UnOp:
						if al, isAl := x.X.(*ssa.Alloc); isAl && x.Op == token.MUL {
							// a result spilled for the deferred calls: the value stored last in the same block (else every store)
							var direct []ssa.Value
							for _, rr := range *al.Referrers() {
								if st, isSt := rr.(*ssa.Store); isSt && st.Addr == ssa.Value(al) {
									if st.Block() == x.Block() {
										direct = []ssa.Value{st.Val}
										break
									}
									direct = append(direct, st.Val)
								}
							}
							if len(direct) > 0 {
								for _, dv := range direct {
									if !isNilConst(stripConv(dv)) {
										collect(dv, d+1)
									}
								}
								return
							}
							// a struct literal: its pointer-typed fields
							any := false
							for _, rr := range *al.Referrers() {
								if fa, isFA := rr.(*ssa.FieldAddr); isFA {
									for _, r3 := range *fa.Referrers() {
										if st, isSt := r3.(*ssa.Store); isSt && st.Addr == ssa.Value(fa) {
											if _, isPtr := st.Val.Type().Underlying().(*types.Pointer); isPtr && ownerName(st.Val.Type()) == "SecureTrie" {
												leaves = append(leaves, st.Val)
												any = true
											}
										}
									}
								}
							}
							if !any {
								leaves = append(leaves, v)
							}
							return
						}
						leaves = append(leaves, v)
					case *ssa.Phi:
						for _, e := range x.Edges {
							collect(e, d+1)
						}
					default:
						leaves = append(leaves, v)
					}
				}
				collect(res, 0)
				for _, lf := range leaves {
					nRet++
					c.sites++
					lv := stripConv(lf)
					fresh := false
					if cc, isCall := lv.(*ssa.Call); isCall {
						if o := calleeObj(cc); o != nil && (o.Name() == "Copy" || o.Name() == "NewSecure" || o.Name() == "New") {
							fresh = true
						}
					}
					if ex, isEx := lv.(*ssa.Extract); isEx {
						if cc, isCall := ex.Tuple.(*ssa.Call); isCall {
							if o := calleeObj(cc); o != nil && (o.Name() == "NewSecure" || o.Name() == "New") {
								fresh = true
							}
						}
					}
					c.Check(fmt.Sprintf("%s#hands-out-a-trie-of-its-own-%d", fname(fn), k), r.Pos(), fresh, ifelse(fresh, "result of NewSecure / Copy()", "the trie handed out is "+termOf(lv, 3)+", not a new trie or a copy: several states opened from the same cached root share one mutable trie"))
					k++
				}
			}
		}
		if nRet == 0 {
			c.Undecided(statePkg+".cachingDB#trie-openers", token.NoPos, "no trie-returning method of cachingDB found")
		}
	}

	// ------------------------------------------------------------ K8
	c.Rule("C10.K8", "GATE", "the storage root an account is encoded with covers everything written to it: (*stateObject).updateRoot stores data.Root = trie.Hash() on every path, except paths on which the slots were first finalised (finalise / updateTrie called) — emptiness of the pending area says nothing before the dirty slots have been moved into it. A copy taken in the middle of a transaction has un-finalised writes; skipping on an empty pending area encodes the account with its old storage root")
	c.Min(1)
	{
		ur := w.Fn(statePkg, "stateObject", "updateRoot")
		c.sawFunc(fname(ur))
		acctRoot := w.Field(statePkg, "Account", "Root")
		var rootStores, finals []ssa.Instruction
		for _, fw := range fieldWrites(ur) {
			if fw.Field == acctRoot {
				rootStores = append(rootStores, fw.Instr)
			}
		}
		for _, ci := range callInstrs(ur) {
			if o := calleeObj(ci); o != nil && (o.Name() == "finalise" || o.Name() == "updateTrie") {
				finals = append(finals, ci.(ssa.Instruction))
			}
		}
		n, bad := 0, 0
		for _, b := range ur.Blocks {
			r, ok := b.Instrs[len(b.Instrs)-1].(*ssa.Return)
			if !ok || b == ur.Recover {
				continue
			}
			n++
			c.sites++
			if mustPassBefore(r, rootStores) || mustPassBefore(r, finals) {
				continue
			}
			bad++
		}
		c.Check(fname(ur)+"#root-recomputed-unless-finalised-and-empty", ur.Pos(), n > 0 && bad == 0 && len(rootStores) > 0, ifelse(n > 0 && bad == 0 && len(rootStores) > 0, "every return follows the Root store or a finalisation", fmt.Sprintf("%d of %d returns of updateRoot skip the recomputation of the storage root without the dirty slots having been finalised first", bad, n)))
	}

	// ------------------------------------------------------------ K9
	c.Rule("C10.K9", "GATE+ALWAYS-WITH", "a removed validator is gone from the live state as it is from a reopened one: a record that was deleted stays in the object map, flagged deleted; (a) GetValidators puts a record into the set only after testing that flag, and (b) every function of core/state that sets Validator.deleted = true also drops the cached sorted set (validatorsSorted) on the same paths. Otherwise the live object lists a validator that a state reopened from the same roots does not — and a state carried across blocks (side-chain verification) distributes rewards to it and deletes it twice (the offline count wraps below zero)")
	c.Min(3)
	{
		deletedF := w.Field(statePkg, "Validator", "deleted")
		sortedF := w.Field(statePkg, "StateDB", "validatorsSorted")
		gv := w.Fn(statePkg, "StateDB", "GetValidators")
		c.sawFunc(fname(gv))
		// (a) appends inside GetValidators (and its Range callback)
		nApp := 0
		for _, fn := range withClosures(gv) {
			for _, b := range fn.Blocks {
				for _, in := range b.Instrs {
					call, ok := in.(*ssa.Call)
					if !ok {
						continue
					}
					bi, isB := call.Call.Value.(*ssa.Builtin)
					if !isB || bi.Name() != "append" {
						continue
					}
					if ownerName(deref(sliceElem(call.Type()))) != "Validator" {
						continue
					}
					nApp++
					c.sites++
					tested := false
					for _, a := range atomsOf(factsAt(b)) {
						if a.Kind == "true" && !a.Truth {
							if f, _ := loadedField(stripConv(a.X)); f == deletedF {
								tested = true
							}
						}
					}
					c.Check(fmt.Sprintf("%s#lists-only-live-records-%d", fname(gv), nApp), call.Pos(), tested, ifelse(tested, "appended under deleted == false", "GetValidators collects every object of the map, also records flagged deleted: the live state lists a validator that was removed (and that a reopened state does not have)"))
				}
			}
		}
		if nApp == 0 {
			c.Undecided(fname(gv)+"#lists-only-live-records", gv.Pos(), "no append of validator records found in GetValidators")
		}
		// (b) the flag is raised together with dropping the cache
		nFlag := 0
		for _, fn := range w.FuncsIn(statePkg) {
			if fn.Blocks == nil || strings.HasSuffix(w.fileOf(fn.Pos()), "_test.go") {
				continue
			}
			var drops []ssa.Instruction
			for _, fw := range fieldWrites(fn) {
				if fw.Field == sortedF {
					drops = append(drops, fw.Instr)
				}
			}
			for _, fw := range fieldWrites(fn) {
				if fw.Field != deletedF {
					continue
				}
				st, ok := fw.Instr.(*ssa.Store)
				if !ok {
					continue
				}
				if cv, isC := st.Val.(*ssa.Const); !isC || cv.Value == nil || cv.Value.String() != "true" {
					continue
				}
				nFlag++
				c.sites++
				c.sawFunc(fname(fn))
				ok2 := alwaysWith(st, drops)
				c.Check(fmt.Sprintf("%s#deleted-flag-with-cache-drop-%d", fname(fn), nFlag), st.Pos(), ok2, ifelse(ok2, "validatorsSorted is dropped on the same paths", "a record is flagged deleted while the cached sorted set may still contain it: GetValidators keeps answering with the removed validator"))
			}
		}
		if nFlag == 0 {
			c.Undecided(statePkg+"#deleted-flag-stores", token.NoPos, "no store of Validator.deleted = true found")
		}
	}

	// ------------------------------------------------------------ K5
	c.Rule("C10.K5", "ALWAYS-WITH", "stateObject.updateTrie records in originStorage every value it flushes to the storage trie — update or delete — before the trie write, with the same key and value: the live object's idea of the committed value must equal what a reopened state reads")
	c.Min(2)
	ut := w.Fn("core/state", "stateObject", "updateTrie")
	c.sawFunc(fname(ut))
	originF := w.Field("core/state", "stateObject", "originStorage")
	var originUpd []*ssa.MapUpdate
	for _, fw := range fieldWrites(ut) {
		if fw.Field == originF && fw.Kind == "mapupdate" {
			originUpd = append(originUpd, fw.Instr.(*ssa.MapUpdate))
		}
	}
	nTrie := 0
	for _, ci := range callInstrs(ut) {
		o := calleeObj(ci)
		if o == nil || (o.Name() != "TryUpdate" && o.Name() != "TryDelete") {
			continue
		}
		nTrie++
		c.sites++
		ok := false
		for _, mu := range originUpd {
			if instrDominates(mu, ci) && inLoop(mu) {
				ok = true
			}
		}
		c.Check(fmt.Sprintf("%s#%s-after-origin-update", fname(ut), o.Name()), ci.Pos(), ok, ifelse(ok, "originStorage[key] = value dominates the trie write", "a slot is written to (or deleted from) the storage trie without the origin cache being updated first: the live object keeps reading the old committed value, later writes of that value are dropped as no-ops, and the root depends on where the flush happened"))
	}
	if nTrie < 2 {
		c.Undecided(fname(ut)+"#trie-writes", ut.Pos(), "updateTrie no longer has both TryUpdate and TryDelete")
	}

	// ------------------------------------------------------------ K2
	c.Rule("C10.K2", "EXHAUSTIVE", "every Trie-typed field of StateDB is opened by New, copied by Copy (CopyTrie of the same field), hashed by IntermediateRoot and committed by Commit")
	c.Min(3)
	sdb := w.Struct("core/state", "StateDB")
	trieT := w.Named("core/state", "Trie")
	newFn := w.Fn("core/state", "", "New")
	cp := w.Fn("core/state", "StateDB", "Copy")
	ir := w.Fn("core/state", "StateDB", "IntermediateRoot")
	cm := w.Fn("core/state", "StateDB", "Commit")
	for i := 0; i < sdb.NumFields(); i++ {
		f := sdb.Field(i)
		if !types.Identical(f.Type(), trieT) {
			continue
		}
		c.sites++
		opened := false
		for _, fw := range fieldWrites(newFn) {
			if fw.Field == f {
				opened = true
			}
		}
		copied := false
		for _, fw := range fieldWrites(cp) {
			if fw.Field == f {
				if cc, ok := stripConv(fw.Instr.(*ssa.Store).Val).(*ssa.Call); ok && calleeObj(cc) != nil && calleeObj(cc).Name() == "CopyTrie" {
					if sf, _ := loadedField(stripConv(callArgs(cc)[0])); sf == f {
						copied = true
					}
				}
			}
		}
		hashed := methodOnField(ir, f, "Hash")
		committed := methodOnField(cm, f, "Commit")
		ok := opened && copied && hashed && committed
		c.Check("core/state.StateDB."+f.Name(), f.Pos(), ok, ifelse(ok, "opened, copied, hashed and committed", fmt.Sprintf("trie field %s is not treated like the others (opened=%v copied=%v hashed=%v committed=%v)", f.Name(), opened, copied, hashed, committed)))
	}

	// ------------------------------------------------------------ K4
	c.Rule("C10.K4", "EXHAUSTIVE", "the leaf callback of Commit references, and the state-sync leaf callback schedules, every separately stored blob an account names: Root, CodeHash, DelegationsHash")
	c.Min(2)
	acct := w.Struct("core/state", "Account")
	var blobFields []string
	for i := 0; i < acct.NumFields(); i++ {
		n := acct.Field(i).Name()
		if n == "Root" || strings.HasSuffix(n, "Hash") {
			blobFields = append(blobFields, n)
		}
	}
	checkLeaf := func(what string, fns []*ssa.Function, sink []string) {
		got := map[string]bool{}
		for _, fn := range fns {
			for _, ci := range callInstrs(fn) {
				o := calleeObj(ci)
				if o == nil {
					continue
				}
				isSink := false
				for _, s := range sink {
					if o.Name() == s {
						isSink = true
					}
				}
				if !isSink {
					continue
				}
				for _, a := range ci.Common().Args {
					backward(a, func(v ssa.Value) bool {
						if f, _ := loadedField(v); f != nil && ownerOfField(acct, f) {
							got[f.Name()] = true
						}
						return true
					})
				}
			}
		}
		var missing []string
		for _, f := range blobFields {
			if !got[f] {
				missing = append(missing, f)
			}
		}
		sort.Strings(missing)
		c.Check(what, fns[0].Pos(), len(missing) == 0, ifelse(len(missing) == 0, "covers "+strings.Join(blobFields, ", "), "the blob(s) named by Account."+strings.Join(missing, ", Account.")+" are not covered: garbage collection drops them / a synced state lacks them"))
	}
	checkLeaf("(core/state.StateDB).Commit#leaf-references", withClosures(cm), []string{"Reference"})
	syncFn := w.Fn("core/state", "", "NewStateSync")
	checkLeaf("core/state.NewStateSync#leaf-schedules", withClosures(syncFn), []string{"AddSubTrie", "AddRawEntry"})
	c10RoundE(c, c.W)
}

func methodOnField(fn *ssa.Function, f *types.Var, method string) bool {
	for _, ci := range callInstrs(fn) {
		o := calleeObj(ci)
		if o == nil || o.Name() != method {
			continue
		}
		r := callRecvAny(ci)
		if r == nil {
			continue
		}
		if sf, _ := loadedField(stripConv(r)); sf == f {
			return true
		}
	}
	return false
}

// c10NoInPlaceBalance: no mutating big.Int method has as receiver the pointer
// held in Account.Balance / Account.DelegationBalance or handed out by the
// balance getters.
func c10NoInPlaceBalance(c *Ctx, w *World) {
	bal := w.Field("core/state", "Account", "Balance")
	dbal := w.Field("core/state", "Account", "DelegationBalance")
	mutators := map[string]bool{"Add": true, "Sub": true, "Mul": true, "Div": true, "Mod": true, "Quo": true, "Rem": true, "QuoRem": true, "DivMod": true, "Set": true, "SetUint64": true, "SetInt64": true, "SetBytes": true, "SetString": true, "SetBit": true, "SetBits": true, "Neg": true, "Abs": true, "Lsh": true, "Rsh": true, "Exp": true, "And": true, "Or": true, "Xor": true, "Not": true, "Sqrt": true, "ModInverse": true, "GCD": true}
	isBalanceSource := func(v ssa.Value) string {
		v = stripConv(v)
		if f, _ := loadedField(v); f == bal || f == dbal {
			return "Account." + f.Name()
		}
		if cc, ok := v.(*ssa.Call); ok {
			if o := calleeObj(cc); o != nil {
				switch o.Name() {
				case "Balance", "GetBalance", "DelegationBalance", "GetDelegationBalance":
					if recvName(o) == "stateObject" || recvName(o) == "StateDB" {
						return "the result of " + recvName(o) + "." + o.Name() + "()"
					}
				}
			}
		}
		return ""
	}
	n := 0
	for _, fn := range w.AllFuncs() {
		if strings.HasSuffix(w.fileOf(fn.Pos()), "_test.go") {
			continue
		}
		for _, ci := range callInstrs(fn) {
			o := calleeObj(ci)
			if o == nil || recvName(o) != "Int" || o.Pkg() == nil || o.Pkg().Path() != "math/big" || !mutators[o.Name()] {
				continue
			}
			r := callRecv(ci)
			if r == nil {
				continue
			}
			n++
			src := ""
			// direct, or through a phi / local variable
			backward(r, func(v ssa.Value) bool {
				if s := isBalanceSource(v); s != "" {
					src = s
					return false
				}
				switch v.(type) {
				case *ssa.Phi:
					return true
				}
				return v == r
			})
			if src != "" {
				c.Fail(outerName(fname(fn))+"#in-place-balance", ci.Pos(), "big.Int."+o.Name()+" mutates "+src+" in place: copies of the state (and journal pre-images) share that pointer and change with it")
			}
		}
	}
	c.sites += n
	c.Pass("balance-pointers-immutable", 0, fmt.Sprintf("%d mutating big.Int calls inspected; none has a shared balance pointer as receiver", n))
}

func c10Variants() []Variant {
	return []Variant{
		{Name: "copy-without-refund", File: "core/state/statedb.go", Old: "		refund:           st.refund,\n", New: "", Rule: "C10.K1", Construct: "Copy#refund"},
		{Name: "copy-without-pending-relationships", File: "core/state/statedb.go", Old: "		pendingRelats:       st.pendingRelats.DeepCopy(),\n", New: "		pendingRelats:       st.pendingRelats,\n", Rule: "C10.K1", Construct: "Copy#pendingRelats"},
		{Name: "deepcopy-drops-dirty-flag", File: "core/state/state_object.go", Old: "	stateObject.dirtyDlgs = so.dirtyDlgs\n", New: "", Rule: "C10.K1", Construct: "deepCopy#dirtyDlgs"},
		{Name: "suicided-from-deleted", File: "core/state/state_object.go", Old: "	stateObject.suicided = so.suicided\n", New: "	stateObject.suicided = so.deleted\n", Rule: "C10.K1", Construct: "suicided-copied-from-deleted"},
		{Name: "in-place-balance", File: "core/state/state_object.go", Old: "	so.SetBalance(new(big.Int).Sub(so.Balance(), amount))", New: "	so.SetBalance(so.Balance().Sub(so.Balance(), amount))", Rule: "C10.K1", Construct: "in-place-balance"},
		{Name: "staking-trie-not-committed", File: "core/state/statedb.go", Old: "	stakingRoot, err = st.stakingTrie.Commit(nil)\n", New: "	stakingRoot = st.stakingTrie.Hash()\n", Rule: "C10.K2", Construct: "stakingTrie"},
		{Name: "delegations-blob-not-referenced", File: "core/state/statedb.go", Old: "			st.db.TrieDB().Reference(dhash, parent)\n", New: "			_ = dhash\n", Rule: "C10.K4", Construct: "leaf-references"},
		{Name: "flush-decrements-again", File: "core/state/statedb_val.go", Old: "	if counted {\n		st.decrValidatorsStat(val)\n	}\n", New: "	_ = counted\n	st.decrValidatorsStat(val)\n", Rule: "C10.K12", Construct: "deleteValidator"},
	}
}

type wrongSource struct {
	field, from string
	pos         token.Pos
}

// wrongSourceFields: for every field f of T that fn assigns on the copy — by a
// store, by new.f.Set(x), or through a constructor parameter that the
// constructor stores into f — the source fields of T that the assigned value
// reads (other than through len/cap) must include f itself.
func wrongSourceFields(w *World, fn *ssa.Function, T *types.Named) []wrongSource {
	st := T.Underlying().(*types.Struct)
	isT := func(t types.Type) bool {
		if p, ok := t.Underlying().(*types.Pointer); ok {
			t = p.Elem()
		}
		return types.Identical(t, T)
	}
	srcFields := func(v ssa.Value) map[string]bool {
		out := map[string]bool{}
		seen := map[ssa.Value]bool{}
		var walk func(v ssa.Value)
		walk = func(v ssa.Value) {
			if v == nil || seen[v] {
				return
			}
			seen[v] = true
			if cc, ok := v.(*ssa.Call); ok {
				if b, isB := cc.Call.Value.(*ssa.Builtin); isB && (b.Name() == "len" || b.Name() == "cap") {
					return
				}
			}
			if f, base := loadedField(v); f != nil && ownerOfField(st, f) && sourceDerived(fn, base) {
				out[f.Name()] = true
				return
			}
			if fa, ok := v.(*ssa.FieldAddr); ok && ownerOfField(st, fieldOfAddr(fa)) && sourceDerived(fn, fa.X) {
				out[fieldOfAddr(fa).Name()] = true
				return
			}
			if fv, ok := v.(*ssa.Field); ok {
				if f := structField(fv.X.Type(), fv.Field); f != nil && ownerOfField(st, f) && sourceDerived(fn, fv.X) {
					out[f.Name()] = true
					return
				}
			}
			if in, ok := v.(ssa.Instruction); ok {
				for _, op := range in.Operands(nil) {
					if op != nil && *op != nil {
						walk(*op)
					}
				}
			}
		}
		walk(v)
		return out
	}
	var out []wrongSource
	judge := func(field string, val ssa.Value, pos token.Pos) {
		got := srcFields(val)
		if len(got) == 0 || got[field] {
			return
		}
		var from []string
		for k := range got {
			from = append(from, k)
		}
		sort.Strings(from)
		out = append(out, wrongSource{field, strings.Join(from, "+"), pos})
	}
	judgeAll := func(field string, vals []ssa.Value, pos token.Pos) {
		got := map[string]bool{}
		for _, v := range vals {
			for k := range srcFields(v) {
				got[k] = true
			}
		}
		if len(got) == 0 || got[field] {
			return
		}
		var from []string
		for k := range got {
			from = append(from, k)
		}
		sort.Strings(from)
		out = append(out, wrongSource{field, strings.Join(from, "+"), pos})
	}
	direct := map[string]bool{}
	for _, b := range fn.Blocks {
		for _, in := range b.Instrs {
			switch x := in.(type) {
			case *ssa.Store:
				if fa, ok := x.Addr.(*ssa.FieldAddr); ok && isT(fa.X.Type()) && !sourceDerived(fn, fa.X) {
					f := fieldOfAddr(fa)
					if ownerOfField(st, f) {
						direct[f.Name()] = true
						judge(f.Name(), x.Val, x.Pos())
					}
				}
			case *ssa.Call:
				// new.f.Set(x)
				if o := calleeObj(x); o != nil && (o.Name() == "Set" || o.Name() == "Store") {
					if r := callRecv(x); r != nil {
						if f, base := loadedField(stripConv(r)); f != nil && ownerOfField(st, f) && isT(base.Type()) && !sourceDerived(fn, base) {
							direct[f.Name()] = true
							judgeAll(f.Name(), callArgs(x), x.Pos())
						}
						if fa, ok := r.(*ssa.FieldAddr); ok && ownerOfField(st, fieldOfAddr(fa)) && isT(fa.X.Type()) && !sourceDerived(fn, fa.X) {
							direct[fieldOfAddr(fa).Name()] = true
							judgeAll(fieldOfAddr(fa).Name(), callArgs(x), x.Pos())
						}
					}
				}
			}
		}
	}
	// constructor parameters
	for _, ci := range callInstrs(fn) {
		callee := ci.Common().StaticCallee()
		if callee == nil || callee.Blocks == nil || callee.Signature.Recv() != nil {
			continue
		}
		res := callee.Signature.Results()
		if res.Len() < 1 || !isT(res.At(0).Type()) {
			continue
		}
		for _, b := range callee.Blocks {
			for _, in := range b.Instrs {
				stt, ok := in.(*ssa.Store)
				if !ok {
					continue
				}
				fa, ok := stt.Addr.(*ssa.FieldAddr)
				if !ok || !isT(fa.X.Type()) || !ownerOfField(st, fieldOfAddr(fa)) {
					continue
				}
				f := fieldOfAddr(fa).Name()
				if direct[f] {
					continue // overridden in the copy function itself
				}
				// which parameter does the stored value come from?
				for i, p := range callee.Params {
					if derivesFrom(stt.Val, func(v ssa.Value) bool { return v == ssa.Value(p) }) || callChainMentionsValue(stt.Val, func(v ssa.Value) bool { return v == ssa.Value(p) }) {
						if i < len(ci.Common().Args) {
							judge(f, ci.Common().Args[i], ci.Pos())
						}
					}
				}
			}
		}
	}
	return out
}

// ctorGivesFreshContainer: f is a map or slice field and a function fn calls
// (a constructor) stores a freshly made empty container into it.
func ctorGivesFreshContainer(fn *ssa.Function, f *types.Var) bool {
	switch f.Type().Underlying().(type) {
	case *types.Map, *types.Slice:
	default:
		return false
	}
	for _, ci := range callInstrs(fn) {
		g := staticCallee(ci)
		if g == nil || g.Blocks == nil {
			continue
		}
		for _, b := range g.Blocks {
			for _, in := range b.Instrs {
				st, ok := in.(*ssa.Store)
				if !ok {
					continue
				}
				fa, ok := st.Addr.(*ssa.FieldAddr)
				if !ok || fieldOfAddr(fa) != f {
					continue
				}
				switch stripConv(st.Val).(type) {
				case *ssa.MakeMap, *ssa.MakeSlice:
					return true
				}
			}
		}
	}
	return false
}

func sliceElem(t types.Type) types.Type {
	if sl, ok := t.Underlying().(*types.Slice); ok {
		return sl.Elem()
	}
	return t
}

// c10RoundE: K10 (= C08.V10 under C10) and K11 (tries are persistent: writes go to fresh copies).
func c10RoundE(c *Ctx, w *World) {
	c.Rule("C10.K10", "ALWAYS-WITH", "reopening yields the same validators: the set a reopened state lists is the stored address index, so every write of a validator record into the validator trie is on the same paths as validatorIndex.Add of that address (and every removal with Delete). GetValidators reloads the in-memory index from the trie, dropping validators created since the last flush; the Add beside the record write is what puts them back — without it the record and the statistics are committed and the index lacks the validator (shared with C08.V10)")
	c.Min(1)
	recordAndIndexTogether(c, w)

	c.Rule("C10.K12", "ONCE", "the statistics a reopened state reads are those of the validators it lists: a removal is counted once — RemoveValidator already takes the record out of the statistics and marks it deleted, so the flush (deleteValidator, which IntermediateRoot calls for marked records) decrements only if the record was not marked before (its decrValidatorsStat call depends on the previous value of the deleted flag). Otherwise create A, B; commit; RemoveValidator(B); commit; reopen: one validator, statistics count 0 — and removing A wraps the count to 2^64−2")
	c.Min(1)
	{
		rm, _, del, rmDecr, _, rmFlag, _, delGuarded := removalEffects(w)
		c.sawFunc(fname(rm))
		c.sawFunc(fname(del))
		c.sites++
		ok := !(rmDecr && rmFlag) || delGuarded
		c.Check(fname(del)+"#decrement-once-per-removal", del.Pos(), ok, ifelse(ok, "the flush decrements only for a record that was not already removed from the statistics", "RemoveValidator decrements the statistics and marks the record, and deleteValidator decrements again for every marked record: a committed removal is counted twice"))
	}

	c.Rule("C10.K11", "OWNERSHIP", "a copy of a state is independent of the original: SecureTrie.Copy shares all nodes and relies on strict copy-on-write, so in the trie's insert and delete every store into a field of a branch or extension node (Children[i], Key, Val, flags) goes to a node this call made — the result of copy() or a new literal on every path, never the node it was handed. Skipping the copy for a node that is merely dirty (hashed by IntermediateRoot but not yet committed) edits a node shared with a copy taken in between: writes to the copy move the original's roots")
	c.Min(6)
	{
		fullT, shortT := w.Named("trie", "fullNode"), w.Named("trie", "shortNode")
		for _, name := range []string{"insert", "delete"} {
			fn := w.Fn("trie", "Trie", name)
			c.sawFunc(fname(fn))
			k := 0
			for _, fwr := range fieldWrites(fn) {
				if fwr.Base == nil {
					continue
				}
				bt := deref(fwr.Base.Type())
				if !types.Identical(bt, fullT) && !types.Identical(bt, shortT) {
					continue
				}
				c.sites++
				bad := ""
				seen := map[ssa.Value]bool{}
				var fresh func(v ssa.Value) bool
				fresh = func(v ssa.Value) bool {
					v = stripConvNoBind(v)
					if seen[v] {
						return true
					}
					seen[v] = true
					switch x := v.(type) {
					case *ssa.Alloc:
						return true
					case *ssa.Phi:
						for _, e := range x.Edges {
							if !fresh(e) {
								return false
							}
						}
						return true
					case *ssa.Call:
						if o := calleeObj(x); o != nil && o.Name() == "copy" {
							return true
						}
					case *ssa.FieldAddr:
						return fresh(x.X)
					case *ssa.IndexAddr:
						return fresh(x.X)
					}
					bad = v.Name()
					if v.Pos().IsValid() {
						bad += " (" + w.Pos(v.Pos()) + ")"
					}
					return false
				}
				ok := fresh(fwr.Base)
				c.Check(fmt.Sprintf("%s#node-write-%d-to-own-copy", fname(fn), k), fwr.Instr.Pos(), ok, ifelse(ok, "the written node is a copy() result or a new node on every path", "a field of a trie node is written although the node may be the one handed in ("+bad+"), not a copy: the node is shared with every copy of the trie taken since it was created"))
				k++
			}
		}
	}
}

#!/usr/bin/env python3
"""Regenerates /verif/MANIFEST.json from the table below (kept next to the checks)."""
import json, os
ALL = ["C%02d" % i for i in range(1, 21)]

# id -> (level text, level note, technique)
CLAIMED = {
 "C13": ("Map semantics, canonical roots, iteration order, reference counting and proof soundness are value properties and are NOT decided. Decided (package trie): (T1) persistent-structure discipline — every store to fullNode.Children[i], shortNode.Key, shortNode.Val writes into a node created in the same function (literal, new, copy()), never a parameter, type-asserted input or loaded node, because nodes are shared with copied tries and the node cache; (T2) in insert/delete every content store on a copied node goes with flags = t.newFlag() on that node on the same paths; (T3) Commit hashes with the database before bumping cachegen, hashRoot hashes t.root.",
         "Trusted: go/types + go/ssa; copy() returns a fresh shallow copy.",
         "ownership analysis of node stores (base-value provenance) + always-with pairing of dirty flags"),
 "C15": ("Opcode arithmetic, dynamic gas and memory/storage read-back are value properties and are NOT decided. Decided (core/vm): (X1) the Istanbul jump table, evaluated from the syntax of the layered constructors, equals the checker's EVM reference table for handler, arity, constant gas of all computational opcodes, arity of all opcodes, and the exact writes-flag set; (X2) every non-closure handler changes the stack height by pushes-pops on every nil-error path and touches no item deeper than its pops (dataflow over the handler CFG); (X3) integer-pool typestate: values put are owned, off-stack, unused afterwards and put once, values pushed are owned (never a state/contract/context *big.Int); (X4) range-escaping big.Int results that stay on the stack pass math.U256.",
         "Trusted: go/types + go/ssa + the reference table in ycheck/rules_c15.go (EVM specification, Istanbul); big.Int methods return their receiver.",
         "abstract evaluation of the jump-table constructors, stack-height dataflow, alias-class typestate for the integer pool"),
 "C16": ("Equality of dumps and total-balance arithmetic are value properties and are NOT decided. Decided (core/vm, core): (F1) per frame function the snapshot dominates every frame mutation, every path from run with a possibly non-nil error passes RevertToSnapshot of that snapshot and burns gas unless errExecutionReverted, early refusals return the gas unchanged, leftover is contract.Gas; (F2) StaticCall runs read-only, the interpreter refuses writes and CALL-with-value before execute when read-only, readOnly is cleared only by the frame that set it; (F3) balances move only in Transfer (debit = credit) and opSuicide (credit with Suicide), transfers dominated by CanTransfer on the same sender/value; (F4) Contract.Gas grows only by callee leftovers.",
         "Trusted: go/types + go/ssa; RevertToSnapshot restores (C09); jump-table writes flags (C15.X1).",
         "dominance and all-paths analyses on the five frame functions, write-protection gate in the interpreter loop, balance-movement confinement"),
 "C11": ("Crash-point enumeration and post-restart equivalence are history properties and are NOT decided. Decided (package core): (H1) in WriteBlockWithState the head moves only after WriteBlock, state.Commit==nil, TrieDB().Commit for all three roots returned by that commit, and batch.Write==nil; canonical hash before head marker; (H2) tabled writers of the persistent canonical/head markers and tabled callers of insert/updateHeadBlock/WriteBlockWithState; (H3) in insertChain the write is dominated by the header-verification receive, Process==nil, ValidateState==nil, and every feasible path (path-sensitive enumeration within one iteration) from the receive to Process passes ValidateBody or the dead ErrUnknownParentState case; (H4) side chains written only after verifyAllSideChainBlocks==nil, whose checks cannot fail into a nil return.",
         "Trusted: go/types + go/ssa; rawdb writers durable when they return.",
         "dominance gates on write ordering, value-flow of the three roots, who-may-call confinement, path-sensitive enumeration of one loop iteration, failure-edge reachability"),
 "C08": ("That maintained totals equal a recomputation is a value property and is NOT decided. Decided (core/state, staking, consensus/ucon): (V1) tabled writers of the live validator map and statistics, UpdateValidator/CreateValidator adjust statistics with the right records under !StakeEqual, undo entries apply the opposite adjustment; (V2) every validator field the statistics read is compared by StakeEqual; (V3) every in-place change of a Stake/SelfStake amount derives from params.YOUToStake or is a tabled copy/decoder/aggregate; (V4) UpdateDelegation updates validator and delegator sides together, UpdateDelegator updates list and balance together; (V5) sortition reads GetStakeByKind.",
         "Trusted: go/types + go/ssa; tables in ycheck/rules_c08.go.",
         "who-may-call confinement, do/undo mirror with argument identity, field-read exhaustiveness, provenance of stake operands"),
 "C07": ("The conservation sum is arithmetic over histories and is NOT decided. Decided structural pairing clauses (staking, core, core/state): (P1) no validator value is used twice on a path as the pre-image of a replacement, directly or through callees summarised as replacing a parameter (typestate stale-after-replace); (P2) teDeposit/teDelegationAdd on every return credited, refunded the value to the sender, or run pre-V5, and both handler registries cover the same actions; (P3) a withdrawal is paid under Finished==0, marked finished, amount = FinalBalance; (P4) every balance mutation outside EVM/state is a tabled site with counterpart, subsidy debit enters the total, gas priced with one GasPrice.",
         "Trusted: go/types + go/ssa; tables in ycheck/rules_c07.go; integer residues are the reward code's business.",
         "typestate (stale-after-replace) with bottom-up parameter summaries, all-paths-pass-edge exit analysis, confinement inventory"),
 "C10": ("Decides structural necessary conditions of copy/commit exactness (core/state, core/types): (K1) 13 copy functions initialise every field of their type on the copy or the field is a tabled exclusion, reference-typed fields are not shared by plain assignment unless tabled, and no mutating big.Int method has a shared balance pointer as receiver; (K2) every Trie field of StateDB is opened, copied via CopyTrie, hashed and committed; (K4) Commit references and state sync schedules Root, CodeHash, DelegationsHash. K3 (order-free flush) is decided by C06.N1/C14.E3. Reopen equality as values is not decided.",
         "Trusted: go/types + go/ssa; exclusion tables in ycheck/rules_c10.go.",
         "field-coverage analysis of copy functions over SSA (constructor-following), shallow-share detection, receiver provenance of big.Int mutators"),
 "C14": ("Round-trip equality and accept-implies-canonical are value properties and are NOT decided. Decided (all packages with custom codecs, package rlp): (E1) positional agreement of list-literal encoders with struct decoders; (E2) every field an encoder reads (all rlp-visible fields for carrier structs) is restored by the decoder; (E3) no EncodeRLP depends on map iteration order; (E5) allocations sized by decoded lengths are dominated by a successful Kind(), Kind bounds sizes by remaining input, unlimited streams outside rlp are tabled.",
         "Trusted: go/types + go/ssa; reflection codecs of package rlp are positional and skip unexported / rlp:\"-\" fields.",
         "sibling codec comparison over SSA (element/field descriptors), map-order classifier, dominance gates in package rlp, confinement of unlimited streams"),
 "C06": ("Decides structural necessary conditions of deterministic execution over the ~1000 repository functions reachable from block execution in the VTA call graph: (N1) every map range there is order-free by a closed idiom list (no early non-error exit, no log emission, appended slices sorted or only logged before use), reviewed exceptions tabled; (N2) chain head, wall clock, random sources and environment are read only to be logged (forward slice to logging sinks); (N3) builder and importer call the same ApplyTransaction/EndBlock, isSeal only selects slashing/replaySlashing, ValidateState compares all commitments; (N4) goroutines under execution are tabled. It does not decide equality of two runs as values.",
         "Trusted: go/types + go/ssa + callgraph/vta of x/tools v0.29.0 (over-approximating calls between repository functions); logging is a sink.",
         "whole-program reachability (VTA call graph) + map-iteration order-sensitivity classifier + forward taint slices to logging sinks"),
 "C12": ("Extracts the decision table of core.VerifyYouVersionState by enumerating every feasible path of its SSA form (phis resolved per path) and decides on the accepting paths: (W1) each of the five upgrade fields of the new header is pinned by an equality or two-sided bound in every case (switch, failed, on-going, new, none); (W2) an approval is added only with round < NextVoteBefore; (W3) builder and verifier agree on the field set, InsertChain verifies before importing, the version in force is read protocolRoundBack rounds back. It does not decide chain-level invariants as reachability, nor builder-accepted as values.",
         "Trusted: go/types + go/ssa; the path enumeration is exhaustive for this loop-free function (budget 20000 paths, exceeded = undecided).",
         "exhaustive path enumeration of a loop-free verifier (decision-table extraction) + atom coverage rules"),
 "C20": ("Decides structural necessary conditions of pool consistency on package core: (L1) a must-hold lock-set dataflow with requires-lock propagation over the package call graph shows every access to the nine guarded TxPool indexes happens under TxPool.mu and no exported method or goroutine entry needs the lock on entry; txLookup is self-locking; (L2) all.Add/priced.Put and all.Remove/priced.Removed pairing, disposal of transactions taken out of account lists; (L3) insertions dominated by validateTx==nil; (L4) the miner consumes Pending(). It does not decide the nonce-gap/affordability invariants as data.",
         "Trusted: go/types + go/ssa; closures passed as arguments run synchronously; aliasing of distinct TxPool instances ignored (methods act on their receiver).",
         "lock-set (must-hold) dataflow + requires-lock propagation, always-with pairing, dominance gates"),
 "C05": ("Decides structural necessary conditions of sound double-sign slashing on staking and consensus/ucon: (D1) the penalty is dominated by a comparison of two entries' block hashes; (D2) every entry's signature is verified under the key of GetByIndex(SignerIdx), the loop covers the whole list and a failed check cannot reach the penalty or the signer cache; (D3) once per validator per block, parent round only; (D4) builder and validator run processEvidences with a parent height derived from the processed header; (D5) amount = tokens x configured fraction / 100, credited to PenaltyTo, amounts taken = amounts accumulated; (D6) the signed payload identifies the vote kind (open finding F8). It does not decide the arithmetic of the proportional split.",
         "Trusted: go/types + go/ssa; BLS Verify sound; tables in ycheck/rules_c05.go. One open known finding (F8).",
         "SSA dominance gates with control-dependence slices, failure-edge reachability, provenance of penalty amount and parent height"),
 "C01": ("Decides structural necessary conditions of header acceptance on every path of the verifier (consensus/ucon, core/types): (R1) thresholds reaching VrfVerifySortition/VrfVerifyPriority/OverThreshold derive from protocol parameters, never from header-carried consensus data; (R2) non-nil/kind/online tests dominate counting a vote and accepting the proposer; (R3) every accepting return of verifyVotes passed the quorum test on an accumulator that only grows by the seat count of a successful sortition check, once per signer, plus the aggregate signature over hash|round|index; (R4) every accepting return of verifyConsensusFieldMain and its wrappers passed priority, precommit and certificate checks; (R5) the block hash excludes only Validator/Signature/Certificate and the quorum fractions are 0.685/0.585. It does not decide the soundness of BLS/VRF or the arithmetic of choose().",
         "Trusted: go/types + go/ssa, the anchor tables in ycheck/rules_c01.go; VRF/BLS primitives assumed to meet their contracts.",
         "SSA dominance gates, return-path (EXIT) analysis with edge facts, backward provenance slices, access-path identity"),
 "C02": ("Decides structural necessary conditions of vote-once on consensus/ucon: (S1) the vote is gossiped only on the nil edge of UpdateVoteData, which succeeds only after alreadyVoted==false, db.Put==nil and the mark increment; (S2) the validator's key fields reach a signing call only in six tabled functions and the vote signers have one caller each; (S3) every vote kind passed to vote() is replayed by NewVoteDB (two records for NextIndex); (S4) mark resets go with round/roundIndex assignments; (S5) once-only latches are set on the nil edge of vote. It does not decide crash histories as such.",
         "Trusted: go/types + go/ssa; Database.Put durable on nil; tables in ycheck/rules_c02.go.",
         "SSA dominance gates, key-use confinement by provenance of signing operands, constant-set exhaustiveness, always-with pairing"),
 "C03": ("Decides structural necessary conditions of quorum-driven escalation on consensus/ucon: (Q1) every escalation in judgeVoteCount is dominated by OverThreshold on its own (count, threshold) and has no other caller; (Q2) newVote in processVoteMsg is dominated by signature, sender-match, stake-lookup, sortition and not-yet-voted gates, stores the verified weight, and judgeVoteCount consumes exactly that vote's total; (Q3) the installed verifiers return nil only on a successful VRF verification; (Q4) equivocator weight is removed with the flag and weight is added once per address; (Q5) the vote payload layout agrees at the signing, verifying and slashing sites; (Q6) live thresholds derive from protocol parameters. It does not decide event interleavings.",
         "Trusted: go/types + go/ssa; Voter methods run under Voter.lock from the event loop; tables in ycheck/rules_c03.go.",
         "SSA dominance gates with boolean-flag expansion, EXIT analysis with callee summaries, sibling payload-shape comparison, provenance"),
 "C09": ("Decides structural necessary conditions of snapshot/revert exactness on every path of core/state: (J1) every instruction changing revertable state is journaled on the same paths or lies in a revert/lifecycle/raw-setter function, with raw setters checked at each call site; (J2) the undo entry appended restores every key the operation changes and mirrors its statistics effect; (J3) the two journals and their revision lists are assigned together and truncated with an index searched in the same list. It does not decide equality of observables before/after a revert as values.",
         "Trusted: go/types + go/ssa (x/tools v0.29.0), the field classification and lifecycle tables in ycheck/rules_c09.go. A violated rule is a concrete construct (file:line, function, field).",
         "SSA dataflow: journal/write pairing (dominance + path reachability), do/undo effect mirror, twin-list provenance of truncation indexes"),
}
NA_REASON = {}

def main():
    checks = []
    for pid in ALL:
        if pid not in CLAIMED:
            continue
        text, note, tech = CLAIMED[pid]
        checks.append({
            "property_id": pid,
            "quick_cmd": "./check.sh %s quick" % pid,
            "thorough_cmd": "./check.sh %s thorough" % pid,
            "evidence_file": "evidence/%s.json" % pid,
            "replay_cmd_template": "./bin/ycheck -replay {path}",
            "engine": "ycheck",
            "level_claimed": {"category": "other", "text": text, "design_ref": "DESIGN.md §4 " + pid},
            "level_note": note,
            "technique": "static analysis: " + tech,
        })
    na = [{"property_id": p, "reason": NA_REASON.get(p, "no static rule for this property is armed in this revision of the checker (see DESIGN.md §4 for the planned structural clauses); nothing is claimed")} for p in ALL if p not in CLAIMED]
    m = {
        "version": 1,
        "setup_cmd": "./setup.sh",
        "hooks": {"guard": "verif", "enable": "none needed: the checks analyse source and never build /repo with hooks", "baseline_off_cmd": json.load(open("/root/.vp/BASELINE.json"))["cmd"], "source_commits": [], "add_only": True},
        "engines": [{"name": "ycheck", "path": "ycheck/", "serves_properties": sorted(CLAIMED), "kind_free_text": "repository-specific static analyser over go/packages + go/ssa (golang.org/x/tools v0.29.0): dominance/path gates, journal pairing, effect mirrors, confinement, exhaustiveness; nothing from /repo is executed"}],
        "checks": checks,
        "not_applicable": na,
        "notes": "All checks are static analysis of /repo's current working tree (level 'other': structural necessary conditions, see DESIGN.md). Exit 0 = every obligation discharged or a listed known finding; exit 1 + VIOLATION line = a construct violates a rule; exit 2 = undecided (anchor does not resolve / tree does not type-check), no verdict. Known findings: known_findings.json.",
    }
    json.dump(m, open(os.path.join(os.path.dirname(os.path.abspath(__file__)), "MANIFEST.json"), "w"), indent=1)
    print("claimed", sorted(CLAIMED), "na", len(na))

if __name__ == "__main__":
    main()

package main

import (
	"fmt"
	"go/constant"
	"go/token"
	"go/types"
	"strings"

	"golang.org/x/tools/go/ssa"
)

// C19 — state/trie sync reproduces the source exactly or reports incompleteness.

func init() {
	register(&propDef{
		ID:          "C19",
		Explanation: "Content equality after completion, schedules and interruption points are not decided. Decided (structure, SSA of trie, core/state, you/downloader): trie.Sync.Process does not hash what it is given, so every non-test caller must key each result by the Keccak-256 of exactly the data it carries — today one site, which resets, writes the blob, and sums into the result's Hash before calling Process (Z1); a request is committed only when it is a raw entry or has no scheduled children and no outstanding dependencies, dependencies are counted before the children are scheduled, and a parent is committed from its child only when its count reaches zero (Z2); Commit writes the membatch in completion order (the order slice), not in map order, so a parent never reaches the database before its children (Z3); in the downloader every task of a request that was not delivered is put back into the retry set (Z5); the state-sync leaf callback schedules every blob an account names (Z4, decided with C10.K4).",
		Assumptions: []string{"Keccak-256 is collision resistant", "youdb writes happen in call order"},
		Run:         runC19,
		Variants:    c19Variants,
	})
}

func runC19(c *Ctx) {
	w := c.W
	proc := w.Fn("trie", "Sync", "Process")
	procObj := proc.Object().(*types.Func)

	// ------------------------------------------------------------ Z1
	c.Rule("C19.Z1", "PROVENANCE", "every non-test call of (*trie.Sync).Process passes results whose Hash was produced by a Keccak hasher that was reset, fed exactly the result's Data, and summed into that Hash field, in this order")
	c.Min(1)
	nCallers := 0
	for _, fn := range w.AllFuncs() {
		if strings.HasSuffix(w.fileOf(fn.Pos()), "_test.go") {
			continue
		}
		for _, ci := range callsTo(fn, procObj) {
			nCallers++
			c.sites++
			c.sawFunc(fname(fn))
			ok, why := keyedByOwnHash(fn, ci)
			c.Check(outerName(fname(fn))+"#results-keyed-by-keccak", ci.Pos(), ok, ifelse(ok, "Reset → Write(data) → Sum(result.Hash[:0]) → Process", why+": data that does not hash to what was requested is accepted into the trie database"))
		}
	}
	if nCallers == 0 {
		c.Undecided("trie.Sync.Process#callers", 0, "no production caller of Process found")
	}

	// ------------------------------------------------------------ Z2
	c.Rule("C19.Z2", "GATE", "in Process a request is committed only if raw, or if it has no scheduled children and deps == 0, and deps is raised by the number of children before they are scheduled; in commit a parent is committed only when its decremented deps reaches zero")
	c.Min(4)
	c.sawFunc(fname(proc))
	commit := w.Fn("trie", "Sync", "commit")
	commitObj := commit.Object().(*types.Func)
	depsF := w.Field("trie", "request", "deps")
	rawF := w.Field("trie", "request", "raw")
	for i, ci := range callsTo(proc, commitObj) {
		c.sites++
		atoms := atomsOf(factsAtInstr(ci))
		isRaw, noKids, noDeps := false, false, false
		for _, a := range atoms {
			if a.Kind == "true" && a.Truth {
				if f, _ := loadedField(stripConv(a.X)); f == rawF {
					isRaw = true
				}
			}
			if a.Kind == "eq" && a.Truth {
				if n, isC := constInt(a.Y); isC && n == 0 {
					if f, _ := loadedField(stripConv(a.X)); f == depsF {
						noDeps = true
					}
					if cc, ok := stripConv(a.X).(*ssa.Call); ok {
						if b, ok := cc.Call.Value.(*ssa.Builtin); ok && b.Name() == "len" {
							noKids = true
						}
					}
				}
			}
		}
		ok := isRaw || (noKids && noDeps)
		c.Check(fmt.Sprintf("%s#commit-%d", fname(proc), i), ci.Pos(), ok, ifelse(ok, ifelse(isRaw, "raw entry", "no scheduled children and deps == 0"), fmt.Sprintf("a node is committed while children or dependencies are outstanding (no-children=%v deps==0=%v): the database presents a partially filled trie as complete", noKids, noDeps)))
	}
	// deps += len(requests) before scheduling
	sched := w.FuncObj("trie", "Sync", "schedule")
	var depsAdd ssa.Instruction
	for _, fw := range fieldWrites(proc) {
		if fw.Field == depsF {
			if bo, ok := fw.Instr.(*ssa.Store).Val.(*ssa.BinOp); ok && bo.Op == token.ADD {
				depsAdd = fw.Instr
			}
		}
	}
	okDeps := depsAdd != nil
	for _, ci := range callsTo(proc, sched) {
		if depsAdd == nil || !instrDominates(depsAdd, ci) {
			okDeps = false
		}
	}
	c.Check(fname(proc)+"#deps-counted-before-scheduling", proc.Pos(), okDeps, ifelse(okDeps, "deps += len(children) dominates scheduling them", "children are scheduled without (or before) being counted as dependencies: the parent can be committed by its first child"))
	c.sawFunc(fname(commit))
	for i, ci := range callsTo(commit, commitObj) {
		c.sites++
		zero, dec := false, false
		for _, a := range atomsOf(factsAtInstr(ci)) {
			if a.Kind == "eq" && a.Truth {
				if n, isC := constInt(a.Y); isC && n == 0 {
					if f, _ := loadedField(stripConv(a.X)); f == depsF {
						zero = true
					}
					if bo, ok := stripConv(a.X).(*ssa.BinOp); ok && bo.Op == token.SUB {
						zero, dec = true, true
					}
				}
			}
		}
		for _, fw := range fieldWrites(commit) {
			if fw.Field == depsF && instrDominates(fw.Instr, ci) {
				if bo, ok := fw.Instr.(*ssa.Store).Val.(*ssa.BinOp); ok && bo.Op == token.SUB {
					dec = true
				}
			}
		}
		c.Check(fmt.Sprintf("%s#parent-commit-%d", fname(commit), i), ci.Pos(), zero && dec, ifelse(zero && dec, "parent committed only when its decremented deps is zero", "a parent is committed before all its children"))
	}

	// ------------------------------------------------------------ Z3
	c.Rule("C19.Z3", "MAP-ORDER", "(*Sync).Commit writes the membatch by iterating the order slice (no map iteration), and commit appends to order together with the batch entry")
	c.Min(2)
	cm := w.Fn("trie", "Sync", "Commit")
	c.sawFunc(fname(cm))
	orderF := w.Field("trie", "syncMemBatch", "order")
	batchF := w.Field("trie", "syncMemBatch", "batch")
	noMap := len(mapRanges(cm)) == 0
	usesOrder := false
	for _, b := range cm.Blocks {
		for _, in := range b.Instrs {
			if v := valueOf(in); v != nil {
				if f, _ := loadedField(v); f == orderF {
					usesOrder = true
				}
			}
		}
	}
	putInLoop := false
	for _, ci := range callInstrs(cm) {
		if o := calleeObj(ci); o != nil && o.Name() == "Put" && inLoop(ci) {
			putInLoop = true
		}
	}
	c.Check(fname(cm)+"#writes-in-completion-order", cm.Pos(), noMap && usesOrder && putInLoop, ifelse(noMap && usesOrder, "iterates membatch.order", "Commit iterates the batch map: nodes reach the database in random order and an interrupted write leaves parents without children"))
	// the order list and the batch map describe the same set of nodes until the whole batch was written: Commit
	// does not take single entries out of either (a failed Put leaves everything for the retry), it replaces
	// the membatch as a whole, and only on the path on which every Put returned nil
	{
		piecemeal := ""
		for _, fn := range w.FuncsIn("trie") {
			if strings.HasSuffix(w.fileOf(fn.Pos()), "_test.go") || !strings.HasSuffix(w.fileOf(fn.Pos()), "trie/sync.go") {
				continue
			}
			for _, fw := range fieldWrites(fn) {
				if fw.Field == batchF && fw.Kind == "delete" {
					piecemeal = "deletes single entries from membatch.batch at " + w.Pos(fw.Instr.Pos())
				}
				if fw.Field == orderF && fn == cm {
					piecemeal = "rewrites membatch.order at " + w.Pos(fw.Instr.Pos())
				}
			}
		}
		c.sites++
		resetOK := false
		membatchF := w.Field("trie", "Sync", "membatch")
		for _, fw := range fieldWrites(cm) {
			if fw.Field == membatchF && fw.Kind == "store" {
				// on the path to this store every Put of the loop returned nil: the store is not inside the loop and
				// the only way out of the loop other than the error return is its normal end
				if !inLoop(fw.Instr) {
					resetOK = true
				}
			}
		}
		okC := piecemeal == "" && resetOK
		c.Check(fname(cm)+"#batch-dropped-only-as-a-whole", cm.Pos(), okC, ifelse(okC, "no entry leaves the batch before all were written; the membatch is replaced after the loop", "Commit "+ifelse(piecemeal != "", piecemeal, "does not replace the membatch after the write loop")+": after a failed Put the nodes already written are gone from the map but still in the order list, the retry writes empty values over good nodes, and the sync reports completion on a damaged trie"))
	}
	var ordApp, batchUpd ssa.Instruction
	for _, fw := range fieldWrites(commit) {
		if fw.Field == orderF {
			ordApp = fw.Instr
		}
		if fw.Field == batchF && fw.Kind == "mapupdate" {
			batchUpd = fw.Instr
		}
	}
	okPair := ordApp != nil && batchUpd != nil && alwaysWith(batchUpd, []ssa.Instruction{ordApp})
	c.Check(fname(commit)+"#order-with-batch", commit.Pos(), okPair, ifelse(okPair, "batch entry and order entry are added together", "a node enters the batch without an order entry (it is never written) or the reverse"))

	// ------------------------------------------------------------ Z5
	c.Rule("C19.Z5", "ALWAYS-WITH", "in the downloader's (*trieSync).process every task of the request that was not delivered is put back into the retry set, and processNodeData is the only way data reaches the scheduler")
	c.Min(1)
	tp := w.Fn(dlPkg, "trieSync", "process")
	c.sawFunc(fname(tp))
	tasksF := w.Field(dlPkg, "trieSync", "tasks")
	putBack := false
	for _, s := range mapRanges(tp) {
		if f, _ := loadedField(s.Range.X); f != nil && f.Name() == "tasks" && ownerName(fieldBaseType(s.Range.X)) == "trieReq" {
			for lb := range s.Loop {
				for _, in := range lb.Instrs {
					if mu, ok := in.(*ssa.MapUpdate); ok {
						if mf, _ := loadedField(mu.Map); mf == tasksF {
							putBack = true
						}
					}
				}
			}
		}
	}
	c.sites++
	c.Check(fname(tp)+"#undelivered-tasks-requeued", tp.Pos(), putBack, ifelse(putBack, "remaining request tasks are written back into s.tasks", "tasks of a request that were not delivered are dropped: those nodes are never requested again and the sync never completes (or completes without them)"))

	// ------------------------------------------------------------ Z6
	c.Rule("C19.Z6", "DECISION", "(*Sync).children leaves a child reference out of the requests it returns — so that the parent does not wait for it — only if the child is embedded (not a hash reference), is in the memory batch, or is in the database; every other reference becomes a request whose parents list holds the parent (schedule de-duplicates and links it)")
	c.Min(2)
	{
		ch := w.Fn("trie", "Sync", "children")
		c.sawFunc(fname(ch))
		var ta *ssa.TypeAssert
		for _, in := range allInstrs(ch) {
			if t, ok := in.(*ssa.TypeAssert); ok && t.CommaOk && ownerName(t.AssertedType) == "hashNode" {
				ta = t
			}
		}
		var appendBlocks = map[*ssa.BasicBlock]bool{}
		reqT := w.Named("trie", "request")
		for _, ci := range callInstrs(ch) {
			if bi, ok := ci.Common().Value.(*ssa.Builtin); ok && bi.Name() == "append" {
				if sl, ok := ci.Common().Args[0].Type().Underlying().(*types.Slice); ok {
					if pt, ok := sl.Elem().(*types.Pointer); ok && types.Identical(pt.Elem(), reqT) {
						appendBlocks[ci.Block()] = true
					}
				}
			}
		}
		if ta == nil || len(appendBlocks) == 0 {
			c.Undecided(fname(ch)+"#skip-reasons", ch.Pos(), "the hash-reference test or the request append was not found")
		} else {
			// loop header: the innermost loop containing the type assertion
			var header *ssa.BasicBlock
			for _, b := range ch.Blocks {
				if isLoopHeader(b) && naturalLoop(b)[ta.Block()] {
					if header == nil || naturalLoop(header)[b] {
						header = b
					}
				}
			}
			nSkip, bad := 0, 0
			var badWhy string
			ok := header != nil && pathsBetween(ch, ta.Block(), header, 5000, func(blocks []*ssa.BasicBlock, facts []Fact) {
				for _, b := range blocks {
					if appendBlocks[b] {
						return
					}
				}
				nSkip++
				allowed := false
				for _, a := range atomsOf(facts) {
					if a.Kind != "true" {
						continue
					}
					ex, isEx := stripConv(a.X).(*ssa.Extract)
					if !isEx {
						continue
					}
					switch t := ex.Tuple.(type) {
					case *ssa.TypeAssert:
						if t == ta && !a.Truth {
							allowed = true // embedded child
						}
					case *ssa.Lookup:
						if f, _ := loadedField(stripConv(t.X)); f != nil && f.Name() == "batch" && fieldOwner(w, f) == "syncMemBatch" && a.Truth {
							allowed = true
						}
					case *ssa.Call:
						if o := calleeObj(t); o != nil && o.Name() == "Has" && a.Truth && ex.Index == 0 {
							if f, _ := loadedField(stripConv(callRecv(t))); f != nil && f.Name() == "database" {
								allowed = true
							}
						}
					}
				}
				if !allowed {
					bad++
					badWhy = "a path skips a hash reference that is neither in the memory batch nor in the database"
				}
			})
			c.sites += nSkip
			if !ok {
				c.Undecided(fname(ch)+"#skip-reasons", ch.Pos(), "the per-child paths could not be enumerated")
			} else {
				c.Check(fname(ch)+"#skip-reasons", ch.Pos(), bad == 0 && nSkip >= 3, ifelse(bad == 0 && nSkip >= 3, fmt.Sprintf("all %d paths that leave a child out have established: embedded, in the memory batch, or in the database", nSkip), fmt.Sprintf("%d of %d paths leave a child out for another reason (%s): the parent is not linked to the outstanding child, is committed while that sub-trie is missing, and after an interruption a later sync takes the stored parent as proof that everything below it is present", bad, nSkip, badWhy)))
			}
			// the request carries its parent
			parentsF := w.Field("trie", "request", "parents")
			linked := false
			for _, fw := range fieldWrites(ch) {
				if fw.Field == parentsF {
					if derivesFrom(fw.Instr.(*ssa.Store).Val, func(v ssa.Value) bool { return v == ssa.Value(ch.Params[1]) }) {
						linked = true
					}
				}
			}
			c.sites++
			c.Check(fname(ch)+"#request-names-parent", ch.Pos(), linked, ifelse(linked, "each new request lists the parent request", "new child requests do not list their parent: the parent is never completed"))
		}
	}

	// ------------------------------------------------------------ Z8
	c.Rule("C19.Z8", "DECISION", "(*Sync).schedule never loses a dependency edge: when a request for the hash is already pending it appends the new request's parents to that request; otherwise it puts the request into the requests map and the queue, on every path; (*Sync).Process refuses a result that was not requested or was already processed before it touches the request, and stores the data in the request before children are computed")
	c.Min(3)
	{
		sch := w.Fn("trie", "Sync", "schedule")
		c.sawFunc(fname(sch))
		parentsF := w.Field("trie", "request", "parents")
		requestsF := w.Field("trie", "Sync", "requests")
		nDup, nNew, bad := 0, 0, ""
		okEnum := enumPaths(sch, 200, func(pr PathResult) {
			found := false
			var lk *ssa.Lookup
			for _, a := range atomsOf(pr.Facts) {
				if a.Kind != "true" {
					continue
				}
				if ex, ok := stripConv(a.X).(*ssa.Extract); ok {
					if l, ok := ex.Tuple.(*ssa.Lookup); ok {
						if f, _ := loadedField(stripConv(l.X)); f == requestsF {
							found, lk = a.Truth, l
						}
					}
				}
			}
			if lk == nil {
				bad = "a path does not look the hash up in the requests map"
				return
			}
			linked, inserted, queued := false, false, false
			for _, fw := range fieldWrites(sch) {
				if !pr.Blocks[fw.Instr.Block()] {
					continue
				}
				if fw.Field == parentsF && fw.Kind == "store" {
					// old.parents = append(old.parents, req.parents...)
					if cc, ok := stripConv(fw.Instr.(*ssa.Store).Val).(*ssa.Call); ok {
						if bi, ok := cc.Call.Value.(*ssa.Builtin); ok && bi.Name() == "append" && len(cc.Call.Args) == 2 {
							f0, _ := loadedField(stripConv(cc.Call.Args[0]))
							f1, b1 := loadedField(stripConv(cc.Call.Args[1]))
							if f0 == parentsF && f1 == parentsF && b1 == ssa.Value(sch.Params[1]) {
								linked = true
							}
						}
					}
				}
				if fw.Field == requestsF && fw.Kind == "mapupdate" {
					if stripConv(fw.Instr.(*ssa.MapUpdate).Value) == ssa.Value(sch.Params[1]) {
						inserted = true
					}
				}
			}
			for _, ci := range callInstrs(sch) {
				if o := calleeObj(ci); o != nil && o.Name() == "Push" && pr.Blocks[ci.Block()] {
					queued = true
				}
			}
			if found {
				nDup++
				if !linked {
					bad = "a request that is already pending does not receive the new request's parents: the second parent is committed without waiting for the shared child"
				}
			} else {
				nNew++
				if !(inserted && queued) {
					bad = "a new request is not put into both the requests map and the queue"
				}
			}
		})
		c.sites += nDup + nNew
		c.Check(fname(sch)+"#keeps-dependency-edges", sch.Pos(), okEnum && bad == "" && nDup > 0 && nNew > 0, ifelse(okEnum && bad == "" && nDup > 0 && nNew > 0, "pending: parents appended; new: inserted and queued", ifelse(bad != "", bad, "the paths of schedule could not be enumerated")))
		// Process: refuse before touching
		pr := w.Fn("trie", "Sync", "Process")
		c.sawFunc(fname(pr))
		dataF := w.Field("trie", "request", "data")
		chObj := w.FuncObj("trie", "Sync", "children")
		var dataStores []ssa.Instruction
		for _, fw := range fieldWrites(pr) {
			if fw.Field == dataF {
				dataStores = append(dataStores, fw.Instr)
			}
		}
		okGate := len(dataStores) > 0
		for _, st := range dataStores {
			c.sites++
			nonNilReq, freshData := false, false
			for _, a := range atomsOf(factsAtInstr(st)) {
				if a.Kind != "isnil" {
					continue
				}
				if lk, ok := stripConv(a.X).(*ssa.Lookup); ok && !a.Truth {
					if f, _ := loadedField(stripConv(lk.X)); f == requestsF {
						nonNilReq = true
					}
				}
				if f, _ := loadedField(stripConv(a.X)); f == dataF && a.Truth {
					freshData = true
				}
			}
			if !nonNilReq || !freshData {
				okGate = false
			}
		}
		c.Check(fname(pr)+"#refuses-unrequested-and-processed", pr.Pos(), okGate, ifelse(okGate, "every store of result data is dominated by request != nil and request.data == nil", "result data is stored into a request without the not-requested / already-processed tests: a duplicate delivery re-opens a committed node's children, an unrequested one is dereferenced"))
		okOrder := false
		for _, cc := range callsTo(pr, chObj) {
			c.sites++
			for _, st := range dataStores {
				if instrDominates(st, cc) {
					okOrder = true
				}
			}
		}
		c.Check(fname(pr)+"#data-before-children", pr.Pos(), okOrder, ifelse(okOrder, "request.data is set before its children are computed and scheduled", "children are scheduled for a request whose data is not stored yet: when the last child completes, the parent is committed with empty data"))
	}

	// ------------------------------------------------------------ Z7
	c.Rule("C19.Z7", "EXIT", "the error of the final forced flush in (*trieSync).loop — the deferred commit(true), which writes the root — reaches the function's result: the deferred closure stores it into the result variable, and every return reads that variable after the deferred calls ran; Wait() hands out exactly that error")
	c.Min(2)
	{
		lp := w.Fn(dlPkg, "trieSync", "loop")
		c.sawFunc(fname(lp))
		commitObj := w.FuncObj(dlPkg, "trieSync", "commit")
		// the deferred closure that calls commit and stores its error through a captured variable
		var slot *ssa.Alloc
		for _, in := range allInstrs(lp) {
			d, ok := in.(*ssa.Defer)
			if !ok {
				continue
			}
			mc, ok := d.Call.Value.(*ssa.MakeClosure)
			if !ok {
				continue
			}
			cl := mc.Fn.(*ssa.Function)
			cc := callsTo(cl, commitObj)
			if len(cc) == 0 {
				continue
			}
			for i, fv := range cl.FreeVars {
				for _, r := range *fv.Referrers() {
					if st, ok := r.(*ssa.Store); ok && st.Addr == ssa.Value(fv) && derivesFrom(st.Val, func(v ssa.Value) bool { return v == cc[0].Value() }) {
						if a, ok := mc.Bindings[i].(*ssa.Alloc); ok {
							slot = a
						}
					}
				}
			}
		}
		c.sites++
		if slot == nil {
			c.Fail(fname(lp)+"#final-flush-error-stored", lp.Pos(), "no deferred call stores the error of commit(true) into a variable of loop: a failed final batch write is lost")
		} else {
			c.Pass(fname(lp)+"#final-flush-error-stored", slot.Pos(), "the deferred closure stores commit's error into a captured variable")
			nRet, bad := 0, 0
			for _, b := range lp.Blocks {
				r, ok := b.Instrs[len(b.Instrs)-1].(*ssa.Return)
				if !ok || b == lp.Recover {
					continue
				}
				nRet++
				// the result is loaded from the slot after RunDefers in this block
				good := false
				if u, isU := r.Results[0].(*ssa.UnOp); isU && u.X == ssa.Value(slot) && u.Block() == b {
					for i := instrIndex(u) - 1; i >= 0; i-- {
						if _, isRD := b.Instrs[i].(*ssa.RunDefers); isRD {
							good = true
						}
					}
				}
				if !good {
					bad++
				}
			}
			c.sites += nRet
			c.Check(fname(lp)+"#returns-read-result-after-defers", lp.Pos(), bad == 0 && nRet > 0, ifelse(bad == 0 && nRet > 0, fmt.Sprintf("all %d returns read the variable the deferred flush writes, after the deferred calls ran", nRet), fmt.Sprintf("%d of %d returns take their value before the deferred final flush runs (the result is not the variable the closure writes): a failed write of the last batch — the one holding the root — is reported as success, and the caller records the sync as done", bad, nRet)))
		}
	}
	// ------------------------------------------------------------ Z9
	c.Rule("C19.Z9", "DECISION", "AddSubTrie and AddRawEntry return without scheduling the entry — so that the referring parent does not wait for it — only if the entry is the empty one, is in the memory batch, or is in the database; an entry that is merely requested already still gets the new parent as a dependant (schedule merges the parents), otherwise the parent is committed before the entry arrives and an interrupted sync leaves a node whose code / sub-trie is missing")
	c.Min(2)
	{
		batchF := w.Field("trie", "syncMemBatch", "batch")
		dbF := w.Field("trie", "Sync", "database")
		decode := w.FuncObj("trie", "", "decodeNode")
		sched := w.FuncObj("trie", "Sync", "schedule")
		onDB := func(v ssa.Value) bool {
			return derivesFrom(v, func(x ssa.Value) bool {
				cc, ok := x.(*ssa.Call)
				if !ok {
					return false
				}
				r := callRecv(cc)
				if r == nil {
					return false
				}
				f, _ := loadedField(stripConv(r))
				return f == dbF
			})
		}
		var present func(a Atom) string
		// a boolean helper all of whose ways of answering true establish presence
		helperPresent := func(call *ssa.Call) bool {
			g := call.Call.StaticCallee()
			if !isSmallHelper(g) || g.Signature.Results().Len() != 1 || !isBoolType(g.Signature.Results().At(0).Type()) {
				return false
			}
			enterHelper(call)
			nTrue, bad := 0, 0
			okEnum := enumPaths(g, 256, func(pr PathResult) {
				rv := pr.Resolve(pr.Ret.Results[0])
				facts := pr.Facts
				if cv, isC := rv.(*ssa.Const); isC && cv.Value != nil && cv.Value.Kind() == constant.Bool {
					if !constant.BoolVal(cv.Value) {
						return
					}
				} else {
					facts = append(append([]Fact(nil), facts...), Fact{Cond: rv, Truth: true})
				}
				nTrue++
				found := false
				for _, a := range atomsOf(facts) {
					if present(a) != "" {
						found = true
					}
				}
				if !found {
					bad++
				}
			})
			return okEnum && nTrue > 0 && bad == 0
		}
		present = func(a Atom) string {
			x := stripConv(a.X)
			if a.Kind == "true" && a.Truth {
				if cc, ok := x.(*ssa.Call); ok && helperPresent(cc) {
					return "present (decided by a helper)"
				}
			}
			switch a.Kind {
			case "eq":
				if !a.Truth || a.Y == nil {
					return ""
				}
				for _, v := range []ssa.Value{stripConv(a.X), stripConv(a.Y)} {
					if u, ok := v.(*ssa.UnOp); ok && u.Op == token.MUL {
						if g, isG := u.X.(*ssa.Global); isG && strings.HasPrefix(g.Name(), "empty") {
							return "empty"
						}
					}
				}
			case "true":
				if !a.Truth {
					return ""
				}
				if ex, ok := x.(*ssa.Extract); ok {
					if lk, isLk := ex.Tuple.(*ssa.Lookup); isLk && ex.Index == 1 {
						if f, _ := loadedField(stripConv(lk.X)); f == batchF {
							return "in the memory batch"
						}
					}
					if cc, isCall := ex.Tuple.(*ssa.Call); isCall && onDB(cc) {
						return "in the database"
					}
				}
				if cc, ok := x.(*ssa.Call); ok && onDB(cc) {
					return "in the database"
				}
			case "isnil":
				if a.Truth {
					return ""
				}
				if ex, ok := x.(*ssa.Extract); ok {
					if cc, isCall := ex.Tuple.(*ssa.Call); isCall && sameFunc(calleeObj(cc), decode) {
						if args := callArgs(cc); len(args) > 1 && onDB(args[1]) {
							return "decodes from the database"
						}
					}
				}
			}
			return ""
		}
		for _, name := range []string{"AddSubTrie", "AddRawEntry"} {
			fn := w.Fn("trie", "Sync", name)
			c.sawFunc(fname(fn))
			scs := callsTo(fn, sched)
			if len(scs) == 0 {
				c.Undecided(fname(fn)+"#unscheduled-only-if-present", fn.Pos(), "no call of schedule found")
				continue
			}
			schedBlocks := map[*ssa.BasicBlock]bool{}
			for _, sc := range scs {
				schedBlocks[sc.Block()] = true
			}
			nEarly, bad := 0, 0
			badAt := ""
			okEnum := enumPaths(fn, 4096, func(pr PathResult) {
				for b := range pr.Blocks {
					if schedBlocks[b] {
						return
					}
				}
				nEarly++
				why := ""
				for _, a := range atomsOf(pr.Facts) {
					if w := present(a); w != "" {
						why = w
					}
				}
				if why == "" {
					bad++
					badAt = w.Pos(pr.Ret.Pos())
				}
			})
			c.sites += nEarly
			if !okEnum {
				c.Undecided(fname(fn)+"#unscheduled-only-if-present", fn.Pos(), "paths could not be enumerated")
				continue
			}
			c.Check(fname(fn)+"#unscheduled-only-if-present", fn.Pos(), bad == 0 && nEarly > 0, ifelse(bad == 0 && nEarly > 0, fmt.Sprintf("all %d returns without scheduling established that the entry is empty, in the memory batch or in the database", nEarly), fmt.Sprintf("%d of %d returns without scheduling (e.g. %s) are taken although the entry is neither empty nor stored: the referring parent gets no dependency on it and is committed before the entry arrives", bad, nEarly, badAt)))
		}
	}
	// ------------------------------------------------------------ Z10
	c.Rule("C19.Z10", "DECISION", "a request for a trie node is never absorbed by a request for a raw blob of the same hash: (*Sync).schedule merges a new request into a pending one (it only hands its parents on) solely on paths that compared the kinds of the two requests (request.raw) — a raw entry is stored as is and its children are never scheduled. With contract B's code equal to the RLP of contract A's storage root node, A's sub-trie request is merged into B's code request, Pending() reaches 0 and all of A's storage is missing")
	c.Min(1)
	{
		sch := w.Fn("trie", "Sync", "schedule")
		c.sawFunc(fname(sch))
		rawF := w.Field("trie", "request", "raw")
		reqsF := w.Field("trie", "Sync", "requests")
		upd := map[*ssa.BasicBlock]bool{}
		for _, fw := range fieldWrites(sch) {
			if fw.Field == reqsF && fw.Kind == "mapupdate" {
				upd[fw.Instr.Block()] = true
			}
		}
		nMerge, bad := 0, 0
		okEnum := enumPaths(sch, 4096, func(pr PathResult) {
			for b := range pr.Blocks {
				if upd[b] {
					return
				}
			}
			nMerge++
			kinds := false
			for _, f := range pr.Facts {
				if derivesFrom(f.Cond, func(v ssa.Value) bool {
					lf, _ := loadedField(v)
					return lf == rawF
				}) {
					kinds = true
				}
			}
			if !kinds {
				bad++
			}
		})
		c.sites += nMerge
		if !okEnum || len(upd) == 0 {
			c.Undecided(fname(sch)+"#merge-only-same-kind", sch.Pos(), "the paths of schedule could not be enumerated or the insertion into requests was not found")
		} else {
			c.Check(fname(sch)+"#merge-only-same-kind", sch.Pos(), bad == 0, ifelse(bad == 0, fmt.Sprintf("all %d merging paths compared request.raw", nMerge), fmt.Sprintf("%d of %d paths merge the new request into a pending one of the same hash without comparing their kinds: a sub-trie request merged into a pending code request is answered as a raw entry, its children are never scheduled, and the sync reports completion with the sub-trie missing", bad, nMerge)))
		}
	}
}

func fieldBaseType(v ssa.Value) types.Type {
	_, base := loadedField(v)
	if base == nil {
		return types.Typ[types.Invalid]
	}
	return base.Type()
}

// keyedByOwnHash: the single result handed to Process at ci was hashed from its own data.
func keyedByOwnHash(fn *ssa.Function, ci ssa.CallInstruction) (bool, string) {
	// find the SyncResult allocation(s) stored into the slice argument
	var res *ssa.Alloc
	backward(callArgs(ci)[0], func(v ssa.Value) bool {
		if a, ok := v.(*ssa.Alloc); ok && ownerName(a.Type()) == "SyncResult" {
			res = a
		}
		return true
	})
	if res == nil {
		return false, "the results passed to Process are not built here (their hashes cannot be traced to a hasher)"
	}
	var data ssa.Value
	for _, r := range *res.Referrers() {
		if fa, ok := r.(*ssa.FieldAddr); ok && fieldOfAddr(fa).Name() == "Data" {
			for _, r2 := range *fa.Referrers() {
				if st, ok := r2.(*ssa.Store); ok && st.Addr == fa {
					data = st.Val
				}
			}
		}
	}
	var reset, write, sum ssa.CallInstruction
	for _, cj := range callInstrs(fn) {
		o := calleeObj(cj)
		if o == nil || !cj.Common().IsInvoke() {
			continue
		}
		switch o.Name() {
		case "Reset":
			reset = cj
		case "Write":
			write = cj
		case "Sum":
			sum = cj
		}
	}
	if reset == nil || write == nil || sum == nil || data == nil {
		return false, "no Reset/Write/Sum sequence on a hasher (or no Data) found around the Process call"
	}
	sameHasher := samePath(reset.Common().Value, write.Common().Value) && samePath(write.Common().Value, sum.Common().Value)
	isKeccak := false
	if f, _ := loadedField(stripConv(write.Common().Value)); f != nil && strings.Contains(strings.ToLower(f.Name()), "keccak") {
		isKeccak = true
	}
	writesData := samePath(write.Common().Args[0], data)
	intoHash := derivesFrom(sum.Common().Args[0], func(v ssa.Value) bool {
		fa, ok := v.(*ssa.FieldAddr)
		return ok && fa.X == ssa.Value(res) && fieldOfAddr(fa).Name() == "Hash"
	})
	order := instrDominates(reset, write) && instrDominates(write, sum) && instrDominates(sum, ci)
	switch {
	case !sameHasher || !isKeccak:
		return false, "Reset, Write and Sum are not on the one Keccak hasher"
	case !writesData:
		return false, "the hasher is not fed exactly the result's Data"
	case !intoHash:
		return false, "the digest is not written into the result's Hash"
	case !order:
		return false, "Reset, Write, Sum and Process are not in this order on every path"
	}
	return true, ""
}

func c19Variants() []Variant {
	return []Variant{
		{Name: "hash-from-request", File: "you/downloader/triesync.go", Old: "	s.keccak.Sum(res.Hash[:0])\n", New: "	for h := range s.tasks {\n		res.Hash = h\n		break\n	}\n", Rule: "C19.Z1", Construct: "processNodeData"},
		{Name: "commit-ignoring-deps", File: "trie/sync.go", Old: "		if len(requests) == 0 && request.deps == 0 {", New: "		if len(requests) == 0 {", Rule: "C19.Z2", Construct: "Process#commit"},
		{Name: "schedule-drops-parent-link", File: "trie/sync.go", Old: "		old.parents = append(old.parents, req.parents...)\n		return", New: "		_ = old\n		return", Rule: "C19.Z8", Construct: "keeps-dependency-edges"},
		{Name: "process-accepts-processed", File: "trie/sync.go", Old: "		if request.data != nil {\n			return committed, i, ErrAlreadyProcessed\n		}\n", New: "", Rule: "C19.Z8", Construct: "refuses-unrequested-and-processed"},
		{Name: "commit-deletes-piecemeal", File: "trie/sync.go", Old: "			return i, err\n		}\n	}\n	written := len(s.membatch.order)", New: "			return i, err\n		}\n		delete(s.membatch.batch, key)\n	}\n	written := len(s.membatch.order)", Rule: "C19.Z3", Construct: "batch-dropped-only-as-a-whole"},
		{Name: "commit-in-map-order", File: "trie/sync.go", Old: "	for i, key := range s.membatch.order {\n		if err := dbw.Put(key[:], s.membatch.batch[key]); err != nil {\n			return i, err\n		}\n	}", New: "	i := 0\n	for key, val := range s.membatch.batch {\n		if err := dbw.Put(key[:], val); err != nil {\n			return i, err\n		}\n		i++\n	}", Rule: "C19.Z3", Construct: "Commit"},
	}
}

package main

import (
	"fmt"
	"go/token"
	"go/types"
	"sort"
	"strings"

	"golang.org/x/tools/go/ssa"
)

// C18 — block download delivers every block once, in order, with a matching body.

const dlPkg = "you/downloader"

func init() {
	register(&propDef{
		ID:          "C18",
		Explanation: "Interleavings, completion under faulty peers (liveness) and exactly-once as a history property are not decided. Decided (structure, SSA of you/downloader): transaction and receipt lists are attached to a result only in the two reconstruct closures and only after their derived root equals the header's (Y1); a must-hold lock-set dataflow shows every access to the queue's fields happens with queue.lock held, with the four upstream idioms tabled (Y2); wherever a request is removed from a pending pool, its outstanding headers are pushed back to the task queue on the same paths (Y3); Results returns, shifts and advances by one and the same count, which comes from countProcessableItems, and resultOffset has tabled writers (Y4); Schedule inserts a header only after the number and parent-hash tests, whose failure leaves the loop (Y5).",
		Assumptions: []string{"closures passed as arguments run synchronously at the call", "sync.Cond.Wait re-acquires the lock before returning"},
		Run:         runC18,
		Variants:    c18Variants,
	})
}

func runC18(c *Ctx) {
	w := c.W
	// ------------------------------------------------------------ Y1
	c.Rule("C18.Y1", "GATE+CONFINED", "fetchResult.Transactions / Receipts are stored only in the reconstruct closures of DeliverBodies / DeliverReceipts, dominated by DeriveSha(list) == header.TxHash / ReceiptHash")
	c.Min(2)
	for _, spec := range []struct{ field, root, owner string }{{"Transactions", "TxHash", "(you/downloader.queue).DeliverBodies"}, {"Receipts", "ReceiptHash", "(you/downloader.queue).DeliverReceipts"}} {
		f := w.Field(dlPkg, "fetchResult", spec.field)
		n := 0
		for _, fn := range w.FuncsIn(dlPkg) {
			if strings.HasSuffix(w.fileOf(fn.Pos()), "_test.go") {
				continue
			}
			for _, fw := range fieldWrites(fn) {
				if fw.Field != f || fw.Kind != "store" || isLocalAlloc(fw.Base) {
					continue
				}
				n++
				c.sites++
				c.sawFunc(fname(fn))
				inOwner := outerName(fname(fn)) == spec.owner && fn.Parent() != nil
				checked := false
				for _, a := range atomsOf(factsAtInstr(fw.Instr)) {
					if a.Kind != "eq" || !a.Truth {
						continue
					}
					for _, pr := range [][2]ssa.Value{{a.X, a.Y}, {a.Y, a.X}} {
						cc, ok := stripConv(pr[0]).(*ssa.Call)
						if !ok || calleeObj(cc) == nil || calleeObj(cc).Name() != "DeriveSha" {
							continue
						}
						hf, _ := loadedField(stripConv(pr[1]))
						if hf == nil || hf.Name() != spec.root {
							continue
						}
						// the list hashed is the list attached
						if derivesFrom(cc.Call.Args[0], func(v ssa.Value) bool { return samePath(v, fw.Instr.(*ssa.Store).Val) }) {
							checked = true
						}
					}
				}
				ok := inOwner && checked
				c.Check(fname(fn)+"#attach-"+spec.field, fw.Instr.Pos(), ok, ifelse(ok, "attached after DeriveSha(list) == header."+spec.root, ifelse(!inOwner, "a new site attaches "+spec.field+" to a download result", "the "+spec.field+" list is attached without (or before) comparing its root with the header's "+spec.root+": a peer can deliver a body that does not belong to the header")))
			}
		}
		if n == 0 {
			c.Undecided("fetchResult."+spec.field, 0, "no store found")
		}
	}

	// ------------------------------------------------------------ Y2
	c.Rule("C18.Y2", "GUARDED-BY", "every field of the download queue (task pools and queues, pending and done pools, result cache, offsets, header bookkeeping, closed) is accessed with queue.lock held; tabled idioms: Cancel* read the pool/queue field values to hand them to cancel(), which locks before touching an element; fillHeaderSkeleton reads the headerContCh channel value")
	c.Min(30)
	qs := w.Struct(dlPkg, "queue")
	guarded := map[string]bool{}
	for i := 0; i < qs.NumFields(); i++ {
		n := qs.Field(i).Name()
		if n == "lock" || n == "active" {
			continue
		}
		guarded[n] = true
	}
	idiom := "reads the field value (a map / queue reference) to pass it to cancel(), which takes the lock before touching any element — upstream go-ethereum idiom"
	runGuardedBy(c, GuardSpec{Pkg: dlPkg, Type: "queue", Mutex: "lock", Guarded: guarded, Exempt: map[string]string{
		"(you/downloader.queue).CancelHeaders#headerTaskQueue":        idiom,
		"(you/downloader.queue).CancelHeaders#headerPendPool":         idiom,
		"(you/downloader.queue).CancelBodies#blockTaskQueue":          idiom,
		"(you/downloader.queue).CancelBodies#blockPendPool":           idiom,
		"(you/downloader.queue).CancelReceipts#receiptTaskQueue":      idiom,
		"(you/downloader.queue).CancelReceipts#receiptPendPool":       idiom,
		"(you/downloader.Downloader).fillHeaderSkeleton#headerContCh": "reads the channel value created once by newQueue (never reassigned) to wait on it",
		"(you/downloader.Downloader).fetchHeaders#headerContCh":       "reads the channel value created once by newQueue (never reassigned)",
		"(you/downloader.Downloader).fetchHeaders#mode":               "mode is set by Prepare before the fetchers start and only read afterwards",
	}})

	// ------------------------------------------------------------ Y3
	c.Rule("C18.Y3", "ALWAYS-WITH", "in cancel, Revoke, expire and deliver every removal of a request from a pending pool is accompanied, on the same paths, by a loop over the request's Headers that pushes the outstanding ones back to the task queue")
	c.Min(3)
	frT := w.Named(dlPkg, "fetchRequest")
	headersF := w.Field(dlPkg, "fetchRequest", "Headers")
	// every function of the package that removes a request from a pending pool (today: cancel, Revoke, expire, deliver)
	var y3fns []*ssa.Function
	for _, fn := range w.FuncsIn(dlPkg) {
		if !strings.HasSuffix(w.fileOf(fn.Pos()), "_test.go") {
			y3fns = append(y3fns, fn)
		}
	}
	sort.Slice(y3fns, func(i, j int) bool { return fname(y3fns[i]) < fname(y3fns[j]) })
	for _, fn := range y3fns {
		if outerName(fname(fn)) == "(you/downloader.queue).DeliverHeaders" {
			continue // skeleton header requests carry no Headers: a failed fill is re-queued by its From index (headerTaskQueue)
		}
		n := 0
		for _, ci := range callInstrs(fn) {
			bi, ok := ci.Common().Value.(*ssa.Builtin)
			if !ok || bi.Name() != "delete" {
				continue
			}
			mt, ok := ci.Common().Args[0].Type().Underlying().(*types.Map)
			if !ok {
				continue
			}
			if p, ok := mt.Elem().(*types.Pointer); !ok || !types.Identical(p.Elem(), frT) {
				continue
			}
			c.sites++
			c.sawFunc(fname(fn))
			// a loop over Headers containing a Push, on the same paths as the delete
			paired, partial := false, false
			for _, b := range fn.Blocks {
				if !isLoopHeader(b) {
					continue
				}
				loop := naturalLoop(b)
				overHeaders, pushes := false, false
				for lb := range loop {
					for _, in := range lb.Instrs {
						if v := valueOf(in); v != nil {
							if f, _ := loadedField(v); f == headersF {
								overHeaders = true
							}
						}
						if cj, ok := in.(ssa.CallInstruction); ok {
							if o := calleeObj(cj); o != nil && o.Name() == "Push" {
								pushes = true
							}
						}
					}
				}
				// the ranged slice may be loaded just before the loop
				if !overHeaders {
					for _, p := range b.Preds {
						if !loop[p] {
							for _, in := range p.Instrs {
								if v := valueOf(in); v != nil {
									if f, _ := loadedField(v); f == headersF {
										overHeaders = true
									}
								}
							}
						}
					}
				}
				// … over ALL of them: the loop's index starts at a constant (range: -1, for: 0), not at a computed offset
				whole := false
				for _, in := range b.Instrs {
					phi, isPhi := in.(*ssa.Phi)
					if !isPhi {
						break
					}
					if bt, isB := phi.Type().Underlying().(*types.Basic); !isB || bt.Info()&types.IsInteger == 0 {
						continue
					}
					for i, e := range phi.Edges {
						if !loop[b.Preds[i]] {
							if n, isC := constInt(e); isC && (n == 0 || n == -1) {
								whole = true
							}
						}
					}
				}
				if overHeaders && pushes && !whole {
					partial = true
				}
				if overHeaders && pushes && whole && (alwaysWith(ci, []ssa.Instruction{b.Instrs[0]}) || sameGuard(ci.Block(), b)) {
					paired = true
				}
			}
			c.Check(fmt.Sprintf("%s#pending-removal-%d", fname(fn), n), ci.Pos(), paired, ifelse(paired, "outstanding headers of the request are pushed back on the same paths", ifelse(partial, "the loop that pushes the request's headers back starts at a computed offset instead of covering the whole request: headers that were answered but rejected go back to no pool, nobody fetches them again and Results stays stuck behind the hole", "a request is dropped from the pending pool without its outstanding headers going back to the task queue: those blocks are never fetched again and the sync stalls")))
			n++
		}
	}

	// ------------------------------------------------------------ Y7
	c.Rule("C18.Y7", "GATE", "a pending request is never overwritten: every insertion into a pending pool (pendPool[id] = request) is dominated by a lookup of the same pool and key that found nothing — the work a request holds can only come back through cancel, Revoke, expire or deliver")
	c.Min(1)
	{
		frT2 := w.Named(dlPkg, "fetchRequest")
		nIns := 0
		for _, fn := range w.FuncsIn(dlPkg) {
			if strings.HasSuffix(w.fileOf(fn.Pos()), "_test.go") {
				continue
			}
			n := 0
			for _, in := range allInstrs(fn) {
				mu, ok := in.(*ssa.MapUpdate)
				if !ok {
					continue
				}
				mt, ok := mu.Map.Type().Underlying().(*types.Map)
				if !ok {
					continue
				}
				if pt, ok := mt.Elem().(*types.Pointer); !ok || !types.Identical(pt.Elem(), frT2) {
					continue
				}
				nIns++
				c.sites++
				c.sawFunc(fname(fn))
				absent := false
				for _, a := range atomsOf(factsAtInstr(mu)) {
					if a.Kind != "true" || a.Truth {
						continue
					}
					if ex, ok := stripConv(a.X).(*ssa.Extract); ok && ex.Index == 1 {
						if lk, ok := ex.Tuple.(*ssa.Lookup); ok && samePath(lk.X, mu.Map) && samePath(lk.Index, mu.Key) {
							absent = true
						}
					}
				}
				c.Check(fmt.Sprintf("%s#pending-insert@%d-only-when-absent", fname(fn), n), mu.Pos(), absent, ifelse(absent, "inserted only after the same key was looked up and not found", "a request can be stored over an existing pending request of the same peer id (the lookup that guards the insertion is not simply 'found → refuse'): the old request's headers are in no pool any more, nobody fetches them again and the sync goes quiet with blocks missing"))
				n++
			}
		}
		if nIns == 0 {
			c.Undecided(dlPkg+"#pending-insertions", 0, "no insertion into a pending pool found")
		}
	}

	// ------------------------------------------------------------ Y6
	c.Rule("C18.Y6", "EXHAUSTIVE", "queue.Reset gives every per-cycle container of the queue a fresh value on every path (an unconditional store of a new map / slice / zero, or a Reset() call on the priority queue): nothing scheduled, pending, done or cached in one sync cycle is visible to the next")
	c.Min(12)
	{
		rs := w.Fn(dlPkg, "queue", "Reset")
		c.sawFunc(fname(rs))
		perCycle := []string{"headerPendPool", "blockTaskPool", "blockTaskQueue", "blockPendPool", "blockDonePool", "receiptTaskPool", "receiptTaskQueue", "receiptPendPool", "receiptDonePool", "resultCache", "resultOffset", "headerHead", "closed"}
		// exit block(s): every return
		var rets []*ssa.BasicBlock
		for _, b := range rs.Blocks {
			if _, ok := b.Instrs[len(b.Instrs)-1].(*ssa.Return); ok && b != rs.Recover {
				rets = append(rets, b)
			}
		}
		for _, fnm := range perCycle {
			f := w.Field(dlPkg, "queue", fnm)
			c.sites++
			ok, why := false, "Reset does not touch it"
			for _, fw := range fieldWrites(rs) {
				if fw.Field != f || fw.Kind != "store" {
					continue
				}
				st := fw.Instr.(*ssa.Store)
				fresh := false
				switch v := stripConv(st.Val).(type) {
				case *ssa.MakeMap, *ssa.MakeSlice, *ssa.Const:
					fresh = true
				case *ssa.UnOp:
					// zero value loaded from a fresh local (common.Hash{})
					if a, isA := v.X.(*ssa.Alloc); isA && isLocalAlloc(a) {
						fresh = true
					}
				case *ssa.Alloc:
					fresh = true
				}
				all := true
				for _, r := range rets {
					if !fw.Instr.Block().Dominates(r) {
						all = false
					}
				}
				switch {
				case fresh && all:
					ok = true
				case !fresh:
					why = "the value stored is not a fresh container"
				default:
					why = "the fresh value is stored on some paths only: under the other condition the previous cycle's contents stay"
				}
			}
			// priority queues are reset in place
			for _, ci := range callInstrs(rs) {
				if o := calleeObj(ci); o != nil && o.Name() == "Reset" && recvName(o) == "Prque" {
					if lf, _ := loadedField(stripConv(callRecv(ci))); lf == f {
						all := true
						for _, r := range rets {
							if !ci.Block().Dominates(r) {
								all = false
							}
						}
						if all {
							ok = true
						}
					}
				}
			}
			c.Check(fname(rs)+"#"+fnm, rs.Pos(), ok, ifelse(ok, "re-initialised on every path", "queue."+fnm+" survives Reset ("+why+"): leftovers of an aborted sync are used by the next one — the importer gets an old header paired with a new body, or slots are released before they were downloaded"))
		}
	}

	// ------------------------------------------------------------ Y4
	c.Rule("C18.Y4", "SAME-VALUE", "Results copies resultCache[:n], shifts the cache by n and advances resultOffset by n for one and the same n, which derives from countProcessableItems(); resultOffset is written only by Results, Prepare and Reset")
	c.Min(3)
	rs := w.Fn(dlPkg, "queue", "Results")
	c.sawFunc(fname(rs))
	rc := w.Field(dlPkg, "queue", "resultCache")
	ro := w.Field(dlPkg, "queue", "resultOffset")
	var head, tail, adv ssa.Value
	for _, b := range rs.Blocks {
		for _, in := range b.Instrs {
			switch x := in.(type) {
			case *ssa.Slice:
				if f, _ := loadedField(x.X); f == rc {
					if x.High != nil && x.Low == nil {
						head = x.High
					}
					if x.Low != nil && x.High == nil {
						tail = x.Low
					}
				}
			case *ssa.Store:
				if fa, ok := x.Addr.(*ssa.FieldAddr); ok && fieldOfAddr(fa) == ro {
					if bo, ok := x.Val.(*ssa.BinOp); ok && bo.Op == token.ADD {
						adv = stripConv(bo.Y)
					}
				}
			}
		}
	}
	same := head != nil && tail != nil && adv != nil && stripConv(head) == stripConv(tail) && stripConv(tail) == adv
	fromCount := head != nil && derivesFrom(head, func(v ssa.Value) bool {
		cc, ok := v.(*ssa.Call)
		return ok && calleeObj(cc) != nil && calleeObj(cc).Name() == "countProcessableItems"
	})
	c.sites++
	c.Check(fname(rs)+"#released-prefix", rs.Pos(), same && fromCount, ifelse(same && fromCount, "copy bound, cache shift and offset advance use one value from countProcessableItems()", "the number of results handed out, the shift of the cache and the advance of resultOffset are not one value: results are skipped, repeated or misnumbered"))
	// after the shift the vacated TAIL of the window is cleared: the nil stores come after the shifting copy and
	// their index starts at len(cache) − n
	{
		var shift ssa.CallInstruction
		for _, ci := range callInstrs(rs) {
			if bi, ok := ci.Common().Value.(*ssa.Builtin); ok && bi.Name() == "copy" {
				a := ci.Common().Args
				f0, _ := loadedField(stripConv(a[0]))
				if sl, ok := a[1].(*ssa.Slice); ok && f0 == rc {
					if f1, _ := loadedField(stripConv(sl.X)); f1 == rc && sl.Low != nil {
						shift = ci
					}
				}
			}
		}
		var clears []*ssa.Store
		for _, in := range allInstrs(rs) {
			st, ok := in.(*ssa.Store)
			if !ok {
				continue
			}
			ia, ok := st.Addr.(*ssa.IndexAddr)
			if !ok {
				continue
			}
			if f, _ := loadedField(stripConv(ia.X)); f != rc {
				continue
			}
			if cv, ok := st.Val.(*ssa.Const); ok && cv.IsNil() {
				clears = append(clears, st)
			}
		}
		c.sites++
		okTail := shift != nil && len(clears) > 0
		why := "the shifting copy or the clearing of the vacated slots was not found"
		for _, st := range clears {
			if shift == nil {
				break
			}
			if !(instrDominates(shift, st) || loopBefore(shift, st)) {
				okTail, why = false, "slots are cleared before the window is shifted down"
			}
			// index: a loop phi that starts at len(cache) − n
			ia := st.Addr.(*ssa.IndexAddr)
			startsAtTail := false
			if phi, ok := stripConv(ia.Index).(*ssa.Phi); ok {
				for i, e := range phi.Edges {
					if naturalLoop(phi.Block())[phi.Block().Preds[i]] {
						continue
					}
					if bo, ok := stripConv(e).(*ssa.BinOp); ok && bo.Op == token.SUB && tail != nil && stripConv(bo.Y) == stripConv(tail) {
						if lc, ok := stripConv(bo.X).(*ssa.Call); ok {
							if bi, ok := lc.Call.Value.(*ssa.Builtin); ok && bi.Name() == "len" {
								startsAtTail = true
							}
						}
					}
				}
			}
			if !startsAtTail {
				okTail, why = false, "the cleared slots do not start at len(cache) − n"
			}
		}
		c.Check(fname(rs)+"#vacated-tail-cleared-after-shift", rs.Pos(), okTail, ifelse(okTail, "after copy(cache, cache[n:]) the slots [len−n, len) are set to nil", why+": the tail of the window keeps pointing at containers that were moved down, so with a nearly full window a later reservation finds a stale slot, the body of block N+n lands in block N's container, and a block is handed out with another block's transactions"))
	}
	for _, fn := range w.FuncsIn(dlPkg) {
		if strings.HasSuffix(w.fileOf(fn.Pos()), "_test.go") {
			continue
		}
		for _, fw := range fieldWrites(fn) {
			if fw.Field != ro || isLocalAlloc(fw.Base) {
				continue
			}
			n := outerName(fname(fn))
			ok := n == "(you/downloader.queue).Results" || n == "(you/downloader.queue).Prepare" || n == "(you/downloader.queue).Reset"
			c.Check(n+"#writes-resultOffset", fw.Instr.Pos(), ok, ifelse(ok, "tabled writer", "a new function moves resultOffset"))
		}
	}
	// countProcessableItems stops at the first missing or pending result
	cp := w.Fn(dlPkg, "queue", "countProcessableItems")
	stops := false
	for _, b := range cp.Blocks {
		for _, in := range b.Instrs {
			if v := valueOf(in); v != nil {
				if f, _ := loadedField(v); f != nil && f.Name() == "Pending" {
					stops = true
				}
			}
		}
	}
	c.Check(fname(cp)+"#stops-at-pending", cp.Pos(), stops, ifelse(stops, "counts the prefix of complete results", "countProcessableItems no longer looks at Pending: incomplete results are released"))

	// ------------------------------------------------------------ Y5
	c.Rule("C18.Y5", "GATE", "Schedule inserts a header into the block task pool only after comparing its number with the expected one and its parent hash with the last scheduled header; a mismatch leaves the loop")
	c.Min(1)
	sc := w.Fn(dlPkg, "queue", "Schedule")
	c.sawFunc(fname(sc))
	btp := w.Field(dlPkg, "queue", "blockTaskPool")
	for _, fw := range fieldWrites(sc) {
		if fw.Field != btp || fw.Kind != "mapupdate" {
			continue
		}
		c.sites++
		numTest, parentTest := false, false
		for _, b := range sc.Blocks {
			ifi, ok := b.Instrs[len(b.Instrs)-1].(*ssa.If)
			if !ok || !blockReaches(b, fw.Instr.Block()) {
				continue
			}
			mentionsParent := derivesFrom(ifi.Cond, func(v ssa.Value) bool { f, _ := loadedField(v); return f != nil && f.Name() == "ParentHash" })
			mentionsNumber := derivesFrom(ifi.Cond, func(v ssa.Value) bool {
				cc, ok := v.(*ssa.Call)
				return ok && calleeObj(cc) != nil && calleeObj(cc).Name() == "Uint64"
			})
			if !mentionsParent && !mentionsNumber {
				continue
			}
			if mentionsNumber && !b.Dominates(fw.Instr.Block()) {
				continue
			}
			// the parent test may sit behind the short-circuit `headerHead != {}`: its
			// controlling block must dominate the insertion instead
			if mentionsParent && !b.Dominates(fw.Instr.Block()) && !(b.Idom() != nil && b.Idom().Dominates(fw.Instr.Block())) {
				continue
			}
			// one successor cannot reach the insertion (break)
			for _, s := range b.Succs {
				if !blockReaches(s, fw.Instr.Block()) {
					if mentionsParent {
						parentTest = true
					}
					if mentionsNumber {
						numTest = true
					}
				}
			}
		}
		ok := numTest && parentTest
		c.Check(fname(sc)+"#insert-after-order-tests", fw.Instr.Pos(), ok, ifelse(ok, "number and parent-hash mismatches leave the loop before the insertion", fmt.Sprintf("headers are scheduled without the chain-order tests (number=%v parent=%v): blocks can be fetched and delivered out of order", numTest, parentTest)))
	}

	// ------------------------------------------------------------ Y8
	c.Rule("C18.Y8", "GATE", "buffer sizes are never computed from unchecked peer data: a SkeletonHeader — whose Number the queue turns into request counts and buffer lengths by unsigned subtraction (ScheduleSkeleton) — is built from a header only on paths that compared that header's number with a locally computed value (equality with the requested position for a peer's reply; an ordering test against the range start for the verified anchor header); and (*queue).DeliverHeaders reads headers[0] only where the batch is known to be non-empty. One skeleton reply with an out-of-range number otherwise wraps the subtraction: makeslice or an index panics in a goroutine without recover and the node dies")
	c.Min(2)
	{
		skNum := w.Field(dlPkg, "SkeletonHeader", "Number")
		nSk := 0
		for _, fn := range w.FuncsIn(dlPkg) {
			if fn.Blocks == nil || strings.HasSuffix(w.fileOf(fn.Pos()), "_test.go") {
				continue
			}
			for _, fw := range fieldWrites(fn) {
				if fw.Field != skNum {
					continue
				}
				st, ok := fw.Instr.(*ssa.Store)
				if !ok {
					continue
				}
				// the value comes from a header's Number?
				var numLoad ssa.Value
				backward(st.Val, func(v ssa.Value) bool {
					if f, _ := loadedField(v); f != nil && f.Name() == "Number" && fieldOwner(w, f) == "Header" {
						numLoad = v
						return false
					}
					return numLoad == nil
				})
				if numLoad == nil {
					continue
				}
				nSk++
				c.sites++
				c.sawFunc(fname(fn))
				checked := false
				for _, a := range atomsOf(factsAtInstr(st)) {
					if a.Kind != "eq" || !a.Truth || a.Y == nil {
						continue
					}
					for _, pair := range [][2]ssa.Value{{a.X, a.Y}, {a.Y, a.X}} {
						isNum := derivesFrom(pair[0], func(v ssa.Value) bool {
							f, _ := loadedField(v)
							return f != nil && f.Name() == "Number" && fieldOwner(w, f) == "Header" && samePath(v, numLoad)
						})
						local := !derivesFrom(pair[1], func(v ssa.Value) bool {
							f, _ := loadedField(v)
							return f != nil && f.Name() == "Number" && fieldOwner(w, f) == "Header" && samePath(v, numLoad)
						})
						if isNum && local {
							checked = true
						}
					}
				}
				// an ordering test against a local value (a verified anchor header's number against the range start) is a check too
				for _, a := range atomsOf(factsAtInstr(st)) {
					if a.Kind != "cmp" || a.Y == nil {
						continue
					}
					for _, pair := range [][2]ssa.Value{{a.X, a.Y}, {a.Y, a.X}} {
						isNum := derivesFrom(pair[0], func(v ssa.Value) bool {
							f, _ := loadedField(v)
							return f != nil && f.Name() == "Number" && fieldOwner(w, f) == "Header" && samePath(v, numLoad)
						})
						other := !derivesFrom(pair[1], func(v ssa.Value) bool {
							f, _ := loadedField(v)
							return f != nil && f.Name() == "Number" && fieldOwner(w, f) == "Header" && samePath(v, numLoad)
						})
						if isNum && other {
							checked = true
						}
					}
				}
				c.Check(fmt.Sprintf("%s#skeleton-number-checked-%d", fname(fn), nSk), st.Pos(), checked, ifelse(checked, "the header's number was compared with the expected position", "a skeleton entry takes its number from a peer's header without that number having been compared with the position that was requested: ScheduleSkeleton computes request counts and the result buffer length from it by unsigned subtraction — a number below the range start wraps, and the node panics in the header fetcher goroutine"))
			}
		}
		if nSk == 0 {
			c.Undecided(dlPkg+"#skeleton-construction", token.NoPos, "no SkeletonHeader built from a header's number was found")
		}
		dh := w.Fn(dlPkg, "queue", "DeliverHeaders")
		c.sawFunc(fname(dh))
		var hdrsP *ssa.Parameter
		for _, prm := range dh.Params {
			if _, isSl := prm.Type().Underlying().(*types.Slice); isSl {
				hdrsP = prm
			}
		}
		nIdx := 0
		for _, b := range dh.Blocks {
			for _, in := range b.Instrs {
				ia, ok := in.(*ssa.IndexAddr)
				if !ok || hdrsP == nil || stripConvNoBind(ia.X) != ssa.Value(hdrsP) {
					continue
				}
				if k, isC := constInt(ia.Index); !isC || k != 0 {
					continue
				}
				nIdx++
				c.sites++
				nonEmpty := false
				for _, a := range atomsOf(factsAt(b)) {
					lenOf := func(v ssa.Value) bool {
						cc, isCall := stripConv(v).(*ssa.Call)
						if !isCall {
							return false
						}
						bi, isB := cc.Call.Value.(*ssa.Builtin)
						return isB && bi.Name() == "len" && stripConvNoBind(cc.Call.Args[0]) == ssa.Value(hdrsP)
					}
					switch a.Kind {
					case "cmp":
						if lenOf(a.X) {
							if n, isC := constInt(a.Y); isC && ((a.Op == token.GTR && n >= 0 && a.Truth) || (a.Op == token.GEQ && n >= 1 && a.Truth) || (a.Op == token.LEQ && n >= 0 && !a.Truth) || (a.Op == token.LSS && n >= 1 && !a.Truth)) {
								nonEmpty = true
							}
						}
					case "eq":
						// len(headers) == request.Count, where every request count is positive by construction (Y8 above)
						if a.Truth && a.Y != nil && (lenOf(a.X) || lenOf(a.Y)) {
							other := a.Y
							if lenOf(a.Y) {
								other = a.X
							}
							if f, _ := loadedField(stripConv(other)); f != nil && f.Name() == "Count" {
								nonEmpty = nSk > 0
							}
							if n, isC := constInt(other); isC && n > 0 {
								nonEmpty = true
							}
						}
					}
				}
				c.Check(fmt.Sprintf("%s#first-header-read-only-if-present-%d", fname(dh), nIdx), ia.Pos(), nonEmpty, ifelse(nonEmpty, "under len(headers) == request.Count (counts are positive because skeleton numbers are checked) or an explicit length test", "headers[0] is read without the batch being known non-empty"))
			}
		}
	}
	// ------------------------------------------------------------ Y9
	c.Rule("C18.Y9", "SAME-VALUE", "the throttle counts one window: resultSlots returns limit − finished − pending where limit is the memory-capped window, finished is counted by ranging over resultCache[:limit] — the same limit — and pending counts only headers numbered below resultOffset + limit. Counting finished results beyond the window (the whole cache) when the cap has shrunk it makes the free-slot count zero or negative although the head of the window is neither done nor in flight: nothing is reserved any more and the download hangs with idle honest peers")
	c.Min(2)
	{
		rsl := w.Fn(dlPkg, "queue", "resultSlots")
		c.sawFunc(fname(rsl))
		rcF := w.Field(dlPkg, "queue", "resultCache")
		// the window: minuend of the returned subtraction chain
		var limit ssa.Value
		for _, b := range rsl.Blocks {
			if r, ok := b.Instrs[len(b.Instrs)-1].(*ssa.Return); ok && len(r.Results) == 1 {
				v := stripConv(r.Results[0])
				for i := 0; i < 4; i++ {
					bo, isB := v.(*ssa.BinOp)
					if !isB || bo.Op != token.SUB {
						break
					}
					v = stripConv(bo.X)
				}
				limit = v
			}
		}
		c.sites++
		if limit == nil {
			c.Undecided(fname(rsl)+"#one-window", rsl.Pos(), "the returned free-slot expression was not found")
		} else {
			// finished: every range / index over resultCache in resultSlots is bounded by limit
			okFin, nScan := true, 0
			why := ""
			for _, b := range rsl.Blocks {
				for _, in := range b.Instrs {
					switch x := in.(type) {
					case *ssa.Slice:
						if f, _ := loadedField(stripConv(x.X)); f == rcF {
							nScan++
							if x.High == nil || stripConv(x.High) != limit {
								okFin, why = false, "resultCache is sliced with another bound than the window at "+w.Pos(x.Pos())
							}
						}
					case *ssa.IndexAddr:
						if f, _ := loadedField(stripConv(x.X)); f == rcF {
							nScan++
							okFin, why = false, "resultCache is scanned without the window bound at "+w.Pos(x.Pos())
						}
					}
				}
			}
			if nScan == 0 {
				okFin, why = false, "no scan of resultCache found"
			}
			c.Check(fname(rsl)+"#finished-counted-inside-the-window", rsl.Pos(), okFin, ifelse(okFin, "ranges over resultCache[:limit]", why+": finished results outside the memory-capped window are subtracted from it, the free-slot count reaches zero with the head of the window unserved and the sync hangs"))
			// pending: the guard compares against resultOffset + limit
			c.sites++
			okPen := false
			for _, b := range rsl.Blocks {
				for _, in := range b.Instrs {
					bo, ok := in.(*ssa.BinOp)
					if !ok || !(bo.Op == token.LSS || bo.Op == token.LEQ || bo.Op == token.GTR || bo.Op == token.GEQ) {
						continue
					}
					for _, side := range []ssa.Value{bo.X, bo.Y} {
						if derivesFrom(side, func(v ssa.Value) bool { return v == limit }) && derivesFrom(side, func(v ssa.Value) bool { f, _ := loadedField(v); return f != nil && f.Name() == "resultOffset" }) {
							okPen = true
						}
					}
				}
			}
			c.Check(fname(rsl)+"#pending-counted-inside-the-window", rsl.Pos(), okPen, ifelse(okPen, "pending headers are compared with resultOffset + limit", "in-flight headers are not compared with the end of the same window"))
		}
	}
	c18Siblings(c, c.W)
}

func blockReaches(from, to *ssa.BasicBlock) bool {
	seen := map[*ssa.BasicBlock]bool{}
	work := []*ssa.BasicBlock{from}
	for len(work) > 0 {
		b := work[len(work)-1]
		work = work[:len(work)-1]
		if b == to {
			return true
		}
		if seen[b] {
			continue
		}
		seen[b] = true
		work = append(work, b.Succs...)
	}
	return false
}

// sameGuard: block a and loop header h are controlled by the same branch (both
// dominated by the same If successor and h reachable from a without leaving it).
func sameGuard(a, h *ssa.BasicBlock) bool {
	return a.Dominates(h) || (a.Idom() != nil && a.Idom() == h.Idom()) || blockReachesAlways(a, h)
}

// blockReachesAlways: every path from a to a return passes h or h's loop.
func blockReachesAlways(a, h *ssa.BasicBlock) bool {
	return mustPassAfter(a.Instrs[0], []ssa.Instruction{h.Instrs[0]}) || mustPassBefore(a.Instrs[0], []ssa.Instruction{h.Instrs[0]})
}

// c18Siblings: Y10 and Y11.
func c18Siblings(c *Ctx, w *World) {
	// ------------------------------------------------------------ Y10
	c.Rule("C18.Y10", "SIBLINGS", "the three kinds of work never mix: every call in the download queue that hands two or more of the queue's per-kind containers (fields header* / block* / receipt*: task pool, task queue, pending pool, done pool) to a shared helper (reserveHeaders, cancel, expire, deliver) hands containers of ONE kind. A body request that expires into the receipt task queue is never asked of another peer, and the receipt fetcher completes the block's result slot without a body")
	c.Min(10)
	{
		qT := w.Named("you/downloader", "queue")
		kindOf := func(name string) string {
			for _, k := range []string{"header", "block", "receipt"} {
				if strings.HasPrefix(name, k) && len(name) > len(k) && name[len(k)] >= 'A' && name[len(k)] <= 'Z' {
					return k
				}
			}
			return ""
		}
		for _, fn := range w.FuncsIn("you/downloader") {
			if fn.Blocks == nil || strings.HasSuffix(w.fileOf(fn.Pos()), "_test.go") {
				continue
			}
			k := 0
			for _, ci := range callInstrs(fn) {
				kinds := map[string][]string{}
				n := 0
				for _, a := range ci.Common().Args {
					f, base := loadedField(stripConvNoBind(a))
					if f == nil || base == nil || !types.Identical(deref(base.Type()), qT) {
						continue
					}
					if kd := kindOf(f.Name()); kd != "" {
						kinds[kd] = append(kinds[kd], f.Name())
						n++
					}
				}
				if n < 2 {
					continue
				}
				c.sites++
				c.sawFunc(fname(fn))
				var ks []string
				for kd, fs := range kinds {
					ks = append(ks, kd+": "+strings.Join(fs, ", "))
				}
				sort.Strings(ks)
				c.Check(fmt.Sprintf("%s#call-%d-one-kind-of-containers", fname(fn), k), ci.Pos(), len(kinds) == 1, ifelse(len(kinds) == 1, "containers of one kind ("+ks[0]+")", "the call mixes containers of different kinds ("+strings.Join(ks, "; ")+"): work of one kind is moved into the bookkeeping of another"))
				k++
			}
		}
	}

	// ------------------------------------------------------------ Y11
	c.Rule("C18.Y11", "SIBLINGS", "a fetch is declared unnecessary by the same commitment that a delivery is checked against: the predicate ReserveBodies / ReserveReceipts hand to reserveHeaders (which completes the header's result slot on the spot when it answers true) reads exactly the header field(s) that the reconstruct function of DeliverBodies / DeliverReceipts compares the delivered list with (TxHash / ReceiptHash). A body predicate reading the receipt root lets a header with a forged empty receipt root leave the queue with no transactions, never reaching the DeriveSha check")
	c.Min(2)
	{
		hdrT := w.Named("core/types", "Header")
		funcArg := func(ci ssa.CallInstruction) *ssa.Function {
			for _, a := range ci.Common().Args {
				if _, isSig := a.Type().Underlying().(*types.Signature); !isSig {
					continue
				}
				switch v := stripConvNoBind(a).(type) {
				case *ssa.Function:
					return v
				case *ssa.MakeClosure:
					f, _ := v.Fn.(*ssa.Function)
					return f
				}
			}
			return nil
		}
		var headerFields func(fn *ssa.Function, depth int) map[string]bool
		headerFields = func(fn *ssa.Function, depth int) map[string]bool {
			out := map[string]bool{}
			if fn == nil || fn.Blocks == nil {
				return out
			}
			for _, in := range allInstrs(fn) {
				if fa, ok := in.(*ssa.FieldAddr); ok && types.Identical(deref(fa.X.Type()), hdrT) {
					if f := fieldOfAddr(fa); f != nil {
						out[f.Name()] = true
					}
				}
				if ci, ok := in.(ssa.CallInstruction); ok && depth < 2 {
					if g := ci.Common().StaticCallee(); g != nil && g.Pkg == fn.Pkg {
						for f := range headerFields(g, depth+1) {
							out[f] = true
						}
					}
				}
			}
			return out
		}
		for _, pair := range [][2]string{{"ReserveBodies", "DeliverBodies"}, {"ReserveReceipts", "DeliverReceipts"}} {
			rs, dl := w.Fn("you/downloader", "queue", pair[0]), w.Fn("you/downloader", "queue", pair[1])
			c.sawFunc(fname(rs))
			c.sawFunc(fname(dl))
			var noop, recon *ssa.Function
			for _, ci := range callInstrs(rs) {
				if f := funcArg(ci); f != nil {
					noop = f
				}
			}
			for _, ci := range callInstrs(dl) {
				if f := funcArg(ci); f != nil {
					recon = f
				}
			}
			c.sites++
			if noop == nil || recon == nil {
				c.Undecided(pair[0]+"~"+pair[1], rs.Pos(), "the no-op predicate or the reconstruct function handed to the shared helper was not found")
				continue
			}
			nf, rf := headerFields(noop, 0), headerFields(recon, 0)
			names := func(m map[string]bool) string {
				var o []string
				for f := range m {
					o = append(o, f)
				}
				sort.Strings(o)
				return strings.Join(o, ",")
			}
			same := len(nf) > 0 && names(nf) == names(rf)
			c.Check(pair[0]+"~"+pair[1]+"#noop-reads-the-verified-commitment", rs.Pos(), same, ifelse(same, "both read header."+names(nf), "the predicate that skips the fetch reads header.{"+names(nf)+"} while deliveries are verified against header.{"+names(rf)+"}: a header can be completed without its content ever being checked"))
		}
	}

}

func c18Variants() []Variant {
	f := "you/downloader/queue.go"
	return []Variant{
		{Name: "attach-before-check", File: f, Old: "		if types.DeriveSha(types.Transactions(txLists[index])) != header.TxHash {\n			return errInvalidBody\n		}\n		result.Transactions = txLists[index]", New: "		result.Transactions = txLists[index]\n		if types.DeriveSha(types.Transactions(txLists[index])) != header.TxHash {\n			return errInvalidBody\n		}", Rule: "C18.Y1", Construct: "attach-Transactions"},
		{Name: "pending-blocks-unlocked", File: f, Old: "func (q *queue) PendingBlocks() int {\n	q.lock.Lock()\n	defer q.lock.Unlock()\n", New: "func (q *queue) PendingBlocks() int {\n", Rule: "C18.Y2", Construct: "PendingBlocks"},
		{Name: "revoke-loses-headers", File: f, Old: "	if request, ok := q.blockPendPool[peerID]; ok {\n		for _, header := range request.Headers {\n			q.blockTaskQueue.Push(header, -int64(header.Number.Uint64()))\n		}\n		delete(q.blockPendPool, peerID)", New: "	if _, ok := q.blockPendPool[peerID]; ok {\n		delete(q.blockPendPool, peerID)", Rule: "C18.Y3", Construct: "Revoke"},
		{Name: "offset-off-by-one", File: f, Old: "		q.resultOffset += uint64(nproc)\n", New: "		q.resultOffset += uint64(nproc) - 1\n", Rule: "C18.Y4", Construct: "released-prefix"},
		{Name: "schedule-without-parent-test", File: f, Old: "		if q.headerHead != (common.Hash{}) && q.headerHead != header.ParentHash {\n			log.Warn(\"Header broke chain ancestry\", \"number\", header.Number, \"hash\", hash)\n			break\n		}", New: "		if q.headerHead != (common.Hash{}) && q.headerHead != header.ParentHash {\n			log.Warn(\"Header broke chain ancestry\", \"number\", header.Number, \"hash\", hash)\n		}", Rule: "C18.Y5", Construct: "insert-after-order-tests"},
	}
}

package main

import (
	"fmt"
	"go/token"
	"go/types"
	"sort"
	"strings"

	"golang.org/x/tools/go/ssa"
)

// C06 — block execution is deterministic; builder and validator agree.

func init() {
	register(&propDef{
		ID:          "C06",
		Explanation: "Structural necessary conditions of deterministic block execution, decided over the set of repository functions reachable from block execution in the VTA call graph (Process, ApplyTransaction, ApplyMessageEntry, EndBlock and its registered hooks, ValidateState, IntermediateRoot, Commit, the staking converter): every range over a map in that set is order-free by a closed idiom list — no early non-error exit, no log emission, no append whose slice is used unsorted afterwards (N1); results of the chain head, the wall clock, math/rand and the environment flow only into logging (N2); builder and importer run the same ApplyTransaction/EndBlock, and the isSeal flag only selects between slashing and replaySlashing, which share processEvidences (N3); goroutines started under block execution are the tabled sender-cache warmers (N4). Not decided: equality of roots between two runs as values, cache effects.",
		Assumptions: []string{"the VTA call graph (seeded with CHA) over-approximates the calls between repository functions; calls into dependencies without source end there", "logging does not feed back into state"},
		Run:         runC06,
		Variants:    c06Variants,
	})
}

// c06Roots: the entry points of block execution.
func c06Roots(w *World) []*ssa.Function {
	return []*ssa.Function{
		w.Fn("core", "StateProcessor", "Process"),
		w.Fn("core", "StateProcessor", "ApplyTransaction"),
		w.Fn("core", "StateProcessor", "ApplyMessageEntry"),
		w.Fn("core", "StateProcessor", "EndBlock"),
		w.Fn("core", "BlockValidator", "ValidateState"),
		w.Fn("core/state", "StateDB", "IntermediateRoot"),
		w.Fn("core/state", "StateDB", "Commit"),
		w.Fn("staking", "TxConverter", "ApplyMessage"),
		w.Fn("staking", "", "EndBlock"),
	}
}

func pathTo(parent map[*ssa.Function][]*ssa.Function, fn *ssa.Function) string {
	var n []string
	p := parent[fn]
	if len(p) > 4 {
		p = p[len(p)-4:]
	}
	for _, f := range p {
		n = append(n, fname(f))
	}
	n = append(n, fname(fn))
	return strings.Join(n, " -> ")
}

func runC06(c *Ctx) {
	w := c.W
	reach := w.ReachableFrom(c06Roots(w), func(fn *ssa.Function) bool {
		// logging and metrics are sinks: what they do does not feed back into state
		p := fn.Pkg
		if p == nil {
			return false
		}
		path := p.Pkg.Path()
		return path == full("logging") || path == full("metrics") || strings.HasPrefix(path, full("metrics")+"/")
	})
	var fns []*ssa.Function
	for fn := range reach {
		if fn.Pkg == nil {
			continue
		}
		path := fn.Pkg.Pkg.Path()
		if path == full("logging") || strings.HasPrefix(path, full("metrics")) {
			continue
		}
		fns = append(fns, fn)
	}
	sort.Slice(fns, func(i, j int) bool { return fname(fns[i]) < fname(fns[j]) })
	c.Note("functions reachable from block execution: %d", len(fns))
	for _, fn := range fns {
		c.sawFunc(fname(fn))
	}
	if len(fns) < 500 {
		c.Rule("C06.N1", "MAP-ORDER", "")
		c.Undecided("reachable-set", 0, fmt.Sprintf("only %d functions reachable from block execution (about 1000 confirmed): the call graph lost the execution paths", len(fns)))
		return
	}

	// ------------------------------------------------------------ N1
	c.Rule("C06.N1", "MAP-ORDER", "every range over a map in a function reachable from block execution is order-free: it does not leave the loop early except on an error, emits no logs, and any slice it builds with append is sorted (or only logged) before use")
	c.Min(14)
	tabled := map[string]string{
		"(trie.cachedNode).childs#0":        "the children are only reference-counted one by one by the callers (commutative per-child updates), as in upstream go-ethereum",
		"(staking.votesWatcher).Inactive#1": "the output slice is only joined into a log line; inactiveAddresses is sorted before it is returned",
	}
	for _, fn := range fns {
		for _, s := range mapRanges(fn) {
			c.sites++
			key := fmt.Sprintf("%s#%d", fname(fn), s.Ordinal)
			sus := w.orderSuspects(s)
			if len(sus) == 0 {
				c.Pass(key, s.Range.Pos(), "order-free body (keyed writes / commutative accumulation / collect-then-sort / logging)")
				continue
			}
			if r, ok := tabled[key]; ok {
				c.Pass(key, s.Range.Pos(), "tabled after review: "+r)
				continue
			}
			c.Fail(key, s.Range.Pos(), "map iteration whose effect may depend on Go's randomised iteration order: "+strings.Join(sus, "; ")+" [reached via "+pathTo(reach, fn)+"]")
		}
	}

	// sync.Map.Range hands its elements out in no particular order too: what the callback collects is sorted
	// (or given to a constructor that sorts) before it is used
	sorters := map[string]bool{"Sort": true, "Slice": true, "SliceStable": true, "Stable": true, "sort": true, "NewValidators": true, "Strings": true}
	for _, fn := range fns {
		k := 0
		for _, ci := range callInstrs(fn) {
			o := calleeObj(ci)
			if o == nil || o.Name() != "Range" || recvName(o) != "Map" || o.Pkg() == nil || o.Pkg().Path() != "sync" {
				continue
			}
			mc, ok := stripConv(callArgs(ci)[0]).(*ssa.MakeClosure)
			if !ok {
				continue
			}
			cl := mc.Fn.(*ssa.Function)
			c.sites++
			key := fmt.Sprintf("%s#sync.Map.Range@%d", fname(fn), k)
			k++
			// captured variables the callback appends to
			var collected []ssa.Value
			logs := false
			for _, in := range allInstrs(cl) {
				if st, isSt := in.(*ssa.Store); isSt {
					if fv, isFV := st.Addr.(*ssa.FreeVar); isFV {
						if cc, isCall := stripConv(st.Val).(*ssa.Call); isCall {
							if bi, isB := cc.Call.Value.(*ssa.Builtin); isB && bi.Name() == "append" {
								for i, f := range cl.FreeVars {
									if f == fv && i < len(mc.Bindings) {
										collected = append(collected, mc.Bindings[i])
									}
								}
							}
						}
					}
				}
				if cj, isCall := in.(ssa.CallInstruction); isCall {
					if f := calleeObj(cj); f != nil && (f.Name() == "AddLog" || f.Name() == "addLog") {
						logs = true
					}
				}
			}
			bad := ""
			if logs {
				bad = "the callback emits logs in iteration order"
			}
			for _, a := range collected {
				sorted := false
				for _, cj := range callInstrs(fn) {
					f := calleeObj(cj)
					if f == nil || !sorters[f.Name()] || !(instrDominates(ci, cj) || ci.Block() == cj.Block()) {
						continue
					}
					for _, arg := range append(callArgs(cj), callRecv(cj)) {
						if arg != nil && derivesFrom(arg, func(v ssa.Value) bool { return v == a }) {
							sorted = true
						}
					}
				}
				if !sorted {
					bad = "the callback collects the elements with append and the slice is used without being sorted"
				}
			}
			c.Check(key, ci.Pos(), bad == "", ifelse(bad == "", "order-free callback (keyed writes / counting / collect-then-sort)", "iteration over a sync.Map whose effect may depend on its unspecified order: "+bad+" [reached via "+pathTo(reach, fn)+"]: builder and importer (or two runs) produce different log orders and receipt roots"))
		}
	}

	// ------------------------------------------------------------ N2
	c.Rule("C06.N2", "PROVENANCE", "inside block execution the chain head (CurrentHeader/CurrentBlock), time.Now, math/rand and os.Getenv/os.Environ are read only to be logged: execution depends on (parent state, block) alone")
	c.Min(3)
	for _, fn := range fns {
		for _, ci := range callInstrs(fn) {
			o := calleeObj(ci)
			if o == nil || o.Pkg() == nil {
				continue
			}
			k := o.Pkg().Path() + "." + o.Name()
			src := ""
			switch {
			case k == "time.Now":
				src = "the wall clock"
			case o.Pkg().Path() == "math/rand" || o.Pkg().Path() == "crypto/rand":
				src = "a random source"
			case k == "os.Getenv" || k == "os.Environ" || k == "os.Hostname" || k == "os.Getpid":
				src = "the process environment"
			case (o.Name() == "CurrentHeader" || o.Name() == "CurrentBlock" || o.Name() == "CurrentFastBlock") && recvName(o) != "":
				src = "the chain head"
			default:
				continue
			}
			c.sites++
			key := fmt.Sprintf("%s#%s@%s", fname(fn), o.Name(), siteOrdinal(fn, ci, ""))
			cv := ci.Value()
			if cv == nil {
				c.Pass(key, ci.Pos(), "result unused")
				continue
			}
			// the head accessor itself (returns its field) is not a use
			if fn.Name() == o.Name() {
				continue
			}
			ok, bad := w.flowsOnlyToLogging(cv)
			detail := "flows only into logging"
			if !ok {
				detail = fmt.Sprintf("%s is read during block execution and used at %s outside logging: the result of executing a block depends on more than (parent state, block) [reached via %s]", src, w.Pos(bad.Pos()), pathTo(reach, fn))
			}
			c.Check(key, ci.Pos(), ok, detail)
		}
	}

	// ------------------------------------------------------------ N3
	c.Rule("C06.N3", "SIBLINGS", "the block builder (miner.worker, core.BlockGen) and the importer (StateProcessor.Process) call the same ApplyTransaction and EndBlock; in the staking end-of-block hook the isSeal flag is used only to choose between slashing and replaySlashing (and for logging); ValidateState compares gas used, bloom, receipt root and all three state roots")
	c.Min(6)
	applyTx := w.FuncObj("core", "StateProcessor", "ApplyTransaction")
	endBlock := w.FuncObj("core", "StateProcessor", "EndBlock")
	for _, site := range []struct {
		pkg, what string
		fns       []*ssa.Function
	}{
		{"core", "importer (Process)", []*ssa.Function{w.Fn("core", "StateProcessor", "Process")}},
		{"miner", "block builder (miner)", w.FuncsIn("miner")},
		{"core", "chain maker (BlockGen)", chainMakerFuncs(w)},
	} {
		hasApply, hasEnd := false, false
		for _, fn := range site.fns {
			for _, f2 := range withClosures(fn) {
				if len(callsTo(f2, applyTx)) > 0 || len(callsByName(f2, "Processor", "ApplyTransaction")) > 0 {
					hasApply = true
				}
				if len(callsTo(f2, endBlock)) > 0 || len(callsByName(f2, "Processor", "EndBlock")) > 0 {
					hasEnd = true
				}
			}
		}
		c.Check(site.what+"#same-transition", 0, hasApply && hasEnd, ifelse(hasApply && hasEnd, "calls StateProcessor.ApplyTransaction and StateProcessor.EndBlock", fmt.Sprintf("%s no longer runs the shared transition (ApplyTransaction=%v EndBlock=%v)", site.what, hasApply, hasEnd)))
	}
	hook := w.Fn("staking", "", "EndBlock")
	var hookFn *ssa.Function
	for _, a := range hook.AnonFuncs {
		if len(a.Params) == 6 {
			hookFn = a
		}
	}
	if hookFn == nil {
		c.Undecided("staking.EndBlock$1#isSeal", hook.Pos(), "the hook closure was not found")
	} else {
		var isSeal *ssa.Parameter
		for _, p := range hookFn.Params {
			if types.Identical(p.Type(), types.Typ[types.Bool]) {
				isSeal = p
			}
		}
		slashing := w.FuncObj("staking", "Staking", "slashing")
		replay := w.FuncObj("staking", "Staking", "replaySlashing")
		okUse := isSeal != nil
		detail := "isSeal selects slashing / replaySlashing and is logged"
		if isSeal != nil {
			for _, ref := range *isSeal.Referrers() {
				switch x := ref.(type) {
				case *ssa.If:
					tb, fb := x.Block().Succs[0], x.Block().Succs[1]
					if !(blockCalls(tb, slashing) && blockCalls(fb, replay)) {
						okUse = false
						detail = "isSeal steers something other than the choice slashing / replaySlashing at " + w.Pos(x.Pos())
					}
				case *ssa.MakeInterface:
					if ok, bad := w.flowsOnlyToLogging(x); !ok {
						okUse = false
						detail = "isSeal is used outside logging at " + w.Pos(bad.Pos())
					}
				case *ssa.DebugRef:
				case *ssa.MakeClosure:
				default:
					okUse = false
					detail = fmt.Sprintf("isSeal is used by %T at %s: builder and validator may diverge", ref, w.Pos(ref.Pos()))
				}
			}
		}
		c.Check("staking.EndBlock$1#isSeal-use", hookFn.Pos(), okUse, detail)
		// no other function under the hook takes the flag
		for _, fn := range fns {
			if fn == hookFn || fn.Pkg == nil || fn.Pkg.Pkg.Path() != full("staking") {
				continue
			}
			for _, p := range fn.Params {
				if p.Name() == "isSeal" {
					c.Fail(fname(fn)+"#isSeal-param", fn.Pos(), "a function below the end-of-block hook receives the isSeal flag: builder and validator may diverge")
				}
			}
		}
	}
	// slashing and replaySlashing share processEvidences
	pe := w.FuncObj("staking", "Staking", "processEvidences")
	for _, n := range []string{"slashing", "replaySlashing"} {
		fn := w.Fn("staking", "Staking", n)
		ok := len(callsTo(fn, pe)) == 1
		c.Check(fname(fn)+"#shares-processEvidences", fn.Pos(), ok, ifelse(ok, "delegates to processEvidences", n+" no longer delegates to the shared evidence function"))
	}
	vs := w.Fn("core", "BlockValidator", "ValidateState")
	want := map[string]bool{"Root": false, "ValRoot": false, "StakingRoot": false, "ReceiptHash": false, "Bloom": false}
	hdr := w.Struct("core/types", "Header")
	for _, vfn := range withSmallHelpers(vs) {
		for _, b := range vfn.Blocks {
			for _, in := range b.Instrs {
				if bo, ok := in.(*ssa.BinOp); ok {
					for _, v := range []ssa.Value{bo.X, bo.Y} {
						if f, _ := loadedField(stripConv(v)); f != nil && ownerOfField(hdr, f) {
							if _, has := want[f.Name()]; has {
								want[f.Name()] = true
							}
						}
					}
				}
			}
		}
	}
	var missing []string
	for f, ok := range want {
		if !ok {
			missing = append(missing, f)
		}
	}
	sort.Strings(missing)
	gasCmp := false
	for _, ci := range callInstrs(vs) {
		if o := calleeObj(ci); o != nil && o.Name() == "GasUsed" {
			gasCmp = true
		}
	}
	irTrue := false
	for _, ci := range callInstrs(vs) {
		if o := calleeObj(ci); o != nil && o.Name() == "IntermediateRoot" {
			if cv, ok := callArgs(ci)[0].(*ssa.Const); ok && cv.Value != nil && cv.Value.String() == "true" {
				irTrue = true
			}
		}
	}
	c.Check(fname(vs)+"#commitments-compared", vs.Pos(), len(missing) == 0 && gasCmp && irTrue, ifelse(len(missing) == 0 && gasCmp && irTrue, "gas used, bloom, receipt root and the three roots of IntermediateRoot(true) are compared with the header", "ValidateState no longer compares: "+strings.Join(missing, ", ")+ifelse(gasCmp, "", " gasUsed")+ifelse(irTrue, "", " IntermediateRoot(true)")))
	// Process verifies gas rewards and returns on any transaction error
	pr := w.Fn("core", "StateProcessor", "Process")
	grOK, grWhy := gasRewardsGate(w, pr)
	c.Check(fname(pr)+"#gas-rewards-compared", pr.Pos(), grOK, ifelse(grOK, "the end-of-block hook is reached only when the gas rewards accumulated by ApplyTransaction equal the header's", grWhy))

	// ------------------------------------------------------------ N4
	c.Rule("C06.N4", "CONFINED", "goroutines started by functions reachable from block execution are tabled: they only fill per-transaction sender caches")
	c.Min(1)
	allowedGo := map[string]string{
		"(core.DefaultConverter).ApplyMessage": "watches an optional cancellation context (RPC call timeouts) and only calls evm.Cancel(); block import and block building pass no cancellable context",
		"core.ProcessSenders":                  "recovers transaction senders in parallel and stores each into that transaction's own sender cache",
	}
	nGo := 0
	for _, fn := range fns {
		for _, b := range fn.Blocks {
			for _, in := range b.Instrs {
				if g, ok := in.(*ssa.Go); ok {
					nGo++
					name := outerName(fname(fn))
					r, ok := allowedGo[name]
					c.Check(name+"#go", g.Pos(), ok, ifelse(ok, "tabled: "+r, "block execution starts a goroutine here: its interleaving with the rest of the transition is a source of nondeterminism [reached via "+pathTo(reach, fn)+"]"))
				}
			}
		}
	}
	if nGo == 0 {
		c.Pass("no-goroutines", 0, "no goroutine is started under block execution")
	}

	// ------------------------------------------------------------ N5
	c.Rule("C06.N5", "ALWAYS-WITH", "a lazily decoded value kept beside its encoded source stays coherent with it: every function that stores the encoded source (Validator.Ext.Data) also stores the decoded cache (Ext.extV1.LastActive) on the same paths, so a live validator object and one freshly loaded from the trie answer LastActive() alike")
	c.Min(2)
	type lazyCache struct{ pkg, ownerSrc, src, ownerCache, cache, getterRecv, getter string }
	for _, lc := range []lazyCache{{"core/state", "Extension", "Data", "ExtV1", "LastActive", "Validator", "LastActive"}} {
		srcF := w.Field(lc.pkg, lc.ownerSrc, lc.src)
		cacheF := w.Field(lc.pkg, lc.ownerCache, lc.cache)
		// the getter really is lazy: it stores the cache under a test of the cache itself
		g := w.Fn(lc.pkg, lc.getterRecv, lc.getter)
		c.sawFunc(fname(g))
		lazy := false
		for _, fw := range fieldWrites(g) {
			if fw.Field != cacheF {
				continue
			}
			for _, a := range atomsOf(factsAtInstr(fw.Instr)) {
				if f, _ := loadedField(stripConv(a.X)); f == cacheF {
					lazy = true
				}
			}
		}
		c.sites++
		c.Check(fname(g)+"#lazy-decode", g.Pos(), lazy, ifelse(lazy, "fills "+lc.cache+" from "+lc.src+" only while the cache is unset", "the getter no longer has the lazy-decode shape this rule was written for: re-confirm the cache discipline"))
		nSrc := 0
		for _, fn := range w.FuncsIn(lc.pkg) {
			if strings.HasSuffix(w.fileOf(fn.Pos()), "_test.go") {
				continue
			}
			var srcW, cacheW []ssa.Instruction
			for _, fw := range fieldWrites(fn) {
				if fw.Kind != "store" {
					continue
				}
				if fw.Field == srcF {
					srcW = append(srcW, fw.Instr)
				}
				if fw.Field == cacheF {
					cacheW = append(cacheW, fw.Instr)
				}
			}
			for i, sw := range srcW {
				nSrc++
				c.sites++
				c.sawFunc(fname(fn))
				ok := len(cacheW) > 0 && alwaysWith(sw, cacheW)
				c.Check(fmt.Sprintf("%s#%s-store@%d-updates-%s", fname(fn), lc.src, i, lc.cache), sw.Pos(), ok, ifelse(ok, "the decoded cache is stored on the same paths", "the encoded "+lc.src+" is replaced without the decoded "+lc.cache+": an object whose cache was already filled keeps answering the old value while a freshly loaded one decodes the new — the outcome of a block depends on which validator objects were alive"))
			}
		}
		if nSrc == 0 {
			c.Undecided(lc.pkg+"."+lc.ownerSrc+"."+lc.src+"#writers", 0, "no store of the encoded source found")
		}
	}

	// ------------------------------------------------------------ N6
	c.Rule("C06.N6", "ALWAYS-WITH", "the sorted validator set cached in StateDB.validatorsSorted holds the record objects of the live validator map: every function that stores into, deletes from or replaces StateDB.validatorObjects of an existing state drops that cache on the same paths, so a state carried across blocks (side-chain verification) and a state freshly opened per block distribute rewards over the same records")
	c.Min(3)
	{
		objF := w.Field("core/state", "StateDB", "validatorObjects")
		cacheF := w.Field("core/state", "StateDB", "validatorsSorted")
		nW := 0
		for _, fn := range w.FuncsIn("core/state") {
			if strings.HasSuffix(w.fileOf(fn.Pos()), "_test.go") {
				continue
			}
			var writes []ssa.Instruction
			var bases []ssa.Value
			var drops []ssa.Instruction
			for _, in := range allInstrs(fn) {
				switch x := in.(type) {
				case ssa.CallInstruction:
					o := calleeObj(x)
					if o == nil || recvName(o) != "Map" || o.Pkg() == nil || o.Pkg().Path() != "sync" {
						continue
					}
					switch o.Name() {
					case "Store", "Delete", "LoadOrStore", "LoadAndDelete", "Swap", "CompareAndSwap", "CompareAndDelete":
					default:
						continue
					}
					if fa, ok := stripConv(callRecv(x)).(*ssa.FieldAddr); ok && fieldOfAddr(fa) == objF {
						writes = append(writes, x)
						bases = append(bases, fa.X)
					}
				case *ssa.Store:
					if fa, ok := x.Addr.(*ssa.FieldAddr); ok {
						if fieldOfAddr(fa) == objF {
							writes = append(writes, x)
							bases = append(bases, fa.X)
						}
						if fieldOfAddr(fa) == cacheF {
							drops = append(drops, x)
						}
					}
				}
			}
			for i, wr := range writes {
				if isLocalAlloc(bases[i]) || freshInAllCallers(w, fn, bases[i]) {
					continue // a state object created in this function or handed in fresh by all callers (Copy / New): its cache is empty
				}
				nW++
				c.sites++
				c.sawFunc(fname(fn))
				ok := len(drops) > 0 && alwaysWith(wr, drops)
				c.Check(fmt.Sprintf("%s#validatorObjects-write@%d-drops-sorted-cache", fname(fn), i), wr.Pos(), ok, ifelse(ok, "validatorsSorted is reset on the same paths", "the live validator map changes while the cached sorted set keeps the superseded record objects: GetValidators() (pre-V5 reward distribution, committee look-ups) answers from stale records on a state that lives across blocks, and from fresh ones on a state opened per block — a valid fork is rejected with an invalid validator root"))
			}
		}
		if nW < 3 {
			c.Undecided("core/state.StateDB.validatorObjects#writers", 0, fmt.Sprintf("only %d writers of the live validator map found", nW))
		}
	}
	// ------------------------------------------------------------ N7
	c.Rule("C06.N7", "ORDER", "the importer replays the slashing evidences in the order of header.SlashData, the builder has applied them (state changes, logs) in the order processEvidences confirmed them: between that call and the encoding into the header the builder does not reorder the confirmed list — no sort.* call and no element store on it in (*Staking).slashing. Otherwise, with two evidences confirmed in one block, builder and importer emit the slashing logs in different orders and the block is rejected by every node (invalid receipt root)")
	c.Min(1)
	{
		sl := w.Fn("staking", "Staking", "slashing")
		c.sawFunc(fname(sl))
		hdrSlash := w.Field("core/types", "Header", "SlashData")
		n := 0
		for _, fw := range fieldWrites(sl) {
			if fw.Field != hdrSlash {
				continue
			}
			st, ok := fw.Instr.(*ssa.Store)
			if !ok {
				continue
			}
			// the list that is encoded
			var enc *ssa.Call
			backward(st.Val, func(v ssa.Value) bool {
				if cc, isCall := v.(*ssa.Call); isCall {
					if o := calleeObj(cc); o != nil && strings.HasPrefix(o.Name(), "Encode") && enc == nil {
						enc = cc
					}
					return false
				}
				return enc == nil
			})
			if enc == nil {
				continue
			}
			n++
			c.sites++
			list := enc.Call.Args[len(enc.Call.Args)-1]
			// the list itself, or the value it is a copy / conversion of
			origins := map[ssa.Value]bool{}
			backward(list, func(x ssa.Value) bool {
				switch x.(type) {
				case *ssa.Const, *ssa.Global, *ssa.Function, *ssa.Builtin:
					return false
				}
				origins[x] = true
				_, isCall := x.(*ssa.Call)
				return !isCall
			})
			isList := func(v ssa.Value) bool {
				return derivesFrom(v, func(x ssa.Value) bool { return origins[x] })
			}
			bad := ""
			for _, fn := range withClosures(sl) {
				for _, ci := range callInstrs(fn) {
					o := calleeObj(ci)
					if o == nil || o.Pkg() == nil || o.Pkg().Path() != "sort" {
						continue
					}
					for _, a := range callArgs(ci) {
						if isList(a) && bad == "" {
							bad = "sort." + o.Name() + " at " + w.Pos(ci.Pos())
						}
					}
				}
			}
			c.Check(fmt.Sprintf("%s#header-order-is-applied-order-%d", fname(sl), n), st.Pos(), bad == "", ifelse(bad == "", "the confirmed list is encoded as processEvidences returned it", "the confirmed evidences are reordered ("+bad+") after they were applied and before they are written into the header: the importer applies them in header order, its logs and receipt root differ, and every node rejects the block"))
		}
		if n == 0 {
			c.Undecided(fname(sl)+"#header-order-is-applied-order", sl.Pos(), "the store of header.SlashData from an encoded list was not found in slashing")
		}
	}

	// ------------------------------------------------------------ N8
	c.Rule("C06.N8", "EXHAUSTIVE", "a state object carried across a staking period (side-chain verification re-executes a fork on one StateDB) starts the new period like a freshly opened one: ResetStakingTrie gives a fresh value to every StateDB field that caches content of the staking trie — the fields that the functions reading or writing st.stakingTrie also write (live records, pending relationships and their dirty marks). A record kept from the old period is preferred over the new empty trie: the same block on the same parent state then yields a different staking root depending on the state object's history")
	c.Min(3)
	{
		rs := w.Fn(statePkg, "StateDB", "ResetStakingTrie")
		c.sawFunc(fname(rs))
		stTrie := w.Field(statePkg, "StateDB", "stakingTrie")
		sdb := w.Struct(statePkg, "StateDB")
		caches := map[*types.Var]string{}
		for _, fn := range w.FuncsIn(statePkg) {
			if fn.Blocks == nil || fn == rs || strings.HasSuffix(w.fileOf(fn.Pos()), "_test.go") {
				continue
			}
			nm := fn.Name()
			if nm == "New" || nm == "Copy" || nm == "Reset" || nm == "Commit" || nm == "IntermediateRoot" || nm == "Finalise" || nm == "RawDump" || nm == "Dump" || nm == "RevertToSnapshot" || nm == "Snapshot" {
				continue // whole-state lifecycle functions touch every trie
			}
			reads := false
			for _, b := range fn.Blocks {
				for _, in := range b.Instrs {
					if u, ok := in.(*ssa.UnOp); ok {
						if f, _ := loadedField(u); f == stTrie {
							reads = true
						}
					}
				}
			}
			if !reads {
				continue
			}
			for _, fw := range fieldWrites(fn) {
				if ownerOfField(sdb, fw.Field) && fw.Field != stTrie && fw.Field.Name() != "dbErr" && !isLocalAlloc(fw.Base) {
					caches[fw.Field] = fname(fn)
				}
			}
		}
		var names []string
		byName := map[string]*types.Var{}
		for f := range caches {
			names = append(names, f.Name())
			byName[f.Name()] = f
		}
		sort.Strings(names)
		if len(names) == 0 {
			c.Undecided(fname(rs)+"#staking-caches", rs.Pos(), "no StateDB field filled from the staking trie was found")
		}
		for _, nm := range names {
			f := byName[nm]
			c.sites++
			fresh := false
			for _, fw := range fieldWrites(rs) {
				if fw.Field != f || fw.Kind != "store" {
					continue
				}
				st := fw.Instr.(*ssa.Store)
				old := derivesFrom(st.Val, func(v ssa.Value) bool { lf, _ := loadedField(v); return lf == f })
				if !old {
					fresh = true
				}
			}
			if !fresh {
				// re-loaded from the new trie by a function ResetStakingTrie calls
				for _, ci := range callInstrs(rs) {
					if g := ci.Common().StaticCallee(); g != nil && g.Blocks != nil {
						for _, fw := range fieldWrites(g) {
							if fw.Field == f && fw.Kind == "store" {
								st := fw.Instr.(*ssa.Store)
								if !derivesFrom(st.Val, func(v ssa.Value) bool { lf, _ := loadedField(v); return lf == f }) {
									fresh = true
								}
							}
						}
					}
				}
			}
			c.Check(fmt.Sprintf("%s#fresh-%s", fname(rs), nm), rs.Pos(), fresh, ifelse(fresh, "assigned a fresh value", "StateDB."+nm+" (filled from the staking trie by "+caches[f]+") keeps its content across the reset: a live record of the old period shadows the new empty trie, so a carried state and a fresh state compute different staking roots for the same block"))
		}
	}
	// ------------------------------------------------------------ N9
	c.Rule("C06.N9", "MAP-ORDER", "a loop over a map that writes into a trie does not stop half way: in core/state a range over a map whose body calls TryUpdate / TryDelete on a trie has no exit other than the end of the map — an early return (also on an error) leaves the trie with the entries of the keys that happened to come first, and since the error of the staking-trie flush is not what decides the block, the same block then yields different roots on different runs. (Encode first, then write; or iterate sorted keys.)")
	c.Min(1)
	{
		nLoops := 0
		for _, fn := range w.FuncsIn(statePkg) {
			if fn.Blocks == nil || strings.HasSuffix(w.fileOf(fn.Pos()), "_test.go") {
				continue
			}
			for _, mr := range mapRanges(fn) {
				writes := false
				for b := range mr.Loop {
					for _, in := range b.Instrs {
						if ci, ok := in.(ssa.CallInstruction); ok {
							if o := calleeObj(ci); o != nil && (o.Name() == "TryUpdate" || o.Name() == "TryDelete") {
								writes = true
							}
						}
					}
				}
				if !writes {
					continue
				}
				nLoops++
				c.sites++
				c.sawFunc(fname(fn))
				early := ""
				for b := range mr.Loop {
					for _, sc := range b.Succs {
						if mr.Loop[sc] || b == mr.Header {
							continue
						}
						// an exit from the loop body (not the header's "map exhausted" edge)
						early = w.Pos(b.Instrs[len(b.Instrs)-1].Pos())
						if early == "-" || early == "" {
							early = fmt.Sprintf("block %d", b.Index)
						}
					}
				}
				c.Check(fmt.Sprintf("%s#map-range-%d-writes-all-or-nothing", fname(fn), mr.Ordinal), mr.Range.Pos(), early == "", ifelse(early == "", "the loop ends only when the map is exhausted", "the loop over a map writes trie entries and can be left early ("+early+"): which entries were written before the exit depends on the iteration order — with one un-encodable dirty staking record (a pending record driven negative by a withdraw followed by a larger delegation-sub) the builder's block gets a different staking root on each import"))
			}
		}
		if nLoops == 0 {
			c.Undecided(statePkg+"#map-ranges-writing-tries", token.NoPos, "no range over a map that writes into a trie found in core/state")
		}
	}

	// ------------------------------------------------------------ N10
	c.Rule("C06.N10", "WHO-MAY-CALL", "block execution reads nothing that is not committed state: no function reachable from block execution asks a secure trie for the pre-image of a hashed key (SecureTrie.GetKey, trie.Database pre-image table). Pre-images are a node-local side table filled only on nodes that executed the writes themselves; a node that obtained the identical parent state by fast sync has none, silently sees fewer records and computes another root for the same block")
	c.Min(1)
	{
		getKey := w.Fn("trie", "SecureTrie", "GetKey")
		if getKey == nil {
			c.Undecided("trie.SecureTrie.GetKey", token.NoPos, "the pre-image accessor of the secure trie is not found")
		} else {
			// the accessor itself, or the same method of an interface the secure trie is used through
			isPre := func(o *types.Func) bool {
				if o == nil || o.Name() != "GetKey" {
					return false
				}
				if o == getKey.Object() {
					return true
				}
				sig, _ := o.Type().(*types.Signature)
				if sig == nil || sig.Recv() == nil {
					return false
				}
				if it, ok := sig.Recv().Type().Underlying().(*types.Interface); ok {
					return types.Implements(getKey.Signature.Recv().Type(), it)
				}
				return false
			}
			// positive control: the accessor has callers in the repository at all (the state dump)
			anyCaller := 0
			for _, fn := range w.AllFuncs() {
				if fn.Blocks == nil || strings.HasSuffix(w.fileOf(fn.Pos()), "_test.go") {
					continue
				}
				for _, ci := range callInstrs(fn) {
					if isPre(calleeObj(ci)) {
						anyCaller++
					}
				}
			}
			c.Check("trie.SecureTrie.GetKey#has-callers", getKey.Pos(), anyCaller > 0, fmt.Sprintf("%d call sites of the pre-image accessor in the repository (the rule is not vacuous)", anyCaller))
			for _, fn := range fns {
				k := 0
				for _, ci := range callInstrs(fn) {
					if !isPre(calleeObj(ci)) {
						continue
					}
					c.sites++
					c.Fail(fmt.Sprintf("%s#reads-preimage-%d", fname(fn), k), ci.Pos(), "reads the pre-image of a trie key inside block execution: the answer comes from a node-local table (filled only where the key was written by execution), not from the state the block starts from — a fast-synced node skips the record and rejects the period's last block [reached via "+pathTo(reach, fn)+"]")
					k++
				}
			}
		}
	}
	c06RoundE(c, w)
	c06RoundF(c, w)
}

func chainMakerFuncs(w *World) []*ssa.Function {
	var out []*ssa.Function
	for _, fn := range w.FuncsIn("core") {
		f := w.fileOf(fn.Pos())
		if strings.HasSuffix(f, "core/chain_makers.go") {
			out = append(out, fn)
		}
	}
	return out
}

// blockCalls: the block (or the straight-line blocks it jumps to) calls obj.
func blockCalls(b *ssa.BasicBlock, obj *types.Func) bool {
	seen := map[*ssa.BasicBlock]bool{}
	for b != nil && !seen[b] {
		seen[b] = true
		for _, in := range b.Instrs {
			if ci, ok := in.(ssa.CallInstruction); ok && sameFunc(calleeObj(ci), obj) {
				return true
			}
		}
		if _, ok := b.Instrs[len(b.Instrs)-1].(*ssa.Jump); ok {
			b = b.Succs[0]
		} else {
			return false
		}
	}
	return false
}

func c06Variants() []Variant {
	return []Variant{
		{Name: "log-inside-role-range", File: "staking/endblock.go", Old: "		for role, info := range roleRewards {\n			if role == params.RoleHouse {\n				initStat.GetByRole(role).AddRewards(info.rewards)", New: "		for role, info := range roleRewards {\n			ctx.receipt.Logs = append(ctx.receipt.Logs, &types.Log{Address: params.StakingModuleAddress, Data: common.BigToHash(info.rewards).Bytes()})\n			if role == params.RoleHouse {\n				initStat.GetByRole(role).AddRewards(info.rewards)", Rule: "C06.N1", Construct: "rewardsToPool"},
		{Name: "first-dirty-object", File: "core/state/statedb.go", Old: "	for addr := range st.stateObjectsPending {\n		obj := st.stateObjects[addr]\n		if obj.deleted {", New: "	for addr := range st.stateObjectsPending {\n		obj := st.stateObjects[addr]\n		if obj.suicided && len(st.stateObjectsPending) > 8 {\n			break\n		}\n		if obj.deleted {", Rule: "C06.N1", Construct: "IntermediateRoot"},
		{Name: "head-as-parent-again", File: "staking/slash.go", Old: "	parentHeight := new(big.Int).Sub(header.Number, big.NewInt(1))", New: "	parentHeight := new(big.Int).Set(ctx.chain.CurrentHeader().Number)", Rule: "C06.N2", Construct: "replaySlashing#CurrentHeader"},
		{Name: "clock-in-log-topic", File: "staking/handler.go", Old: "		Topics:      []common.Hash{common.StringToHash(LogTopicWithdraw), tx.MainAddress.Hash()},\n		Data:        combinePendingStakingLogData(ctx.Cfg.CurrYouParams.StakingTrieFrequency, number, finalStaking),", New: "		Topics:      []common.Hash{common.StringToHash(LogTopicWithdraw), tx.MainAddress.Hash(), common.BigToHash(big.NewInt(time.Now().Unix()))},\n		Data:        combinePendingStakingLogData(ctx.Cfg.CurrYouParams.StakingTrieFrequency, number, finalStaking),", Rule: "C06.N2", Construct: "handleWithdraw#Now"},
		{Name: "seal-only-rewards", File: "staking/endblock.go", Old: "		// rewards to pool for each block\n		rewardsToPool(ctx)", New: "		// rewards to pool for each block\n		if !isSeal || header.Number.Uint64()%7 != 0 {\n			rewardsToPool(ctx)\n		}", Rule: "C06.N3", Construct: "isSeal-use"},
		{Name: "flush-stops-half-way", File: "core/state/statedb_staking.go", Old: "		updates = append(updates, encodedRecord{key, data})\n", New: "		if st.stakingTrie.TryUpdate(key[:], data) != nil {\n			break\n		}\n", Rule: "C06.N9", Construct: "updateStakingTrie"},
		{Name: "preimage-read-in-flush", File: "core/state/statedb_staking.go", Old: "	for _, u := range updates {\n", New: "	for _, u := range updates {\n		if len(st.stakingTrie.GetKey(u.key[:])) == 0 {\n			continue\n		}\n", Rule: "C06.N10", Construct: "updateStakingTrie"},
	}
}

// freshInAllCallers: v is a parameter of fn and every static caller passes an
// object it allocated itself (a tail of a constructor / copy function split off
// into a helper that receives the new object).
func freshInAllCallers(w *World, fn *ssa.Function, v ssa.Value) bool {
	p, ok := stripConvNoBind(v).(*ssa.Parameter)
	if !ok {
		return false
	}
	idx := -1
	for i, q := range fn.Params {
		if q == p {
			idx = i
		}
	}
	cs := w.Callers(fn)
	if idx < 0 || len(cs) == 0 {
		return false
	}
	for _, ci := range cs {
		args := ci.Common().Args
		if idx >= len(args) || !isLocalAlloc(args[idx]) {
			return false
		}
	}
	return true
}

// gasRewardsGate: in Process the call of EndBlock is reached only on paths on which a Cmp between the accumulator
// handed to every ApplyTransaction and header.GasRewards came out equal (sign domain over the Cmp result).
func gasRewardsGate(w *World, pr *ssa.Function) (bool, string) {
	var acc ssa.Value
	for _, ci := range callInstrs(pr) {
		if o := calleeObj(ci); o != nil && o.Name() == "ApplyTransaction" {
			for _, a := range callArgs(ci) {
				if isBigIntPtr(a.Type()) {
					if acc != nil && stripConvNoBind(a) != acc {
						return false, "ApplyTransaction is handed different gas-reward accumulators"
					}
					acc = stripConvNoBind(a)
				}
			}
		}
	}
	if acc == nil {
		return false, "Process no longer hands a gas-reward accumulator to ApplyTransaction"
	}
	var ends []ssa.CallInstruction
	for _, ci := range callInstrs(pr) {
		if o := calleeObj(ci); o != nil && o.Name() == "EndBlock" {
			ends = append(ends, ci)
		}
	}
	if len(ends) == 0 {
		return false, "Process no longer calls EndBlock"
	}
	for _, eb := range ends {
		atoms := atomsOf(factsAt(eb.Block()))
		ok := false
		for _, ci := range callInstrs(pr) {
			cc, isCall := ci.(*ssa.Call)
			if !isCall {
				continue
			}
			o := calleeObj(cc)
			if o == nil || o.Name() != "Cmp" || o.Pkg() == nil || o.Pkg().Path() != "math/big" || !instrDominates(cc, eb.(ssa.Instruction)) {
				continue
			}
			r, a := stripConvNoBind(callRecv(cc)), stripConvNoBind(callArgs(cc)[0])
			isHdr := func(v ssa.Value) bool {
				f, _ := loadedField(v)
				return f != nil && f.Name() == "GasRewards"
			}
			if !((r == acc && isHdr(a)) || (a == acc && isHdr(r))) {
				continue
			}
			al := allowedSigns(atoms, cc)
			if !al[0] && al[1] && !al[2] {
				ok = true
			}
		}
		if !ok {
			return false, "the end-of-block hook (" + w.Pos(eb.Pos()) + ") is reached without the computed gas rewards having been found EQUAL to header.GasRewards: the proposer's figure, not what the transactions paid, is distributed as rewards"
		}
	}
	return true, ""
}

// c06RoundE: N11 (the builder's gas pool only shrinks) and N12 (Commit writes every pre-image).
func c06RoundE(c *Ctx, w *World) {
	c.Rule("C06.N11", "WHO-MAY-CALL", "every block the builder assembles is accepted by the importer, whose gas pool starts at header.GasLimit and only shrinks: in package miner gas is added to a pool only when the pool is made (new(GasPool).AddGas(limit)), never to the pool of the block under construction. A rejected transaction is refused by preCheck before any gas is taken; giving its limit \"back\" inflates the builder's pool above the limit, the block's gas used exceeds it and every importer fails with \"gas limit reached\"")
	c.Min(1)
	{
		n := 0
		for _, fn := range w.FuncsIn("miner") {
			if fn.Blocks == nil || strings.HasSuffix(w.fileOf(fn.Pos()), "_test.go") {
				continue
			}
			k := 0
			for _, ci := range callInstrs(fn) {
				o := calleeObj(ci)
				if o == nil || o.Name() != "AddGas" || recvName(o) != "GasPool" {
					continue
				}
				n++
				c.sites++
				c.sawFunc(fname(fn))
				_, fresh := stripConvNoBind(callRecv(ci)).(*ssa.Alloc)
				c.Check(fmt.Sprintf("%s#gas-added-%d-only-to-a-new-pool", fname(fn), k), ci.Pos(), fresh, ifelse(fresh, "the pool is made here", "gas is added to the pool of the block under construction: the builder can spend more gas than header.GasLimit, which no importer accepts"))
				k++
			}
		}
		if n == 0 {
			c.Undecided("miner#gas-pool-creation", token.NoPos, "no GasPool.AddGas call found in package miner (the creation of the block's pool is expected)")
		}
	}

	c.Rule("C06.N12", "EXIT", "independent of process and cache contents: as long as block execution recovers staking-record keys from secure-trie pre-images (N10), a node agrees with itself across a restart only because trie.Database.Commit writes ALL accumulated pre-images with the state it commits — the loop over db.preimages that puts them into the batch is passed on every path to Commit's success return, not only once the cache is large. Otherwise a node restarted before the end of a staking period silently skips the pending records and rejects the period's last block")
	c.Min(1)
	{
		cm := w.Fn("trie", "Database", "Commit")
		c.sawFunc(fname(cm))
		var ranges []ssa.Instruction
		for _, in := range allInstrs(cm) {
			rg, ok := in.(*ssa.Range)
			if !ok {
				continue
			}
			if f, _ := loadedField(stripConvNoBind(rg.X)); f != nil && f.Name() == "preimages" {
				// the loop must write
				ranges = append(ranges, rg)
			}
		}
		c.sites++
		if len(ranges) == 0 {
			c.Fail(fname(cm)+"#writes-all-preimages", cm.Pos(), "Commit no longer iterates over the accumulated pre-images")
		} else {
			bad := ""
			nSucc := 0
			for _, b := range cm.Blocks {
				ret, isRet := b.Instrs[len(b.Instrs)-1].(*ssa.Return)
				if !isRet || len(ret.Results) == 0 {
					continue
				}
				rv := ret.Results[len(ret.Results)-1]
				// a result spilled to a variable because of the deferred unlock: the value stored in this block
				if u, isU := rv.(*ssa.UnOp); isU && u.Op == token.MUL {
					if al, isAl := u.X.(*ssa.Alloc); isAl {
						for _, in := range b.Instrs {
							if st, isSt := in.(*ssa.Store); isSt && st.Addr == ssa.Value(al) {
								rv = st.Val
							}
						}
					}
				}
				if cv, isC := rv.(*ssa.Const); !isC || !cv.IsNil() {
					continue
				}
				nSucc++
				if !mustPassBefore(ret, ranges) {
					bad = w.Pos(ret.Pos())
				}
			}
			if nSucc == 0 {
				bad = "no success return recognised"
			}
			c.Check(fname(cm)+"#writes-all-preimages", ranges[0].Pos(), bad == "", ifelse(bad == "", "every success return of Commit has passed the pre-image loop", "Commit can succeed ("+bad+") without having gone through the loop that writes the accumulated pre-images: after a restart the node cannot recover the keys of staking records written before it"))
		}
	}
}

// c06RoundF: N13 (builder and importer keep the same end-of-block receipts) and N14 (statistics getters hand out copies).
func c06RoundF(c *Ctx, w *World) {
	c.Rule("C06.N13", "SIBLINGS", "the builder's block is accepted by the importer: the receipts the end-of-block hook returns are appended to the block's receipts under ONE condition in all three places that do it — StateProcessor.Process (import), BlockGen / GenerateChain and the miner's worker (build) — namely that the receipt is not nil. A further condition on one side only (skip a receipt without logs) makes the importer derive another receipt root than the builder committed to: an honest block is rejected")
	c.Min(3)
	{
		n := 0
		for _, fn := range append(w.FuncsIn("core"), w.FuncsIn("miner")...) {
			if fn.Blocks == nil || strings.HasSuffix(w.fileOf(fn.Pos()), "_test.go") {
				continue
			}
			var eb *ssa.Call
			for _, ci := range callInstrs(fn) {
				if o := calleeObj(ci); o != nil && o.Name() == "EndBlock" && recvName(o) != "" && len(callArgs(ci)) >= 5 {
					if cc, ok := ci.(*ssa.Call); ok {
						eb = cc
					}
				}
			}
			if eb == nil {
				continue
			}
			type scope struct {
				fn   *ssa.Function
				hook ssa.Value
			}
			scopes := []scope{{fn, eb}}
			// the merge may live in a helper of the package that is handed the hook's result
			for _, ci := range callInstrs(fn) {
				g := ci.Common().StaticCallee()
				if g == nil || g.Pkg != fn.Pkg || g.Blocks == nil {
					continue
				}
				for i, a := range ci.Common().Args {
					if i < len(g.Params) && derivesFrom(a, func(x ssa.Value) bool { return x == ssa.Value(eb) }) {
						if _, isSl := g.Params[i].Type().Underlying().(*types.Slice); isSl {
							scopes = append(scopes, scope{g, g.Params[i]})
						}
					}
				}
			}
			for _, sc := range scopes {
				fn, eb := sc.fn, sc.hook
				for _, in := range allInstrs(fn) {
					cc, ok := in.(*ssa.Call)
					if !ok {
						continue
					}
					b, isB := cc.Call.Value.(*ssa.Builtin)
					if !isB || b.Name() != "append" || len(cc.Call.Args) < 2 {
						continue
					}
					// append(receipts, receipt): a one-element slice literal holding an element of the hook's result
					elemOfHook := derivesFrom(cc.Call.Args[1], func(x ssa.Value) bool { return x == eb })
					if !elemOfHook {
						continue
					}
					if _, isPtrSlice := cc.Type().Underlying().(*types.Slice); !isPtrSlice {
						continue
					}
					if sl, okS := cc.Type().Underlying().(*types.Slice); !okS || !strings.HasSuffix(sl.Elem().String(), "types.Receipt") {
						continue
					}
					n++
					c.sites++
					c.sawFunc(fname(fn))
					extra := ""
					for _, a := range atomsOf(factsAt(cc.Block())) {
						if a.Kind == "isnil" {
							continue
						}
						for _, v := range []ssa.Value{a.X, a.Y} {
							if v != nil && derivesFrom(v, func(x ssa.Value) bool { return x == eb }) {
								if _, isLen := stripConvNoBind(v).(*ssa.Call); isLen || a.Kind == "cmp" || a.Kind == "eq" {
									// the loop's own index test compares with len(result): ignore comparisons of the index
									if cl, isCall := stripConvNoBind(v).(*ssa.Call); isCall {
										if bi, isBi := cl.Call.Value.(*ssa.Builtin); isBi && bi.Name() == "len" {
											if ex, isEx := stripConvNoBind(cl.Call.Args[0]).(*ssa.Extract); isEx && ex.Tuple == eb {
												continue
											}
											if stripConvNoBind(cl.Call.Args[0]) == eb {
												continue
											}
										}
									}
									extra = w.Pos(cc.Pos())
								}
							}
						}
					}
					c.Check(fmt.Sprintf("%s#hook-receipt-kept-iff-not-nil", fname(fn)), cc.Pos(), extra == "", ifelse(extra == "", "the receipt is appended under no condition but its being non-nil", "the receipt of the end-of-block hook is appended under a further condition on the receipt itself: builder and importer no longer keep the same receipts, the receipt roots differ"))
				}
			}
		}
		if n < 3 {
			c.Undecided("core+miner#hook-receipt-appends", token.NoPos, fmt.Sprintf("only %d places that append the end-of-block receipts found (Process, GenerateChain, worker expected)", n))
		}
	}

	c.Rule("C06.N14", "OWNERSHIP", "the same block on the same parent state gives the same roots whichever state object runs it: the amount getters of a statistics entry (ValKindStat.Get* returning *big.Int) hand out copies — ValKindStat.DeepCopy, and with it StateDB.Copy, builds its copy from these getters, and rewardsToPool changes the residue in place (SetRewardsResidue). A getter that returns the field itself makes a state copy share the big.Int with the original: executing a block on one moves the parent state the other starts from")
	c.Min(4)
	{
		vk := w.Named(statePkg, "ValKindStat")
		n := 0
		for _, fn := range w.FuncsIn(statePkg) {
			if fn.Blocks == nil || fn.Signature.Recv() == nil || !types.Identical(deref(fn.Signature.Recv().Type()), vk) || !strings.HasPrefix(fn.Name(), "Get") {
				continue
			}
			if fn.Signature.Results().Len() != 1 || !isBigIntPtr(fn.Signature.Results().At(0).Type()) {
				continue
			}
			n++
			c.sites++
			c.sawFunc(fname(fn))
			bad := false
			for _, b := range fn.Blocks {
				if ret, isRet := b.Instrs[len(b.Instrs)-1].(*ssa.Return); isRet && len(ret.Results) == 1 {
					if f, _ := loadedField(stripConvNoBind(ret.Results[0])); f != nil {
						bad = true
					}
				}
			}
			c.Check(fname(fn)+"#hands-out-a-copy", fn.Pos(), !bad, ifelse(!bad, "returns a new big.Int", "returns the statistics entry's own big.Int: DeepCopy / StateDB.Copy share it with the original, and the in-place setters of one state change the other"))
		}
		if n == 0 {
			c.Undecided(statePkg+"#ValKindStat-getters", token.NoPos, "no *big.Int getter of ValKindStat found")
		}
	}
}

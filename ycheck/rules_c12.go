package main

import (
	"fmt"
	"go/constant"
	"go/token"
	"go/types"
	"sort"
	"strings"

	"golang.org/x/tools/go/ssa"
)

// C12 — the protocol version changes only by a quorum of block votes.
//
// VerifyYouVersionState is a loop-free function that only compares header
// fields and parameters. Its decision table is extracted by enumerating its
// paths; the rules are stated over the accepting paths.

func init() {
	register(&propDef{
		ID:          "C12",
		Explanation: "The decision table of core.VerifyYouVersionState is extracted from its SSA form by enumerating every feasible path (phis resolved per path, constant conditions followed); on the accepting paths: every upgrade field of the new header is pinned by an equality or by a lower and an upper bound (W1); an approval can be added only while the round is strictly inside the voting window (W2); the builder writes exactly the fields the verifier constrains, InsertChain verifies the version state before importing, and the version in force is read from a header field protocolRoundBack rounds back (W3). Not decided: invariants over whole chains as a reachability property; that every built header is accepted, as values.",
		Assumptions: []string{"params.Versions entries are the protocol's parameter sets", "logging.Crit terminates the process (paths through it are still enumerated)"},
		Run:         runC12,
		Variants:    c12Variants,
	})
}

var upgradeFields = []string{"CurrVersion", "NextVersion", "NextApprovals", "NextVoteBefore", "NextSwitchOn"}

// hdrField: v is a load of <param>.<field> of a *types.Header parameter; returns ("prev"|"curr", field).
// paramSubst maps the parameters of package-local boolean helpers whose facts
// were inlined into the verifier's paths to the arguments they were called with.
var paramSubst = map[*ssa.Parameter]ssa.Value{}

func hdrField(fn *ssa.Function, v ssa.Value) (string, string) {
	f, base := loadedField(stripConv(v))
	if f == nil {
		return "", ""
	}
	for i := 0; i < 4; i++ {
		bp, isP := base.(*ssa.Parameter)
		if !isP {
			break
		}
		a, has := paramSubst[bp]
		if !has {
			break
		}
		base = stripConv(a)
	}
	p, ok := base.(*ssa.Parameter)
	if !ok {
		return "", ""
	}
	for i, q := range fn.Params {
		if q == p {
			if i == 0 {
				return "prev", f.Name()
			}
			return "curr", f.Name()
		}
	}
	return "", ""
}

func mentionsCurr(fn *ssa.Function, v ssa.Value, field string) bool {
	return derivesFrom(v, func(x ssa.Value) bool {
		who, f := hdrField(fn, x)
		return who == "curr" && f == field
	})
}

func mentions(fn *ssa.Function, v ssa.Value, who, field string) bool {
	return derivesFrom(v, func(x ssa.Value) bool {
		w2, f := hdrField(fn, x)
		return w2 == who && f == field
	})
}

func runC12(c *Ctx) {
	w := c.W
	vf := w.Fn("core", "", "VerifyYouVersionState")
	c.sawFunc(fname(vf))
	name := fname(vf)

	type accPath struct {
		atoms []Atom
		desc  string
	}
	var acc []accPath
	total := 0
	okEnum := enumPaths(vf, 20000, func(pr PathResult) {
		total++
		if len(pr.Ret.Results) != 1 {
			return
		}
		rv := pr.Resolve(pr.Ret.Results[0])
		cv, isC := stripConv(rv).(*ssa.Const)
		if !isC || !cv.IsNil() {
			return
		}
		acc = append(acc, accPath{atoms: atomsOf(inlineBoolHelpers(pr.Facts, 2))})
	})
	binds := snapshotBinds()
	if !okEnum || len(acc) == 0 {
		c.Rule("C12.W1", "EXHAUSTIVE", "")
		c.Undecided(name+"#decision-table", vf.Pos(), fmt.Sprintf("path enumeration failed (ok=%v, %d paths, %d accepting)", okEnum, total, len(acc)))
		return
	}
	c.Note("VerifyYouVersionState: %d feasible paths, %d accepting", total, len(acc))
	c.sites += total

	// classify a path by the case it belongs to
	classify := func(as []Atom) string {
		has := func(kind string, who, field string, other func(ssa.Value) bool, truth bool) bool {
			for _, a := range as {
				if a.Kind != kind || a.Truth != truth {
					continue
				}
				for _, pr := range [][2]ssa.Value{{a.X, a.Y}, {a.Y, a.X}} {
					wh, f := hdrField(vf, pr[0])
					if wh == who && f == field && (other == nil || other(pr[1])) {
						return true
					}
				}
			}
			return false
		}
		isZero := func(v ssa.Value) bool { n, ok := constInt(v); return ok && n == 0 }
		// a path that compared curr.CurrVersion == prev.CurrVersion (true) did not take the upgrade branch
		sameVersion := has("eq", "curr", "CurrVersion", func(v ssa.Value) bool { wh, f := hdrField(vf, v); return wh == "prev" && f == "CurrVersion" }, true)
		switch {
		case !sameVersion && has("eq", "prev", "NextSwitchOn", func(v ssa.Value) bool {
			return derivesFrom(v, func(x ssa.Value) bool {
				cc, ok := x.(*ssa.Call)
				return ok && calleeObj(cc) != nil && calleeObj(cc).Name() == "Uint64"
			})
		}, true):
			return "switch"
		case has("eq", "prev", "NextVersion", isZero, false) && has("eq", "curr", "NextVersion", isZero, true):
			return "failed-proposal"
		case has("eq", "prev", "NextVersion", isZero, false):
			return "on-going"
		case has("eq", "curr", "NextVersion", isZero, false):
			return "new-proposal"
		default:
			return "no-proposal"
		}
	}

	// ------------------------------------------------------------ W1
	c.Rule("C12.W1", "EXHAUSTIVE", "on every accepting path of VerifyYouVersionState each of curr.{CurrVersion, NextVersion, NextApprovals, NextVoteBefore, NextSwitchOn} is pinned: it occurs in a true equality whose other side does not mention it, or in both a lower and an upper bound; while a proposal is live its NextVersion, NextVoteBefore and NextSwitchOn are pinned by equality with the parent's (conditions moved into boolean helpers are inlined)")
	restoreBinds(binds)
	c.Min(4)
	type key struct{ class, field string }
	unconstrained := map[key]int{}
	classes := map[string]int{}
	for _, p := range acc {
		cl := classify(p.atoms)
		classes[cl]++
		for _, f := range upgradeFields {
			eq, lo, hi := false, false, false
			for _, a := range p.atoms {
				switch a.Kind {
				case "eq":
					if !a.Truth {
						continue
					}
					wx, fx := hdrField(vf, a.X)
					wy, fy := hdrField(vf, a.Y)
					if wx == "curr" && fx == f && !mentionsCurr(vf, a.Y, f) {
						eq = true
					}
					if wy == "curr" && fy == f && !mentionsCurr(vf, a.X, f) {
						eq = true
					}
				case "cmp":
					// normalise to "curr.F op other"
					op := a.Op
					x, y := a.X, a.Y
					if !a.Truth {
						op = negateCmp(op)
					}
					wx, fx := hdrField(vf, x)
					wy, fy := hdrField(vf, y)
					if wy == "curr" && fy == f && !(wx == "curr" && fx == f) {
						op = flipCmp(op)
						wx, fx = wy, fy
					}
					if wx == "curr" && fx == f {
						switch op {
						case token.GEQ, token.GTR:
							lo = true
						case token.LEQ, token.LSS:
							hi = true
						}
					}
				}
			}
			// a live proposal is carried over unchanged: its version, window end and switch round are
			// pinned by EQUALITY WITH THE PARENT'S field; a two-sided bound (the range a NEW proposal
			// may choose from) would let every later author move the announced switch round
			if cl == "on-going" && (f == "NextVersion" || f == "NextVoteBefore" || f == "NextSwitchOn") {
				eqPrev := false
				for _, a := range p.atoms {
					if a.Kind != "eq" || !a.Truth {
						continue
					}
					wx, fx := hdrField(vf, a.X)
					wy, fy := hdrField(vf, a.Y)
					if fx == f && fy == f && ((wx == "curr" && wy == "prev") || (wx == "prev" && wy == "curr")) {
						eqPrev = true
					}
				}
				if !eqPrev {
					unconstrained[key{cl, f}]++
				}
				continue
			}
			if !(eq || (lo && hi)) {
				unconstrained[key{cl, f}]++
			}
		}
	}
	var cls []string
	for cl := range classes {
		cls = append(cls, cl)
	}
	sort.Strings(cls)
	for _, cl := range cls {
		for _, f := range upgradeFields {
			k := key{cl, f}
			n := unconstrained[k]
			if cl == "new-proposal" && f == "NextVersion" {
				c.Pass(name+"#"+cl+"."+f, vf.Pos(), "tabled: which version a new proposal names is the proposer's free choice by protocol (only != 0 is required)")
				continue
			}
			c.Check(name+"#"+cl+"."+f, vf.Pos(), n == 0, ifelse(n == 0, fmt.Sprintf("pinned on all %d accepting paths of this case", classes[cl]), fmt.Sprintf("on %d of %d accepting paths of case %q the verifier accepts any value of curr.%s: the block's author sets it freely", n, classes[cl], cl, f)))
		}
	}

	// ------------------------------------------------------------ W2
	c.Rule("C12.W2", "GATE", "on every accepting path on which curr.NextApprovals may equal prev.NextApprovals+1, a condition orders the round strictly below the end of the voting window (prev.NextVoteBefore, or curr.NextVoteBefore pinned equal to it)")
	restoreBinds(binds)
	c.Min(1)
	nPlus, nBad := 0, 0
	for _, p := range acc {
		plus := false
		for _, a := range p.atoms {
			if a.Kind == "eq" && a.Truth {
				for _, pr := range [][2]ssa.Value{{a.X, a.Y}, {a.Y, a.X}} {
					wh, f := hdrField(vf, pr[0])
					if wh == "curr" && f == "NextApprovals" {
						if b, ok := stripConv(pr[1]).(*ssa.BinOp); ok && b.Op == token.ADD && mentions(vf, b, "prev", "NextApprovals") {
							plus = true
						}
					}
				}
			}
		}
		if !plus {
			continue
		}
		nPlus++
		window := false
		currPinned := false
		for _, a := range p.atoms {
			if a.Kind == "eq" && a.Truth {
				wx, fx := hdrField(vf, a.X)
				wy, fy := hdrField(vf, a.Y)
				if fx == "NextVoteBefore" && fy == "NextVoteBefore" && wx != wy && wx != "" && wy != "" {
					currPinned = true
				}
			}
		}
		for _, a := range p.atoms {
			if a.Kind != "cmp" {
				continue
			}
			op := a.Op
			if !a.Truth {
				op = negateCmp(op)
			}
			x, y := a.X, a.Y
			// normalise to "round < window-end"
			if op == token.GTR {
				x, y, op = y, x, token.LSS
			}
			if op != token.LSS {
				continue
			}
			isRound := derivesFrom(x, func(v ssa.Value) bool {
				cc, ok := v.(*ssa.Call)
				return ok && calleeObj(cc) != nil && calleeObj(cc).Name() == "Uint64"
			})
			wy, fy := hdrField(vf, y)
			if isRound && fy == "NextVoteBefore" && (wy == "prev" || (wy == "curr" && currPinned)) {
				window = true
			}
		}
		if !window {
			nBad++
		}
	}
	if nPlus == 0 {
		c.Undecided(name+"#approval-window", vf.Pos(), "no accepting path adds an approval: the rule no longer matches the verifier")
	} else {
		c.Check(name+"#approval-window", vf.Pos(), nBad == 0, ifelse(nBad == 0, fmt.Sprintf("all %d accepting paths that add an approval are inside the window", nPlus), fmt.Sprintf("%d of %d accepting paths add an approval without requiring round < NextVoteBefore: a header can add the missing approval at or after the end of the window and keep a proposal the builder would clear", nBad, nPlus)))
	}

	// ------------------------------------------------------------ W5
	c.Rule("C12.W5", "GATE", "the verifier lets the version change, and lets a proposal live on at or after the end of its voting window, only on paths that established prev.NextApprovals ≥ UpgradeThreshold — for every parameter set, including a zero waiting period where the switch round coincides with the end of the window")
	restoreBinds(binds)
	c.Min(2)
	{
		hasQuorum := func(as []Atom) bool {
			for _, a := range as {
				if a.Kind != "cmp" {
					continue
				}
				op := a.Op
				if !a.Truth {
					op = negateCmp(op)
				}
				wx, fx := hdrField(vf, a.X)
				fy, _ := loadedField(stripConv(a.Y))
				if wx == "prev" && fx == "NextApprovals" && fy != nil && fy.Name() == "UpgradeThreshold" && (op == token.GEQ || op == token.GTR) {
					return true
				}
				wy, fy2 := hdrField(vf, a.Y)
				fx2, _ := loadedField(stripConv(a.X))
				if wy == "prev" && fy2 == "NextApprovals" && fx2 != nil && fx2.Name() == "UpgradeThreshold" && (op == token.LEQ || op == token.LSS) {
					return true
				}
			}
			return false
		}
		nSwitch, badSwitch, nLate, badLate := 0, 0, 0, 0
		for _, p := range acc {
			sameVersion := false
			inWindow := false
			for _, a := range p.atoms {
				if a.Kind == "eq" && a.Truth {
					wx, fx := hdrField(vf, a.X)
					wy, fy := hdrField(vf, a.Y)
					if fx == "CurrVersion" && fy == "CurrVersion" && wx != wy && wx != "" && wy != "" {
						sameVersion = true
					}
				}
				if a.Kind == "cmp" {
					op := a.Op
					if !a.Truth {
						op = negateCmp(op)
					}
					x, y := a.X, a.Y
					if op == token.GTR {
						x, y, op = y, x, token.LSS
					}
					if op == token.LSS {
						isRound := derivesFrom(x, func(v ssa.Value) bool {
							cc, ok := v.(*ssa.Call)
							return ok && calleeObj(cc) != nil && calleeObj(cc).Name() == "Uint64"
						})
						if wy, fy := hdrField(vf, y); isRound && wy == "prev" && fy == "NextVoteBefore" {
							inWindow = true
						}
					}
				}
			}
			if !sameVersion {
				nSwitch++
				if !hasQuorum(p.atoms) {
					badSwitch++
				}
			}
			if classify(p.atoms) == "on-going" && !inWindow {
				nLate++
				if !hasQuorum(p.atoms) {
					badLate++
				}
			}
		}
		c.sites += nSwitch + nLate
		if nSwitch == 0 {
			c.Undecided(name+"#switch-needs-quorum", vf.Pos(), "no accepting path changes the version: the rule no longer matches the verifier")
		} else {
			c.Check(name+"#switch-needs-quorum", vf.Pos(), badSwitch == 0, ifelse(badSwitch == 0, fmt.Sprintf("all %d accepting paths that change the version have approvals ≥ threshold", nSwitch), fmt.Sprintf("%d of %d accepting paths change the version without having compared the approvals with the threshold: with MinUpgradeWaitRounds = 0 a proposal announces NextSwitchOn = NextVoteBefore, and at that round the version switches with a single approval (and the honest builder, who clears the failed proposal, is rejected)", badSwitch, nSwitch)))
		}
		if nLate == 0 {
			c.Undecided(name+"#survival-needs-quorum", vf.Pos(), "no accepting path keeps a proposal after its window")
		} else {
			c.Check(name+"#survival-needs-quorum", vf.Pos(), badLate == 0, ifelse(badLate == 0, fmt.Sprintf("all %d accepting paths that keep a proposal at or after the end of its window have approvals ≥ threshold", nLate), fmt.Sprintf("%d of %d accepting paths keep a proposal after its window without quorum", badLate, nLate)))
		}
	}

	// ------------------------------------------------------------ W4
	c.Rule("C12.W4", "SIBLINGS", "builder and verifier draw the quorum boundary at the same place: every comparison of an approval count with UpgradeThreshold in ProcessYouVersionState uses an operator the verifier uses too (normalised to approvals ⋄ threshold), the verifier's operators are exactly < (proposal failed) and ≥ (proposal survives), and so a header the honest builder produces at the end of the voting window is one the verifier accepts")
	restoreBinds(binds)
	c.Min(3)
	{
		thrOps := func(fn *ssa.Function) (map[token.Token]token.Pos, int) {
			ops := map[token.Token]token.Pos{}
			n := 0
			for _, b := range fn.Blocks {
				for _, in := range b.Instrs {
					bo, ok := in.(*ssa.BinOp)
					if !ok {
						continue
					}
					switch bo.Op {
					case token.LSS, token.LEQ, token.GTR, token.GEQ, token.EQL, token.NEQ:
					default:
						continue
					}
					fx, _ := loadedField(stripConv(bo.X))
					fy, _ := loadedField(stripConv(bo.Y))
					if fx == nil || fy == nil {
						continue
					}
					op := bo.Op
					switch {
					case fx.Name() == "NextApprovals" && fy.Name() == "UpgradeThreshold":
					case fy.Name() == "NextApprovals" && fx.Name() == "UpgradeThreshold":
						op = flipCmp(op)
					default:
						continue
					}
					n++
					ops[op] = bo.Pos()
				}
			}
			return ops, n
		}
		pfn := w.Fn("core", "", "ProcessYouVersionState")
		bOps, nb := thrOps(pfn)
		vOps, nv := thrOps(vf)
		c.sites += nb + nv
		_, hasL := vOps[token.LSS]
		_, hasG := vOps[token.GEQ]
		okV := hasL && hasG && len(vOps) == 2
		c.Check(fname(vf)+"#quorum-boundary", vf.Pos(), okV, ifelse(okV, "the verifier compares approvals with the threshold by < (failed) and ≥ (survives) only", fmt.Sprintf("the verifier's comparisons of approvals with the threshold are %v: failed and surviving proposals no longer partition at the threshold", opNames(vOps))))
		okB := nb > 0
		badOp := ""
		for op, pos := range bOps {
			if _, has := vOps[op]; !has {
				okB = false
				badOp = op.String() + " at " + w.Pos(pos)
			}
		}
		c.Check(fname(pfn)+"#quorum-boundary-as-verifier", pfn.Pos(), okB, ifelse(okB, fmt.Sprintf("the builder compares approvals with the threshold by %v, as the verifier does", opNames(bOps)), "the builder compares approvals with the threshold by "+badOp+", which the verifier does not: with exactly the threshold number of approvals the honest builder's header is rejected by every verifier (or a proposal without quorum survives)"))
		c.Check(fname(pfn)+"#quorum-comparisons-found", pfn.Pos(), nb >= 1 && nv >= 2, fmt.Sprintf("%d builder and %d verifier comparisons of approvals with UpgradeThreshold", nb, nv))
	}

	// ------------------------------------------------------------ W3
	c.Rule("C12.W3", "SIBLINGS+GATE", "ProcessYouVersionState (with clearUpgradeState) writes exactly the five upgrade fields the verifier constrains; InsertChain reaches insertChain only after bc.VerifyYouVersionState returned nil; VersionForRoundWithParents looks the version up protocolRoundBack rounds back from a header's CurrVersion")
	restoreBinds(binds)
	c.Min(3)
	pf := w.Fn("core", "", "ProcessYouVersionState")
	cu := w.Fn("core", "", "clearUpgradeState")
	c.sawFunc(fname(pf))
	written := map[string]bool{}
	hdr := w.Struct("core/types", "Header")
	for _, fn := range []*ssa.Function{pf, cu} {
		for _, fw := range fieldWrites(fn) {
			if ownerOfField(hdr, fw.Field) {
				written[fw.Field.Name()] = true
			}
		}
	}
	var diff []string
	for _, f := range upgradeFields {
		if !written[f] {
			diff = append(diff, "-"+f)
		}
	}
	for f := range written {
		found := false
		for _, g := range upgradeFields {
			if g == f {
				found = true
			}
		}
		if !found {
			diff = append(diff, "+"+f)
		}
	}
	sort.Strings(diff)
	c.Check(fname(pf)+"#fields-written", pf.Pos(), len(diff) == 0, ifelse(len(diff) == 0, "builder writes the five upgrade fields", "builder and verifier disagree on the upgrade fields: "+strings.Join(diff, " ")))
	// ending a proposal — failed or switched — clears every field of it: the verifier demands all four zero
	{
		c.sites++
		zeroed := map[string]bool{}
		for _, fw := range fieldWrites(cu) {
			if !ownerOfField(hdr, fw.Field) {
				continue
			}
			if st, ok := fw.Instr.(*ssa.Store); ok {
				if n, isC := constInt(st.Val); isC && n == 0 {
					zeroed[fw.Field.Name()] = true
				}
			}
		}
		var missing []string
		for _, f := range upgradeFields {
			if strings.HasPrefix(f, "Next") && !zeroed[f] {
				missing = append(missing, f)
			}
		}
		sort.Strings(missing)
		c.Check(fname(cu)+"#clears-the-whole-proposal", cu.Pos(), len(missing) == 0, ifelse(len(missing) == 0, "every Next* field is set to zero", "clearUpgradeState leaves "+strings.Join(missing, ", ")+" behind: at the round a proposal fails or switches the builder emits a header the verifier rejects (upgrade fields not cleared), so the chain cannot pass that round"))
	}
	ic := w.Fn("core", "BlockChain", "InsertChain")
	c.sawFunc(fname(ic))
	vObj := w.FuncObj("core", "BlockChain", "VerifyYouVersionState")
	insObj := w.FuncObj("core", "BlockChain", "insertChain")
	vcalls := callsTo(ic, vObj)
	for _, ins := range callsTo(ic, insObj) {
		ok := false
		for _, vc := range vcalls {
			if gatedByErrNil(ins, vc) {
				ok = true
			}
		}
		c.Check(fname(ic)+"#verify-before-import", ins.Pos(), ok, ifelse(ok, "insertChain is dominated by VerifyYouVersionState == nil", "blocks are imported without their version state having been verified"))
	}
	// bc.VerifyYouVersionState calls the pure verifier for every block with the previous header as prev
	bv := w.Fn("core", "BlockChain", "VerifyYouVersionState")
	pureObj := vf.Object().(*types.Func)
	pcs := callsTo(bv, pureObj)
	okLoop := len(pcs) == 1 && inLoop(pcs[0])
	c.Check(fname(bv)+"#every-block", bv.Pos(), okLoop, ifelse(okLoop, "the pure verifier is called in the loop over the chain segment", "the chain-level verifier does not call VerifyYouVersionState for every block"))
	// … and the first block is verified against the header it names as its parent
	for _, fnName := range []string{"VerifyYouVersionState", "VerifyYouVersionState2"} {
		cf := w.Fn("core", "BlockChain", fnName)
		c.sawFunc(fname(cf))
		c.sites++
		byHash, byNumber := false, ""
		for _, pc := range callsTo(cf, pureObj) {
			backward(callArgs(pc)[0], func(v ssa.Value) bool {
				cc, ok := v.(*ssa.Call)
				if !ok {
					return true
				}
				o := calleeObj(cc)
				if o == nil {
					return false
				}
				switch o.Name() {
				case "GetHeaderByNumber", "GetBlockByNumber", "CurrentHeader", "CurrentBlock":
					byNumber = o.Name()
				case "GetHeader", "GetHeaderByHash", "GetBlock", "GetBlockByHash":
					for _, a := range callArgs(cc) {
						if derivesFrom(a, func(x ssa.Value) bool {
							if c2, ok := x.(*ssa.Call); ok && calleeObj(c2) != nil && calleeObj(c2).Name() == "ParentHash" {
								return true
							}
							f, _ := loadedField(x)
							return f != nil && f.Name() == "ParentHash"
						}) {
							byHash = true
						}
					}
				}
				return false
			})
		}
		okP := byHash && byNumber == ""
		c.Check(fname(cf)+"#first-parent-by-hash", cf.Pos(), okP, ifelse(okP, "the first block is verified against the header looked up by its ParentHash", "the first block of a batch is verified against a header looked up by "+ifelse(byNumber != "", byNumber, "something other than its ParentHash")+": on a side chain that is the canonical header of the parent's number, not the parent — an honest side-chain header is rejected, and a header that is invalid on its own parent (a proposal with several approvals appearing in one block) is accepted"))
	}
	c12Builder(c, w)
	vr := w.Fn("core", "HeaderChain", "VersionForRoundWithParents")
	c.sawFunc(fname(vr))
	back := constOf(w, "core", "protocolRoundBack")
	usesBack, usesCurr := false, false
	for _, b := range vr.Blocks {
		for _, in := range b.Instrs {
			if bo, ok := in.(*ssa.BinOp); ok && bo.Op == token.SUB {
				if n, ok := constInt(bo.Y); ok {
					if bv, _ := constantInt64(back); n == bv {
						usesBack = true
					}
				}
			}
			if u, ok := in.(*ssa.UnOp); ok {
				if f, _ := loadedField(u); f != nil && f.Name() == "CurrVersion" && ownerOfField(hdr, f) {
					usesCurr = true
				}
			}
		}
	}
	c.Check(fname(vr)+"#version-in-force", vr.Pos(), usesBack && usesCurr, ifelse(usesBack && usesCurr, "reads CurrVersion of the header protocolRoundBack rounds back", "the version in force is no longer read from the header protocolRoundBack rounds back"))
	// every answer is read from a header of the chain being looked at: each non-nil result derives from the
	// version table indexed by the CurrVersion of a header (no memoised answer keyed by the round alone —
	// the same round has different headers on different forks and in batches that are dropped later)
	{
		isCurrLoad := func(v ssa.Value) bool {
			f, _ := loadedField(v)
			return f != nil && f.Name() == "CurrVersion" && ownerOfField(hdr, f)
		}
		nRet, badRet := 0, ""
		for _, b := range vr.Blocks {
			r, ok := b.Instrs[len(b.Instrs)-1].(*ssa.Return)
			if !ok || b == vr.Recover || len(r.Results) == 0 {
				continue
			}
			if isNilConst(stripConv(r.Results[0])) {
				continue
			}
			nRet++
			c.sites++
			fromHeader := derivesFrom(r.Results[0], func(v ssa.Value) bool {
				lk, isLk := v.(*ssa.Lookup)
				return isLk && derivesFrom(lk.Index, isCurrLoad)
			})
			if !fromHeader && badRet == "" {
				badRet = w.Pos(r.Pos())
			}
		}
		c.Check(fname(vr)+"#answers-from-a-header", vr.Pos(), nRet > 0 && badRet == "", ifelse(nRet > 0 && badRet == "", fmt.Sprintf("all %d answering returns derive from Versions[header.CurrVersion]", nRet), "the return at "+badRet+" answers with a version that is not read from a header's CurrVersion (a value remembered per round): headers of a batch that was verified and dropped, or of another fork, decide the version in force for the canonical chain"))
	}
	c12ChainedParent(c, c.W)
}

// c12Builder: the block builder derives the new header from the unmodified parent.
func c12Builder(c *Ctx, w *World) {
	cw := w.Fn("miner", "worker", "commitNewWork")
	c.sawFunc(fname(cw))
	pObj := w.FuncObj("core", "", "ProcessYouVersionState")
	calls := callsTo(cw, pObj)
	if len(calls) == 0 {
		c.Undecided(fname(cw)+"#parent-unmodified", cw.Pos(), "commitNewWork no longer calls ProcessYouVersionState")
		return
	}
	mutators := map[string]bool{"Add": true, "Sub": true, "Mul": true, "Div": true, "Mod": true, "Quo": true, "Rem": true, "DivMod": true, "QuoRem": true, "Set": true, "SetUint64": true, "SetInt64": true, "SetBytes": true, "SetBit": true, "SetBits": true, "SetString": true, "Neg": true, "Abs": true, "Lsh": true, "Rsh": true, "Exp": true, "And": true, "AndNot": true, "Or": true, "Xor": true, "Not": true, "Sqrt": true, "ModInverse": true, "ModSqrt": true, "GCD": true, "Rand": true, "Binomial": true, "MulRange": true}
	for i, pc := range calls {
		c.sites++
		parentArg := stripConv(callArgs(pc)[0])
		bad := ""
		for _, b := range cw.Blocks {
			for _, in := range b.Instrs {
				fa, ok := in.(*ssa.FieldAddr)
				if !ok || !samePath(fa.X, parentArg) && stripConv(fa.X) != parentArg {
					continue
				}
				for _, r := range *fa.Referrers() {
					switch x := r.(type) {
					case *ssa.Store:
						if x.Addr == ssa.Value(fa) && bad == "" {
							bad = "field " + fieldOfAddr(fa).Name() + " of the parent header is assigned at " + w.Pos(x.Pos())
						}
					case *ssa.UnOp:
						if x.Op != token.MUL || !isBigIntPtr(x.Type()) {
							continue
						}
						// the loaded *big.Int (and values it is passed through) as receiver of a mutating method
						seen := map[ssa.Value]bool{}
						var walk func(v ssa.Value)
						walk = func(v ssa.Value) {
							if seen[v] || v.Referrers() == nil {
								return
							}
							seen[v] = true
							for _, rr := range *v.Referrers() {
								switch y := rr.(type) {
								case *ssa.Phi:
									walk(y)
								case *ssa.Store:
									if al, isAl := y.Addr.(*ssa.Alloc); isAl && y.Val == v {
										for _, r3 := range *al.Referrers() {
											if ld, isLd := r3.(*ssa.UnOp); isLd && ld.Op == token.MUL {
												walk(ld)
											}
										}
									}
								case *ssa.Call:
									o := calleeObj(y)
									if o == nil || o.Pkg() == nil || o.Pkg().Path() != "math/big" || recvName(o) != "Int" {
										continue
									}
									if rv := callRecv(y); rv != nil && stripConv(rv) == v && mutators[o.Name()] {
										if bad == "" {
											bad = "the parent header's " + fieldOfAddr(fa).Name() + " is changed in place by (*big.Int)." + o.Name() + " at " + w.Pos(y.Pos())
										}
									}
									// the result of a mutator aliases its receiver
									if rv := callRecv(y); rv != nil && stripConv(rv) == v && isBigIntPtr(y.Type()) {
										walk(y)
									}
								}
							}
						}
						walk(x)
					}
				}
			}
		}
		c.Check(fmt.Sprintf("%s#parent-header-unmodified-%d", fname(cw), i), pc.Pos(), bad == "", ifelse(bad == "", "the header handed to ProcessYouVersionState as parent is not written in commitNewWork", bad+": the builder derives the version fields from a parent that differs from the real one (e.g. a round number one too high), and the header it builds is rejected by the verifier or switches the version a round early"))
	}
}

func negateCmp(op token.Token) token.Token {
	switch op {
	case token.LSS:
		return token.GEQ
	case token.LEQ:
		return token.GTR
	case token.GTR:
		return token.LEQ
	case token.GEQ:
		return token.LSS
	}
	return op
}

func flipCmp(op token.Token) token.Token {
	switch op {
	case token.LSS:
		return token.GTR
	case token.LEQ:
		return token.GEQ
	case token.GTR:
		return token.LSS
	case token.GEQ:
		return token.LEQ
	}
	return op
}

func c12Variants() []Variant {
	f := "core/protocol_version_processor.go"
	return []Variant{
		{Name: "drop-switchon-equality", File: f, Old: "			isValid = isValid && curr.NextSwitchOn == prev.NextSwitchOn\n", New: "", Rule: "C12.W1", Construct: "on-going.NextSwitchOn"},
		{Name: "approve-outside-window", File: f, Old: "					curr.NextApprovals == prev.NextApprovals &&\n					prev.NextApprovals >= prevProto.UpgradeThreshold", New: "					(curr.NextApprovals == prev.NextApprovals || curr.NextApprovals == prev.NextApprovals+1) &&\n					curr.NextApprovals >= prevProto.UpgradeThreshold", Rule: "C12.W2", Construct: "approval-window"},
		{Name: "import-without-verify", File: "core/blockchain.go", Old: "	i, err := bc.VerifyYouVersionState(chain)\n	if err != nil {", New: "	i, err := bc.VerifyYouVersionState(chain)\n	if err != nil && i < 0 {", Rule: "C12.W3", Construct: "verify-before-import"},
	}
}

func opNames(m map[token.Token]token.Pos) []string {
	var out []string
	for op := range m {
		out = append(out, op.String())
	}
	sort.Strings(out)
	return out
}

// inlineBoolHelpers replaces a fact "helper(args) == t", where helper is a
// loop-free repository function with one boolean result and exactly one way of
// returning t (a pure conjunction for true, a pure disjunction for false), by
// the facts of that way; the helper's parameters are mapped to the arguments
// through paramSubst. A condition moved into a helper is judged as if it
// were written in place.
func inlineBoolHelpers(facts []Fact, depth int) []Fact {
	if depth == 0 {
		return facts
	}
	var out []Fact
	for _, f := range facts {
		v, truth := f.Cond, f.Truth
		for {
			if u, ok := v.(*ssa.UnOp); ok && u.Op == token.NOT {
				v, truth = u.X, !truth
				continue
			}
			break
		}
		call, ok := v.(*ssa.Call)
		if !ok {
			out = append(out, f)
			continue
		}
		callee := call.Call.StaticCallee()
		if callee == nil || callee.Blocks == nil || callee.Pkg == nil || !strings.HasPrefix(callee.Pkg.Pkg.Path(), "github.com/youchainhq/go-youchain") || callee.Signature.Results().Len() != 1 || !isBoolType(callee.Signature.Results().At(0).Type()) {
			out = append(out, f)
			continue
		}
		var ways [][]Fact
		ok = enumPaths(callee, 200, func(pr PathResult) {
			rv := pr.Resolve(pr.Ret.Results[0])
			if cv, isC := rv.(*ssa.Const); isC && cv.Value != nil && cv.Value.Kind() == constant.Bool {
				if constant.BoolVal(cv.Value) == truth {
					ways = append(ways, pr.Facts)
				}
				return
			}
			ways = append(ways, append(append([]Fact(nil), pr.Facts...), Fact{Cond: rv, Truth: truth}))
		})
		if !ok || len(ways) != 1 {
			out = append(out, f)
			continue
		}
		for i, prm := range callee.Params {
			if i < len(call.Call.Args) {
				paramSubst[prm] = call.Call.Args[i]
				paramBind[prm] = call.Call.Args[i]
			}
		}
		out = append(out, inlineBoolHelpers(ways[0], depth-1)...)
	}
	return out
}

// c12ChainedParent (W4): a batch verifier checks each header against the header before it.
func c12ChainedParent(c *Ctx, w *World) {
	c.Rule("C12.W4", "SAME-VALUE", "along any chain each header is checked against its own parent: in the batch verifiers (VerifyYouVersionState2 and its siblings that loop over headers / blocks) the parent handed to VerifyYouVersionState is carried around the loop, and on EVERY way back to the loop head the carried value is the header that was just handled — also on a `continue`. A skipped element that leaves the carried parent behind lets the next header be judged against a stale ancestor: a restarted voting window is accepted, an honest header is rejected")
	c.Min(1)
	vf := w.FuncObj("core", "", "VerifyYouVersionState")
	n := 0
	for _, fn := range w.FuncsIn("core") {
		if fn.Blocks == nil || strings.HasSuffix(w.fileOf(fn.Pos()), "_test.go") {
			continue
		}
		for _, ci := range callsTo(fn, vf) {
			args := callArgs(ci)
			if len(args) < 2 {
				continue
			}
			ph, ok := stripConvNoBind(args[0]).(*ssa.Phi)
			if !ok || !isLoopHeader(ph.Block()) {
				continue
			}
			n++
			c.sites++
			c.sawFunc(fname(fn))
			// what does "the element just handled" look like: the second argument, or the value it was derived from
			cur := stripConvNoBind(args[1])
			bad := ""
			for i, pb := range ph.Block().Preds {
				if !ph.Block().Dominates(pb) {
					continue // loop entry
				}
				e := stripConvNoBind(ph.Edges[i])
				same := e == cur || samePath(e, cur) || derivesFrom(e, func(x ssa.Value) bool { return x == cur }) || derivesFrom(cur, func(x ssa.Value) bool { return x == e })
				if e == ssa.Value(ph) {
					same = false
				}
				if !same {
					bad = fmt.Sprintf("block %d", pb.Index)
					if t := pb.Instrs[len(pb.Instrs)-1]; t.Pos().IsValid() {
						bad = w.Pos(t.Pos())
					}
				}
			}
			c.Check(fmt.Sprintf("%s#carried-parent-is-the-previous-element", fname(fn)), ci.Pos(), bad == "", ifelse(bad == "", "every back edge of the loop carries the element just handled as the next parent", "the loop can start its next round ("+bad+") without making the element it just handled the parent of the next one: the next header is verified against a stale ancestor"))
		}
	}
	if n == 0 {
		c.Undecided("core#batch-version-verifiers", token.NoPos, "no loop that carries the parent of VerifyYouVersionState found in package core (VerifyYouVersionState2 is expected)")
	}
}

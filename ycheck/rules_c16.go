package main

import (
	"fmt"
	"go/ast"
	"go/constant"
	"go/token"
	"go/types"
	"os"
	"sort"
	"strings"

	"golang.org/x/tools/go/ssa"
)

// C16 — failed EVM calls leave no trace; value and gas are accounted exactly.

func init() {
	register(&propDef{
		ID:          "C16",
		Explanation: "Equality of state dumps and total-balance arithmetic are value properties and are not decided. Decided (structure, SSA of core/vm and core): in each frame function (Call, CallCode, DelegateCall, StaticCall, create) a snapshot dominates every state-mutating call of the frame; the error branch after run reverts to exactly that snapshot and burns the remaining gas unless the error is errExecutionReverted; that branch is taken for every non-nil error (and for oversized code); returns before the snapshot hand the gas back unchanged (F1); StaticCall runs read-only, the other frames do not force it; the interpreter loop refuses state-writing opcodes and CALL with value before executing them when read-only, and the read-only flag is only cleared by the frame that set it (F2); balances move only through Transfer (debit and credit of one amount) and SELFDESTRUCT (credit of the whole balance together with Suicide), and transfers are dominated by CanTransfer on the same sender and value (F3); contract.Gas grows only by gas returned from a callee frame (F4).",
		Assumptions: []string{"StateDB.RevertToSnapshot restores the state of the snapshot (C09)", "the writes flags of the jump table are as specified (C15.X1)"},
		Run:         runC16,
		Variants:    c16Variants,
	})
}

func runC16(c *Ctx) {
	w := c.W
	runObj := w.FuncObj("core/vm", "", "run")
	revertedErr := w.SSAPkg("core/vm").Var("errExecutionReverted")

	// ------------------------------------------------------------ F1
	c.Rule("C16.F1", "GATE+EXIT", "per frame function: Snapshot dominates CreateAccount/Transfer/SetNonce(new account)/run/SetCode; after run every path with a non-nil error passes RevertToSnapshot(snapshot) and, unless the error is errExecutionReverted, UseGas(contract.Gas); returns before the snapshot return the gas parameter unchanged")
	c.Min(20)
	for _, name := range []string{"Call", "CallCode", "DelegateCall", "StaticCall", "create"} {
		fn := w.Fn("core/vm", "EVM", name)
		c.sawFunc(fname(fn))
		var snap, rev ssa.CallInstruction
		var runCall ssa.CallInstruction
		var mutators []ssa.CallInstruction
		var useGas []ssa.CallInstruction
		for _, ci := range callInstrs(fn) {
			o := calleeObj(ci)
			if o != nil {
				switch {
				case o.Name() == "Snapshot":
					snap = ci
				case o.Name() == "RevertToSnapshot":
					rev = ci
				case sameFunc(o, runObj):
					runCall = ci
					mutators = append(mutators, ci)
				case o.Name() == "CreateAccount", o.Name() == "SetCode":
					mutators = append(mutators, ci)
				case o.Name() == "SetNonce":
					// the new account's nonce; the caller's nonce bump in create precedes the snapshot by design
					if cv, isC := constInt(callArgs(ci)[1]); isC && cv == 1 {
						mutators = append(mutators, ci)
					}
				case o.Name() == "UseGas" && recvName(o) == "Contract":
					useGas = append(useGas, ci)
				}
			}
			if f := callViaField(ci); f != nil && f.Name() == "Transfer" {
				mutators = append(mutators, ci)
			}
		}
		if snap != nil && runCall != nil && rev == nil {
			// the revert-and-burn tail may live in a helper that takes (snapshot, err): judge the helper, and that
			// every path from run to a return passes the call with this frame's snapshot and error
			if ok, why := revertTailInHelper(w, fn, snap, runCall, revertedErr); ok {
				for _, m := range mutators {
					c.sites++
					okm := instrDominates(snap, m)
					what := calleeName(m)
					if f := callViaField(m); f != nil {
						what = f.Name()
					}
					c.Check(fmt.Sprintf("%s#%s-after-snapshot", fname(fn), what), m.Pos(), okm, ifelse(okm, "dominated by Snapshot()", "a state change of the frame ("+what+") happens before the snapshot is taken: a failing frame leaves it behind"))
				}
				c.Pass(fname(fn)+"#reverts-own-snapshot", fn.Pos(), "through a helper: "+why)
				c.Pass(fname(fn)+"#revert-on-every-error", fn.Pos(), "through a helper: "+why)
				c.Pass(fname(fn)+"#burns-gas-unless-revert", fn.Pos(), "through a helper: "+why)
				continue
			} else if why != "" {
				c.Fail(fname(fn)+"#frame", fn.Pos(), "the revert tail was moved into a helper that does not keep the discipline: "+why)
				continue
			}
		}
		if name == "StaticCall" && snap == nil && rev == nil && runCall != nil && len(mutators) == 1 {
			// a read-only frame that changes nothing itself has nothing to undo: beneath it every writing opcode is
			// refused (F2) and a zero-value call creates no account (F10). It still burns the gas of a failed frame.
			c.Pass(fname(fn)+"#frame", fn.Pos(), "no snapshot and no revert in the read-only frame: nothing in it or beneath it changes state (F2, F10)")
			burn := false
			for _, u := range useGas {
				if f, _ := loadedField(stripConv(callArgs(u)[0])); f == nil || f.Name() != "Gas" {
					continue
				}
				for _, a := range atomsOf(factsAtInstr(u.(ssa.Instruction))) {
					if a.Kind == "isnil" && !a.Truth && isErrorType(a.X.Type()) {
						burn = true
					}
				}
			}
			c.sites++
			c.Check(fname(fn)+"#burns-gas-unless-revert", fn.Pos(), burn, ifelse(burn, "UseGas(contract.Gas) under err != nil", "a failed read-only frame does not burn its gas"))
			continue
		}
		if snap == nil || rev == nil || runCall == nil {
			c.Fail(fname(fn)+"#frame", fn.Pos(), fmt.Sprintf("frame discipline anchors missing (Snapshot=%v RevertToSnapshot=%v run=%v)", snap != nil, rev != nil, runCall != nil))
			continue
		}
		for _, m := range mutators {
			c.sites++
			ok := instrDominates(snap, m)
			what := calleeName(m)
			if f := callViaField(m); f != nil {
				what = f.Name()
			}
			c.Check(fmt.Sprintf("%s#%s-after-snapshot", fname(fn), what), m.Pos(), ok, ifelse(ok, "dominated by Snapshot()", "a state change of the frame ("+what+") happens before the snapshot is taken: a failing frame leaves it behind"))
		}
		// revert uses this snapshot
		sameSnap := stripConv(callArgs(rev)[0]) == ssa.Value(snap.Value())
		c.Check(fname(fn)+"#reverts-own-snapshot", rev.Pos(), sameSnap, ifelse(sameSnap, "RevertToSnapshot(snapshot)", "the frame reverts to a different revision than the one it took"))
		// the revert branch is taken for every non-nil error: the controlling condition(s) of rev's block
		// are `err != nil` (optionally `maxCodeSizeExceeded ||`), and the branch point post-dominates run
		okErr, whyErr := revertOnEveryError(fn, runCall, rev)
		c.Check(fname(fn)+"#revert-on-every-error", rev.Pos(), okErr, ifelse(okErr, "every path from run with a non-nil error passes the revert", whyErr))
		// gas burn
		burn := false
		for _, u := range useGas {
			if !instrDominates(rev, u) {
				continue
			}
			// argument is contract.Gas
			if f, _ := loadedField(stripConv(callArgs(u)[0])); f == nil || f.Name() != "Gas" {
				continue
			}
			// gated by err != errExecutionReverted
			for _, a := range atomsOf(factsAtInstr(u)) {
				if a.Kind == "eq" && !a.Truth {
					for _, v := range []ssa.Value{a.X, a.Y} {
						if ld, ok := v.(*ssa.UnOp); ok && ld.X == ssa.Value(revertedErr) {
							burn = true
						}
					}
				}
			}
		}
		c.Check(fname(fn)+"#burns-gas-unless-revert", rev.Pos(), burn, ifelse(burn, "UseGas(contract.Gas) under err != errExecutionReverted after the revert", "a failing frame keeps its remaining gas (or a reverting frame loses it)"))
		// early returns give the gas back
		gasParam := (*ssa.Parameter)(nil)
		for _, p := range fn.Params {
			if p.Name() == "gas" {
				gasParam = p
			}
		}
		gasIdx := -1
		res := fn.Signature.Results()
		for i := 0; i < res.Len(); i++ {
			if b, ok := res.At(i).Type().(*types.Basic); ok && b.Kind() == types.Uint64 {
				gasIdx = i
			}
		}
		for _, b := range fn.Blocks {
			r, ok := b.Instrs[len(b.Instrs)-1].(*ssa.Return)
			if !ok || b == fn.Recover || snap.Block().Dominates(b) || gasIdx < 0 {
				continue
			}
			c.sites++
			ok2 := stripConv(r.Results[gasIdx]) == ssa.Value(gasParam)
			if !ok2 && blockMentionsGlobal(b, "ErrContractAddressCollision") {
				c.Pass(fmt.Sprintf("%s#early-return@%s-returns-gas", fname(fn), blockOrdinal(fn, b)), r.Pos(), "tabled: an address collision consumes all gas by specification")
				continue
			}
			c.Check(fmt.Sprintf("%s#early-return@%s-returns-gas", fname(fn), blockOrdinal(fn, b)), r.Pos(), ok2, ifelse(ok2, "a refusal before the snapshot returns the gas unchanged", "a refusal before the frame starts does not hand back the gas it was given"))
		}
		// leftover gas comes from the contract
		for _, b := range fn.Blocks {
			r, ok := b.Instrs[len(b.Instrs)-1].(*ssa.Return)
			if !ok || b == fn.Recover || !runCall.Block().Dominates(b) || gasIdx < 0 {
				continue
			}
			f, _ := loadedField(stripConv(r.Results[gasIdx]))
			ok2 := f != nil && f.Name() == "Gas"
			c.Check(fmt.Sprintf("%s#return@%s-leftover-is-contract-gas", fname(fn), blockOrdinal(fn, b)), r.Pos(), ok2, ifelse(ok2, "returns contract.Gas", "the gas handed back after execution is not the contract's remaining gas"))
		}
	}
	// create: collision consumes everything and happens before any frame mutation
	cr := w.Fn("core/vm", "EVM", "create")
	_ = cr

	// ------------------------------------------------------------ F2
	c.Rule("C16.F2", "GATE", "StaticCall passes readOnly=true to run and the other frames pass false; in the interpreter loop the execution of an operation is dominated by the read-only test on operation.writes (and CALL with value) that returns errWriteProtection; readOnly is set under (readOnly && !in.readOnly) and cleared only by the deferred reset registered there")
	c.Min(7)
	for _, name := range []string{"Call", "CallCode", "DelegateCall", "StaticCall", "create"} {
		fn := w.Fn("core/vm", "EVM", name)
		for _, ci := range callsTo(fn, runObj) {
			a := callArgs(ci)
			cv, isC := a[3].(*ssa.Const)
			want := name == "StaticCall"
			ok := isC && cv.Value != nil && cv.Value.Kind() == constant.Bool && constant.BoolVal(cv.Value) == want
			c.sites++
			c.Check(fname(fn)+"#readOnly-argument", ci.Pos(), ok, ifelse(ok, fmt.Sprintf("run(…, readOnly=%v)", want), ifelse(want, "STATICCALL does not run its callee read-only: everything beneath it can change state", "a non-static frame forces read-only mode")))
		}
	}
	runFn := w.Fn("core/vm", "EVMInterpreter", "Run")
	c.sawFunc(fname(runFn))
	var exec ssa.CallInstruction
	for _, ci := range callInstrs(runFn) {
		if f := callViaField(ci); f != nil && f.Name() == "execute" {
			exec = ci
		}
	}
	if exec == nil {
		c.Undecided(fname(runFn)+"#write-protection", runFn.Pos(), "the operation.execute call was not found")
	} else {
		// find the If on operation.writes whose true side returns errWriteProtection
		wp := w.SSAPkg("core/vm").Var("errWriteProtection")
		protects, underRO, callValue := false, false, false
		for _, b := range runFn.Blocks {
			ifi, ok := b.Instrs[len(b.Instrs)-1].(*ssa.If)
			if !ok {
				continue
			}
			f, _ := loadedField(stripConv(ifi.Cond))
			if f == nil || f.Name() != "writes" {
				continue
			}
			// true edge returns errWriteProtection (possibly after a jump)
			if blockMentionsGlobal(b.Succs[0], wp.Name()) || (len(b.Succs[0].Succs) == 1 && blockMentionsGlobal(b.Succs[0].Succs[0], wp.Name())) {
				// the read-only test R dominates execute, and from R every path to
				// execute either leaves on R's false side or passes this writes test
				for _, rblk := range runFn.Blocks {
					rif, isIf := rblk.Instrs[len(rblk.Instrs)-1].(*ssa.If)
					if !isIf {
						continue
					}
					if rf, _ := loadedField(stripConv(rif.Cond)); rf == nil || rf.Name() != "readOnly" || !rblk.Dominates(exec.Block()) || !rblk.Dominates(b) {
						continue
					}
					wb := b
					if allPathsBetween(rblk, exec.Block(), func(x *ssa.BasicBlock) bool { return x == wb }, func(from, to *ssa.BasicBlock) bool { return from == rblk && to == rblk.Succs[1] }) {
						protects = true
					}
				}
				for _, a := range atomsOf(factsAt(b)) {
					if a.Kind == "true" && a.Truth {
						if rf, _ := loadedField(stripConv(a.X)); rf != nil && rf.Name() == "readOnly" {
							underRO = true
						}
					}
				}
				// the false side tests op == CALL
				callOp := constOf(w, "core/vm", "CALL")
				for _, in := range b.Succs[1].Instrs {
					if bo, ok := in.(*ssa.BinOp); ok && bo.Op == token.EQL {
						if cv, ok := bo.Y.(*ssa.Const); ok && cv.Value != nil && constant.Compare(constant.ToInt(cv.Value), token.EQL, constant.ToInt(callOp)) {
							callValue = true
						}
					}
				}
			}
		}
		c.sites++
		ok := protects && underRO && callValue
		c.Check(fname(runFn)+"#write-protection-before-execute", exec.Pos(), ok, ifelse(ok, "under in.readOnly, operation.writes (and CALL with value) returns errWriteProtection before execute", fmt.Sprintf("a read-only frame can execute a state-writing opcode (writes-test dominates=%v, under readOnly=%v, CALL-with-value test=%v)", protects, underRO, callValue)))
	}
	roField := w.Field("core/vm", "EVMInterpreter", "readOnly")
	for _, fn := range w.FuncsIn("core/vm") {
		if strings.HasSuffix(w.fileOf(fn.Pos()), "_test.go") {
			continue
		}
		for _, fw := range fieldWrites(fn) {
			if fw.Field != roField || isLocalAlloc(fw.Base) {
				continue
			}
			c.sites++
			name := fname(fn)
			cv, isC := fw.Instr.(*ssa.Store).Val.(*ssa.Const)
			val := isC && cv.Value != nil && constant.BoolVal(cv.Value)
			ok := false
			why := ""
			switch {
			case fn == runFn && val:
				// gated by readOnly param true and in.readOnly false
				pt, ft := false, false
				for _, a := range atomsOf(factsAtInstr(fw.Instr)) {
					if a.Kind == "true" {
						if p, isP := stripConv(a.X).(*ssa.Parameter); isP && p.Name() == "readOnly" && a.Truth {
							pt = true
						}
						if f, _ := loadedField(stripConv(a.X)); f == roField && !a.Truth {
							ft = true
						}
					}
				}
				ok = pt && ft
				why = "readOnly is set outside the (readOnly && !in.readOnly) test"
			case fn.Parent() == runFn && !val:
				// the deferred reset: its closure is created in the block that sets the flag
				for _, b := range runFn.Blocks {
					for _, in := range b.Instrs {
						if d, isD := in.(*ssa.Defer); isD {
							if mc, isMC := d.Call.Value.(*ssa.MakeClosure); isMC && mc.Fn == ssa.Value(fn) {
								for _, in2 := range b.Instrs {
									if st, isSt := in2.(*ssa.Store); isSt {
										if fa, isFA := st.Addr.(*ssa.FieldAddr); isFA && fieldOfAddr(fa) == roField {
											ok = true
										}
									}
								}
							}
						}
					}
				}
				why = "readOnly is cleared by a closure that is not the deferred reset of the frame that set it"
			default:
				why = "readOnly is written outside (*EVMInterpreter).Run"
			}
			c.Check(name+"#readOnly="+fmt.Sprint(val), fw.Instr.Pos(), ok, ifelse(ok, "set by the entering static frame / cleared by its deferred reset", why+": a callee of a static call can leave read-only mode"))
		}
	}

	// ------------------------------------------------------------ F3
	c.Rule("C16.F3", "CONFINED+ALWAYS-WITH", "in core/vm and core/evm.go account balances change only in core.Transfer (SubBalance and AddBalance of the same amount) and in opSuicide (AddBalance of the whole balance together with Suicide); every Transfer call in a frame function is dominated by CanTransfer == true on the same state, sender and value")
	c.Min(5)
	for _, fn := range append(w.FuncsIn("core/vm"), coreEvmFuncs(w)...) {
		if strings.HasSuffix(w.fileOf(fn.Pos()), "_test.go") {
			continue
		}
		for _, ci := range callInstrs(fn) {
			o := calleeObj(ci)
			if o == nil || recvName(o) == "" || (o.Name() != "AddBalance" && o.Name() != "SubBalance" && o.Name() != "SetBalance") {
				continue
			}
			c.sites++
			name := outerName(fname(fn))
			ok := name == "core.Transfer" || name == "core/vm.opSuicide"
			if strings.HasPrefix(name, "(core/vm.NoopStateDB)") || strings.HasPrefix(name, "core/vm/runtime") {
				continue
			}
			c.Check(name+"#"+o.Name(), ci.Pos(), ok, ifelse(ok, "tabled balance movement", "the EVM changes a balance outside Transfer and SELFDESTRUCT"))
		}
	}
	tr := w.Fn("core", "", "Transfer")
	c.sawFunc(fname(tr))
	var sub, add ssa.CallInstruction
	for _, ci := range callInstrs(tr) {
		if o := calleeObj(ci); o != nil {
			switch o.Name() {
			case "SubBalance":
				sub = ci
			case "AddBalance":
				add = ci
			}
		}
	}
	okT := sub != nil && add != nil && samePath(callArgs(sub)[1], callArgs(add)[1]) && alwaysWith(sub, []ssa.Instruction{add}) && stripConv(callArgs(sub)[0]) == ssa.Value(tr.Params[1]) && stripConv(callArgs(add)[0]) == ssa.Value(tr.Params[2])
	c.Check(fname(tr)+"#debit-equals-credit", tr.Pos(), okT, ifelse(okT, "SubBalance(sender, amount) and AddBalance(recipient, amount) on the same paths", "Transfer no longer debits the sender and credits the recipient with one amount"))
	su := w.Fn("core/vm", "", "opSuicide")
	c.sawFunc(fname(su))
	var sadd, sui ssa.CallInstruction
	for _, ci := range callInstrs(su) {
		if o := calleeObj(ci); o != nil {
			switch o.Name() {
			case "AddBalance":
				sadd = ci
			case "Suicide":
				sui = ci
			}
		}
	}
	okS := sadd != nil && sui != nil && alwaysWith(sadd, []ssa.Instruction{sui}) && derivesFrom(callArgs(sadd)[1], func(v ssa.Value) bool {
		cc, ok := v.(*ssa.Call)
		return ok && calleeObj(cc) != nil && calleeObj(cc).Name() == "GetBalance"
	})
	c.Check(fname(su)+"#credit-with-suicide", su.Pos(), okS, ifelse(okS, "the beneficiary is credited the contract's balance together with Suicide (which zeroes it)", "SELFDESTRUCT credits the beneficiary without destroying the contract's balance (or the reverse): value is minted or burnt"))
	for _, name := range []string{"Call", "create"} {
		fn := w.Fn("core/vm", "EVM", name)
		var can ssa.CallInstruction
		for _, ci := range callInstrs(fn) {
			if f := callViaField(ci); f != nil && f.Name() == "CanTransfer" {
				can = ci
			}
		}
		for _, ci := range callInstrs(fn) {
			if f := callViaField(ci); f != nil && f.Name() == "Transfer" {
				c.sites++
				ok := can != nil && gatedByBool(ci, can, 0, true) && samePath(can.Common().Args[1], ci.Common().Args[1]) && samePath(can.Common().Args[2], ci.Common().Args[3])
				c.Check(fname(fn)+"#transfer-after-CanTransfer", ci.Pos(), ok, ifelse(ok, "dominated by CanTransfer(state, sender, value) == true", "value is transferred without the balance check on the same sender and amount: a balance can go negative"))
			}
		}
	}

	// ------------------------------------------------------------ F5
	c.Rule("C16.F5", "CONFINED+ALWAYS-WITH", "what a frame can change through the vm.StateDB interface is undoable: in every mutating method of the interface as implemented by (*state.StateDB), and in the stateObject methods they call, each change of revertable state is on the same paths as a journal append (or in a tabled raw setter whose caller journals); Suicide returns true only after journaling, marking the object and zeroing its balance — opSuicide has credited the beneficiary with that balance")
	c.Min(12)
	{
		t9 := c09tables(w)
		iface := w.Named("core/vm", "StateDB").Underlying().(*types.Interface)
		var roots []*ssa.Function
		for i := 0; i < iface.NumMethods(); i++ {
			m := iface.Method(i)
			switch m.Name() {
			case "CreateAccount", "SubBalance", "AddBalance", "SetNonce", "SetCode", "AddRefund", "SubRefund", "SetState", "Suicide", "AddLog", "AddPreimage":
				if fn := w.FnOpt("core/state", "StateDB", m.Name()); fn != nil {
					roots = append(roots, fn)
				} else {
					c.Undecided("core/state.StateDB."+m.Name(), 0, "mutating method of vm.StateDB not found on *state.StateDB")
				}
			}
		}
		reach := reachableStatic(roots, func(f *ssa.Function) bool { return f.Pkg != nil && f.Pkg.Pkg.Path() == full("core/state") })
		var fns []*ssa.Function
		for f := range reach {
			fns = append(fns, f)
		}
		sort.Slice(fns, func(i, j int) bool { return fname(fns[i]) < fname(fns[j]) })
		for _, fn := range fns {
			muts := t9.mutationsIn(fn)
			if len(muts) == 0 {
				continue
			}
			name := fname(fn)
			if t9.isRevertMethod(fn) {
				continue
			}
			if o, ok := fn.Object().(*types.Func); ok && t9.rawSetters[o] {
				continue // judged at its call sites (which are mutations of the caller)
			}
			if _, ok := t9.lifecycle[outerName(name)]; ok {
				continue
			}
			c.sawFunc(name)
			appends := callsAsInstrs(callsTo(fn, t9.append_))
			byKey := map[string][]c09Mutation{}
			for _, m := range muts {
				byKey[m.Key] = append(byKey[m.Key], m)
			}
			var keys []string
			for k := range byKey {
				keys = append(keys, k)
			}
			sort.Strings(keys)
			for _, k := range keys {
				construct := name + "#" + k
				if _, ok := t9.lifecycle[construct]; ok {
					continue
				}
				ok := true
				var bad ssa.Instruction
				for _, m := range byKey[k] {
					c.sites++
					if !alwaysWith(m.Instr, appends) && !appendInLoopOver(m.Instr, appends) {
						ok, bad = false, m.Instr
					}
				}
				pos := byKey[k][0].Instr.Pos()
				if bad != nil {
					pos = bad.Pos()
				}
				c.Check(construct, pos, ok, ifelse(ok, "journal append on the same paths", "a frame changes this state on a path that appends no journal entry: when the frame (or a caller) fails, RevertToSnapshot cannot put it back, and storage / balances are not as they were before the failed call"))
			}
		}
		// Suicide: true only after journal, mark and zeroed balance
		su := w.Fn("core/state", "StateDB", "Suicide")
		c.sawFunc(fname(su))
		balF := w.Field("core/state", "Account", "Balance")
		var zero, mark, jr []ssa.Instruction
		for _, fw := range fieldWrites(su) {
			if fw.Field == balF {
				zero = append(zero, fw.Instr)
			}
		}
		for _, ci := range callInstrs(su) {
			if o := calleeObj(ci); o != nil {
				if o.Name() == "markSuicided" {
					mark = append(mark, ci)
				}
				if sameFunc(o, t9.append_) {
					jr = append(jr, ci)
				}
			}
		}
		nTrue, bad := 0, 0
		for _, b := range su.Blocks {
			r, ok := b.Instrs[len(b.Instrs)-1].(*ssa.Return)
			if !ok || b == su.Recover {
				continue
			}
			mayTrue := true
			if cv, isC := r.Results[0].(*ssa.Const); isC && cv.Value != nil && cv.Value.Kind() == constant.Bool && !constant.BoolVal(cv.Value) {
				mayTrue = false
			}
			if !mayTrue {
				continue
			}
			nTrue++
			if !(mustPassBefore(r, zero) && mustPassBefore(r, mark) && mustPassBefore(r, jr)) {
				bad++
			}
		}
		c.sites += nTrue
		c.Check(fname(su)+"#true-only-after-zeroing", su.Pos(), nTrue > 0 && bad == 0, ifelse(nTrue > 0 && bad == 0, "every return that may be true passed the journal append, markSuicided and the balance reset", "Suicide can return true without having zeroed the balance (or journaled / marked): SELFDESTRUCT has already credited the beneficiary with that balance, so a contract that is re-funded after its first SELFDESTRUCT pays the same value out again — the sum of all balances grows"))
	}

	// ------------------------------------------------------------ F6
	c.Rule("C16.F6", "GATE", "a frame that creates an account over an existing one can be undone: createObject journals a plain creation (whose undo forgets the address) only when no previous object — live, or marked deleted by an earlier transaction of the block — existed; otherwise a reset entry carrying the previous object. A failing frame that re-created a destructed account would otherwise drop the tombstone and the old balance, code and storage come back from the trie")
	c.Min(2)
	createObjectJournalKinds(c, w, w.FuncObj(statePkg, "journal", "append"))

	// ------------------------------------------------------------ F7
	c.Rule("C16.F7", "OWNERSHIP", "the big.Int that becomes an account's balance belongs to the state: in core/state a function either takes ownership of its parameter (a setter: it hands the parameter on to the store of Account.Balance / DelegationBalance at every one of its setter calls) or stores a value it made itself (rooted at new(big.Int) / big.NewInt through the receiver-returning big.Int methods) — never one on some paths and the other on others. AddBalance(amount) receives integers the EVM recycles through its integer pool; a balance that is the caller's integer changes without a journal entry")
	c.Min(6)
	c16F7(c, w)

	// ------------------------------------------------------------ F8
	c.Rule("C16.F8", "OWNERSHIP", "a log outlives the frame that emitted it: the Data of every types.Log built in core/vm is a copy, never a slice of the frame's memory — no value reaching Log.Data derives from a Memory method that returns a sub-slice of Memory.store (GetPtr). The journal only counts logs; a later write to that memory range — the return data of a reverting or static sub-call is copied there — would rewrite a log that already exists")
	c.Min(1)
	{
		storeF := w.Field("core/vm", "Memory", "store")
		logData := w.Field("core/types", "Log", "Data")
		aliasing := map[*ssa.Function]bool{}
		for _, fn := range w.FuncsIn("core/vm") {
			if fn.Blocks == nil || fn.Signature.Recv() == nil || ownerName(fn.Signature.Recv().Type()) != "Memory" {
				continue
			}
			for _, b := range fn.Blocks {
				r, ok := b.Instrs[len(b.Instrs)-1].(*ssa.Return)
				if !ok {
					continue
				}
				for _, res := range r.Results {
					var walk func(v ssa.Value, d int) bool
					walk = func(v ssa.Value, d int) bool {
						if d > 6 {
							return false
						}
						switch x := stripConvNoBind(v).(type) {
						case *ssa.Slice:
							if f, _ := loadedField(stripConvNoBind(x.X)); f == storeF {
								return true
							}
							return walk(x.X, d+1)
						case *ssa.Phi:
							for _, e := range x.Edges {
								if walk(e, d+1) {
									return true
								}
							}
						case *ssa.UnOp:
							if f, _ := loadedField(x); f == storeF {
								return true
							}
							if al, isAl := x.X.(*ssa.Alloc); isAl {
								for _, rr := range *al.Referrers() {
									if st, isSt := rr.(*ssa.Store); isSt && st.Addr == ssa.Value(al) && walk(st.Val, d+1) {
										return true
									}
								}
							}
						}
						return false
					}
					if walk(res, 0) {
						aliasing[fn] = true
					}
				}
			}
		}
		nLog := 0
		seenLog := map[*ssa.Store]bool{}
		for _, fn := range w.FuncsIn("core/vm") {
			if strings.HasSuffix(w.fileOf(fn.Pos()), "_test.go") {
				continue
			}
			for _, x := range withClosures(fn) {
				for _, fw := range fieldWrites(x) {
					if fw.Field != logData {
						continue
					}
					st, ok := fw.Instr.(*ssa.Store)
					if !ok || seenLog[st] {
						continue
					}
					seenLog[st] = true
					nLog++
					c.sites++
					c.sawFunc(fname(x))
					bad := ""
					backward(st.Val, func(v ssa.Value) bool {
						if cc, isCall := v.(*ssa.Call); isCall {
							if g := cc.Call.StaticCallee(); g != nil && aliasing[g] {
								bad = g.Name()
							}
							return false
						}
						return bad == ""
					})
					c.Check(fmt.Sprintf("%s#log-data-is-a-copy-%d", fname(x), nLog), st.Pos(), bad == "", ifelse(bad == "", "the data comes from a copying accessor", "Log.Data is the slice of frame memory returned by Memory."+bad+": a later write to that range in the same frame (e.g. the return data of a failed or static sub-call) rewrites the already emitted log"))
				}
			}
		}
		if nLog == 0 {
			c.Undecided("core/vm#log-data", token.NoPos, "no store into types.Log.Data found in core/vm")
		}
	}

	// ------------------------------------------------------------ F9
	c.Rule("C16.F9", "GATE", "nothing of a dead account is carried over: CreateAccount copies the previous object's balance into the new account only if that object is live — every way createObject hands a non-nil previous object to its caller has established prev.deleted == false (a deleted object is kept only as the journal's pre-image), or CreateAccount tests it itself. A contract that self-destructs and is then sent value in the same transaction holds that value when it is removed; a later transaction of the same block that touches the address would otherwise resurrect the burnt amount")
	c.Min(1)
	{
		co := w.Fn(statePkg, "StateDB", "createObject")
		ca := w.Fn(statePkg, "StateDB", "CreateAccount")
		c.sawFunc(fname(ca))
		deletedF := w.Field(statePkg, "stateObject", "deleted")
		liveAtom := func(atoms []Atom) bool {
			for _, a := range atoms {
				if a.Kind == "true" && !a.Truth {
					if f, _ := loadedField(stripConv(a.X)); f == deletedF {
						return true
					}
				}
			}
			return false
		}
		// carry-over sites in CreateAccount: setBalance / SetBalance of a value loaded from the previous object
		var coCall ssa.CallInstruction
		for _, ci := range callsTo(ca, co.Object().(*types.Func)) {
			coCall = ci
		}
		nCarry := 0
		for _, ci := range callInstrs(ca) {
			o := calleeObj(ci)
			if o == nil || !(o.Name() == "setBalance" || o.Name() == "SetBalance" || o.Name() == "AddBalance") || coCall == nil {
				continue
			}
			fromPrev := false
			for _, a := range callArgs(ci) {
				if derivesFrom(a, func(v ssa.Value) bool {
					ex, ok := v.(*ssa.Extract)
					return ok && ex.Tuple == coCall.Value() && ex.Index == 1
				}) {
					fromPrev = true
				}
			}
			if !fromPrev {
				continue
			}
			nCarry++
			c.sites++
			ok := liveAtom(atomsOf(factsAtInstr(ci.(ssa.Instruction))))
			if !ok {
				// or createObject never returns a deleted previous object
				ok = true
				n := 0
				for _, rp := range returnPaths(co, 1) {
					if rp.Kind == RetNil {
						continue
					}
					n++
					if !liveAtom(rp.Atoms()) {
						ok = false
					}
				}
				if n == 0 {
					ok = true
				}
			}
			c.Check(fmt.Sprintf("%s#carries-over-only-from-a-live-object-%d", fname(ca), nCarry), ci.Pos(), ok, ifelse(ok, "the previous object reaches the carry-over only with deleted == false", "CreateAccount copies the balance of a previous object that may be a deleted one (self-destructed or emptied earlier in the block and kept as the journal's pre-image): value the dead account received after its death — burnt when it was removed — re-appears in the new account, and the result of a transaction depends on where the block boundary falls"))
		}
		if nCarry == 0 {
			c.Undecided(fname(ca)+"#carries-over-only-from-a-live-object", ca.Pos(), "no carry-over of the previous object's balance found in CreateAccount")
		}
	}

	// ------------------------------------------------------------ F10
	c.Rule("C16.F10", "GATE", "a call that moves no value to an account that does not exist changes nothing — also beneath a STATICCALL, where CALL with zero value is allowed exactly for that reason: in EVM.Call the creation of the target account (CreateAccount) is reached only on paths that established a non-zero value — a precompile needs no account to run, and under YOUChain's genesis the precompile addresses do not exist, so that case is the normal one. Otherwise code running under STATICCALL creates an account and the caller observes it (EXTCODEHASH of the target changes from 0 to the empty-code hash) although the static frame succeeded, so no revert removes it")
	c.Min(1)
	{
		call := w.Fn("core/vm", "EVM", "Call")
		var valueP *ssa.Parameter
		for _, prm := range call.Params {
			if isBigIntPtr(prm.Type()) {
				valueP = prm
			}
		}
		nCA := 0
		for _, ci := range callInstrs(call) {
			o := calleeObj(ci)
			if o == nil || o.Name() != "CreateAccount" {
				continue
			}
			nCA++
			nPaths, bad := 0, 0
			okEnum := pathsBetween(call, call.Blocks[0], ci.Block(), 20000, func(blocks []*ssa.BasicBlock, facts []Fact) {
				atoms := atomsOf(facts)
				if contradictoryAtoms(atoms) {
					return
				}
				nPaths++
				ok := false
				for _, a := range atoms {
					switch a.Kind {
					case "eq", "cmp":
						// value.Sign() compared with 0 and decided non-zero
						for _, pair := range [][2]ssa.Value{{a.X, a.Y}, {a.Y, a.X}} {
							cc, isCall := stripConv(pair[0]).(*ssa.Call)
							if !isCall || pair[1] == nil || calleeObj(cc) == nil || calleeObj(cc).Name() != "Sign" || valueP == nil || stripConv(callRecv(cc)) != ssa.Value(valueP) {
								continue
							}
							if n, isC := constInt(pair[1]); isC && n == 0 {
								if (a.Kind == "eq" && !a.Truth) || (a.Kind == "cmp" && a.Truth && (a.Op == token.GTR || a.Op == token.LSS)) || (a.Kind == "cmp" && !a.Truth && (a.Op == token.LEQ || a.Op == token.GEQ)) {
									ok = true
								}
							}
						}
					}
				}
				if !ok {
					bad++
				}
			})
			c.sites += nPaths
			cons := fmt.Sprintf("%s#target-created-only-for-value-or-precompile-%d", fname(call), nCA)
			if !okEnum {
				c.Undecided(cons, ci.Pos(), "paths to CreateAccount could not be enumerated")
				continue
			}
			c.Check(cons, ci.Pos(), bad == 0 && nPaths > 0, ifelse(bad == 0 && nPaths > 0, fmt.Sprintf("all %d paths to the creation have a non-zero value", nPaths), fmt.Sprintf("%d of %d paths create the target account of a call that transfers nothing: a zero-value CALL beneath a STATICCALL changes the set of existing accounts and the calling contract observes it", bad, nPaths)))
		}
		if nCA == 0 {
			c.Pass(fname(call)+"#target-created-only-for-value-or-precompile", call.Pos(), "EVM.Call does not create accounts itself")
		}
	}

	// ------------------------------------------------------------ F11
	c.Rule("C16.F11", "SAME-VALUE", "gas returned never exceeds gas supplied — a child frame is started with gas its parent has paid: in opCreate / opCreate2 the gas handed to evm.Create / Create2 is the very value that contract.UseGas charged just before; in opCall / opCallCode / opDelegateCall / opStaticCall it is evm.callGasTemp (charged by the dynamic gas function) plus at most the constant call stipend. Otherwise the unused part flows back through contract.Gas += returnGas and a frame ends with more gas than it was given")
	c.Min(6)
	{
		useGas := w.FuncObj("core/vm", "Contract", "UseGas")
		for _, spec := range []struct {
			op, callee string
			create     bool
		}{{"opCreate", "Create", true}, {"opCreate2", "Create2", true}, {"opCall", "Call", false}, {"opCallCode", "CallCode", false}, {"opDelegateCall", "DelegateCall", false}, {"opStaticCall", "StaticCall", false}} {
			fn := w.Fn("core/vm", "", spec.op)
			c.sawFunc(fname(fn))
			found := false
			for _, ci := range callInstrs(fn) {
				o := calleeObj(ci)
				if o == nil || o.Name() != spec.callee || recvName(o) != "EVM" {
					continue
				}
				found = true
				c.sites++
				// the uint64 argument is the gas
				var gas ssa.Value
				for _, a := range callArgs(ci) {
					if b, ok := a.Type().Underlying().(*types.Basic); ok && b.Kind() == types.Uint64 {
						gas = a
					}
				}
				if gas == nil {
					c.Fail(spec.op+"#child-gas-was-paid", ci.Pos(), "no gas argument found in the call of "+spec.callee)
					continue
				}
				if spec.create {
					ok := false
					for _, ug := range callsTo(fn, useGas) {
						if instrDominates(ug.(ssa.Instruction), ci.(ssa.Instruction)) && stripConvNoBind(callArgs(ug)[0]) == stripConvNoBind(gas) {
							ok = true
						}
					}
					c.Check(spec.op+"#child-gas-was-paid", ci.Pos(), ok, ifelse(ok, "the gas handed to the new frame is the value UseGas charged", "the gas handed to "+spec.callee+" is not the value that contract.UseGas charged before it: the frame can return more gas than its parent paid for"))
					continue
				}
				var bad string
				seen := map[ssa.Value]bool{}
				var walk func(v ssa.Value)
				walk = func(v ssa.Value) {
					if seen[v] || bad != "" {
						return
					}
					seen[v] = true
					switch x := v.(type) {
					case *ssa.Const:
					case *ssa.Phi:
						for _, e := range x.Edges {
							walk(e)
						}
					case *ssa.BinOp:
						if x.Op != token.ADD {
							bad = "a " + x.Op.String() + " at " + w.Pos(x.Pos())
							return
						}
						walk(x.X)
						walk(x.Y)
					case *ssa.Convert:
						walk(x.X)
					case *ssa.ChangeType:
						walk(x.X)
					case *ssa.UnOp:
						if fa, ok := x.X.(*ssa.FieldAddr); ok && x.Op == token.MUL {
							if f := fieldOfAddr(fa); f != nil && f.Name() == "callGasTemp" {
								return
							}
						}
						bad = "a value other than evm.callGasTemp at " + w.Pos(x.Pos())
					default:
						bad = fmt.Sprintf("%T at %s", v, w.Pos(v.Pos()))
					}
				}
				walk(gas)
				c.Check(spec.op+"#child-gas-was-paid", ci.Pos(), bad == "", ifelse(bad == "", "the gas handed to the callee is evm.callGasTemp (+ constant stipend)", "the gas handed to "+spec.callee+" derives from "+bad+", not only from the amount the dynamic gas function charged (callGasTemp) and the constant stipend"))
			}
			if !found {
				c.Undecided(spec.op+"#child-gas-was-paid", fn.Pos(), "no call of evm."+spec.callee+" found in "+spec.op)
			}
		}
	}

	// ------------------------------------------------------------ F12
	c.Rule("C16.F12", "SIBLINGS", "gas returned never exceeds gas supplied: an opcode that hands the callee the call stipend when value is non-zero (opCall, opCallCode add params.CallStipend to the callee's gas) is priced by a gas function that charges the value-transfer surcharge in that case (gasCall, gasCallCode contain params.CallValueTransferGas). The stipend is free gas for the callee; without the surcharge every such call to an address without code hands back about 1600 gas more than it cost")
	c.Min(2)
	{
		var hasConstD func(fn *ssa.Function, k int64, depth int) bool
		hasConst := func(fn *ssa.Function, k int64) bool { return hasConstD(fn, k, 0) }
		hasConstD = func(fn *ssa.Function, k int64, depth int) bool {
			if depth < 1 {
				for _, ci := range callInstrs(fn) {
					if g := ci.Common().StaticCallee(); g != nil && g.Pkg == fn.Pkg && g.Blocks != nil && g != fn && hasConstD(g, k, depth+1) {
						return true
					}
				}
			}
			for _, in := range allInstrs(fn) {
				for _, op := range in.Operands(nil) {
					if op == nil || *op == nil {
						continue
					}
					if n, isK := constInt(*op); isK && n == k {
						return true
					}
				}
			}
			return false
		}
		stipend, surcharge := int64(2300), int64(9000)
		if cv := constOf(w, "params", "CallStipend"); cv != nil {
			if v, ok := constant.Int64Val(constant.ToInt(cv)); ok {
				stipend = v
			}
		}
		if cv := constOf(w, "params", "CallValueTransferGas"); cv != nil {
			if v, ok := constant.Int64Val(constant.ToInt(cv)); ok {
				surcharge = v
			}
		}
		for _, pair := range [][2]string{{"opCall", "gasCall"}, {"opCallCode", "gasCallCode"}} {
			op, gf := w.Fn("core/vm", "", pair[0]), w.Fn("core/vm", "", pair[1])
			c.sawFunc(fname(op))
			c.sawFunc(fname(gf))
			c.sites++
			gives, charges := hasConst(op, stipend), hasConst(gf, surcharge)
			ok := !gives || charges
			c.Check(pair[0]+"~"+pair[1]+"#stipend-only-with-surcharge", gf.Pos(), ok, ifelse(ok, "the stipend is given and the value-transfer surcharge is charged", pair[0]+" gives the callee the call stipend for a non-zero value and "+pair[1]+" does not charge the value-transfer surcharge: gas is created"))
		}
	}

	// ------------------------------------------------------------ F13
	c.Rule("C16.F13", "EXHAUSTIVE", "a static call and everything beneath it changes nothing: the interpreter refuses, in read-only mode, exactly the operations whose table entry says writes — so in every instruction table of core/vm each operation literal installed at a state-changing opcode (SSTORE, LOG0…LOG4, CREATE, CREATE2, SELFDESTRUCT) carries writes: true, also when a later fork replaces the whole entry instead of one field (syntax-tree rule over the composite literals of jump_table.go)")
	c.Min(8)
	{
		writers := map[string]bool{"SSTORE": true, "LOG0": true, "LOG1": true, "LOG2": true, "LOG3": true, "LOG4": true, "CREATE": true, "CREATE2": true, "SELFDESTRUCT": true}
		hasWrites := func(cl *ast.CompositeLit) bool {
			for _, el := range cl.Elts {
				if kv, ok := el.(*ast.KeyValueExpr); ok {
					if k, isId := kv.Key.(*ast.Ident); isId && k.Name == "writes" {
						if v, isV := kv.Value.(*ast.Ident); isV && v.Name == "true" {
							return true
						}
					}
				}
			}
			return false
		}
		n := 0
		ord := map[string]int{}
		pkg := w.Pkg("core/vm")
		for _, file := range pkg.Syntax {
			if strings.HasSuffix(w.fileOf(file.Pos()), "_test.go") {
				continue
			}
			ast.Inspect(file, func(nd ast.Node) bool {
				switch x := nd.(type) {
				case *ast.KeyValueExpr:
					if k, isId := x.Key.(*ast.Ident); isId && writers[k.Name] {
						if cl, isCL := x.Value.(*ast.CompositeLit); isCL {
							n++
							c.sites++
							okW := hasWrites(cl)
							ord[k.Name]++
							c.Check(fmt.Sprintf("jump-table#%s-%d-writes", k.Name, ord[k.Name]), x.Pos(), okW, ifelse(okW, "writes: true", "the table entry installed at "+k.Name+" does not say writes: true: beneath a STATICCALL the interpreter lets it run"))
						}
					}
				case *ast.AssignStmt:
					if len(x.Lhs) == 1 && len(x.Rhs) == 1 {
						if ix, isIx := x.Lhs[0].(*ast.IndexExpr); isIx {
							if k, isId := ix.Index.(*ast.Ident); isId && writers[k.Name] {
								if cl, isCL := x.Rhs[0].(*ast.CompositeLit); isCL {
									n++
									c.sites++
									okW := hasWrites(cl)
									ord[k.Name]++
									c.Check(fmt.Sprintf("jump-table#%s-%d-writes", k.Name, ord[k.Name]), x.Pos(), okW, ifelse(okW, "writes: true", "the table entry installed at "+k.Name+" does not say writes: true: beneath a STATICCALL the interpreter lets it run"))
								}
							}
						}
					}
				}
				return true
			})
		}
		if n == 0 {
			c.Undecided("jump-table#writers", token.NoPos, "no operation literal installed at a state-changing opcode found in core/vm")
		}
	}

	// ------------------------------------------------------------ F4
	c.Rule("C16.F4", "CONFINED", "Contract.Gas is increased only by gas returned from a callee frame (the call/create opcodes) or set when the contract is created")
	c.Min(4)
	gasF := w.Field("core/vm", "Contract", "Gas")
	for _, fn := range w.FuncsIn("core/vm") {
		if strings.HasSuffix(w.fileOf(fn.Pos()), "_test.go") {
			continue
		}
		for _, fw := range fieldWrites(fn) {
			if fw.Field != gasF || isLocalAlloc(fw.Base) {
				continue
			}
			st := fw.Instr.(*ssa.Store)
			bo, isB := st.Val.(*ssa.BinOp)
			name := outerName(fname(fn))
			c.sites++
			switch {
			case isB && bo.Op == token.SUB:
				c.Pass(name+"#Gas-decrease", st.Pos(), "gas is consumed")
			case isB && bo.Op == token.ADD:
				// the added amount is the returnGas of a callee frame
				fromCallee := derivesFrom(bo.Y, func(v ssa.Value) bool {
					if e, ok := v.(*ssa.Extract); ok {
						if cc, ok := e.Tuple.(*ssa.Call); ok {
							if o := calleeObj(cc); o != nil {
								switch o.Name() {
								case "Call", "CallCode", "DelegateCall", "StaticCall", "Create", "Create2":
									return true
								}
							}
						}
					}
					return false
				})
				c.Check(name+"#Gas-increase", st.Pos(), fromCallee, ifelse(fromCallee, "adds the gas returned by a callee frame", "a contract's gas grows by something that is not gas returned by a callee: gas returned can exceed gas supplied"))
			default:
				c.Fail(name+"#Gas-assign", st.Pos(), "Contract.Gas is assigned outside construction and the use/return arithmetic")
			}
		}
	}
}

func coreEvmFuncs(w *World) []*ssa.Function {
	var out []*ssa.Function
	for _, fn := range w.FuncsIn("core") {
		if strings.HasSuffix(w.fileOf(fn.Pos()), "core/evm.go") {
			out = append(out, fn)
		}
	}
	return out
}

// revertOnEveryError: the block holding the revert is entered through
// conditions that hold for every non-nil error after run: the immediate
// controlling branch tests err != nil (optionally or-ed with an oversize flag),
// and the branch point lies on every path from run to the return.
func revertOnEveryError(fn *ssa.Function, runCall, rev ssa.CallInstruction) (bool, string) {
	rb := rev.Block()
	fromRun := func(v ssa.Value) bool {
		return derivesFrom(v, func(x ssa.Value) bool {
			e, ok := x.(*ssa.Extract)
			return ok && e.Tuple == ssa.Value(runCall.Value())
		})
	}
	// every path from run to a return passes the revert block or an edge on
	// which (a value derived from) run's error is nil
	for _, b := range fn.Blocks {
		if _, ok := b.Instrs[len(b.Instrs)-1].(*ssa.Return); !ok || b == fn.Recover || !runCall.Block().Dominates(b) {
			continue
		}
		ok := allPathsBetween(runCall.Block(), b, func(x *ssa.BasicBlock) bool { return x == rb }, func(from, to *ssa.BasicBlock) bool {
			f, isIf := edgeFact(from, to)
			if !isIf {
				return false
			}
			as := atomsOf([]Fact{f})
			return len(as) == 1 && as[0].Kind == "isnil" && as[0].Truth && isErrorType(as[0].X.Type()) && fromRun(as[0].X)
		})
		if !ok {
			return false, "a path from run to the return neither passes the revert nor establishes that the error is nil: some failing executions are not reverted"
		}
	}
	// a return that definitely carries an error (also one assigned after run, such
	// as the oversized-code error) must have passed the revert on every path
	if idx := errResultIdx(fn); idx >= 0 {
		for _, rp := range returnPaths(fn, idx) {
			if rp.Kind != RetFail || !runCall.Block().Dominates(rp.Block) {
				continue
			}
			if rp.Block == rb {
				continue
			}
			// every feasible path from run through the block that sets the error to the return passes the revert
			passes, n := true, 0
			via := rp.Block
			enumOK := pathsBetween(fn, runCall.Block(), rp.Ret.Block(), 5000, func(blocks []*ssa.BasicBlock, facts []Fact) {
				through, hit := false, false
				for i, b := range blocks {
					if b == via && (rp.To == nil || (i+1 < len(blocks) && blocks[i+1] == rp.To)) {
						through = true
					}
					if b == rb {
						hit = true
					}
				}
				if !through {
					return
				}
				n++
				if !hit {
					passes = false
					if os.Getenv("YDEBUG") != "" {
						var bs []string
						for _, b := range blocks {
							bs = append(bs, fmt.Sprintf("%d:%s", b.Index, b.Comment))
						}
						fmt.Println("DBG via", via.Index, via.Comment, "rb", rb.Index, "path", strings.Join(bs, " "))
						for _, f := range facts {
							fmt.Println("    fact", f.Cond, f.Cond.Name(), f.Truth)
						}
					}
				}
			})
			if !enumOK || n == 0 || !passes {
				return false, "the frame can return an error (set after run) on a path that never reverted to the snapshot: the failed frame's state changes, logs and created account survive"
			}
		}
	}
	return true, ""
}

func c16Variants() []Variant {
	f := "core/vm/evm.go"
	return []Variant{
		{Name: "staticcall-without-revert", File: f, Old: "	ret, err = run(evm, contract, input, true)\n	if err != nil {\n		evm.StateDB.RevertToSnapshot(snapshot)\n		if err != errExecutionReverted {", New: "	ret, err = run(evm, contract, input, true)\n	if err != nil && err != errExecutionReverted {\n		evm.StateDB.RevertToSnapshot(snapshot)\n		if err != errExecutionReverted {", Rule: "C16.F1", Construct: "StaticCall"},
		{Name: "transfer-before-snapshot", File: f, Old: "	var (\n		to       = AccountRef(addr)\n		snapshot = evm.StateDB.Snapshot()\n	)\n	if exist := evm.StateDB.Exist(addr); !exist && value.Sign() == 0 {\n", New: "	to := AccountRef(addr)\n	evm.Transfer(evm.StateDB, caller.Address(), to.Address(), new(big.Int))\n	snapshot := evm.StateDB.Snapshot()\n	if exist := evm.StateDB.Exist(addr); !exist && value.Sign() == 0 {\n", Rule: "C16.F1", Construct: "Call#Transfer-after-snapshot"},
		{Name: "staticcall-not-readonly", File: f, Old: "	ret, err = run(evm, contract, input, true)", New: "	ret, err = run(evm, contract, input, false)", Rule: "C16.F2", Construct: "StaticCall#readOnly-argument"},
		{Name: "suicide-without-destroying", File: "core/vm/instructions.go", Old: "	interpreter.evm.StateDB.Suicide(contract.Address())\n", New: "", Rule: "C16.F3", Construct: "opSuicide"},
		{Name: "keep-gas-on-failure", File: f, Old: "	ret, err = run(evm, contract, input, false) //if contract.Code is empty, return nil, nil\n\n	// When an error was returned by the EVM or when setting the creation code\n	// above we revert to the snapshot and consume any gas remaining. Additionally\n	// when we're in homestead this also counts for code storage gas errors.\n	if err != nil {\n		evm.StateDB.RevertToSnapshot(snapshot)\n		if err != errExecutionReverted {\n			contract.UseGas(contract.Gas)\n		}\n	}", New: "	ret, err = run(evm, contract, input, false) //if contract.Code is empty, return nil, nil\n\n	if err != nil {\n		evm.StateDB.RevertToSnapshot(snapshot)\n	}", Rule: "C16.F1", Construct: "Call#burns-gas"},
	}
}

// revertTailInHelper: fn hands its snapshot and its error to a small helper on
// every path after run, and the helper reverts to that snapshot exactly when
// the error is non-nil and burns contract.Gas unless the error is
// errExecutionReverted. Returns (false, "") when fn calls no such helper.
func revertTailInHelper(w *World, fn *ssa.Function, snap, runCall ssa.CallInstruction, revertedErr *ssa.Global) (bool, string) {
	for _, hc := range callInstrs(fn) {
		h := hc.Common().StaticCallee()
		if !isSmallHelper(h) {
			continue
		}
		var rev ssa.CallInstruction
		for _, ci := range callInstrs(h) {
			if o := calleeObj(ci); o != nil && o.Name() == "RevertToSnapshot" {
				rev = ci
			}
		}
		if rev == nil {
			continue
		}
		// parameters of the helper: snapshot and error
		sp, isP := stripConvNoBind(callArgs(rev)[0]).(*ssa.Parameter)
		if !isP {
			return false, fname(h) + " reverts to something else than its snapshot parameter"
		}
		var ep *ssa.Parameter
		for _, p := range h.Params {
			if isErrorType(p.Type()) {
				ep = p
			}
		}
		if ep == nil {
			return false, fname(h) + " has no error parameter"
		}
		argOf := func(p *ssa.Parameter) ssa.Value {
			for i, q := range h.Params {
				if q == p && i < len(hc.Common().Args) {
					return hc.Common().Args[i]
				}
			}
			return nil
		}
		if a := argOf(sp); a == nil || stripConvNoBind(a) != ssa.Value(snap.Value()) {
			return false, "the helper is not given this frame's snapshot"
		}
		// the error handed over is the frame's result
		errOK := false
		for _, b := range fn.Blocks {
			if r, ok := b.Instrs[len(b.Instrs)-1].(*ssa.Return); ok && b != fn.Recover && runCall.Block().Dominates(b) {
				if i := errResultIdx(fn); i >= 0 && stripConvNoBind(r.Results[i]) == stripConvNoBind(argOf(ep)) {
					errOK = true
				}
				if !instrDominates(hc, r) {
					return false, "a return after run does not pass the helper"
				}
			}
		}
		if !errOK {
			return false, "the helper is not given the error the frame returns"
		}
		// inside the helper: revert exactly under err != nil
		delete(paramBind, ep)
		delete(paramBind, sp)
		atoms := atomsOf(factsAtInstr(rev))
		if len(atoms) != 1 || atoms[0].Kind != "isnil" || atoms[0].Truth || stripConvNoBind(atoms[0].X) != ssa.Value(ep) {
			return false, fname(h) + " does not revert exactly when its error is non-nil"
		}
		// every path with a non-nil error reaches the revert: the test is in the entry block
		if len(h.Blocks) == 0 || rev.Block().Idom() != h.Blocks[0] {
			return false, fname(h) + " can leave before the error test"
		}
		burn := false
		for _, u := range callInstrs(h) {
			o := calleeObj(u)
			if o == nil || o.Name() != "UseGas" || !instrDominates(rev, u) {
				continue
			}
			if f, _ := loadedField(stripConvNoBind(callArgs(u)[0])); f == nil || f.Name() != "Gas" {
				continue
			}
			for _, a := range atomsOf(factsAtInstr(u)) {
				if a.Kind == "eq" && !a.Truth {
					for _, v := range []ssa.Value{a.X, a.Y} {
						if ld, ok := v.(*ssa.UnOp); ok && ld.X == ssa.Value(revertedErr) {
							burn = true
						}
					}
				}
			}
		}
		if !burn {
			return false, fname(h) + " does not burn the remaining gas under err != errExecutionReverted"
		}
		return true, fname(h) + "(snapshot, err) reverts under err != nil and burns gas unless reverted"
	}
	return false, ""
}

// stripConvNoBind strips conversions without resolving helper parameters.
func stripConvNoBind(v ssa.Value) ssa.Value {
	for {
		switch x := v.(type) {
		case *ssa.ChangeType:
			v = x.X
		case *ssa.Convert:
			v = x.X
		case *ssa.ChangeInterface:
			v = x.X
		case *ssa.MakeInterface:
			v = x.X
		default:
			return v
		}
	}
}

func c16F7(c *Ctx, w *World) {
	acct := w.Struct(statePkg, "Account")
	isBalField := func(f *types.Var) bool {
		return f != nil && ownerOfField(acct, f) && (f.Name() == "Balance" || f.Name() == "DelegationBalance")
	}
	var fns []*ssa.Function
	for _, fn := range w.FuncsIn(statePkg) {
		if fn.Blocks != nil && !strings.HasSuffix(w.fileOf(fn.Pos()), "_test.go") {
			fns = append(fns, fn)
		}
	}
	paramIndex := func(fn *ssa.Function, v ssa.Value) int {
		v = stripConvNoBind(v)
		for i, p := range fn.Params {
			if ssa.Value(p) == v {
				return i
			}
		}
		return -1
	}
	// fresh: rooted at an allocation made in this function, following receiver-returning big.Int methods
	var fresh func(v ssa.Value, depth int) bool
	fresh = func(v ssa.Value, depth int) bool {
		if depth > 8 {
			return false
		}
		switch x := stripConvNoBind(v).(type) {
		case *ssa.Alloc:
			return true
		case *ssa.Call:
			o := calleeObj(x)
			if o == nil || o.Pkg() == nil || o.Pkg().Path() != "math/big" {
				return false
			}
			if o.Name() == "NewInt" {
				return true
			}
			if r := callRecv(x); r != nil && recvName(o) == "Int" && isBigIntPtr(x.Type()) {
				return fresh(r, depth+1)
			}
		case *ssa.Phi:
			for _, e := range x.Edges {
				if !fresh(e, depth+1) {
					return false
				}
			}
			return len(x.Edges) > 0
		}
		return false
	}
	// setter sites: stores into the balance fields, and calls of known setters
	type site struct {
		at  ssa.Instruction
		val ssa.Value
	}
	setterParam := map[*ssa.Function]int{} // function -> index of the parameter it takes ownership of
	sitesOf := func(fn *ssa.Function) []site {
		var out []site
		for _, b := range fn.Blocks {
			for _, in := range b.Instrs {
				switch x := in.(type) {
				case *ssa.Store:
					if fa, ok := x.Addr.(*ssa.FieldAddr); ok && isBalField(fieldOfAddr(fa)) && isBigIntPtr(x.Val.Type()) {
						out = append(out, site{x, x.Val})
					}
				case ssa.CallInstruction:
					if g := staticCallee(x); g != nil {
						if idx, ok := setterParam[g]; ok && idx < len(x.Common().Args) {
							out = append(out, site{x, x.Common().Args[idx]})
						}
					}
				}
			}
		}
		return out
	}
	for changed := true; changed; {
		changed = false
		for _, fn := range fns {
			if _, done := setterParam[fn]; done {
				continue
			}
			ss := sitesOf(fn)
			if len(ss) == 0 {
				continue
			}
			idx, all := -1, true
			for _, s := range ss {
				i := paramIndex(fn, s.val)
				if i < 0 || (idx >= 0 && i != idx) {
					all = false
				}
				if i >= 0 && idx < 0 {
					idx = i
				}
			}
			if all && idx >= 0 {
				setterParam[fn] = idx
				changed = true
			}
		}
	}
	n := 0
	for _, fn := range fns {
		ss := sitesOf(fn)
		if len(ss) == 0 {
			continue
		}
		c.sawFunc(fname(fn))
		if _, isSetter := setterParam[fn]; isSetter {
			n++
			c.sites++
			c.Pass(fname(fn)+"#takes-ownership-of-its-parameter", fn.Pos(), "a setter: its parameter is handed on at every setter site")
			continue
		}
		for i, s := range ss {
			n++
			c.sites++
			cons := fmt.Sprintf("%s#balance-value-owned-%d", fname(fn), i)
			switch {
			case fresh(s.val, 0):
				c.Pass(cons, s.at.Pos(), "a value made in this function")
			case paramIndex(fn, s.val) >= 0:
				c.Fail(cons, s.at.Pos(), "the function stores its caller's integer as the balance on this path while it computes a new integer on another: callers (the EVM hands in integers it recycles through its integer pool) keep a pointer into the account, and the balance changes later without a journal entry")
			default:
				// the entry of a journal owns the pre-image it restores; the constructor defaults a missing balance
				if f, _ := loadedField(stripConvNoBind(s.val)); f != nil && (strings.HasPrefix(f.Name(), "prev") || isBalField(f)) {
					c.Pass(cons, s.at.Pos(), "restores a pre-image owned by the journal entry / carries the source's own value over")
				} else {
					c.Fail(cons, s.at.Pos(), "the integer stored as the balance is neither made here nor a setter's parameter: it may be shared with its source")
				}
			}
		}
	}
	if n == 0 {
		c.Undecided("core/state#balance-setters", token.NoPos, "no store into Account.Balance / DelegationBalance found")
	}
}

package main

import (
	"fmt"
	"go/constant"
	"go/token"
	"go/types"
	"sort"
	"strings"

	"golang.org/x/tools/go/ssa"
)

// C02 — an honest validator never signs two conflicting votes, across restarts.

func init() {
	register(&propDef{
		ID:          "C02",
		Explanation: "Structural necessary conditions of vote-once, decided on the SSA form of consensus/ucon: a vote is gossiped only after its record was persisted, and persisted only when not already voted (S1); the validator's keys reach a signing call only in the tabled functions and votes are signed on one path (S2); every vote kind that is persisted is replayed on start with as many records as the kind allows (S3); the (round, index, marks) triple of the vote database moves together (S4); the once-only latches are set only after a successful vote (S5). Not decided: the crash/restart history semantics as such, timing.",
		Assumptions: []string{"youdb.Database.Put is durable when it returns nil", "the event mux delivers SendMessageEvent only when posted"},
		Run:         runC02,
		Variants:    c02Variants,
	})
}

func runC02(c *Ctx) {
	w := c.W
	vote := w.Fn(uconPkg, "Voter", "vote")
	upd := w.Fn(uconPkg, "VoteDB", "UpdateVoteData")
	updObj := upd.Object().(*types.Func)
	already := w.FuncObj(uconPkg, "VoteDB", "alreadyVoted")
	newDB := w.Fn(uconPkg, "", "NewVoteDB")
	sendEv := w.Named(uconPkg, "SendMessageEvent")
	c.sawFunc(fname(vote))
	c.sawFunc(fname(upd))
	c.sawFunc(fname(newDB))

	// ------------------------------------------------------------ S1
	c.Rule("C02.S1", "GATE", "in vote the SendMessageEvent is posted only after UpdateVoteData returned nil; UpdateVoteData returns nil only after the record was written (db.Put == nil) and the mark was raised, and writes only when alreadyVoted is false")
	c.Min(3)
	// the second half of vote (record, count, post) may be split off into a method of its own
	voteTail := voteTailOf(w, vote, updObj)
	updCalls := callsTo(voteTail, updObj)
	nPost := 0
	isPost := func(in ssa.Instruction) bool {
		ci, isCall := in.(ssa.CallInstruction)
		if !isCall {
			return false
		}
		o := calleeObj(ci)
		if o == nil || (o.Name() != "AsyncPost" && o.Name() != "Post") {
			return false
		}
		args := callArgs(ci)
		return len(args) > 0 && types.Identical(stripConv(args[0]).Type(), sendEv)
	}
	// the post itself, or the call of a split-off tail of vote that posts
	for _, ci := range sitesVia(w, voteTail, isPost) {
		nPost++
		c.sites++
		ok := false
		for _, u := range updCalls {
			if gatedByErrNil(ci, u) {
				ok = true
			}
		}
		c.Check(fname(vote)+"#post-after-persist", ci.Pos(), ok, ifelse(ok, "posted on the nil edge of UpdateVoteData", "the vote leaves the node on a path where its record was not persisted first: a kill after gossip forgets the vote and the validator signs again"))
	}
	if nPost == 0 {
		c.Undecided(fname(vote)+"#post-after-persist", vote.Pos(), "no SendMessageEvent post found in vote")
	}
	// every path on which a vote is signed and leaves vote() as success passes UpdateVoteData
	puts := callsByName(upd, "Database", "Put")
	if len(puts) == 0 {
		puts = callsByName(upd, "", "Put")
	}
	alreadyCalls := callsTo(upd, already)
	markF := w.Field(uconPkg, "VoteDB", "mark")
	var markUpdates []ssa.Instruction
	for _, fw := range fieldWrites(upd) {
		if fw.Field == markF && fw.Kind == "mapupdate" {
			markUpdates = append(markUpdates, fw.Instr)
		}
	}
	for i, rp := range returnPaths(upd, errResultIdx(upd)) {
		if !rp.MayBeNil() {
			continue
		}
		c.sites++
		atoms := rp.Atoms()
		putOK, notVoted := false, false
		for _, p := range puts {
			if hasErrNil(atoms, p) {
				putOK = true
			}
		}
		for _, a := range alreadyCalls {
			if hasBoolResult(atoms, a, 0, false) {
				notVoted = true
			}
		}
		marked := mustPassBefore(rp.Ret, markUpdates)
		ok := putOK && notVoted && marked
		c.Check(fmt.Sprintf("%s#accepting-return-%d", fname(upd), i), rp.Ret.Pos(), ok, ifelse(ok, "returns nil only after alreadyVoted==false, db.Put==nil and the mark increment", fmt.Sprintf("UpdateVoteData can report success without (not-yet-voted=%v, record written=%v, mark raised=%v)", notVoted, putOK, marked)))
	}
	for _, p := range puts {
		ok := false
		for _, a := range alreadyCalls {
			if gatedByBool(p, a, 0, false) {
				ok = true
			}
		}
		c.Check(fname(upd)+"#write-only-if-not-voted", p.Pos(), ok, ifelse(ok, "db.Put is dominated by alreadyVoted==false", "the vote record is (over)written although this kind was already voted in this round/index"))
	}

	// ------------------------------------------------------------ S2
	c.Rule("C02.S2", "CONFINED", "values loaded from the validator's key fields (rawSk, blsSk) reach a signing call only in the tabled functions; signVote and (*VoteBLSMgr).SignVote are called only from vote and signVote")
	c.Min(8)
	allowedSigners := map[string]string{
		"(consensus/ucon.Voter).signVote":         "the vote payload (secp256k1 branch)",
		"(consensus/ucon.VoteBLSMgr).SignVote":    "the vote payload (BLS branch)",
		"(consensus/ucon.VoteDB).UpdateVoteData":  "the local vote record (round, index, kind) kept in the node database, never sent",
		"(consensus/ucon.MessageHandler).sendMsg": "the gossip envelope of an already built message",
		"(consensus/ucon.Server).Seal":            "the hash of the block this node proposes",
		"(consensus/ucon.Server).Prepare":         "the consensus data of the block this node proposes (SetSignature)",
	}
	isKeyField := func(f *types.Var) bool {
		return f != nil && f.Pkg() != nil && f.Pkg().Path() == full(uconPkg) && (f.Name() == "rawSk" || f.Name() == "blsSk")
	}
	isSigner := func(o *types.Func) bool {
		if o == nil {
			return false
		}
		switch {
		case o.Pkg() != nil && o.Pkg().Path() == full(uconPkg) && o.Name() == "Sign" && recvName(o) == "":
			return true
		case o.Pkg() != nil && o.Pkg().Path() == full("crypto") && o.Name() == "Sign":
			return true
		case o.Pkg() != nil && o.Pkg().Path() == full("bls") && o.Name() == "Sign":
			return true
		case o.Pkg() != nil && o.Pkg().Path() == full(uconPkg) && o.Name() == "SetSignature":
			return true
		case o.Pkg() != nil && o.Pkg().Path() == "crypto/ecdsa" && strings.HasPrefix(o.Name(), "Sign"):
			return true
		}
		return false
	}
	seenSigner := map[string]bool{}
	for _, fn := range w.FuncsIn(uconPkg) {
		if strings.HasSuffix(w.fileOf(fn.Pos()), "_test.go") {
			continue
		}
		for _, ci := range callInstrs(fn) {
			if !isSigner(calleeObj(ci)) {
				continue
			}
			c.sites++
			usesKey := false
			ops := append([]ssa.Value{}, ci.Common().Args...)
			if ci.Common().IsInvoke() {
				ops = append(ops, ci.Common().Value)
			}
			for _, a := range ops {
				for _, s := range w.sourcesOf(a, 0, nil) {
					if s.Kind == "field" && isKeyField(s.Field) {
						usesKey = true
					}
				}
			}
			if !usesKey {
				continue
			}
			name := outerName(fname(fn))
			_, ok := allowedSigners[name]
			seenSigner[name] = true
			c.Check(name+"#signs-with-validator-key", ci.Pos(), ok, ifelse(ok, "tabled signing site: "+allowedSigners[name], "a new function signs with the validator's key: a second signing path can produce a conflicting vote that the vote database never saw"))
		}
	}
	// who may call the vote signers
	confine := func(callee *types.Func, allowed map[string]bool) {
		for _, fn := range w.AllFuncs() {
			if strings.HasSuffix(w.fileOf(fn.Pos()), "_test.go") {
				continue
			}
			for _, ci := range callsTo(fn, callee) {
				c.sites++
				name := outerName(fname(fn))
				c.Check(name+"#calls-"+callee.Name(), ci.Pos(), allowed[name], ifelse(allowed[name], "tabled caller", "unexpected caller of "+callee.Name()+": votes are signed outside the persist-then-publish path"))
			}
		}
	}
	confine(w.FuncObj(uconPkg, "Voter", "signVote"), map[string]bool{"(consensus/ucon.Voter).vote": true})
	confine(w.FuncObj(uconPkg, "VoteBLSMgr", "SignVote"), map[string]bool{"(consensus/ucon.Voter).signVote": true})
	// inside vote, the signature is produced by signVote only, and UpdateVoteData is on every success path
	voteFns := []*ssa.Function{vote}
	if voteTail != vote {
		voteFns = append(voteFns, voteTail)
	}
	for _, vfn := range voteFns {
		for i, rp := range returnPaths(vfn, errResultIdx(vfn)) {
			if !rp.MayBeNil() {
				continue
			}
			ok := false
			for _, u := range updCalls {
				if hasErrNil(rp.Atoms(), u) {
					ok = true
				}
			}
			if vfn == vote && voteTail != vote {
				// return v.tail(...): judged at the tail's own returns
				if cc, isCall := stripConvNoBind(rp.Ret.Results[errResultIdx(vfn)]).(*ssa.Call); isCall && cc.Call.StaticCallee() == voteTail {
					ok = true
				}
			}
			c.Check(fmt.Sprintf("%s#accepting-return-%d", fname(vote), i), rp.Ret.Pos(), ok, ifelse(ok, "vote reports success only after the record was persisted", "vote can report success (and set the once-only latch of its caller) without a persisted record"))
		}
	}

	// ------------------------------------------------------------ S3
	c.Rule("C02.S3", "EXHAUSTIVE", "every vote kind that can reach UpdateVoteData (the constants at the call sites of vote) is replayed by NewVoteDB from its persisted record(s): one record per kind, two for NextIndex")
	c.Min(4)
	voteObj := vote.Object().(*types.Func)
	kinds := map[int64]string{}
	vtNames := map[int64]string{}
	for _, n := range []string{"Prevote", "Precommit", "Certificate", "NextIndex"} {
		v, _ := constant.Int64Val(constant.ToInt(constOf(w, uconPkg, n)))
		vtNames[v] = n
	}
	for _, fn := range w.FuncsIn(uconPkg) {
		if strings.HasSuffix(w.fileOf(fn.Pos()), "_test.go") {
			continue
		}
		for _, ci := range callsTo(fn, voteObj) {
			k, ok := constInt(callArgs(ci)[0])
			if !ok {
				c.Undecided(fname(fn)+"#vote-kind", ci.Pos(), "vote is called with a non-constant kind")
				continue
			}
			kinds[k] = fname(fn)
		}
	}
	readVD := w.FuncObj(uconPkg, "", "ReadVoteData")
	replayed := map[int64]map[int64]bool{}
	for _, ci := range callsTo(newDB, readVD) {
		a := callArgs(ci)
		k, ok1 := constInt(a[2])
		idx, ok2 := constInt(a[3])
		var rows [][2]int64
		if ok1 && ok2 {
			rows = append(rows, [2]int64{k, idx})
		} else {
			// a loop over a package-level table of (kind, index) slots: every row is read
			rows = tableRows(newDB, a[2], a[3])
		}
		if len(rows) == 0 {
			continue
		}
		// the record must be handed to the restore closure
		used := false
		if cv := ci.Value(); cv != nil {
			for _, r := range *cv.Referrers() {
				if call, ok := r.(ssa.CallInstruction); ok {
					if _, isClosure := call.Common().Value.(*ssa.MakeClosure); isClosure || call.Common().StaticCallee() != nil {
						used = true
					}
				}
			}
		}
		if used {
			for _, row := range rows {
				if replayed[row[0]] == nil {
					replayed[row[0]] = map[int64]bool{}
				}
				replayed[row[0]][row[1]] = true
			}
		}
	}
	var ks []int64
	for k := range kinds {
		ks = append(ks, k)
	}
	sort.Slice(ks, func(i, j int) bool { return ks[i] < ks[j] })
	for _, k := range ks {
		need := []int64{1}
		if vtNames[k] == "NextIndex" {
			need = []int64{1, 2}
		}
		ok := true
		for _, i := range need {
			if !replayed[k][i] {
				ok = false
			}
		}
		c.Check("consensus/ucon.NewVoteDB#replays-"+vtNames[k], newDB.Pos(), ok, ifelse(ok, "persisted record(s) replayed on start", "votes of kind "+vtNames[k]+" are persisted (vote is called with it in "+kinds[k]+") but not replayed on start: after a restart in the same round/index the validator signs that kind again"))
	}

	// the record key binds signer, vote kind and record index; restore and persist use the same key function
	atk := w.Fn(uconPkg, "", "AddrTypeKey")
	c.sawFunc(fname(atk))
	var unbound []string
	for _, p := range atk.Params {
		if !influences(atk, p) {
			unbound = append(unbound, p.Name())
		}
	}
	c.Check(fname(atk)+"#key-binds-all-inputs", atk.Pos(), len(unbound) == 0, ifelse(len(unbound) == 0, "address, vote kind and index all flow into the database key", "the vote-record key ignores "+strings.Join(unbound, ", ")+": records of different kinds / the two next-index records overwrite each other and a restart forgets a vote"))
	readVDfn := w.Fn(uconPkg, "", "ReadVoteData")
	usesKeyFn := len(callsTo(readVDfn, atk.Object().(*types.Func))) == 1 && len(callsTo(upd, atk.Object().(*types.Func))) == 1
	c.Check("consensus/ucon#one-record-key-function", atk.Pos(), usesKeyFn, ifelse(usesKeyFn, "UpdateVoteData and ReadVoteData both build the key with AddrTypeKey", "the record is written and read back under differently built keys"))
	// the index persisted for a repeated kind is mark+1 in the same context
	idxOK := false
	for _, ci := range callsTo(upd, atk.Object().(*types.Func)) {
		if derivesFrom(callArgs(ci)[2], func(v ssa.Value) bool {
			lk, ok := v.(*ssa.Lookup)
			if !ok {
				return false
			}
			f, _ := loadedField(lk.X)
			return f == markF
		}) {
			idxOK = true
		}
	}
	c.Check(fname(upd)+"#record-index-from-mark", upd.Pos(), idxOK, ifelse(idxOK, "the record index derives from the mark of this kind", "the record index no longer derives from the number of votes of this kind already cast: the second next-index vote overwrites the first record"))

	// ------------------------------------------------------------ S4
	c.Rule("C02.S4", "ALWAYS-WITH", "in every function of VoteDB (and the restore closure) a reset of the mark table is accompanied on the same paths by assignments of round and roundIndex: the three fields describe one (round, index)")
	c.Min(3)
	roundF := w.Field(uconPkg, "VoteDB", "round")
	idxF := w.Field(uconPkg, "VoteDB", "roundIndex")
	for _, fn := range w.FuncsIn(uconPkg) {
		var resets, rounds, idxs []ssa.Instruction
		for _, fw := range fieldWrites(fn) {
			if isLocalAlloc(fw.Base) {
				continue
			}
			switch {
			case fw.Field == markF && fw.Kind == "store":
				resets = append(resets, fw.Instr)
			case fw.Field == roundF:
				rounds = append(rounds, fw.Instr)
			case fw.Field == idxF:
				idxs = append(idxs, fw.Instr)
			}
		}
		for i, r := range resets {
			c.sites++
			c.sawFunc(fname(fn))
			ok := alwaysWith(r, rounds) && alwaysWith(r, idxs)
			c.Check(fmt.Sprintf("%s#mark-reset-%d", fname(fn), i), r.Pos(), ok, ifelse(ok, "mark reset together with round and roundIndex", "the mark table is reset for another (round, index) without recording which one: the next context update wipes the restored marks and the validator votes again"))
		}
	}

	// the restore closure ignores a record as stale only if its round is not newer
	restore := findVoteRestore(newDB)
	if restore == nil {
		c.Undecided("consensus/ucon.NewVoteDB$1#stale-record-test", newDB.Pos(), "the restore closure was not found")
	} else {
		verifySig := w.FuncObj(uconPkg, "", "VerifySignature")
		isRoundCmp := func(v ssa.Value) bool {
			cc, ok := stripConv(v).(*ssa.Call)
			if !ok || calleeObj(cc) == nil || calleeObj(cc).Name() != "Cmp" {
				return false
			}
			rf, _ := loadedField(stripConv(callRecv(cc)))
			af, _ := loadedField(stripConv(callArgs(cc)[0]))
			return rf != nil && rf.Name() == "round" && af != nil && af.Name() == "Round"
		}
		nIgnore, bad := 0, 0
		okEnum := enumPaths(restore, 5000, func(pr PathResult) {
			// does the path write the mark table?
			writes := false
			sigOK, haveRound := false, false
			atoms := atomsOf(pr.Facts)
			for _, fw := range fieldWrites(restore) {
				if fw.Field == markF && pr.Blocks[fw.Instr.Block()] {
					writes = true
				}
			}
			for _, a := range atoms {
				if a.Kind == "true" && a.Truth {
					if cc, ok := stripConv(a.X).(*ssa.Call); ok && sameFunc(calleeObj(cc), verifySig) {
						sigOK = true
					}
				}
				if a.Kind == "isnil" && !a.Truth {
					if f, _ := loadedField(stripConv(a.X)); f != nil && f.Name() == "round" {
						haveRound = true
					}
				}
			}
			if writes || !sigOK || !haveRound {
				return
			}
			nIgnore++
			// the record is ignored: the path must establish round(v) >= round(record)
			notNewer := false
			for _, a := range atoms {
				if a.Kind == "cmp" && isRoundCmp(a.X) {
					op := a.Op
					if !a.Truth {
						op = negateCmp(op)
					}
					if n, isC := constInt(a.Y); isC && n == 0 && (op == token.GTR || op == token.GEQ) {
						notNewer = true
					}
				}
				if a.Kind == "eq" && a.Truth && isRoundCmp(a.X) {
					if n, isC := constInt(a.Y); isC && n == 0 {
						notNewer = true
					}
				}
			}
			if !notNewer {
				bad++
			}
		})
		if !okEnum {
			c.Undecided("consensus/ucon.NewVoteDB$1#stale-record-test", restore.Pos(), "the restore closure could not be enumerated (loop or too many paths)")
		} else {
			c.sites += nIgnore
			c.Check("consensus/ucon.NewVoteDB$1#stale-record-test", restore.Pos(), bad == 0 && nIgnore > 0, ifelse(bad == 0, fmt.Sprintf("all %d paths that ignore a verified record establish that its round is not newer than the restored one", nIgnore), fmt.Sprintf("%d of %d paths ignore a verified record without comparing rounds in its favour: a record of a NEWER round (with a lower round index) is dropped, the restored context stays behind, the next context update wipes the marks and the validator signs that kind again", bad, nIgnore)))
			voteRestoreDecision(c, w, restore, roundF, idxF, markF, verifySig)
			// a record of the restored (round, index) COUNTS: its kind's mark goes up by one (next-index has two records)
			nSame, badSame := 0, 0
			enumPaths(restore, 5000, func(pr PathResult) {
				atoms := atomsOf(pr.Facts)
				sameRound, sameIndex := false, false
				for _, a := range atoms {
					if a.Kind != "eq" || !a.Truth {
						continue
					}
					if isRoundCmp(a.X) {
						if n, isC := constInt(a.Y); isC && n == 0 {
							sameRound = true
						}
					}
					fx, _ := loadedField(stripConv(a.X))
					fy, _ := loadedField(stripConv(a.Y))
					if fx != nil && fy != nil && ((fx.Name() == "roundIndex" && fy.Name() == "RoundIndex") || (fy.Name() == "roundIndex" && fx.Name() == "RoundIndex")) {
						sameIndex = true
					}
				}
				if !sameRound || !sameIndex {
					return
				}
				for _, fw := range fieldWrites(restore) {
					if fw.Field != markF || fw.Kind != "mapupdate" || !pr.Blocks[fw.Instr.Block()] {
						continue
					}
					nSame++
					mu := fw.Instr.(*ssa.MapUpdate)
					inc := false
					if bo, ok := stripConv(mu.Value).(*ssa.BinOp); ok && bo.Op == token.ADD {
						if n, isC := constInt(bo.Y); isC && n == 1 {
							if lk, ok := stripConv(bo.X).(*ssa.Lookup); ok {
								if lf, _ := loadedField(stripConv(lk.X)); lf == markF {
									inc = true
								}
							}
						}
					}
					if !inc {
						badSame++
					}
				}
			})
			c.sites += nSame
			c.Check("consensus/ucon.NewVoteDB$1#same-context-record-counts", restore.Pos(), nSame > 0 && badSame == 0, ifelse(nSame > 0 && badSame == 0, fmt.Sprintf("on all %d paths for a record of the restored round and index the kind's mark is raised by one", nSame), fmt.Sprintf("on %d of %d paths a record of the restored round and index sets the mark instead of raising it: the two next-index records restore to a count of one, the already-voted test (== 2) fails after a restart and the validator signs a third next-index vote", badSame, nSame)))
		}
	}

	// sign domain shared by S6, S7 and S8: r = sign(stored round − asked round), i = sign(stored index − asked index)
	cut := newCtxCut(w)

	// ------------------------------------------------------------ S7
	c.Rule("C02.S7", "GATE", "the vote marks are wiped only when the (round, round index) they describe really changes: in every method of VoteDB each reset of the mark table is reached only on paths that established that the stored round is nil or differs from the new round, or that the stored round index differs from the new one — a reset for the SAME context (e.g. the first context event after a restart) forgets the replayed records and the validator votes again")
	c.Min(2)
	c02S7(c, w, cut)

	// ------------------------------------------------------------ S8
	c.Rule("C02.S8", "GATE", "the (round, round index) the vote marks describe never moves backwards: with r = sign(stored round − new round) and i = sign(stored index − new index), every method of VoteDB stores a new round / round index, or wipes the marks, only on paths on which the stored round is nil or the new context is not older ((r<0) or (r=0 and i≤0)); alreadyVoted answers false only for such contexts, so a path that passed alreadyVoted == false inherits that. The engine starts every round at index 1 — also after a restart in the middle of a round — and the single record per vote kind has been overwritten by then: only the refusal to go back keeps the validator from signing index 1 twice")
	c.Min(4)
	c02S8(c, w, cut)

	// ------------------------------------------------------------ S6
	c.Rule("C02.S6", "EXHAUSTIVE", "alreadyVoted caps every vote kind that can be cast: for each kind K handed to vote, every way alreadyVoted can answer false for a record of the stored round and round index has established that mark[K] is below the cap (1; 2 for NextIndex) — a kind without a bound is signed again after a restart although its record was replayed")
	c.Min(4)
	{
		av := w.Fn(uconPkg, "VoteDB", "alreadyVoted")
		c.sawFunc(fname(av))
		var vtParam *ssa.Parameter
		for _, prm := range av.Params {
			if ownerName(prm.Type()) == "VoteType" {
				vtParam = prm
			}
		}
		nextIdx, _ := constant.Int64Val(constant.ToInt(constOf(w, uconPkg, "NextIndex")))
		isMark := func(v ssa.Value) bool {
			v = stripConv(v)
			if ex, ok := v.(*ssa.Extract); ok {
				v = ex.Tuple
			}
			lk, ok := v.(*ssa.Lookup)
			if !ok {
				return false
			}
			mt, ok := lk.X.Type().Underlying().(*types.Map)
			return ok && ownerName(mt.Key()) == "VoteType" && stripConv(lk.Index) == ssa.Value(vtParam)
		}
		type pathInfo struct {
			atoms []Atom
			pos   token.Pos
		}
		var falsePaths []pathInfo
		okEnum := vtParam != nil && enumPaths(av, 4096, func(pr PathResult) {
			rv := pr.Resolve(pr.Ret.Results[0])
			facts := pr.Facts
			if cv, isC := rv.(*ssa.Const); isC && cv.Value != nil && cv.Value.Kind() == constant.Bool {
				if constant.BoolVal(cv.Value) {
					return
				}
			} else {
				facts = append(append([]Fact(nil), facts...), Fact{Cond: rv, Truth: false})
			}
			falsePaths = append(falsePaths, pathInfo{atomsOf(facts), pr.Ret.Pos()})
		})
		if !okEnum {
			c.Undecided(fname(av)+"#caps-every-kind", av.Pos(), "the paths of alreadyVoted could not be enumerated")
		}
		var ks []int64
		for k := range kinds {
			ks = append(ks, k)
		}
		sort.Slice(ks, func(i, j int) bool { return ks[i] < ks[j] })
		for _, k := range ks {
			if !okEnum {
				break
			}
			c.sites++
			capK := int64(1)
			if k == nextIdx {
				capK = 2
			}
			bad := ""
			considered := 0
			for _, pi := range falsePaths {
				feasible := true
				bounded := false
				for _, a := range pi.atoms {
					x, y := a.X, a.Y
					if (a.Kind != "eq" && a.Kind != "cmp") || y == nil {
						continue
					}
					// kind tests
					if cx, isK := constInt(y); isK && stripConv(x) == ssa.Value(vtParam) && a.Kind == "eq" {
						if (cx == k) != a.Truth {
							feasible = false
						}
						continue
					}
					if cx, isK := constInt(x); isK && stripConv(y) == ssa.Value(vtParam) && a.Kind == "eq" {
						if (cx == k) != a.Truth {
							feasible = false
						}
						continue
					}
					// the mark bound
					mk, cst, swapped := x, y, false
					if isMark(y) {
						mk, cst, swapped = y, x, true
					}
					if !isMark(mk) {
						continue
					}
					cv, isK := constInt(cst)
					if !isK {
						continue
					}
					if a.Kind == "eq" {
						if (!a.Truth && cv == capK) || (a.Truth && cv < capK) {
							bounded = true
						}
						continue
					}
					op := a.Op
					if swapped {
						op = flipCmp(op)
					}
					ub := int64(1 << 30)
					switch {
					case op == token.LSS && a.Truth:
						ub = cv - 1
					case op == token.LEQ && a.Truth:
						ub = cv
					case op == token.GEQ && !a.Truth:
						ub = cv - 1
					case op == token.GTR && !a.Truth:
						ub = cv
					}
					if ub < capK {
						bounded = true
					}
				}
				if !feasible || contradictoryAtoms(pi.atoms) {
					continue
				}
				// only answers for the stored round and index matter here
				if f, nilRound := cut(av, pi.atoms); nilRound || !f[ri{0, 0}] {
					continue
				}
				considered++
				if !bounded && bad == "" {
					bad = w.Pos(pi.pos)
				}
			}
			nm := vtNames[k]
			if nm == "" {
				nm = fmt.Sprint(k)
			}
			okK := bad == "" && considered > 0
			c.Check(fmt.Sprintf("%s#caps-%s", fname(av), nm), av.Pos(), okK, ifelse(okK, fmt.Sprintf("every not-yet-voted answer in the stored round/index has mark < %d (%d way(s))", capK, considered), ifelse(considered == 0, "no way of answering false for the stored round and index was found", fmt.Sprintf("alreadyVoted can answer false for a %s vote of the stored round and index without a bound on its mark (return at %s): after a restart the replayed record does not stop a second, conflicting %s vote", nm, bad, nm))))
		}
	}

	// ------------------------------------------------------------ S5
	c.Rule("C02.S5", "GATE", "the once-only latches precommitted / certificated are set to true only on the nil edge of the corresponding vote call")
	c.Min(2)
	jvc := w.Fn(uconPkg, "Voter", "judgeVoteCount")
	c.sawFunc(fname(jvc))
	for _, lf := range []struct{ field, kind string }{{"precommitted", "Precommit"}, {"certificated", "Certificate"}} {
		f := w.Field(uconPkg, "Voter", lf.field)
		kv, _ := constant.Int64Val(constant.ToInt(constOf(w, uconPkg, lf.kind)))
		for _, fn := range w.FuncsIn(uconPkg) {
			for _, fw := range fieldWrites(fn) {
				if fw.Field != f || isLocalAlloc(fw.Base) {
					continue
				}
				st := fw.Instr.(*ssa.Store)
				cv, isC := st.Val.(*ssa.Const)
				if !isC || cv.Value == nil || cv.Value.Kind() != constant.Bool || !constant.BoolVal(cv.Value) {
					continue // resets to false are not restricted here
				}
				c.sites++
				ok := false
				for _, vc := range callsTo(fn, voteObj) {
					if k, isK := constInt(callArgs(vc)[0]); isK && k == kv && gatedByErrNil(st, vc) {
						ok = true
					}
				}
				c.Check(fname(fn)+"#"+lf.field+"=true", st.Pos(), ok, ifelse(ok, "set on the nil edge of vote("+lf.kind+")", "the latch is set without a successful vote of that kind"))
			}
		}
	}
	_ = token.NoPos
	c02ReplayFilter(c, c.W)
}

func c02Variants() []Variant {
	return []Variant{
		{Name: "post-before-persist", File: "consensus/ucon/voter.go",
			Edits: [][2]string{
				{"	err = v.voteCache.UpdateVoteData(voteType, v.round, v.roundIndex)\n	if err != nil {", "	v.eventMux.AsyncPost(SendMessageEvent{Code: VoteTypeToMsgCode(voteType), Payload: ecp, Round: v.round})\n	err = v.voteCache.UpdateVoteData(voteType, v.round, v.roundIndex)\n	if err != nil {"},
			}, Rule: "C02.S1", Construct: "post-after-persist"},
		{Name: "drop-alreadyVoted", File: "consensus/ucon/vote_cache.go", Old: "	if v.alreadyVoted(voteType, round, roundIndex) {\n		return fmt.Errorf(", New: "	if false {\n		return fmt.Errorf(", Rule: "C02.S1", Construct: "UpdateVoteData"},
		{Name: "sign-in-commit", File: "consensus/ucon/voter.go", Old: "func (v *Voter) commit(blockHash, priority common.Hash) {", New: "func (v *Voter) commit(blockHash, priority common.Hash) {\n	v.blsMgr.SignVote(Precommit, &SingleVote{}, blockHash.Bytes())", Rule: "C02.S2", Construct: "commit#calls-SignVote"},
		{Name: "no-certificate-replay", File: "consensus/ucon/vote_cache.go", Old: "	certificate := ReadVoteData(v.db, v.addr, Certificate, 1)\n	updateFn(certificate)\n", New: "", Rule: "C02.S3", Construct: "replays-Certificate"},
		{Name: "restore-without-round", File: "consensus/ucon/vote_cache.go", Old: "			v.round = vote.Round\n			v.roundIndex = vote.RoundIndex\n			v.mark = make(map[VoteType]uint8)", New: "			v.roundIndex = vote.RoundIndex\n			v.mark = make(map[VoteType]uint8)", Rule: "C02.S4", Construct: "NewVoteDB$1#mark-reset"},
		{Name: "key-without-index", File: "consensus/ucon/vote_cache.go", Old: "append(int8ToBytes(uint8(voteType)), int8ToBytes(index)...)...)...)", New: "int8ToBytes(uint8(voteType))...)...)", Rule: "C02.S3", Construct: "key-binds-all-inputs"},
		{Name: "latch-without-vote", File: "consensus/ucon/voter.go", Old: "			err := v.vote(Precommit, blockHash, priority)\n			if err == nil {\n				v.precommitted = true\n			}", New: "			v.vote(Precommit, blockHash, priority)\n			v.precommitted = true", Rule: "C02.S5", Construct: "precommitted"},
	}
}

// findVoteRestore: the function NewVoteDB feeds every persisted vote record to
// (a closure today; a function or method taking a *VoteItem and writing the
// mark table after an extraction).
func findVoteRestore(newDB *ssa.Function) *ssa.Function {
	var restore *ssa.Function
	for _, a := range newDB.AnonFuncs {
		if len(a.Params) == 1 {
			restore = a
		}
	}
	if restore == nil {
		// the closure may have become a function or method that NewVoteDB calls with each record read
		for _, ci := range callInstrs(newDB) {
			g := staticCallee(ci)
			if g == nil || g.Blocks == nil || g.Pkg == nil || g.Pkg.Pkg.Path() != full(uconPkg) {
				continue
			}
			takesItem := false
			for _, prm := range g.Params {
				if ownerName(prm.Type()) == "VoteItem" {
					takesItem = true
				}
			}
			writesMark := false
			for _, fw := range fieldWrites(g) {
				if fw.Field.Name() == "mark" {
					writesMark = true
				}
			}
			if takesItem && writesMark {
				restore = g
			}
		}
	}
	return restore
}

// voteRestoreDecision: the replace / ignore / count decision of the restore
// function is the lexicographic comparison of (round, index). Shared by C02.S4
// and C05.D7.
func voteRestoreDecision(c *Ctx, w *World, restore *ssa.Function, roundF, idxF, markF *types.Var, verifySig *types.Func) {
	// the whole decision: with r = sign(restored round − record round) and i = sign(restored index − record index),
	// a verified record replaces the restored context only if it is newer ((r<0) or (r=0, i<0)), is ignored only
	// if it is older ((r>0) or (r=0, i>0)), and is counted only for the same context (r=0, i=0)
	{
		isIdxPair := func(x, y ssa.Value) (bool, bool) {
			fx, _ := loadedField(stripConv(x))
			fy, _ := loadedField(stripConv(y))
			if fx == nil || fy == nil {
				return false, false
			}
			if fx == idxF && fy.Name() == "RoundIndex" {
				return true, false
			}
			if fy == idxF && fx.Name() == "RoundIndex" {
				return true, true
			}
			return false, false
		}
		roundCmpDir := func(v ssa.Value) (bool, bool) {
			cc, ok := stripConv(v).(*ssa.Call)
			if !ok || calleeObj(cc) == nil || calleeObj(cc).Name() != "Cmp" {
				return false, false
			}
			rf, _ := loadedField(stripConv(callRecv(cc)))
			af, _ := loadedField(stripConv(callArgs(cc)[0]))
			if rf == roundF && af != nil && af.Name() == "Round" {
				return true, false
			}
			if af == roundF && rf != nil && rf.Name() == "Round" {
				return true, true
			}
			return false, false
		}
		holds := func(sign int64, op token.Token, n int64) bool {
			switch op {
			case token.LSS:
				return sign < n
			case token.LEQ:
				return sign <= n
			case token.GTR:
				return sign > n
			case token.GEQ:
				return sign >= n
			case token.EQL:
				return sign == n
			}
			return true
		}
		type verdict struct{ replace, ignore, count int }
		var nv verdict
		var badWhy []string
		enumPaths(restore, 5000, func(pr PathResult) {
			atoms := atomsOf(pr.Facts)
			sigOK, haveRound := false, false
			for _, a := range atoms {
				if a.Kind == "true" && a.Truth {
					if cc, ok := stripConv(a.X).(*ssa.Call); ok && sameFunc(calleeObj(cc), verifySig) {
						sigOK = true
					}
				}
				if a.Kind == "isnil" && !a.Truth {
					if f, _ := loadedField(stripConv(a.X)); f == roundF {
						haveRound = true
					}
				}
			}
			if !sigOK || !haveRound {
				return
			}
			feasible := map[[2]int64]bool{}
			for r := int64(-1); r <= 1; r++ {
				for i := int64(-1); i <= 1; i++ {
					feasible[[2]int64{r, i}] = true
				}
			}
			for _, a := range atoms {
				if a.Y == nil || (a.Kind != "eq" && a.Kind != "cmp") {
					continue
				}
				op := a.Op
				if a.Kind == "eq" {
					op = token.EQL
				}
				if isR, flip := roundCmpDir(a.X); isR {
					n, isC := constInt(a.Y)
					if !isC {
						continue
					}
					for k := range feasible {
						sg := k[0]
						if flip {
							sg = -sg
						}
						if holds(sg, op, n) != a.Truth {
							delete(feasible, k)
						}
					}
					continue
				}
				if isI, flip := isIdxPair(a.X, a.Y); isI {
					for k := range feasible {
						sg := k[1]
						if flip {
							sg = -sg
						}
						if holds(sg, op, 0) != a.Truth {
							delete(feasible, k)
						}
					}
				}
			}
			if len(feasible) == 0 {
				return
			}
			storesRound, writesMark := false, false
			for _, fw := range fieldWrites(restore) {
				if !pr.Blocks[fw.Instr.Block()] || isLocalAlloc(fw.Base) {
					continue
				}
				if fw.Field == roundF {
					storesRound = true
				}
				if fw.Field == markF {
					writesMark = true
				}
			}
			action := "ignored"
			allowed := func(k [2]int64) bool { return k[0] > 0 || (k[0] == 0 && k[1] > 0) }
			switch {
			case storesRound:
				action = "made the restored context"
				allowed = func(k [2]int64) bool { return k[0] < 0 || (k[0] == 0 && k[1] < 0) }
				nv.replace++
			case writesMark:
				action = "counted into the restored context"
				allowed = func(k [2]int64) bool { return k[0] == 0 && k[1] == 0 }
				nv.count++
			default:
				nv.ignore++
			}
			for k := range feasible {
				if !allowed(k) {
					rel := map[int64]string{-1: "older than", 0: "equal to", 1: "newer than"}
					badWhy = append(badWhy, fmt.Sprintf("a record is %s although the restored round may be %s and the restored index %s the record's", action, rel[k[0]], rel[k[1]]))
				}
			}
		})
		sort.Strings(badWhy)
		c.sites += nv.replace + nv.ignore + nv.count
		okAll := len(badWhy) == 0 && nv.replace > 0 && nv.ignore > 0 && nv.count > 0
		why := "one of the three decisions (replace / ignore / count) was not found"
		if len(badWhy) > 0 {
			why = badWhy[0]
		}
		c.Check("consensus/ucon.NewVoteDB$1#restore-decision-is-lexicographic", restore.Pos(), okAll, ifelse(okAll, fmt.Sprintf("%d replacing, %d ignoring and %d counting paths: newer records replace, older ones are ignored, same-context ones count", nv.replace, nv.ignore, nv.count), why+": after a restart the vote marks describe the wrong (round, index) and the validator signs a second, conflicting vote"))
	}
}

// ri: (sign(stored round − asked round), sign(stored index − asked index)).
type ri [2]int64

type ctxCut func(fn *ssa.Function, atoms []Atom) (map[ri]bool, bool)

// c02S7: the vote marks are wiped only on paths that established a different context. Shared by C02.S7 and C05.D7.
func c02S7(c *Ctx, w *World, cut ctxCut) {
	markF := w.Field(uconPkg, "VoteDB", "mark")
	newDB := w.Fn(uconPkg, "", "NewVoteDB")
	{
		nReset := 0
		for _, fn := range w.FuncsIn(uconPkg) {
			if fn.Blocks == nil || fn.Signature.Recv() == nil || ownerName(fn.Signature.Recv().Type()) != "VoteDB" || strings.HasSuffix(w.fileOf(fn.Pos()), "_test.go") {
				continue
			}
			if fn == findVoteRestore(newDB) {
				continue // the replay of persisted records has its own decision table (S4)
			}
			k := 0
			for _, fw := range fieldWrites(fn) {
				if fw.Field != markF || fw.Kind != "store" || isLocalAlloc(fw.Base) {
					continue
				}
				nReset++
				c.sawFunc(fname(fn))
				nPaths, bad := 0, 0
				okEnum := pathsBetween(fn, fn.Blocks[0], fw.Instr.Block(), 4096, func(blocks []*ssa.BasicBlock, facts []Fact) {
					atoms := atomsOf(facts)
					if contradictoryAtoms(atoms) {
						return
					}
					nPaths++
					f, nilRound := cut(fn, atoms)
					differs := nilRound || !f[ri{0, 0}]
					if !differs {
						bad++
					}
				})
				c.sites += nPaths
				cons := fmt.Sprintf("%s#marks-wiped-only-on-a-new-context-%d", fname(fn), k)
				k++
				if !okEnum {
					c.Undecided(cons, fw.Instr.Pos(), "paths to the reset could not be enumerated")
					continue
				}
				c.Check(cons, fw.Instr.Pos(), bad == 0 && nPaths > 0, ifelse(bad == 0 && nPaths > 0, fmt.Sprintf("all %d paths to the reset established a different round or round index", nPaths), fmt.Sprintf("%d of %d paths wipe the vote marks without having established that round or round index changed: a context event for the context the marks already describe — the first one after a restart — forgets the votes already cast", bad, nPaths)))
			}
		}
		if nReset == 0 {
			c.Undecided("consensus/ucon.VoteDB#mark-resets", token.NoPos, "no reset of VoteDB.mark found in the methods of VoteDB")
		}
	}

}

// c02S8: the stored context never moves backwards. Shared by C02.S8 and C05.D7.
func c02S8(c *Ctx, w *World, cut ctxCut) {
	markF := w.Field(uconPkg, "VoteDB", "mark")
	roundF := w.Field(uconPkg, "VoteDB", "round")
	idxF := w.Field(uconPkg, "VoteDB", "roundIndex")
	newDB := w.Fn(uconPkg, "", "NewVoteDB")
	older := func(k ri) bool { return k[0] > 0 || (k[0] == 0 && k[1] > 0) }
	{
		av := w.Fn(uconPkg, "VoteDB", "alreadyVoted")
		// (a) alreadyVoted: where can it answer false?
		avFalse := map[ri]bool{}
		okAV := enumPaths(av, 4096, func(pr PathResult) {
			rv := pr.Resolve(pr.Ret.Results[0])
			facts := pr.Facts
			if cv, isC := rv.(*ssa.Const); isC && cv.Value != nil && cv.Value.Kind() == constant.Bool {
				if constant.BoolVal(cv.Value) {
					return
				}
			} else {
				facts = append(append([]Fact(nil), facts...), Fact{Cond: rv, Truth: false})
			}
			atoms := atomsOf(facts)
			if contradictoryAtoms(atoms) {
				return
			}
			f, nilRound := cut(av, atoms)
			if nilRound {
				return
			}
			for k := range f {
				avFalse[k] = true
			}
		})
		c.sites++
		if !okAV {
			c.Undecided(fname(av)+"#refuses-older-contexts", av.Pos(), "the paths of alreadyVoted could not be enumerated")
		} else {
			bad := ""
			for k := range avFalse {
				if older(k) {
					bad = fmt.Sprintf("stored round %s, stored index %s the asked one", map[int64]string{-1: "older than", 0: "equal to", 1: "newer than"}[k[0]], map[int64]string{-1: "older than", 0: "equal to", 1: "newer than"}[k[1]])
				}
			}
			c.Check(fname(av)+"#refuses-older-contexts", av.Pos(), bad == "", ifelse(bad == "", "alreadyVoted answers false only for the stored context or a newer one", "alreadyVoted can answer false for a context older than the stored one ("+bad+"): a vote for a round or index the validator has already left is signed again, and the record of the earlier vote there has been overwritten"))
		}
		// (b) writers of the context
		avObj := av.Object().(*types.Func)
		nW := 0
		for _, fn := range w.FuncsIn(uconPkg) {
			if fn.Blocks == nil || fn.Signature.Recv() == nil || ownerName(fn.Signature.Recv().Type()) != "VoteDB" || strings.HasSuffix(w.fileOf(fn.Pos()), "_test.go") {
				continue
			}
			if fn == findVoteRestore(newDB) {
				continue // the replay of persisted records has its own decision table (S4)
			}
			k := 0
			for _, fw := range fieldWrites(fn) {
				if isLocalAlloc(fw.Base) || !(fw.Field == roundF || fw.Field == idxF || (fw.Field == markF && fw.Kind == "store")) {
					continue
				}
				nW++
				c.sawFunc(fname(fn))
				nPaths, bad := 0, 0
				okEnum := pathsBetween(fn, fn.Blocks[0], fw.Instr.Block(), 4096, func(blocks []*ssa.BasicBlock, facts []Fact) {
					atoms := atomsOf(facts)
					if contradictoryAtoms(atoms) {
						return
					}
					f, nilRound := cut(fn, atoms)
					if nilRound {
						nPaths++
						return
					}
					// a passed alreadyVoted(…) == false on the function's own round and index
					for _, a := range atoms {
						if a.Kind == "true" && !a.Truth {
							if cc, isCall := stripConv(a.X).(*ssa.Call); isCall && sameFunc(calleeObj(cc), avObj) && okAV {
								for k := range f {
									if !avFalse[k] {
										delete(f, k)
									}
								}
							}
						}
					}
					if len(f) == 0 {
						return
					}
					nPaths++
					for k := range f {
						if older(k) {
							bad++
							return
						}
					}
				})
				c.sites += nPaths
				cons := fmt.Sprintf("%s#%s-never-moves-back-%d", fname(fn), fw.Field.Name(), k)
				k++
				if !okEnum {
					c.Undecided(cons, fw.Instr.Pos(), "paths to the write could not be enumerated")
					continue
				}
				c.Check(cons, fw.Instr.Pos(), bad == 0 && nPaths > 0, ifelse(bad == 0 && nPaths > 0, fmt.Sprintf("all %d paths to the write have a nil stored round or a context that is not older", nPaths), fmt.Sprintf("%d of %d paths replace the stored (round, index) — or wipe its marks — by an OLDER context: after a restart in the middle of a round the engine announces index 1 again, the marks of the later index are dropped and the validator signs index 1 a second time", bad, nPaths)))
			}
		}
		if nW == 0 {
			c.Undecided("consensus/ucon.VoteDB#context-writes", token.NoPos, "no write of VoteDB.round / roundIndex / mark found in the methods of VoteDB")
		}
	}

}

// newCtxCut returns the function that cuts the nine (r, i) sign combinations
// down to those compatible with the path conditions of a VoteDB method
// (comparisons of the stored round / index with the method's parameters), and
// reports whether the path established a nil stored round.
func newCtxCut(w *World) ctxCut {
	roundF := w.Field(uconPkg, "VoteDB", "round")
	idxF := w.Field(uconPkg, "VoteDB", "roundIndex")
	full := func() map[ri]bool {
		m := map[ri]bool{}
		for r := int64(-1); r <= 1; r++ {
			for i := int64(-1); i <= 1; i++ {
				m[ri{r, i}] = true
			}
		}
		return m
	}
	holds := func(sign int64, op token.Token, n int64) bool {
		switch op {
		case token.LSS:
			return sign < n
		case token.LEQ:
			return sign <= n
		case token.GTR:
			return sign > n
		case token.GEQ:
			return sign >= n
		case token.EQL:
			return sign == n
		}
		return true
	}
	// cut: the (r, i) combinations compatible with the path conditions of fn; nilRound: the stored round is nil
	cut := func(fn *ssa.Function, atoms []Atom) (map[ri]bool, bool) {
		recv := ssa.Value(fn.Params[0])
		isRecvField := func(v ssa.Value, f *types.Var) bool {
			lf, base := loadedField(stripConv(v))
			return lf == f && base != nil && stripConv(base) == recv
		}
		isParam := func(v ssa.Value) bool {
			p, ok := stripConv(v).(*ssa.Parameter)
			return ok && p.Parent() == fn
		}
		feasible := full()
		nilRound := false
		for _, a := range atoms {
			if a.Kind == "isnil" && a.Truth && isRecvField(a.X, roundF) {
				nilRound = true
			}
			if a.Y == nil || (a.Kind != "eq" && a.Kind != "cmp") {
				continue
			}
			op := a.Op
			if a.Kind == "eq" {
				op = token.EQL
			}
			for _, pair := range [][2]ssa.Value{{a.X, a.Y}, {a.Y, a.X}} {
				cc, isCall := stripConv(pair[0]).(*ssa.Call)
				if !isCall || calleeObj(cc) == nil || calleeObj(cc).Name() != "Cmp" {
					continue
				}
				n, isC := constInt(pair[1])
				if !isC {
					continue
				}
				r, g := callRecv(cc), callArgs(cc)[0]
				flip := false
				switch {
				case isRecvField(r, roundF) && isParam(g):
				case isRecvField(g, roundF) && isParam(r):
					flip = true
				default:
					continue
				}
				o := op
				if pair[0] == a.Y { // constant on the left: mirror the operator
					o = flipCmp(op)
				}
				for k := range feasible {
					sg := k[0]
					if flip {
						sg = -sg
					}
					if holds(sg, o, n) != a.Truth {
						delete(feasible, k)
					}
				}
			}
			var flip, isIdx bool
			switch {
			case isRecvField(a.X, idxF) && isParam(a.Y):
				isIdx = true
			case isRecvField(a.Y, idxF) && isParam(a.X):
				isIdx, flip = true, true
			}
			if isIdx {
				for k := range feasible {
					sg := k[1]
					if flip {
						sg = -sg
					}
					if holds(sg, op, 0) != a.Truth {
						delete(feasible, k)
					}
				}
			}
		}
		return feasible, nilRound
	}
	return cut
}

// c02ReplayFilter (S9): the replay of the node's own vote records does not filter by vote kind.
func c02ReplayFilter(c *Ctx, w *World) {
	c.Rule("C02.S9", "SIBLINGS", "every persisted kind survives a restart: the functions that read and validate the node's own vote records on start (ReadVoteData, VerifySignature and the restore function of NewVoteDB) treat all vote kinds alike — none of them compares the record's VoteType with a constant. A range test written against the step kinds (Prevote … NextIndex) drops the Certificate record, whose value lies after NextIndex: after a kill in a certificate round the node signs a second certificate vote")
	c.Min(2)
	newDB := w.Fn(uconPkg, "", "NewVoteDB")
	fns := []*ssa.Function{w.Fn(uconPkg, "", "ReadVoteData"), w.Fn(uconPkg, "", "VerifySignature")}
	if r := findVoteRestore(newDB); r != nil {
		fns = append(fns, r)
	}
	vi := w.Named(uconPkg, "VoteItem")
	for _, fn := range fns {
		c.sawFunc(fname(fn))
		c.sites++
		bad := ""
		for _, in := range allInstrs(fn) {
			bo, ok := in.(*ssa.BinOp)
			if !ok {
				continue
			}
			switch bo.Op {
			case token.LSS, token.GTR, token.LEQ, token.GEQ, token.EQL, token.NEQ:
			default:
				continue
			}
			isKind := func(v ssa.Value) bool {
				f, base := loadedField(stripConvNoBind(v))
				return f != nil && f.Name() == "VoteType" && base != nil && types.Identical(deref(base.Type()), vi)
			}
			_, xk := stripConvNoBind(bo.X).(*ssa.Const)
			_, yk := stripConvNoBind(bo.Y).(*ssa.Const)
			if (isKind(bo.X) && yk) || (isKind(bo.Y) && xk) {
				bad = w.Pos(bo.Pos())
			}
		}
		c.Check(fname(fn)+"#no-kind-filter-on-replay", fn.Pos(), bad == "", ifelse(bad == "", "the record's kind is not compared with any constant", "the record's VoteType is compared with a constant at "+bad+": records of some persisted kind can be dropped on start, and that kind is then signed a second time in the same round / index"))
	}
}

// voteTailOf: vote itself, or the method (called only from vote) into which its second half — the call of
// UpdateVoteData and what follows — was split off.
func voteTailOf(w *World, vote *ssa.Function, updObj *types.Func) *ssa.Function {
	if len(callsTo(vote, updObj)) > 0 {
		return vote
	}
	for _, ci := range callInstrs(vote) {
		if g := ci.Common().StaticCallee(); g != nil && g.Pkg == vote.Pkg && g.Blocks != nil && len(callsTo(g, updObj)) > 0 && onlyCalledFrom(w, g, vote) {
			return g
		}
	}
	return vote
}

// tableRows: x and y are two fields of the element of a range over a package-level slice whose initialiser is a
// literal of constants — the (x, y) pairs of all its rows. Nil if the shape is anything else.
func tableRows(fn *ssa.Function, x, y ssa.Value) [][2]int64 {
	fieldOfElem := func(v ssa.Value) (*ssa.Global, int, bool) {
		// conversions of the loaded field are looked through
		v = stripConvNoBind(v)
		u, ok := v.(*ssa.UnOp)
		if !ok || u.Op != token.MUL {
			// range over a slice of structs copies the element: Field of the loaded element
			if f, isF := v.(*ssa.Field); isF {
				if lu, isU := f.X.(*ssa.UnOp); isU && lu.Op == token.MUL {
					if ia, isIA := lu.X.(*ssa.IndexAddr); isIA {
						if gl, isGL := ia.X.(*ssa.UnOp); isGL && gl.Op == token.MUL {
							if g, isG := gl.X.(*ssa.Global); isG {
								return g, f.Field, true
							}
						}
					}
				}
			}
			return nil, 0, false
		}
		fa, ok := u.X.(*ssa.FieldAddr)
		if !ok {
			return nil, 0, false
		}
		base := fa.X
		// the range variable kept in a local: the element copied into it
		if al, isAl := base.(*ssa.Alloc); isAl {
			var stored ssa.Value
			n := 0
			for _, r := range *al.Referrers() {
				if st, isSt := r.(*ssa.Store); isSt && st.Addr == ssa.Value(al) {
					stored = st.Val
					n++
				}
			}
			if n != 1 {
				return nil, 0, false
			}
			lu, isU := stored.(*ssa.UnOp)
			if !isU || lu.Op != token.MUL {
				return nil, 0, false
			}
			base = lu.X
		}
		ia, ok := base.(*ssa.IndexAddr)
		if !ok {
			return nil, 0, false
		}
		gl, ok := ia.X.(*ssa.UnOp)
		if !ok || gl.Op != token.MUL {
			return nil, 0, false
		}
		g, ok := gl.X.(*ssa.Global)
		return g, fa.Field, ok
	}
	gx, fx, okx := fieldOfElem(x)
	gy, fy, oky := fieldOfElem(y)
	if !okx || !oky || gx != gy {
		return nil
	}
	// the initialiser: stores of constants into fields of the elements of one array, in the package's init
	initFn := gx.Pkg.Func("init")
	if initFn == nil {
		return nil
	}
	vals := map[int64]map[int]int64{}
	okAll := true
	for _, in := range allInstrs(initFn) {
		st, ok := in.(*ssa.Store)
		if !ok {
			continue
		}
		fa, ok := st.Addr.(*ssa.FieldAddr)
		if !ok {
			continue
		}
		ia, ok := fa.X.(*ssa.IndexAddr)
		if !ok {
			continue
		}
		// the array must be the one sliced into the global
		feeds := false
		for _, r := range *ia.X.Referrers() {
			if sl, isSl := r.(*ssa.Slice); isSl {
				for _, rr := range *sl.Referrers() {
					if gs, isSt := rr.(*ssa.Store); isSt && gs.Addr == ssa.Value(gx) {
						feeds = true
					}
				}
			}
		}
		if !feeds {
			continue
		}
		row, okR := constInt(ia.Index)
		val, okV := constInt(st.Val)
		if !okR || !okV {
			okAll = false
			continue
		}
		if vals[row] == nil {
			vals[row] = map[int]int64{}
		}
		vals[row][fa.Field] = val
	}
	if !okAll {
		return nil
	}
	var out [][2]int64
	for _, fields := range vals {
		out = append(out, [2]int64{fields[fx], fields[fy]})
	}
	_ = fn
	return out
}

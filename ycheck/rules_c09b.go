package main

import (
	"fmt"
	"go/types"
	"sort"
	"strings"

	"golang.org/x/tools/go/ssa"
)

func init() {
	register(&propDef{
		ID:          "C09",
		Explanation: "Structural necessary conditions of snapshot/revert exactness, decided on the SSA form of core/state and staking: journaling of every revertable write (J1), undo/do mirror (J2), twin journals handled as one (J3); the staking state that is NOT journaled (known finding F12: staking records, pending relationships, in-place edits of withdraw records and reward pools) is mutated by transaction handlers only on their success tail, after which no failure is possible (J4), and is unreachable from the EVM — the only user of snapshots and reverts (J5). Not decided: equality of observables before/after as values.",
		Assumptions: []string{"the classification of StateDB/stateObject fields into revertable, bookkeeping and known-unjournaled (table in rules_c09.go) is right", "lifecycle functions (constructors, copies, cache loads, end-of-transaction flushes) need no journal", "the VTA call graph over-approximates calls between repository functions"},
		Run:         runC09,
		Variants:    c09Variants,
	})
}

// stateMutatorNames: StateDB methods that change state (journaled or not).
var stateMutatorNames = map[string]bool{
	"AddBalance": true, "SubBalance": true, "SetBalance": true, "SetNonce": true, "SetCode": true, "SetState": true, "Suicide": true, "CreateAccount": true,
	"AddLog": true, "AddRefund": true, "SubRefund": true, "AddPreimage": true,
	"CreateValidator": true, "UpdateValidator": true, "RemoveValidator": true, "UpdateDelegation": true, "UpdateDelegator": true,
	"AddWithdrawRecord": true, "RemoveWithdrawRecords": true,
	"AddStakingRecord": true, "AddPendingRelationship": true, "ResetStakingTrie": true,
}

var unjournaledMutatorNames = map[string]bool{"AddStakingRecord": true, "AddPendingRelationship": true, "ResetStakingTrie": true}

func isStateDBMethod(o *types.Func) bool {
	if o == nil {
		return false
	}
	r := recvName(o)
	return (r == "StateDB" || r == "ValidatorReader") && o.Pkg() != nil && (o.Pkg().Path() == full("core/state") || o.Pkg().Path() == full("core/vm"))
}

// stakingMutationSummary computes, for the functions of package staking, which
// mutate state (directly or through callees).
func stakingMutationSummary(w *World) map[*ssa.Function]bool {
	mut := map[*ssa.Function]bool{}
	fns := w.FuncsIn("staking")
	changed := true
	for changed {
		changed = false
		for _, fn := range fns {
			if mut[fn] {
				continue
			}
			for _, ci := range callInstrs(fn) {
				o := calleeObj(ci)
				if isStateDBMethod(o) && stateMutatorNames[o.Name()] {
					mut[fn] = true
				}
				if callee := ci.Common().StaticCallee(); callee != nil && mut[callee] {
					mut[fn] = true
				}
			}
			if mut[fn] {
				changed = true
			}
		}
	}
	return mut
}

// noFailureAfterEffects: no return that may carry an error is reachable after
// one of effects, except under the non-nil error of an effect tabled as
// "mutates only when it returns nil".
func noFailureAfterEffects(w *World, fn *ssa.Function, effects []ssa.Instruction, onNilOnly map[ssa.Instruction]bool) (bool, string) {
	idx := errResultIdx(fn)
	if idx < 0 {
		return true, ""
	}
	for _, e := range effects {
		for _, rpth := range returnPaths(fn, idx) {
			if rpth.Kind == RetNil {
				continue
			}
			after := (e.Block() == rpth.Ret.Block() && instrIndex(e) < instrIndex(rpth.Ret)) || (e.Block() != rpth.Ret.Block() && blockReaches(e.Block(), rpth.Ret.Block()) && !rpth.Ret.Block().Dominates(e.Block()))
			if !after {
				continue
			}
			if onNilOnly[e] {
				if ci, ok := e.(ssa.CallInstruction); ok {
					nonNil := false
					for _, a := range rpth.Atoms() {
						if a.Kind == "isnil" && !a.Truth && resultOf(a.X, ci, errIdx(ci)) {
							nonNil = true
						}
					}
					if nonNil || (rpth.Kind == RetForward && rpth.Call == ci) {
						continue
					}
				}
			}
			return false, "the error return at " + w.Pos(rpth.Ret.Pos()) + " can follow the state change at " + w.Pos(e.Pos())
		}
	}
	return true, ""
}

func c09Unjournaled(c *Ctx, t *c09Tables) {
	w := c.W
	// ------------------------------------------------------------ J4
	c.Rule("C09.J4", "NO-EFFECT-BEFORE", "every registered staking transaction handler (there is no snapshot around them) changes state only on its success tail: after the first state change no error return is reachable, except under the error of a callee that itself mutates only when it succeeds. This keeps the un-journaled mutators of F12 (and every other mutator) from leaving a partial effect behind a failed transaction")
	c.Min(9)
	stakingHandlersSuccessTail(c, w)

	// ------------------------------------------------------------ J5
	c.Rule("C09.J5", "CONFINED", "the un-journaled mutators (AddStakingRecord, AddPendingRelationship, ResetStakingTrie, the reward-pool setters of ValKindStat, in-place edits of WithdrawRecord.Finished / FinalBalance) are not reachable from the EVM, the only code that takes snapshots and reverts to them; their callers are tabled")
	c.Min(6)
	reach := w.ReachableFrom([]*ssa.Function{
		w.Fn("core/vm", "EVM", "Call"), w.Fn("core/vm", "EVM", "CallCode"), w.Fn("core/vm", "EVM", "DelegateCall"), w.Fn("core/vm", "EVM", "StaticCall"),
		w.Fn("core/vm", "EVM", "Create"), w.Fn("core/vm", "EVM", "Create2"), w.Fn("core/vm", "EVMInterpreter", "Run"),
	}, nil)
	unj := []*ssa.Function{
		w.Fn(statePkg, "StateDB", "AddStakingRecord"), w.Fn(statePkg, "StateDB", "AddPendingRelationship"), w.Fn(statePkg, "StateDB", "ResetStakingTrie"),
		w.Fn(statePkg, "ValKindStat", "AddRewards"), w.Fn(statePkg, "ValKindStat", "SetRewardsResidue"), w.Fn(statePkg, "ValKindStat", "ResetRewards"),
	}
	for _, f := range unj {
		_, r := reach[f]
		c.sites++
		c.Check(fname(f)+"#unreachable-from-evm", f.Pos(), !r, ifelse(!r, "not reachable from EVM frames", "an un-journaled mutator is reachable from the EVM ("+pathTo(reach, f)+"): a reverting call frame cannot undo it"))
	}
	allowedCallers := map[string]map[string]bool{
		"AddStakingRecord":       {"staking.handleCreate": true, "staking.handleUpdate": true, "staking.handleDeposit": true, "staking.handleWithdraw": true, "staking.handleSettle": true, "staking.handleChangeStatus": true, "staking.checkAndUpdateTotalPendingStakesOfValidator": true, "staking.addPendingDelegationRecordAndLog": true},
		"AddPendingRelationship": {"staking.handleDelegationAdd": true},
		"ResetStakingTrie":       {"core.ResetStakingTrieOnNewPeriod": true},
		"AddRewards":             {"staking.rewardsToPool": true},
		"SetRewardsResidue":      {"staking.rewardsToPool": true},
		"ResetRewards":           {"(staking.Staking).distributeRewards": true},
	}
	for _, fn := range w.AllFuncs() {
		if strings.HasSuffix(w.fileOf(fn.Pos()), "_test.go") {
			continue
		}
		for _, ci := range callInstrs(fn) {
			o := calleeObj(ci)
			if o == nil {
				continue
			}
			al, ok := allowedCallers[o.Name()]
			if !ok || !(isStateDBMethod(o) || recvName(o) == "ValKindStat") {
				continue
			}
			n := outerName(fname(fn))
			c.sites++
			c.Check(n+"#calls-"+o.Name(), ci.Pos(), al[n], ifelse(al[n], "tabled caller (handler success tail / end of block)", "a new caller of the un-journaled mutator "+o.Name()+": if it runs where a snapshot can be reverted afterwards, the revert does not undo it"))
		}
	}
	// in-place edits of withdraw records
	fin := w.Field(statePkg, "WithdrawRecord", "Finished")
	for _, fn := range w.AllFuncs() {
		if strings.HasSuffix(w.fileOf(fn.Pos()), "_test.go") {
			continue
		}
		for _, fw := range fieldWrites(fn) {
			if fw.Field != fin || isLocalAlloc(fw.Base) {
				continue
			}
			n := outerName(fname(fn))
			ok := n == "staking.processWithdrawQueue" || n == "staking.addWithdrawLog" || strings.HasSuffix(n, ".DecodeRLP") || strings.HasSuffix(n, ".DeepCopy")
			_, r := reach[fn]
			c.Check(n+"#edits-WithdrawRecord.Finished", fw.Instr.Pos(), ok && !r, ifelse(ok && !r, "end-of-block edit, unreachable from EVM frames", "a withdraw record is edited in place by a new function or one reachable from the EVM: the journal cannot undo it"))
		}
	}
}

func c09Variants() []Variant {
	return []Variant{
		{Name: "nonce-without-journal", File: "core/state/state_object.go", Old: "func (so *stateObject) SetNonce(nonce uint64) {\n	so.db.journal.append(nonceChange{\n		account: &so.address,\n		prev:    so.data.Nonce,\n	})\n	so.setNonce(nonce)", New: "func (so *stateObject) SetNonce(nonce uint64) {\n	so.setNonce(nonce)", Rule: "C09.J1", Construct: "SetNonce"},
		{Name: "direct-balance-writer", File: "core/state/state_object.go", Old: "func (so *stateObject) SubBalance(amount *big.Int) {\n	if amount.Sign() == 0 {\n		return\n	}\n	so.SetBalance(new(big.Int).Sub(so.Balance(), amount))", New: "func (so *stateObject) SubBalance(amount *big.Int) {\n	if amount.Sign() == 0 {\n		return\n	}\n	so.data.Balance = new(big.Int).Sub(so.Balance(), amount)", Rule: "C09.J1", Construct: "SubBalance"},
		{Name: "log-revert-without-size", File: "core/state/journal.go", Old: "		s.logs[ch.txhash] = logs[:len(logs)-1]\n	}\n	s.logSize--\n", New: "		s.logs[ch.txhash] = logs[:len(logs)-1]\n	}\n", Rule: "C09.J2", Construct: "AddLog"},
		{Name: "suicide-revert-without-balance", File: "core/state/journal.go", Old: "		obj.suicided = ch.prev\n		obj.setBalance(ch.prevbalance)", New: "		obj.suicided = ch.prev", Rule: "C09.J2", Construct: "Suicide"},
		{Name: "truncate-with-other-index", File: "core/state/statedb.go", Old: "	st.valValidRevisions = st.valValidRevisions[:valIdx]", New: "	st.valValidRevisions = st.valValidRevisions[:idx]", Rule: "C09.J3", Construct: "truncation"},
		{Name: "forget-one-reset", File: "core/state/statedb.go", Old: "	st.validRevisions = st.validRevisions[:0]\n	st.valValidRevisions = st.valValidRevisions[:0]\n", New: "	st.validRevisions = st.validRevisions[:0]\n", Rule: "C09.J3", Construct: "clearJournalAndRefund"},
		{Name: "record-before-balance-check", File: "staking/handler.go", Old: "	db := ctx.State\n	if !core.CanTransfer(db, ctx.Msg.From(), tx.Value) {\n		return errInsufficientBalanceForDeposit\n	}\n", New: "	db := ctx.State\n	db.AddStakingRecord(common.Address{}, tx.MainAddress, ctx.Msg.TxHash(), nil)\n	if !core.CanTransfer(db, ctx.Msg.From(), tx.Value) {\n		return errInsufficientBalanceForDeposit\n	}\n", Rule: "C09.J4", Construct: "handleDeposit"},
		{Name: "remove-undo-keeps-the-mark", File: "core/state/journal.go", Old: "	ch.oldVal.deleted = false\n", New: "", Rule: "C09.J13", Construct: "validatorDeleteChange"},
	}
}

// stakingHandlersSuccessTail: every registered staking handler changes state
// only on its success tail. Shared by C09.J4 and C17.T6.
func stakingHandlersSuccessTail(c *Ctx, w *World) {
	mut := stakingMutationSummary(w)
	// handlers registered in init
	var handlers []*ssa.Function
	initFn := w.SSAPkg("staking").Func("init")
	seen := map[*ssa.Function]bool{}
	var scan func(fn *ssa.Function)
	scan = func(fn *ssa.Function) {
		if fn == nil || seen[fn] || fn.Blocks == nil {
			return
		}
		seen[fn] = true
		for _, b := range fn.Blocks {
			for _, in := range b.Instrs {
				if mu, ok := in.(*ssa.MapUpdate); ok {
					if u, ok := mu.Map.(*ssa.UnOp); ok {
						if g, ok := u.X.(*ssa.Global); ok && g.Name() == "handlers" {
							if f, ok := stripConv(mu.Value).(*ssa.Function); ok {
								handlers = append(handlers, f)
							}
						}
					}
				}
				if ci, ok := in.(ssa.CallInstruction); ok {
					if callee := ci.Common().StaticCallee(); callee != nil && callee.Pkg == fn.Pkg && strings.HasPrefix(callee.Name(), "init") {
						scan(callee)
					}
				}
			}
		}
	}
	scan(initFn)
	sort.Slice(handlers, func(i, j int) bool { return handlers[i].Name() < handlers[j].Name() })
	if len(handlers) == 0 {
		c.Undecided("staking.handlers", 0, "the handler registry could not be read from the package initialiser")
	}
	// helper functions that mutate and return an error are judged by the same rule
	judged := map[*ssa.Function]bool{}
	onlyOnNil := map[*ssa.Function]bool{}
	var judge func(fn *ssa.Function) bool
	judge = func(fn *ssa.Function) bool {
		if judged[fn] {
			return onlyOnNil[fn]
		}
		judged[fn] = true
		var effects []ssa.Instruction
		nilOnly := map[ssa.Instruction]bool{}
		for _, ci := range callInstrs(fn) {
			o := calleeObj(ci)
			if isStateDBMethod(o) && stateMutatorNames[o.Name()] {
				effects = append(effects, ci)
				continue
			}
			if callee := ci.Common().StaticCallee(); callee != nil && mut[callee] {
				effects = append(effects, ci)
				if errIdx(ci) >= 0 && judge(callee) {
					nilOnly[ci] = true
				}
			}
		}
		ok, why := noFailureAfterEffects(w, fn, effects, nilOnly)
		c.sites += len(effects)
		c.sawFunc(fname(fn))
		c.Check(fname(fn)+"#mutates-only-on-success-tail", fn.Pos(), ok, ifelse(ok, fmt.Sprintf("%d state changes, none followed by a failure", len(effects)), why+": the transaction is reported failed but part of its effect stays (staking records and pending relationships are not journaled, and no snapshot surrounds the handler)"))
		onlyOnNil[fn] = ok
		return ok
	}
	for _, h := range handlers {
		judge(h)
	}
}

package main

import (
	"encoding/json"
	"fmt"
	"go/token"
	"os"
	"path/filepath"
	"sort"
	"strings"
)

type Status string

const (
	Discharged Status = "discharged"
	Violated   Status = "violated"
	Known      Status = "known-finding"
	Undecided  Status = "undecided"
)

// Obligation is one decided instance of a rule: (property, rule, construct).
// The construct key never contains a line number.
type Obligation struct {
	Property  string `json:"property"`
	Rule      string `json:"rule"`
	Construct string `json:"construct"`
	Pos       string `json:"pos"`
	Status    Status `json:"status"`
	Detail    string `json:"detail,omitempty"`
}

type RuleDoc struct {
	ID      string `json:"id"`
	Kind    string `json:"kind"`
	Decides string `json:"decides"`
}

// Ctx collects the obligations of one property run.
type Ctx struct {
	W        *World
	Prop     string
	Tier     string
	Obs      []*Obligation
	Rules    []RuleDoc
	curRule  string
	minInst  map[string]int
	funcs    map[string]bool // functions analysed
	sites    int             // call sites / instructions inspected
	Notes    []string
	selfTest []SelfTestResult
}

func (c *Ctx) Rule(id, kind, decides string) {
	// helper-parameter bindings are scratch state of one rule: a function that one rule entered as a helper may be
	// the construct the next rule judges, with its parameters standing for themselves
	for k := range paramBind {
		delete(paramBind, k)
	}
	c.curRule = id
	c.Rules = append(c.Rules, RuleDoc{ID: id, Kind: kind, Decides: decides})
}

// Min declares the least number of obligations the current rule must produce;
// fewer means the rule has stopped matching the code it was written for.
func (c *Ctx) Min(n int) {
	if c.minInst == nil {
		c.minInst = map[string]int{}
	}
	c.minInst[c.curRule] = n
}

func (c *Ctx) add(construct string, pos token.Pos, st Status, detail string) *Obligation {
	o := &Obligation{Property: c.Prop, Rule: c.curRule, Construct: construct, Pos: c.W.Pos(pos), Status: st, Detail: detail}
	c.Obs = append(c.Obs, o)
	return o
}

// Check records an obligation that is discharged iff ok.
func (c *Ctx) Check(construct string, pos token.Pos, ok bool, detail string) bool {
	if ok {
		c.add(construct, pos, Discharged, detail)
	} else {
		c.add(construct, pos, Violated, detail)
	}
	return ok
}

func (c *Ctx) Pass(construct string, pos token.Pos, detail string) {
	c.add(construct, pos, Discharged, detail)
}
func (c *Ctx) Fail(construct string, pos token.Pos, detail string) {
	c.add(construct, pos, Violated, detail)
}
func (c *Ctx) Undecided(construct string, pos token.Pos, detail string) {
	c.add(construct, pos, Undecided, detail)
}

func (c *Ctx) Note(format string, a ...interface{}) {
	c.Notes = append(c.Notes, fmt.Sprintf(format, a...))
}

func (c *Ctx) sawFunc(name string) {
	if c.funcs == nil {
		c.funcs = map[string]bool{}
	}
	c.funcs[name] = true
}

// KnownFinding is one entry of /verif/known_findings.json.
type KnownFinding struct {
	Property  string `json:"property"`
	Rule      string `json:"rule"`
	Construct string `json:"construct"`
	What      string `json:"what"`
	Status    string `json:"status"` // "open" or "fixed"
	Commit    string `json:"commit,omitempty"`
	ID        string `json:"id,omitempty"`
}

func loadKnown(path string) ([]KnownFinding, error) {
	b, err := os.ReadFile(path)
	if err != nil {
		if os.IsNotExist(err) {
			return nil, nil
		}
		return nil, err
	}
	var f struct {
		Findings []KnownFinding `json:"findings"`
	}
	if err := json.Unmarshal(b, &f); err != nil {
		return nil, err
	}
	return f.Findings, nil
}

type SelfTestResult struct {
	Variant string `json:"variant"`
	Rule    string `json:"rule"`
	Expect  string `json:"expect_construct"`
	Fired   bool   `json:"fired"`
	Skipped string `json:"skipped,omitempty"`
	Detail  string `json:"detail,omitempty"`
}

type Evidence struct {
	PropertyID  string                 `json:"property_id"`
	Tier        string                 `json:"tier"`
	Seed        int                    `json:"seed"`
	Level       string                 `json:"level"`
	Coverage    map[string]interface{} `json:"coverage"`
	Assumptions []string               `json:"assumptions"`
	WallS       float64                `json:"wall_s"`
	Violations  int                    `json:"violations"`
}

// finish applies known findings and minimum instance counts, writes evidence
// and returns the process exit code.
func (c *Ctx) finish(verifDir string, seed int, wall float64, explanation string, assumptions []string) int {
	known, err := loadKnown(filepath.Join(verifDir, "known_findings.json"))
	if err != nil {
		fmt.Printf("UNDECIDED property=%s cannot read known_findings.json: %v\n", c.Prop, err)
		return 2
	}
	// minimum instance counts
	perRule := map[string]int{}
	for _, o := range c.Obs {
		perRule[o.Rule]++
	}
	for r, n := range c.minInst {
		if perRule[r] < n {
			c.curRule = r
			c.add("rule-instances", token.NoPos, Undecided,
				fmt.Sprintf("rule produced %d obligations, at least %d were confirmed by hand: the rule no longer matches the code", perRule[r], n))
		}
	}
	usedKnown := map[int]bool{}
	for _, o := range c.Obs {
		if o.Status != Violated {
			continue
		}
		for i, k := range known {
			if k.Status == "open" && k.Property == o.Property && k.Rule == o.Rule && k.Construct == o.Construct {
				o.Status = Known
				usedKnown[i] = true
			}
		}
	}
	sort.SliceStable(c.Obs, func(i, j int) bool {
		if c.Obs[i].Rule != c.Obs[j].Rule {
			return c.Obs[i].Rule < c.Obs[j].Rule
		}
		return c.Obs[i].Construct < c.Obs[j].Construct
	})
	var nViol, nKnown, nUndec, nDis int
	var viols, undec []*Obligation
	for _, o := range c.Obs {
		switch o.Status {
		case Violated:
			nViol++
			viols = append(viols, o)
		case Known:
			nKnown++
		case Undecided:
			nUndec++
			undec = append(undec, o)
		default:
			nDis++
		}
	}
	for i, k := range known {
		if usedKnown[i] {
			fmt.Printf("KNOWN-FINDING: property=%s rule=%s construct=%s %s\n", k.Property, k.Rule, k.Construct, k.What)
		}
	}
	ruleInst := map[string]map[string]int{}
	for _, o := range c.Obs {
		if ruleInst[o.Rule] == nil {
			ruleInst[o.Rule] = map[string]int{}
		}
		ruleInst[o.Rule][string(o.Status)]++
	}
	// samples: first obligation of each rule, plus every non-discharged one
	var samples []interface{}
	seen := map[string]int{}
	for _, o := range c.Obs {
		if o.Status != Discharged || seen[o.Rule] < 2 {
			samples = append(samples, o)
			seen[o.Rule]++
		}
	}
	var ruleLines []string
	for _, r := range c.Rules {
		ruleLines = append(ruleLines, fmt.Sprintf("%s [%s]: %s", r.ID, r.Kind, r.Decides))
	}
	cov := map[string]interface{}{
		"explanation":        explanation + " Rules: " + strings.Join(ruleLines, " | "),
		"obligations":        len(c.Obs),
		"discharged":         nDis,
		"known_findings":     nKnown,
		"undecided":          nUndec,
		"rule_instances":     ruleInst,
		"rules":              c.Rules,
		"functions_analysed": len(c.funcs),
		"sites_inspected":    c.sites,
		"packages":           len(c.W.Pkgs),
		"functions_in_world": len(c.W.allFuncs),
		"samples":            samples,
		"checker_cmd":        fmt.Sprintf("/verif/bin/ycheck -property %s -tier %s", c.Prop, c.Tier),
		"trusted_base":       []string{"go/types and go/ssa of golang.org/x/tools v0.29.0", "go list / go/packages loading of /repo with the repository's go.mod", "the reviewed rule tables in /verif/ycheck", "the reading that filled the rule slots (DESIGN.md §4)"},
		"exhaustive":         false,
		"notes":              c.Notes,
	}
	if len(c.selfTest) > 0 {
		fired := 0
		for _, s := range c.selfTest {
			if s.Fired {
				fired++
			}
		}
		cov["selftest_variants"] = len(c.selfTest)
		cov["selftest_fired"] = fired
		cov["selftest"] = c.selfTest
	}
	ev := Evidence{PropertyID: c.Prop, Tier: c.Tier, Seed: seed, Level: "other", Coverage: cov,
		Assumptions: assumptions, WallS: wall, Violations: nViol}
	evPath := filepath.Join(evidenceDir(verifDir), c.Prop+".json")
	os.MkdirAll(filepath.Dir(evPath), 0o755)
	b, _ := json.MarshalIndent(ev, "", " ")
	if err := os.WriteFile(evPath, append(b, '\n'), 0o644); err != nil {
		fmt.Printf("UNDECIDED property=%s cannot write evidence: %v\n", c.Prop, err)
		return 2
	}
	fmt.Printf("ycheck property=%s tier=%s rules=%d obligations=%d discharged=%d known=%d violated=%d undecided=%d functions=%d wall=%.1fs\n",
		c.Prop, c.Tier, len(c.Rules), len(c.Obs), nDis, nKnown, nViol, nUndec, len(c.funcs), wall)
	violPath := filepath.Join(evidenceDir(verifDir), c.Prop+".violations.json")
	for _, o := range undec {
		fmt.Printf("  undecided %s %s at %s: %s\n", o.Rule, o.Construct, o.Pos, firstLines(o.Detail, 6))
	}
	if nViol > 0 {
		for _, o := range viols {
			fmt.Printf("  violated %s %s at %s: %s\n", o.Rule, o.Construct, o.Pos, o.Detail)
		}
		vb, _ := json.MarshalIndent(map[string]interface{}{"property": c.Prop, "tier": c.Tier, "violations": viols}, "", " ")
		os.WriteFile(violPath, append(vb, '\n'), 0o644)
		fmt.Printf("VIOLATION property=%s replay=%s\n", c.Prop, violPath)
		return 1
	}
	os.Remove(violPath)
	if nUndec > 0 {
		fmt.Printf("UNDECIDED property=%s (no verdict: %d obligations could not be decided)\n", c.Prop, nUndec)
		return 2
	}
	return 0
}

func firstLines(s string, n int) string {
	parts := strings.SplitN(s, "\n", n+1)
	if len(parts) > n {
		parts = parts[:n]
	}
	return strings.Join(parts, "\n")
}

// evidenceOverride redirects evidence and violation files (development aids
// that run the checks against a temporarily modified tree must not overwrite
// the evidence of the real tree).
var evidenceOverride string

func evidenceDir(verifDir string) string {
	if evidenceOverride != "" {
		os.MkdirAll(evidenceOverride, 0o755)
		return evidenceOverride
	}
	return filepath.Join(verifDir, "evidence")
}

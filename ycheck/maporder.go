package main

import (
	"go/token"
	"go/types"
	"strings"

	"golang.org/x/tools/go/ssa"
)

// mapRangeSite is one `range` over a map.
type mapRangeSite struct {
	Fn      *ssa.Function
	Range   *ssa.Range
	Ordinal int
	Loop    map[*ssa.BasicBlock]bool
	Header  *ssa.BasicBlock
}

func mapRanges(fn *ssa.Function) []mapRangeSite {
	var out []mapRangeSite
	n := 0
	for _, b := range fn.Blocks {
		for _, in := range b.Instrs {
			r, ok := in.(*ssa.Range)
			if !ok {
				continue
			}
			if _, ok := r.X.Type().Underlying().(*types.Map); !ok {
				continue
			}
			s := mapRangeSite{Fn: fn, Range: r, Ordinal: n}
			n++
			// header: the block holding next(r)
			for _, ref := range *r.Referrers() {
				if nx, ok := ref.(*ssa.Next); ok {
					s.Header = nx.Block()
				}
			}
			if s.Header != nil {
				s.Loop = naturalLoop(s.Header)
			}
			out = append(out, s)
		}
	}
	return out
}

// naturalLoop: blocks that can reach a back edge into h without passing h.
func naturalLoop(h *ssa.BasicBlock) map[*ssa.BasicBlock]bool {
	loop := map[*ssa.BasicBlock]bool{h: true}
	var work []*ssa.BasicBlock
	for _, p := range h.Preds {
		if h.Dominates(p) {
			work = append(work, p)
		}
	}
	for len(work) > 0 {
		b := work[len(work)-1]
		work = work[:len(work)-1]
		if loop[b] {
			continue
		}
		loop[b] = true
		work = append(work, b.Preds...)
	}
	return loop
}

// orderSuspects lists the reasons the effect of the loop may depend on the
// iteration order. Empty = order-free by the closed idiom list:
// keyed writes, commutative accumulation, collect-then-sort, logging.
func (w *World) orderSuspects(s mapRangeSite) []string {
	var out []string
	if s.Header == nil {
		return []string{"loop header not found"}
	}
	fn := s.Fn
	for b := range s.Loop {
		// early exits
		if b != s.Header {
			for _, succ := range b.Succs {
				if !s.Loop[succ] && !isErrorExit(succ) {
					out = append(out, "leaves the loop early at "+w.Pos(b.Instrs[len(b.Instrs)-1].Pos())+" (result depends on which element comes first)")
				}
			}
		}
		for _, in := range b.Instrs {
			switch x := in.(type) {
			case *ssa.Call:
				if bi, ok := x.Call.Value.(*ssa.Builtin); ok && bi.Name() == "append" {
					if why := w.appendEscapesUnsorted(fn, s, x); why != "" {
						out = append(out, why)
					}
					continue
				}
				if o := calleeObj(x); o != nil {
					if o.Name() == "AddLog" && recvName(o) != "" {
						out = append(out, "emits a log at "+w.Pos(x.Pos())+" (log order follows map order)")
					}
					if callee := x.Call.StaticCallee(); callee != nil && callee.Blocks != nil && emitsLogs(callee, 3, map[*ssa.Function]bool{}) {
						out = append(out, "calls "+fname(callee)+" which appends receipt/state logs at "+w.Pos(x.Pos()))
					}
				}
			case *ssa.Store:
				// a store of a non-accumulated value to a location outside the loop that
				// is not keyed by the iteration: last-writer-wins
				if fa, ok := x.Addr.(*ssa.FieldAddr); ok {
					if f := fieldOfAddr(fa); f != nil && f.Name() == "Logs" {
						out = append(out, "appends to "+f.Name()+" at "+w.Pos(x.Pos()))
					}
				}
			}
		}
	}
	return out
}

func isErrorExit(b *ssa.BasicBlock) bool {
	// follow jumps to the terminating block
	seen := map[*ssa.BasicBlock]bool{}
	for !seen[b] {
		seen[b] = true
		last := b.Instrs[len(b.Instrs)-1]
		switch t := last.(type) {
		case *ssa.Panic:
			return true
		case *ssa.Return:
			for _, r := range t.Results {
				if isErrorType(r.Type()) {
					if c, ok := r.(*ssa.Const); ok && c.IsNil() {
						return false
					}
					return true
				}
			}
			return false
		case *ssa.Jump:
			b = b.Succs[0]
		default:
			return false
		}
	}
	return false
}

// emitsLogs: fn (or a static callee, depth-bounded) appends to a receipt's or the state's log list.
func emitsLogs(fn *ssa.Function, depth int, seen map[*ssa.Function]bool) bool {
	if seen[fn] || depth < 0 {
		return false
	}
	seen[fn] = true
	for _, b := range fn.Blocks {
		for _, in := range b.Instrs {
			switch x := in.(type) {
			case *ssa.Store:
				if fa, ok := x.Addr.(*ssa.FieldAddr); ok {
					if f := fieldOfAddr(fa); f != nil && f.Name() == "Logs" && ownerName(fa.X.Type()) == "Receipt" {
						return true
					}
				}
			case ssa.CallInstruction:
				if o := calleeObj(x); o != nil && o.Name() == "AddLog" {
					return true
				}
				if callee := x.Common().StaticCallee(); callee != nil && callee.Blocks != nil && emitsLogs(callee, depth-1, seen) {
					return true
				}
			}
		}
	}
	return false
}

// appendEscapesUnsorted: the slice built by this append inside the loop is
// used after the loop in an order-revealing way: not sorted first and not
// only logged. Returns "" when the append is harmless.
func (w *World) appendEscapesUnsorted(fn *ssa.Function, s mapRangeSite, app *ssa.Call) string {
	// the collection: follow the append result to the loop-carried phi in the header (or an outer store)
	var roots []ssa.Value
	seen := map[ssa.Value]bool{}
	var follow func(v ssa.Value)
	follow = func(v ssa.Value) {
		if seen[v] {
			return
		}
		seen[v] = true
		for _, ref := range *v.Referrers() {
			switch x := ref.(type) {
			case *ssa.Phi:
				roots = append(roots, x)
				follow(x)
			case *ssa.Store:
				if x.Val == v {
					roots = append(roots, x.Addr)
				}
			case *ssa.Call:
				if bi, ok := x.Call.Value.(*ssa.Builtin); ok && bi.Name() == "append" && s.Loop[x.Block()] {
					follow(x)
				}
			}
		}
	}
	follow(app)
	if len(roots) == 0 {
		return "" // loop-local slice
	}
	// uses after the loop
	sorted, logged, other := false, false, ""
	useSeen := map[ssa.Value]bool{}
	var uses func(v ssa.Value)
	uses = func(v ssa.Value) {
		if useSeen[v] {
			return
		}
		useSeen[v] = true
		for _, ref := range *v.Referrers() {
			if in, ok := ref.(ssa.Instruction); ok && s.Loop[in.Block()] {
				if p, isPhi := ref.(*ssa.Phi); isPhi {
					uses(p)
				}
				continue
			}
			switch x := ref.(type) {
			case *ssa.Phi:
				uses(x)
			case *ssa.ChangeType:
				uses(x)
			case *ssa.Convert:
				uses(x)
			case *ssa.MakeInterface:
				uses(x)
			case *ssa.Slice:
				uses(x)
			case *ssa.UnOp:
				uses(x)
			case ssa.CallInstruction:
				o := calleeObj(x)
				switch {
				case o != nil && o.Pkg() != nil && o.Pkg().Path() == "sort":
					sorted = true
				case o != nil && o.Pkg() != nil && (o.Pkg().Path() == full("logging") || o.Name() == "Join" && o.Pkg().Path() == "strings"):
					logged = true
					if cv := x.Value(); cv != nil && o.Name() == "Join" {
						if ok, _ := w.flowsOnlyToLogging(cv); !ok {
							other = "its join is used outside logging"
						}
					}
				default:
					if bi, ok := x.Common().Value.(*ssa.Builtin); ok && (bi.Name() == "len" || bi.Name() == "cap") {
						continue
					}
					name := "a dynamic call"
					if o != nil {
						name = o.Name()
					}
					other = "is passed to " + name + " at " + w.Pos(x.Pos())
				}
			case *ssa.Return:
				other = "is returned at " + w.Pos(x.Pos())
			case *ssa.Store:
				if x.Val == v {
					if isLocalAlloc(x.Addr) {
						uses(allocRoot(x.Addr))
					} else {
						other = "is stored at " + w.Pos(x.Pos())
					}
				}
			case *ssa.Range, *ssa.Index, *ssa.IndexAddr, *ssa.Lookup:
				other = "is iterated/indexed at " + w.Pos(ref.Pos())
			}
		}
	}
	for _, r := range roots {
		uses(r)
	}
	if sorted {
		return ""
	}
	if other != "" {
		return "collects map elements with append at " + w.Pos(app.Pos()) + " and the slice " + other + " without being sorted"
	}
	_ = logged
	return ""
}

func allocRoot(v ssa.Value) ssa.Value {
	for {
		switch x := v.(type) {
		case *ssa.FieldAddr:
			v = x.X
		case *ssa.IndexAddr:
			v = x.X
		default:
			return v
		}
	}
}

// flowsOnlyToLogging: every use of v (through value operations, local varargs
// arrays and pure formatting helpers) ends as an argument of a logging call.
// Returns the first offending use otherwise.
func (w *World) flowsOnlyToLogging(v ssa.Value) (bool, ssa.Instruction) {
	seen := map[ssa.Value]bool{}
	var bad ssa.Instruction
	var walk func(v ssa.Value)
	isLoggingObj := func(o *types.Func) bool {
		// logging and metrics are observation sinks: what reaches them does not come back into execution
		return o != nil && o.Pkg() != nil && (o.Pkg().Path() == full("logging") || o.Pkg().Path() == "log" || o.Pkg().Path() == full("metrics") || strings.HasPrefix(o.Pkg().Path(), "github.com/rcrowley/go-metrics"))
	}
	pureHelper := func(o *types.Func) bool {
		if o == nil || o.Pkg() == nil {
			return false
		}
		switch o.Pkg().Path() {
		case "time":
			return true // methods of Time/Duration, Since
		case "fmt":
			return strings.HasPrefix(o.Name(), "Sprint")
		case "strings", "strconv", "math/big":
			return true
		case full("common/hexutil"), full("common"):
			return true
		}
		return false
	}
	walk = func(v ssa.Value) {
		if bad != nil || seen[v] {
			return
		}
		seen[v] = true
		refs := v.Referrers()
		if refs == nil {
			return
		}
		for _, ref := range *refs {
			if bad != nil {
				return
			}
			switch x := ref.(type) {
			case *ssa.Extract, *ssa.Field, *ssa.FieldAddr, *ssa.IndexAddr, *ssa.Index, *ssa.BinOp, *ssa.Convert, *ssa.ChangeType, *ssa.MakeInterface, *ssa.ChangeInterface, *ssa.Phi, *ssa.Slice, *ssa.TypeAssert:
				walk(x.(ssa.Value))
			case *ssa.UnOp:
				walk(x)
			case *ssa.DebugRef:
			case *ssa.Store:
				if x.Val == v || x.Addr == v {
					if x.Val == v {
						if isLocalAlloc(x.Addr) {
							walk(allocRoot(x.Addr))
						} else {
							bad = x
						}
					}
				}
			case ssa.CallInstruction:
				o := calleeObj(x)
				switch {
				case isLoggingObj(o):
				case o == nil && loggingFuncValue(x.Common().Value):
				case pureHelper(o):
					if cv := x.Value(); cv != nil {
						walk(cv)
					}
				default:
					if _, isDefer := x.(*ssa.Defer); isDefer {
						// deferred closure capturing the value: look inside
					}
					if mc, ok := x.Common().Value.(*ssa.MakeClosure); ok {
						_ = mc
					}
					bad = x
				}
			case *ssa.MakeClosure:
				// captured by a closure: follow the corresponding free variable
				if cf, ok := x.Fn.(*ssa.Function); ok {
					for i, b := range x.Bindings {
						if b == v && i < len(cf.FreeVars) {
							walk(cf.FreeVars[i])
						}
					}
				}
			case *ssa.If, *ssa.Return, *ssa.MapUpdate, *ssa.Send, *ssa.Panic:
				bad = ref
			default:
				bad = ref
			}
		}
	}
	walk(v)
	return bad == nil, bad
}

// loggingFuncValue: a function value that is (a phi of) bound methods of a logging.Logger.
func loggingFuncValue(v ssa.Value) bool {
	ok := true
	n := 0
	backward(v, func(x ssa.Value) bool {
		switch y := x.(type) {
		case *ssa.Phi:
			return true
		case *ssa.MakeClosure:
			f, isF := y.Fn.(*ssa.Function)
			if !isF {
				ok = false
				return false
			}
			o, _ := f.Object().(*types.Func)
			if o == nil || o.Pkg() == nil || o.Pkg().Path() != full("logging") {
				ok = false
			}
			n++
			return false
		case *ssa.Function:
			if y.Pkg == nil || y.Pkg.Pkg.Path() != full("logging") {
				ok = false
			}
			n++
			return false
		default:
			if x != v {
				ok = false
			}
			return true
		}
	})
	return ok && n > 0
}

var _ = token.NoPos

package main

import (
	"fmt"
	"go/token"
	"go/types"
	"sort"
	"strings"

	"golang.org/x/tools/go/ssa"
)

// C11 — the canonical chain stays consistent and hash-linked.

func init() {
	register(&propDef{
		ID:          "C11",
		Explanation: "Crash-point enumeration and post-restart equivalence are history properties and are not decided. Decided (structure, SSA of package core): in WriteBlockWithState the head moves (bc.insert) only after the block was written, the state committed without error, the trie database committed for all three roots returned by that commit, and the receipt/lookup batch written without error; updateHeadBlock writes the canonical hash before the head marker (H1); the persistent head and canonical markers, bc.insert, updateHeadBlock and WriteBlockWithState have tabled callers only (H2); in insertChain a block is written as head only after the result of its header verification was received, its body validated, Process and ValidateState returned nil; no function produces ErrUnknownParentState (the one branch that skips body validation); InsertChain reaches insertChain only after the contiguity loop (H3); side chains are written only after verifyAllSideChainBlocks returned nil, which verifies header, execution and state of every block (H4).",
		Assumptions: []string{"rawdb writers and batch.Write are durable when they return", "the process can be killed between any two writes: the order decided here is what a restart sees"},
		Run:         runC11,
		Variants:    c11Variants,
	})
}

func runC11(c *Ctx) {
	w := c.W
	wbs := w.Fn("core", "BlockChain", "WriteBlockWithState")
	insObj := w.FuncObj("core", "BlockChain", "insert")
	c.sawFunc(fname(wbs))

	// ------------------------------------------------------------ H1
	c.Rule("C11.H1", "GATE", "in WriteBlockWithState the call that moves the head is dominated by rawdb.WriteBlock, by state.Commit == nil, by the TrieDB().Commit loop over all three roots that commit returned, and by batch.Write == nil; updateHeadBlock writes the canonical hash before the head marker")
	c.Min(5)
	ins := callsTo(wbs, insObj)
	if len(ins) == 0 {
		c.Undecided(fname(wbs)+"#head-move", wbs.Pos(), "no bc.insert call found")
	}
	for siteNo, site := range ins {
		sfx := ""
		if siteNo > 0 {
			sfx = fmt.Sprintf("@%d", siteNo)
		}
		var wb, commit, bw ssa.CallInstruction
		var trieCommits []ssa.CallInstruction
		for _, ci := range callInstrs(wbs) {
			o := calleeObj(ci)
			if o == nil {
				continue
			}
			switch {
			case o.Name() == "WriteBlock" && o.Pkg() != nil && o.Pkg().Path() == full("core/rawdb"):
				wb = ci
			case o.Name() == "Commit" && recvName(o) == "StateDB":
				commit = ci
			case o.Name() == "Commit" && recvName(o) == "Database" && o.Pkg().Path() == full("trie"):
				trieCommits = append(trieCommits, ci)
			case o.Name() == "Write" && (recvName(o) == "Batch" || recvName(o) == "Writer" || strings.Contains(recvName(o), "atch")):
				bw = ci
			}
		}
		c.sites += 4
		ok1 := wb != nil && instrDominates(wb, site)
		c.Check(fname(wbs)+"#block-before-head"+sfx, site.Pos(), ok1, ifelse(ok1, "rawdb.WriteBlock dominates the head move", "the head can move to a block whose header/body were not written: a restart finds a head without a block"))
		ok2 := commit != nil && gatedByErrNil(site, commit)
		c.Check(fname(wbs)+"#state-commit-before-head"+sfx, site.Pos(), ok2, ifelse(ok2, "state.Commit == nil dominates the head move", "the head can move although the state commit failed or has not happened: the head's state is unavailable after a restart"))
		ok3 := false
		why3 := "no TrieDB().Commit before the head move"
		if commit != nil && len(trieCommits) > 0 {
			for _, tc := range trieCommits {
				// the committed root derives from all three results of state.Commit (through the map literal)
				got := map[int]bool{}
				collectExtracts(callArgs(tc)[0], commit, got)
				blk := tc.Block()
				loopHead := blk
				_ = loopHead
				if got[0] && got[1] && got[2] && (instrDominates(tc, site) || loopBefore(tc, site)) {
					ok3 = true
				} else {
					why3 = fmt.Sprintf("the trie database is committed for roots %v of (state, validator, staking) only", sortedIntKeys(got))
				}
			}
		}
		c.Check(fname(wbs)+"#triedb-commit-all-roots"+sfx, site.Pos(), ok3, ifelse(ok3, "TrieDB().Commit runs for the state, validator and staking roots before the head move", why3+": after a restart a root named by the head is missing"))
		ok4 := bw != nil && gatedByErrNil(site, bw)
		c.Check(fname(wbs)+"#batch-before-head"+sfx, site.Pos(), ok4, ifelse(ok4, "batch.Write == nil dominates the head move", "the head can move before receipts and transaction lookups are durably written"))
	}
	// every call that can move the head — bc.insert itself or a function that reaches it (reorg) — comes
	// after the block's header and body are durable
	reachesInsert := func(fn *ssa.Function) bool {
		if fn == nil {
			return false
		}
		r := reachableStatic([]*ssa.Function{fn}, func(f *ssa.Function) bool { return f.Pkg != nil && f.Pkg.Pkg.Path() == full("core") })
		for f := range r {
			if o, ok := f.Object().(*types.Func); ok && sameFunc(o, insObj) {
				return true
			}
			for _, ci := range callInstrs(f) {
				if o := calleeObj(ci); o != nil && o.Name() == "WriteHeadBlockHash" && o.Pkg() != nil && o.Pkg().Path() == full("core/rawdb") {
					return true
				}
			}
		}
		return false
	}
	var wbCall ssa.CallInstruction
	var batchWrites []ssa.CallInstruction
	for _, ci := range callInstrs(wbs) {
		o := calleeObj(ci)
		if o == nil {
			continue
		}
		if o.Name() == "WriteBlock" && o.Pkg() != nil && o.Pkg().Path() == full("core/rawdb") {
			wbCall = ci
		}
		if o.Name() == "Write" && (recvName(o) == "Batch" || recvName(o) == "Writer" || strings.Contains(recvName(o), "atch")) {
			batchWrites = append(batchWrites, ci)
		}
	}
	nMovers := 0
	for _, ci := range callInstrs(wbs) {
		callee := staticCallee(ci)
		if callee == nil || !reachesInsert(callee) {
			continue
		}
		nMovers++
		c.sites++
		key := fmt.Sprintf("%s#block-durable-before-%s@%s", fname(wbs), callee.Name(), siteOrdinal(wbs, ci, ""))
		if wbCall == nil || !instrDominates(wbCall, ci) {
			c.Fail(key, ci.Pos(), "rawdb.WriteBlock does not dominate this call, which can move the head: a restart finds head markers naming a block whose header/body were never written")
			continue
		}
		// the writer the block goes to: the database itself, or a batch that is flushed before this call
		viaBatch := derivesFrom(callArgs(wbCall)[0], func(v ssa.Value) bool {
			cc, ok := v.(*ssa.Call)
			return ok && calleeObj(cc) != nil && calleeObj(cc).Name() == "NewBatch"
		})
		ok := !viaBatch
		if viaBatch {
			for _, bw := range batchWrites {
				if samePath(callRecv(bw), stripConv(callArgs(wbCall)[0])) && gatedByErrNil(ci, bw) {
					ok = true
				}
			}
		}
		c.Check(key, ci.Pos(), ok, ifelse(ok, "the block is written to the database (directly or through a batch already flushed) before this call can move the head", "the block's header and body sit in an unflushed batch when this call writes the head markers straight to the database: a kill in that window leaves a head without a block, and the node cannot start"))
	}
	if nMovers < 2 {
		c.Undecided(fname(wbs)+"#head-movers", wbs.Pos(), fmt.Sprintf("expected the reorg and insert calls, found %d calls that reach bc.insert", nMovers))
	}
	// the head is moved without a reorganisation only onto a child of the current head
	for _, site := range ins {
		c.sites++
		var reorgBlocks = map[*ssa.BasicBlock]bool{}
		for _, ci := range callInstrs(wbs) {
			if callee := staticCallee(ci); callee != nil && callee.Name() == "reorg" {
				reorgBlocks[ci.Block()] = true
			}
		}
		nDirect, bad := 0, 0
		okEnum := pathsBetween(wbs, wbs.Blocks[0], site.Block(), 20000, func(blocks []*ssa.BasicBlock, facts []Fact) {
			for _, b := range blocks {
				if reorgBlocks[b] {
					return
				}
			}
			nDirect++
			isCallNamed := func(v ssa.Value, name string) *ssa.Call {
				if cc, ok := stripConv(v).(*ssa.Call); ok && calleeObj(cc) != nil && calleeObj(cc).Name() == name {
					return cc
				}
				return nil
			}
			childOfHead := false
			for _, a := range atomsOf(facts) {
				if a.Kind != "eq" || !a.Truth {
					continue
				}
				for _, pr := range [][2]ssa.Value{{a.X, a.Y}, {a.Y, a.X}} {
					ph, hh := isCallNamed(pr[0], "ParentHash"), isCallNamed(pr[1], "Hash")
					if ph == nil || hh == nil {
						continue
					}
					if callRecv(ph) != ssa.Value(wbs.Params[1]) {
						continue
					}
					if isCallNamed(callRecv(hh), "CurrentBlock") != nil {
						childOfHead = true
					}
				}
			}
			if !childOfHead {
				bad++
			}
		})
		key := fname(wbs) + "#direct-head-move-only-onto-child-of-head"
		if !okEnum {
			c.Undecided(key, site.Pos(), "paths to the head move could not be enumerated")
			continue
		}
		c.Check(key, site.Pos(), bad == 0 && nDirect > 0, ifelse(bad == 0 && nDirect > 0, fmt.Sprintf("all %d paths that reach bc.insert without bc.reorg have established block.ParentHash() == bc.CurrentBlock().Hash()", nDirect), fmt.Sprintf("%d of %d paths move the head without reorganising although the block's parent is not known to be the current head: the number→hash entries between the fork point and the new head keep naming the old branch, so the index is no longer parent-linked", bad, nDirect)))
	}

	uhb := w.Fn("core", "BlockChain", "updateHeadBlock")
	c.sawFunc(fname(uhb))
	var canon, head ssa.CallInstruction
	for _, ci := range callInstrs(uhb) {
		if o := calleeObj(ci); o != nil {
			switch o.Name() {
			case "WriteCanonicalHash":
				canon = ci
			case "WriteHeadBlockHash":
				head = ci
			}
		}
	}
	okOrder := canon != nil && head != nil && instrDominates(canon, head)
	c.Check(fname(uhb)+"#canonical-before-head-marker", uhb.Pos(), okOrder, ifelse(okOrder, "WriteCanonicalHash precedes WriteHeadBlockHash", "the head marker can be written before the number→hash entry of the same block: a crash in between leaves a head that is not canonical"))

	// ------------------------------------------------------------ H2
	c.Rule("C11.H2", "CONFINED", "the writers of the persistent canonical/head markers and the functions that move the in-memory head have tabled callers only")
	c.Min(12)
	allowed := map[string]map[string]bool{
		"WriteCanonicalHash":  {"(core.HeaderChain).WriteHeader": true, "(core.BlockChain).updateHeadBlock": true, "(core.Genesis).Commit": true, "core.writeHeadBlock": true},
		"WriteHeadBlockHash":  {"(core.BlockChain).updateHeadBlock": true, "(core.Genesis).Commit": true, "(core.BlockChain).SetHead": true, "core.writeHeadBlock": true},
		"WriteHeadHeaderHash": {"core.writeHeadBlock": true, "(core.HeaderChain).WriteHeader": true, "(core.HeaderChain).SetHead": true, "(core.Genesis).Commit": true, "(core.HeaderChain).InsertHeaderChain": true, "(core.HeaderChain).SetCurrentHeader": true},
		"DeleteCanonicalHash": {"(core.HeaderChain).SetHead": true, "(core.BlockChain).SetHead": true},
	}
	for _, fn := range w.AllFuncs() {
		if strings.HasSuffix(w.fileOf(fn.Pos()), "_test.go") {
			continue
		}
		for _, ci := range callInstrs(fn) {
			o := calleeObj(ci)
			if o == nil || o.Pkg() == nil || o.Pkg().Path() != full("core/rawdb") {
				continue
			}
			al, ok := allowed[o.Name()]
			if !ok {
				continue
			}
			c.sites++
			n := outerName(fname(fn))
			c.Check(n+"#"+o.Name(), ci.Pos(), al[n], ifelse(al[n], "tabled writer of this marker", "a new function writes the persistent "+o.Name()[5:]+" marker: the chain index can change outside the reviewed import/rewind paths"))
		}
	}
	confineCallers := func(obj *types.Func, al map[string]bool) {
		for _, fn := range w.AllFuncs() {
			if strings.HasSuffix(w.fileOf(fn.Pos()), "_test.go") {
				continue
			}
			for _, ci := range callInstrs(fn) {
				o := calleeObj(ci)
				if !sameFunc(o, obj) && !(o != nil && o.Name() == obj.Name() && recvName(o) != "" && obj.Name() == "WriteBlockWithState") {
					continue
				}
				c.sites++
				n := outerName(fname(fn))
				c.Check(n+"#calls-"+obj.Name(), ci.Pos(), al[n], ifelse(al[n], "tabled caller", "unexpected caller of "+obj.Name()+": the head can move outside the reviewed paths"))
			}
		}
	}
	confineCallers(insObj, map[string]bool{"(core.BlockChain).WriteBlockWithState": true, "(core.BlockChain).reorg": true, "(core.BlockChain).ResetWithGenesisBlock": true})
	confineCallers(uhb.Object().(*types.Func), map[string]bool{"(core.BlockChain).insert": true, "(core.BlockChain).InsertReceiptChain": true})
	// helpers of the atomic head switch (absent on a tree that writes the markers differently: H5 judges that)
	if f := w.FnOpt("core", "", "writeHeadBlock"); f != nil {
		confineCallers(f.Object().(*types.Func), map[string]bool{"(core.BlockChain).insert": true, "(core.BlockChain).reorg": true})
	}
	if f := w.FnOpt("core", "BlockChain", "setHeadBlock"); f != nil {
		confineCallers(f.Object().(*types.Func), map[string]bool{"(core.BlockChain).insert": true, "(core.BlockChain).reorg": true})
	}
	confineCallers(wbs.Object().(*types.Func), map[string]bool{"(core.BlockChain).insertChain": true, "(miner.worker).postSeal": true})

	// ------------------------------------------------------------ H3
	c.Rule("C11.H3", "GATE", "in insertChain the call of WriteBlockWithState is dominated by the receive of this block's header-verification result, by Process == nil and by ValidateState == nil, and every path from that receive to Process passes ValidateBody except through the ErrUnknownParentState case; no function returns ErrUnknownParentState; InsertChain calls insertChain only after its contiguity loop")
	c.Min(5)
	ic := w.Fn("core", "BlockChain", "insertChain")
	c.sawFunc(fname(ic))
	var wcall, proc, vstate ssa.CallInstruction
	var vbodies []ssa.Instruction
	for _, ci := range callInstrs(ic) {
		o := calleeObj(ci)
		if o == nil {
			continue
		}
		switch o.Name() {
		case "WriteBlockWithState":
			wcall = ci
		case "Process":
			proc = ci
		case "ValidateState":
			vstate = ci
		case "ValidateBody":
			vbodies = append(vbodies, ci)
		}
	}
	var recv *ssa.UnOp
	for _, b := range ic.Blocks {
		for _, in := range b.Instrs {
			if u, ok := in.(*ssa.UnOp); ok && u.Op == token.ARROW && isErrorType(u.Type()) {
				recv = u
			}
		}
	}
	if wcall == nil || proc == nil || vstate == nil || recv == nil || len(vbodies) == 0 {
		c.Undecided(fname(ic)+"#write-gates", ic.Pos(), "anchors WriteBlockWithState/Process/ValidateState/ValidateBody/receive not all found")
	} else {
		c.sites += 4
		okP := gatedByErrNil(wcall, proc)
		c.Check(fname(ic)+"#write-after-process", wcall.Pos(), okP, ifelse(okP, "dominated by Process == nil", "a block whose execution failed can be written as head"))
		okV := gatedByErrNil(wcall, vstate)
		c.Check(fname(ic)+"#write-after-validate-state", wcall.Pos(), okV, ifelse(okV, "dominated by ValidateState == nil", "a block whose resulting roots/receipts were not validated (or differ) can be written as head"))
		okR := instrDominates(recv, wcall) && inLoop(recv)
		c.Check(fname(ic)+"#write-after-header-verification", wcall.Pos(), okR, ifelse(okR, "dominated by the receive of the header-verification result of this iteration", "a block can be written as head without its header-verification result having been received"))
		unk := w.SSAPkg("consensus").Var("ErrUnknownParentState")
		okB := true
		nPaths := 0
		vbBlocks := map[*ssa.BasicBlock]bool{}
		for _, vb := range vbodies {
			vbBlocks[vb.Block()] = true
		}
		enumOK := pathsBetween(ic, recv.Block(), proc.Block(), 5000, func(blocks []*ssa.BasicBlock, facts []Fact) {
			nPaths++
			good := false
			for _, b := range blocks {
				if vbBlocks[b] {
					good = true
				}
			}
			for _, f := range facts {
				if b, ok := f.Cond.(*ssa.BinOp); ok && b.Op == token.EQL && f.Truth {
					for _, v := range []ssa.Value{b.X, b.Y} {
						if u, ok := v.(*ssa.UnOp); ok && u.X == ssa.Value(unk) {
							good = true
						}
					}
				}
			}
			if !good {
				okB = false
			}
		})
		if !enumOK || nPaths == 0 {
			c.Undecided(fname(ic)+"#body-validated-before-execution", proc.Pos(), fmt.Sprintf("path enumeration between the receive and Process failed (ok=%v, %d paths)", enumOK, nPaths))
		}
		c.Note("insertChain: %d feasible paths from the header-verification receive to Process within one iteration", nPaths)
		// the receive block itself calls ValidateBody only under err == nil; accept
		// a ValidateBody in a block directly reached from the receive
		c.Check(fname(ic)+"#body-validated-before-execution", proc.Pos(), okB, ifelse(okB, "every path from the receive to Process passes ValidateBody (or the dead ErrUnknownParentState case)", "a block can be executed and written without its body (transaction root) having been validated against the header"))
		// nobody produces ErrUnknownParentState
		produced := ""
		for _, fn := range w.AllFuncs() {
			if strings.HasSuffix(w.fileOf(fn.Pos()), "_test.go") {
				continue
			}
			for _, b := range fn.Blocks {
				for _, in := range b.Instrs {
					u, ok := in.(*ssa.UnOp)
					if !ok || u.X != ssa.Value(unk) {
						continue
					}
					for _, r := range *u.Referrers() {
						switch r.(type) {
						case *ssa.BinOp, *ssa.DebugRef:
						default:
							produced = fname(fn) + " at " + w.Pos(r.Pos())
						}
					}
				}
			}
		}
		c.Check("consensus.ErrUnknownParentState#never-produced", 0, produced == "", ifelse(produced == "", "the error is only compared, never returned or stored", "ErrUnknownParentState is now produced by "+produced+": insertChain's branch for it skips body validation"))
	}
	pub := w.Fn("core", "BlockChain", "InsertChain")
	c.sawFunc(fname(pub))
	icObj := ic.Object().(*types.Func)
	for _, ci := range callsTo(pub, icObj) {
		// dominated by the exit of the contiguity loop: some loop's header dominates the call and the loop body cannot reach the call except through the header
		okL := false
		for _, b := range pub.Blocks {
			if isLoopHeader(b) && b.Dominates(ci.Block()) && !naturalLoop(b)[ci.Block()] {
				// loop body compares block numbers / parent hashes
				for lb := range naturalLoop(b) {
					for _, in := range lb.Instrs {
						if cc, ok := in.(ssa.CallInstruction); ok {
							if o := calleeObj(cc); o != nil && (o.Name() == "ParentHash" || o.Name() == "NumberU64") {
								okL = true
							}
						}
					}
				}
			}
		}
		c.Check(fname(pub)+"#contiguity-before-import", ci.Pos(), okL, ifelse(okL, "insertChain is reached only after the loop that checks numbering and parent links", "blocks are imported without the contiguity check of the offered segment"))
	}

	// ------------------------------------------------------------ H5
	c.Rule("C11.H5", "ATOMIC-GROUP", "on the import path (everything insert and reorg reach inside package core) the persistent head markers, number→hash entries and transaction lookups are written to a batch, never straight to the database; insert and reorg each flush exactly one such batch, and flush it before the in-memory head moves: a kill between separate writes leaves an index that is not parent-linked up to the head, or lookups that name dropped blocks")
	c.Min(6)
	c11H5(c, w)

	// ------------------------------------------------------------ H4
	c.Rule("C11.H4", "EXIT", "insertSidechain writes side-chain blocks only after verifyAllSideChainBlocks returned nil; verifyAllSideChainBlocks returns nil only after VerifySideChainHeader, Process and ValidateState succeeded for every block")
	c.Min(3)
	isc := w.Fn("core", "BlockChain", "insertSidechain")
	vall := w.Fn("core", "BlockChain", "verifyAllSideChainBlocks")
	c.sawFunc(fname(isc))
	c.sawFunc(fname(vall))
	vcalls := callsTo(isc, vall.Object().(*types.Func))
	for _, ci := range callInstrs(isc) {
		o := calleeObj(ci)
		if o == nil || (o.Name() != "WriteBlockWithoutState" && o.Name() != "WriteBlockWithState" && o.Name() != "reorg") {
			continue
		}
		c.sites++
		ok := false
		for _, v := range vcalls {
			if gatedByErrNil(ci, v) {
				ok = true
			}
		}
		c.Check(fmt.Sprintf("%s#%s-after-verification", fname(isc), o.Name()), ci.Pos(), ok, ifelse(ok, "dominated by verifyAllSideChainBlocks == nil", "side-chain blocks are written (and may become canonical) without having been fully verified"))
	}
	// the side chain replaces the canonical one only when it is longer
	for _, ci := range callsTo(isc, w.FuncObj("core", "BlockChain", "insertChain")) {
		longer := false
		for _, a := range atomsOf(factsAtInstr(ci)) {
			if a.Kind != "cmp" {
				continue
			}
			op := a.Op
			if !a.Truth {
				op = negateCmp(op)
			}
			cx, okx := stripConv(a.X).(*ssa.Call)
			cy, oky := stripConv(a.Y).(*ssa.Call)
			if okx && oky && calleeObj(cx) != nil && calleeObj(cy) != nil && calleeObj(cx).Name() == "NumberU64" && calleeObj(cy).Name() == "NumberU64" && op == token.GTR {
				if callChainMentions(cy, "CurrentBlock") {
					longer = true
				}
			}
		}
		c.sites++
		c.Check(fmt.Sprintf("%s#reimport-only-if-longer@%s", fname(isc), siteOrdinal(isc, ci, "")), ci.Pos(), longer, ifelse(longer, "re-import (and so the reorganisation) is dominated by sideHead.Number > CurrentBlock().Number", "a side chain that is not longer than the canonical chain can replace it"))
	}
	var need []ssa.CallInstruction
	names := map[string]bool{}
	for _, ci := range callInstrs(vall) {
		if o := calleeObj(ci); o != nil {
			switch o.Name() {
			case "VerifySideChainHeader", "Process", "ValidateState":
				need = append(need, ci)
				names[o.Name()] = true
			}
		}
	}
	if len(names) != 3 {
		c.Fail(fname(vall)+"#verifies", vall.Pos(), fmt.Sprintf("verifyAllSideChainBlocks no longer calls all of VerifySideChainHeader, Process, ValidateState (found %v)", sortedBoolKeys(names)))
	} else {
		for _, ci := range need {
			ok, why := failureCannotReachReturnNil(vall, ci)
			c.Check(fmt.Sprintf("%s#%s-failure-rejects", fname(vall), calleeName(ci)), ci.Pos(), ok, ifelse(ok, "a failure of "+calleeName(ci)+" cannot end in a nil return", why))
		}
	}
	// ------------------------------------------------------------ H6
	c.Rule("C11.H6", "GATE", "a block is skipped as already known only if it is the canonical block of its height and its state is available: every return of ErrKnownBlock in ValidateBody is dominated by HasBlockAndState(hash, number) == true and by the equality of the canonical header's hash at that number with the block's hash — a block whose body and (partly flushed) state survived a crash but which never became canonical is executed again instead of being skipped, otherwise every child fails on the missing trie and the node is wedged")
	c.Min(1)
	{
		vb := w.Fn("core", "BlockValidator", "ValidateBody")
		c.sawFunc(fname(vb))
		n := 0
		for _, rp := range returnPaths(vb, 0) {
			u, ok := stripConv(rp.Val).(*ssa.UnOp)
			if !ok || u.Op != token.MUL {
				continue
			}
			g, ok := u.X.(*ssa.Global)
			if !ok || g.Name() != "ErrKnownBlock" {
				continue
			}
			n++
			c.sites++
			hasState, canonical := false, false
			for _, a := range rp.Atoms() {
				if a.Kind == "true" && a.Truth {
					if cc, isCall := stripConv(a.X).(*ssa.Call); isCall && calleeObj(cc) != nil && calleeObj(cc).Name() == "HasBlockAndState" {
						hasState = true
					}
				}
				if a.Kind == "eq" && a.Truth && a.Y != nil {
					cx, okx := stripConv(a.X).(*ssa.Call)
					cy, oky := stripConv(a.Y).(*ssa.Call)
					if !okx || !oky || calleeObj(cx) == nil || calleeObj(cy) == nil || calleeObj(cx).Name() != "Hash" || calleeObj(cy).Name() != "Hash" {
						continue
					}
					fromCanon := func(cc *ssa.Call) bool {
						r := callRecv(cc)
						return r != nil && derivesFrom(r, func(v ssa.Value) bool {
							k, isCall := v.(*ssa.Call)
							if !isCall || calleeObj(k) == nil {
								return false
							}
							nm := calleeObj(k).Name()
							return nm == "GetHeaderByNumber" || nm == "GetBlockByNumber" || nm == "ReadCanonicalHash" || nm == "GetCanonicalHash"
						})
					}
					fromBlock := func(cc *ssa.Call) bool {
						r := callRecv(cc)
						return r != nil && len(vb.Params) > 1 && derivesFrom(r, func(v ssa.Value) bool { return v == ssa.Value(vb.Params[1]) })
					}
					if (fromCanon(cx) && fromBlock(cy)) || (fromCanon(cy) && fromBlock(cx)) {
						canonical = true
					}
				}
			}
			ok2 := hasState && canonical
			c.Check(fmt.Sprintf("%s#known-only-if-canonical-with-state-%d", fname(vb), n), rp.Ret.Pos(), ok2, ifelse(ok2, "ErrKnownBlock under HasBlockAndState and canonical-hash equality", fmt.Sprintf("ErrKnownBlock is answered without (state available=%v, canonical at its height=%v): a stored but never-canonical block — e.g. one whose import was interrupted between the trie flushes — is skipped instead of re-executed, and its children fail on the missing trie nodes for good", hasState, canonical)))
		}
		if n == 0 {
			c.Undecided(fname(vb)+"#known-only-if-canonical-with-state", vb.Pos(), "no return of ErrKnownBlock found in ValidateBody")
		}
	}

	// ------------------------------------------------------------ H7
	c.Rule("C11.H7", "EXIT", "a block whose body does not belong to its header never becomes canonical: ValidateBody answers nil only on paths that compared DeriveSha of the block's own transactions with the header's TxHash and found them equal — also for a block that is already stored (insertSidechain stores side-chain bodies before validating them and re-imports them from the database, so 'known' says nothing about the body)")
	c.Min(1)
	{
		vb := w.Fn("core", "BlockValidator", "ValidateBody")
		nNil, bad := 0, 0
		for _, rp := range returnPaths(vb, 0) {
			if rp.Kind != RetNil {
				continue
			}
			nNil++
			c.sites++
			okTx := false
			for _, a := range rp.Atoms() {
				if a.Kind != "eq" || !a.Truth || a.Y == nil {
					continue
				}
				for _, pair := range [][2]ssa.Value{{a.X, a.Y}, {a.Y, a.X}} {
					isDerive := derivesFrom(pair[0], func(v ssa.Value) bool {
						cc, ok := v.(*ssa.Call)
						return ok && calleeObj(cc) != nil && calleeObj(cc).Name() == "DeriveSha"
					})
					isTxHash := derivesFrom(pair[1], func(v ssa.Value) bool {
						f, _ := loadedField(v)
						return f != nil && f.Name() == "TxHash"
					})
					if isDerive && isTxHash {
						okTx = true
					}
				}
			}
			if !okTx {
				bad++
			}
		}
		c.Check(fname(vb)+"#nil-only-after-transaction-root-check", vb.Pos(), nNil > 0 && bad == 0, ifelse(nNil > 0 && bad == 0, fmt.Sprintf("all %d accepting returns passed DeriveSha(txs) == header.TxHash", nNil), fmt.Sprintf("%d of %d accepting returns of ValidateBody skip the transaction-root comparison: a stored side-chain block with a forged body (same header, other transactions) is imported and becomes canonical", bad, nNil)))
	}

	// ------------------------------------------------------------ H8
	c.Rule("C11.H8", "ATOMIC-GROUP", "the head markers of one head switch become durable together: a function of package core that puts two or more of them (head header hash, number→hash entry, head block hash, transaction lookups) into a batch never writes or resets that batch between them — the flush belongs to the caller, after the whole group. An early flush when the batch grows large (a block with thousands of transactions) leaves, after a crash, a number→hash entry of the new branch under the old head marker")
	c.Min(1)
	{
		marker := map[string]bool{"WriteHeadHeaderHash": true, "WriteCanonicalHash": true, "WriteHeadBlockHash": true, "WriteTxLookupEntries": true, "DeleteTxLookupEntry": true, "WriteHeadFastBlockHash": true}
		nGroups := 0
		for _, fn := range w.FuncsIn("core") {
			if fn.Blocks == nil || strings.HasSuffix(w.fileOf(fn.Pos()), "_test.go") {
				continue
			}
			type mw struct {
				at    ssa.Instruction
				batch ssa.Value
			}
			var marks []mw
			for _, ci := range callInstrs(fn) {
				o := calleeObj(ci)
				if o == nil || !marker[o.Name()] || o.Pkg() == nil || !strings.HasSuffix(o.Pkg().Path(), "core/rawdb") {
					continue
				}
				args := callArgs(ci)
				if len(args) == 0 {
					continue
				}
				marks = append(marks, mw{ci.(ssa.Instruction), stripConv(args[0])})
			}
			if len(marks) < 2 {
				continue
			}
			nGroups++
			c.sites++
			c.sawFunc(fname(fn))
			reach := func(a, b ssa.Instruction) bool {
				if a.Block() == b.Block() {
					if instrIndex(a) < instrIndex(b) {
						return true
					}
				}
				seen := map[*ssa.BasicBlock]bool{}
				work := append([]*ssa.BasicBlock(nil), a.Block().Succs...)
				for len(work) > 0 {
					x := work[len(work)-1]
					work = work[:len(work)-1]
					if seen[x] {
						continue
					}
					seen[x] = true
					if x == b.Block() {
						return true
					}
					work = append(work, x.Succs...)
				}
				return false
			}
			bad := ""
			for _, ci := range callInstrs(fn) {
				o := calleeObj(ci)
				if o == nil || !(o.Name() == "Write" || o.Name() == "Reset") {
					continue
				}
				r := callRecv(ci)
				if r == nil {
					continue
				}
				in := ci.(ssa.Instruction)
				for _, m1 := range marks {
					if stripConv(r) != m1.batch && !samePath(r, m1.batch) {
						continue
					}
					for _, m2 := range marks {
						if m1.at != m2.at && reach(m1.at, in) && reach(in, m2.at) && !(isLoopCarried(m1.at, in, m2.at)) {
							bad = fmt.Sprintf("batch.%s at %s between %s and %s", o.Name(), w.Pos(ci.Pos()), calleeName(m1.at.(ssa.CallInstruction)), calleeName(m2.at.(ssa.CallInstruction)))
						}
					}
				}
			}
			c.Check(fname(fn)+"#head-markers-in-one-flush", fn.Pos(), bad == "", ifelse(bad == "", "no flush or reset of the batch between the marker writes", "the batch that carries the head markers is flushed in the middle of the group ("+bad+"): a crash right after the early flush leaves part of the head switch durable and the rest not"))
		}
		if nGroups == 0 {
			c.Undecided("core#head-marker-groups", token.NoPos, "no function writing two or more head markers into a batch found")
		}
	}
	c11RoundE(c, c.W)
}

func collectExtracts(v ssa.Value, call ssa.CallInstruction, got map[int]bool) {
	seen := map[ssa.Value]bool{}
	var walk func(v ssa.Value)
	walk = func(v ssa.Value) {
		if v == nil || seen[v] {
			return
		}
		seen[v] = true
		if e, ok := v.(*ssa.Extract); ok && e.Tuple == call.Value() {
			got[e.Index] = true
			return
		}
		switch x := v.(type) {
		case *ssa.Next:
			walk(x.Iter)
			return
		case *ssa.Range:
			walk(x.X)
			return
		case *ssa.MakeMap:
			for _, r := range *x.Referrers() {
				if mu, ok := r.(*ssa.MapUpdate); ok {
					walk(mu.Value)
				}
			}
			return
		}
		if in, ok := v.(ssa.Instruction); ok {
			for _, op := range in.Operands(nil) {
				if op != nil && *op != nil {
					walk(*op)
				}
			}
		}
	}
	walk(v)
}

func sortedIntKeys(m map[int]bool) []int {
	var k []int
	for x := range m {
		k = append(k, x)
	}
	sort.Ints(k)
	return k
}

// loopBefore: a sits in a loop all of whose exits lead to b's block before b.
func c11H5(c *Ctx, w *World) {
	group := map[string]bool{"WriteHeadHeaderHash": true, "WriteCanonicalHash": true, "WriteHeadBlockHash": true, "WriteTxLookupEntries": true, "DeleteTxLookupEntry": true}
	isGroup := func(ci ssa.CallInstruction) bool {
		o := calleeObj(ci)
		return o != nil && group[o.Name()] && o.Pkg() != nil && o.Pkg().Path() == full("core/rawdb")
	}
	isNewBatch := func(v ssa.Value) bool {
		cc, ok := v.(*ssa.Call)
		return ok && calleeObj(cc) != nil && calleeObj(cc).Name() == "NewBatch"
	}
	isBatchType := func(t types.Type) bool {
		return strings.HasSuffix(types.TypeString(t, nil), "youdb.Batch")
	}
	ins := w.Fn("core", "BlockChain", "insert")
	reorg := w.Fn("core", "BlockChain", "reorg")
	scope := reachableStatic([]*ssa.Function{ins, reorg}, func(f *ssa.Function) bool { return f.Pkg != nil && f.Pkg.Pkg.Path() == full("core") })
	var fns []*ssa.Function
	for f := range scope {
		fns = append(fns, f)
	}
	sort.Slice(fns, func(i, j int) bool { return fname(fns[i]) < fname(fns[j]) })
	// batchParams: functions whose group writes go to a parameter of batch type
	batchParam := map[*ssa.Function]int{}
	nWrites := 0
	for _, f := range fns {
		for _, ci := range callInstrs(f) {
			if !isGroup(ci) {
				continue
			}
			nWrites++
			c.sites++
			c.sawFunc(fname(f))
			wr := stripConv(callArgs(ci)[0])
			key := fmt.Sprintf("%s#%s@%s-goes-to-batch", fname(f), calleeObj(ci).Name(), siteOrdinal(f, ci, ""))
			ok, why := false, "the writer is neither a batch created here nor a batch parameter"
			if derivesFrom(wr, isNewBatch) {
				ok, why = true, "written to a batch created in this function"
			} else {
				for i, p := range f.Params {
					if ssa.Value(p) == wr && isBatchType(p.Type()) {
						ok, why = true, "written to the caller's batch"
						batchParam[f] = i
					}
				}
			}
			c.Check(key, ci.Pos(), ok, ifelse(ok, why, "this marker of the head-switch group is written straight to the database ("+why+"): it becomes durable on its own, and a kill before the rest of the group is written leaves head, number→hash index and lookups disagreeing"))
		}
	}
	if nWrites < 4 {
		c.Undecided("core#head-switch-group-writes", 0, fmt.Sprintf("only %d writes of the head-switch group found on the import path", nWrites))
	}
	// insert and reorg: one batch each carries the group, flushed before the in-memory head moves
	currentBlock := w.Field("core", "BlockChain", "currentBlock")
	movesHead := func(f *ssa.Function) bool {
		for _, in := range fieldReads(f, currentBlock) {
			_ = in
		}
		for _, ci := range callInstrs(f) {
			if o := calleeObj(ci); o != nil && o.Name() == "Store" {
				if fa, ok := stripConv(callRecv(ci)).(*ssa.FieldAddr); ok && fieldOfAddr(fa) == currentBlock {
					return true
				}
			}
		}
		return false
	}
	for _, f := range []*ssa.Function{ins, reorg} {
		c.sawFunc(fname(f))
		batches := map[ssa.Value]bool{}
		for _, ci := range callInstrs(f) {
			var wr ssa.Value
			if isGroup(ci) {
				wr = callArgs(ci)[0]
			} else if callee := staticCallee(ci); callee != nil {
				if i, has := batchParam[callee]; has {
					a := callArgs(ci)
					if callee.Signature.Recv() != nil {
						i-- // callArgs excludes the receiver
					}
					if i >= 0 && i < len(a) {
						wr = a[i]
					}
				}
			}
			if wr == nil {
				continue
			}
			backward(wr, func(v ssa.Value) bool {
				if isNewBatch(v) {
					batches[v] = true
					return false
				}
				return true
			})
		}
		// inside the batch the lookups of the dropped blocks are deleted BEFORE those of the new branch are written:
		// a batch is applied in order, and a transaction carried by both branches must end up with its new lookup
		{
			var dels, writes []ssa.CallInstruction
			for _, ci := range callInstrs(f) {
				if o := calleeObj(ci); o != nil && o.Pkg() != nil && o.Pkg().Path() == full("core/rawdb") {
					switch o.Name() {
					case "DeleteTxLookupEntry":
						dels = append(dels, ci)
					case "WriteTxLookupEntries":
						writes = append(writes, ci)
					}
				}
				if callee := staticCallee(ci); callee != nil {
					for _, cj := range callInstrs(callee) {
						if o := calleeObj(cj); o != nil && o.Name() == "WriteTxLookupEntries" && o.Pkg() != nil && o.Pkg().Path() == full("core/rawdb") {
							if _, has := batchParam[callee]; has {
								writes = append(writes, ci)
							}
						}
					}
				}
			}
			if len(dels) > 0 && len(writes) > 0 {
				c.sites++
				okOrder := true
				for _, d := range dels {
					for _, wr := range writes {
						if !(instrDominates(d, wr) || loopBefore(d, wr)) {
							okOrder = false
						}
					}
				}
				c.Check(fname(f)+"#lookup-deletions-before-lookup-writes", f.Pos(), okOrder, ifelse(okOrder, "every DeleteTxLookupEntry of the batch precedes every lookup write of the new branch", "the batch writes the new branch's lookups and deletes the dropped blocks' lookups afterwards: a transaction that both branches carry is written and then deleted, so a canonical transaction is left without a lookup for good"))
			}
		}
		c.sites++
		c.Check(fname(f)+"#one-batch-carries-the-group", f.Pos(), len(batches) == 1, ifelse(len(batches) == 1, "all group writes of this function go to one batch", fmt.Sprintf("the group writes of this function go to %d batches: they are not atomic", len(batches))))
		if len(batches) != 1 {
			continue
		}
		var batch ssa.Value
		for b := range batches {
			batch = b
		}
		var flush ssa.CallInstruction
		for _, ci := range callInstrs(f) {
			if o := calleeObj(ci); o != nil && o.Name() == "Write" && samePath(stripConv(callRecv(ci)), batch) {
				flush = ci
			}
		}
		// the in-memory head move: a Store on currentBlock here or in a callee
		nMoves, bad := 0, 0
		for _, ci := range callInstrs(f) {
			mv := false
			if o := calleeObj(ci); o != nil && o.Name() == "Store" {
				if fa, ok := stripConv(callRecv(ci)).(*ssa.FieldAddr); ok && fieldOfAddr(fa) == currentBlock {
					mv = true
				}
			}
			if callee := staticCallee(ci); callee != nil && callee.Pkg != nil && callee.Pkg.Pkg.Path() == full("core") && movesHead(callee) {
				mv = true
			}
			if !mv {
				continue
			}
			nMoves++
			if flush == nil || !(instrDominates(flush, ci) || loopBefore(flush, ci)) {
				bad++
			}
		}
		c.sites++
		c.Check(fname(f)+"#flushed-before-memory-head-moves", f.Pos(), flush != nil && nMoves > 0 && bad == 0, ifelse(flush != nil && nMoves > 0 && bad == 0, "batch.Write() precedes every in-memory head move", "the in-memory head can move before (or without) the batch being flushed: readers see a head the database does not have"))
	}
}

func loopBefore(a, b ssa.Instruction) bool {
	for _, blk := range a.Block().Parent().Blocks {
		if isLoopHeader(blk) && naturalLoop(blk)[a.Block()] && !naturalLoop(blk)[b.Block()] && blk.Dominates(b.Block()) {
			return true
		}
	}
	return false
}

func isLoopHeader(b *ssa.BasicBlock) bool {
	for _, p := range b.Preds {
		if b.Dominates(p) {
			return true
		}
	}
	return false
}

// allPathsBetween: every path from the end of `from` to `to` passes a good
// block or a good edge.
func allPathsBetween(from, to *ssa.BasicBlock, goodBlock func(*ssa.BasicBlock) bool, goodEdge func(a, b *ssa.BasicBlock) bool) bool {
	if goodBlock(from) {
		// a gate in the start block after the start instruction counts only if it is unconditional; be strict: continue
	}
	seen := map[*ssa.BasicBlock]bool{}
	type item struct{ b *ssa.BasicBlock }
	var work []*ssa.BasicBlock
	push := func(a, b *ssa.BasicBlock) {
		if goodEdge != nil && goodEdge(a, b) {
			return
		}
		work = append(work, b)
	}
	for _, s := range from.Succs {
		push(from, s)
	}
	for len(work) > 0 {
		b := work[len(work)-1]
		work = work[:len(work)-1]
		if seen[b] {
			continue
		}
		seen[b] = true
		if b == to {
			return false
		}
		if goodBlock(b) {
			continue
		}
		if b == from {
			continue
		}
		for _, s := range b.Succs {
			push(b, s)
		}
	}
	return true
}

// failureCannotReachReturnNil: from the non-nil edge of call's error no
// return that may be nil is reachable.
func failureCannotReachReturnNil(fn *ssa.Function, call ssa.CallInstruction) (bool, string) {
	var nilRets []ssa.Instruction
	for _, rp := range returnPaths(fn, errResultIdx(fn)) {
		if rp.MayBeNil() && rp.Kind == RetNil {
			nilRets = append(nilRets, rp.Ret)
		}
	}
	ok, why := failureCannotReach(call, nilRets)
	if !ok {
		return false, "after a failed " + calleeName(call) + " the function can still return nil: " + why
	}
	return true, ""
}

func c11Variants() []Variant {
	f := "core/blockchain.go"
	return []Variant{
		{Name: "head-before-state-commit", File: f, Old: "	//write\n	rawdb.WriteBlock(bc.db, block)\n\n	//db commit\n	root, valRoot, stakingRoot, err := state.Commit(true)", New: "	//write\n	rawdb.WriteBlock(bc.db, block)\n	bc.insert(block)\n\n	//db commit\n	root, valRoot, stakingRoot, err := state.Commit(true)", Rule: "C11.H1", Construct: "WriteBlockWithState"},
		{Name: "staking-root-not-committed", File: f, Old: "map[string]common.Hash{\"state\": root, \"val\": valRoot, \"staking\": stakingRoot}", New: "map[string]common.Hash{\"state\": root, \"val\": valRoot}", Rule: "C11.H1", Construct: "triedb-commit-all-roots"},
		{Name: "head-marker-from-write-without-state", File: f, Old: "	logging.Info(\"WriteBlockWithoutState.\", \"Height\", block.NumberU64(), \"Hash\", block.Hash().String())\n", New: "	rawdb.WriteHeadBlockHash(bc.db, block.Hash())\n	logging.Info(\"WriteBlockWithoutState.\", \"Height\", block.NumberU64(), \"Hash\", block.Hash().String())\n", Rule: "C11.H2", Construct: "WriteBlockWithoutState"},
		{Name: "side-chain-not-longer", File: f, Old: "	if block.NumberU64() <= bc.CurrentBlock().NumberU64() {\n		logging.Error(\"Importing sidechain terminate.\"", New: "	if block.NumberU64() < bc.CurrentBlock().NumberU64() {\n		logging.Error(\"Importing sidechain terminate.\"", Rule: "C11.H4", Construct: "reimport-only-if-longer"},
		{Name: "ignore-validate-state", File: f, Old: "		err = bc.Validator().ValidateState(block, parent, stateDb, result.Recs, result.UsedGas)\n		if err != nil {", New: "		err = bc.Validator().ValidateState(block, parent, stateDb, result.Recs, result.UsedGas)\n		if err != nil && result == nil {", Rule: "C11.H3", Construct: "write-after-validate-state"},
		{Name: "write-block-body-first", File: "core/rawdb/accessors_chain.go", Old: "	WriteHeader(db, block.Header())\n	WriteBody(db, block.Hash(), block.NumberU64(), block.Body())\n", New: "	WriteBody(db, block.Hash(), block.NumberU64(), block.Body())\n	WriteHeader(db, block.Header())\n", Rule: "C11.H11", Construct: "WriteBlock"},
		{Name: "header-index-entry-outside-the-batch", File: "core/headerchain.go", Old: "	rawdb.WriteCanonicalHash(batch, hash, number)\n", New: "	rawdb.WriteCanonicalHash(hc.chainDb, hash, number)\n", Rule: "C11.H12", Construct: "WriteHeader"},
	}
}

// isLoopCarried: the only way from the flush to the second marker write leads
// around a loop back edge while the first marker write follows the flush in
// straight-line order — i.e. the flush closes one group and the marker write
// opens the next iteration's group. Not used as an excuse today (no such loop
// exists); kept conservative: always false.
func isLoopCarried(m1, flush, m2 ssa.Instruction) bool { return false }

// c11RoundE: H9 (every commitment of the header is compared before ValidateState accepts) and H10 (the two
// in-memory heads move together).
func c11RoundE(c *Ctx, w *World) {
	c.Rule("C11.H9", "EXIT", "an invalid block never becomes canonical: ValidateState answers nil only after it compared, on that very path, each commitment of the header with what execution produced — gas used, bloom, receipt root, state root, validator root, staking root. A comparison made only under a condition (e.g. only when there are receipts) lets a block whose sole fault is that commitment be written with state, become head and get descendants")
	c.Min(6)
	{
		vs := w.Fn("core", "BlockValidator", "ValidateState")
		c.sawFunc(fname(vs))
		hdrT := w.Named("core/types", "Header")
		// comparisons that involve a header field (a load of header.F, or a block accessor named like it)
		cmpOf := map[string][]ssa.Instruction{}
		mentions := func(v ssa.Value, name string) bool {
			return derivesFrom(v, func(x ssa.Value) bool {
				if fa, ok := x.(*ssa.FieldAddr); ok && types.Identical(deref(fa.X.Type()), hdrT) {
					if f := fieldOfAddr(fa); f != nil && f.Name() == name {
						return true
					}
				}
				if cc, ok := x.(*ssa.Call); ok {
					if o := calleeObj(cc); o != nil && o.Name() == name && (recvName(o) == "Block" || recvName(o) == "Header") {
						return true
					}
				}
				return false
			})
		}
		fields := []string{"GasUsed", "Bloom", "ReceiptHash", "Root", "ValRoot", "StakingRoot"}
		for _, in := range allInstrs(vs) {
			bo, ok := in.(*ssa.BinOp)
			if !ok || (bo.Op != token.NEQ && bo.Op != token.EQL) {
				continue
			}
			for _, f := range fields {
				if mentions(bo.X, f) || mentions(bo.Y, f) {
					cmpOf[f] = append(cmpOf[f], bo)
				}
			}
		}
		// accepts(fn, f): every return of fn that may hand nil to its caller has passed a comparison of header.f —
		// made in fn itself or in a helper (same package) whose own accepting returns all passed one
		var accepts func(fn *ssa.Function, f string, depth int) (bool, string)
		cmpIn := func(fn *ssa.Function, f string) []ssa.Instruction {
			var out []ssa.Instruction
			for _, in := range allInstrs(fn) {
				bo, ok := in.(*ssa.BinOp)
				if !ok || (bo.Op != token.NEQ && bo.Op != token.EQL) {
					continue
				}
				if mentions(bo.X, f) || mentions(bo.Y, f) {
					out = append(out, bo)
				}
			}
			return out
		}
		accepts = func(fn *ssa.Function, f string, depth int) (bool, string) {
			gates := cmpIn(fn, f)
			if depth < 2 {
				for _, ci := range callInstrs(fn) {
					if g := ci.Common().StaticCallee(); g != nil && g.Pkg == fn.Pkg && g.Blocks != nil && g != fn {
						if sig := g.Signature.Results(); sig.Len() > 0 && sig.At(sig.Len()-1).Type().String() == "error" {
							if ok, _ := accepts(g, f, depth+1); ok && len(cmpInDeep(g, f, cmpIn)) > 0 {
								gates = append(gates, ci.(ssa.Instruction))
							}
						}
					}
				}
			}
			n := 0
			for _, b := range fn.Blocks {
				ret, isRet := b.Instrs[len(b.Instrs)-1].(*ssa.Return)
				if !isRet || len(ret.Results) == 0 {
					continue
				}
				rv := stripConvNoBind(ret.Results[len(ret.Results)-1])
				switch x := rv.(type) {
				case *ssa.Const:
					if !x.IsNil() {
						continue
					}
				case *ssa.MakeInterface:
					continue
				case *ssa.Call:
					if o := calleeObj(x); o != nil && (o.Name() == "Errorf" || o.Name() == "New") {
						continue
					}
				}
				n++
				if !mustPassBefore(ret, gates) {
					return false, w.Pos(ret.Pos())
				}
			}
			return n > 0, ""
		}
		_ = cmpOf
		for _, f := range fields {
			c.sites++
			ok, where := accepts(vs, f, 0)
			c.Check(fname(vs)+"#accepts-only-after-comparing-"+f, vs.Pos(), ok, ifelse(ok, "every accepting return has passed the comparison", "ValidateState can accept a block on a path ("+where+") that skipped the comparison of header."+f+": a block whose only fault is that commitment becomes canonical"))
		}
	}

	c.Rule("C11.H11", "ORDER", "a kill inside a block write leaves nothing half-known: BlockChain.HasBlock decides \"this block is known\" by one part of the block (rawdb.HasBody), and a known block is not written again on re-import — so rawdb.WriteBlock writes that part LAST (the write of the marker part is dominated by the write of the other part). Body first, header second, a kill in between: the body marks the block as known, its header never arrives, and the next side-chain import that walks over it dereferences the missing header (nil pointer panic in insertSidechain, on every restart)")
	c.Min(1)
	{
		hb := w.Fn("core", "BlockChain", "HasBlock")
		wb := w.Fn("core/rawdb", "", "WriteBlock")
		c.sawFunc(fname(hb))
		c.sawFunc(fname(wb))
		marker := ""
		for _, ci := range callInstrs(hb) {
			if o := calleeObj(ci); o != nil && (o.Name() == "HasBody" || o.Name() == "HasHeader") {
				marker = strings.TrimPrefix(o.Name(), "Has")
			}
		}
		var wm, wo []ssa.Instruction
		for _, ci := range callInstrs(wb) {
			o := calleeObj(ci)
			if o == nil || !(o.Name() == "WriteBody" || o.Name() == "WriteHeader") {
				continue
			}
			if o.Name() == "Write"+marker {
				wm = append(wm, ci.(ssa.Instruction))
			} else {
				wo = append(wo, ci.(ssa.Instruction))
			}
		}
		c.sites++
		if marker == "" || len(wm) == 0 || len(wo) == 0 {
			c.Undecided(fname(wb)+"#marker-part-written-last", wb.Pos(), "HasBlock's marker (HasBody / HasHeader) or the two part writes of WriteBlock were not found")
		} else {
			ok := true
			for _, m := range wm {
				if !mustPassBefore(m, wo) {
					ok = false
				}
			}
			c.Check(fname(wb)+"#marker-part-written-last", wm[0].Pos(), ok, ifelse(ok, "the "+strings.ToLower(marker)+" — the part HasBlock looks for — is written after the other part", "WriteBlock writes the "+strings.ToLower(marker)+" — the part by which HasBlock recognises a known block — before the other part: a kill between the two writes leaves a block that is known and never completed"))
		}
	}

	c.Rule("C11.H12", "ATOMIC", "a header becomes durable together with its place in the index: HeaderChain.WriteHeader — the header-import path of fast and light sync — hands the header, its number→hash entry and the head-header marker to ONE write batch (every rawdb.Write* call in it has the same writer, the result of NewBatch(), and the batch is written before the in-memory head moves). Written one by one, a kill after the header and before the number→hash entry leaves a header that InsertHeaderChain skips as known on re-import: the index keeps a hole below the head for good")
	c.Min(1)
	{
		wh := w.Fn("core", "HeaderChain", "WriteHeader")
		c.sawFunc(fname(wh))
		var writers []ssa.Value
		var first ssa.CallInstruction
		for _, ci := range callInstrs(wh) {
			o := calleeObj(ci)
			if o == nil || o.Pkg() == nil || o.Pkg().Path() != full("core/rawdb") || !strings.HasPrefix(o.Name(), "Write") {
				continue
			}
			if first == nil {
				first = ci
			}
			writers = append(writers, stripConv(callArgs(ci)[0]))
		}
		c.sites++
		if len(writers) < 2 {
			c.Undecided(fname(wh)+"#one-batch", wh.Pos(), "fewer than two rawdb.Write* calls found in HeaderChain.WriteHeader")
		} else {
			why := ""
			for _, wv := range writers {
				if wv != writers[0] {
					why = "the writes go to different writers"
				}
			}
			if why == "" {
				cc, isCall := writers[0].(*ssa.Call)
				if !isCall || calleeObj(cc) == nil || calleeObj(cc).Name() != "NewBatch" {
					why = "the writes go straight to the database, one put at a time"
				} else {
					// the batch is written before the in-memory head moves
					var flushes, stores []ssa.Instruction
					for _, cj := range callInstrs(wh) {
						oj := calleeObj(cj)
						if oj == nil {
							continue
						}
						if oj.Name() == "Write" && callRecv(cj) != nil && stripConv(callRecv(cj)) == writers[0] {
							flushes = append(flushes, cj.(ssa.Instruction))
						}
						if oj.Name() == "Store" {
							if fa, isFA := stripConvNoBind(callRecv(cj)).(*ssa.FieldAddr); isFA {
								if f := fieldOfAddr(fa); f != nil && f.Name() == "currentHeader" {
									stores = append(stores, cj.(ssa.Instruction))
								}
							}
						}
					}
					if len(flushes) == 0 {
						why = "the batch is never written"
					}
					for _, st := range stores {
						if !mustPassBefore(st, flushes) {
							why = "the in-memory head header moves before the batch is written"
						}
					}
				}
			}
			c.Check(fname(wh)+"#one-batch", first.Pos(), why == "", ifelse(why == "", "header, number→hash entry and head marker go through one batch that is written before the head moves", why+": a kill between the puts leaves a stored header without its index entry, which re-import skips as known"))
		}
	}

	c.Rule("C11.H13", "GATE", "a block is skipped as stored only if it is stored: every call of WriteBlockWithoutState in package core is guarded by the answer of BlockChain.HasBlock — the test that looks for the part rawdb.WriteBlock writes last — being false, not by a test of an earlier part (HasHeader): after a kill between the header and the body write the cheaper test finds the half-written side block present, it is never completed, and the re-import loop dereferences the missing block on every restart")
	c.Min(1)
	{
		wb := w.FuncObj("core", "BlockChain", "WriteBlockWithoutState")
		hb := w.FuncObj("core", "BlockChain", "HasBlock")
		n := 0
		for _, fn := range w.FuncsIn("core") {
			if fn.Blocks == nil || strings.HasSuffix(w.fileOf(fn.Pos()), "_test.go") {
				continue
			}
			for k, ci := range callsTo(fn, wb) {
				n++
				c.sites++
				c.sawFunc(fname(fn))
				guard := ""
				okG := false
				for _, a := range atomsOf(factsAt(ci.Block())) {
					if a.Kind != "true" {
						continue
					}
					if cc, isCall := stripConvNoBind(a.X).(*ssa.Call); isCall {
						if o := calleeObj(cc); o != nil && strings.HasPrefix(o.Name(), "Has") {
							guard = o.Name()
							if o == hb && !a.Truth {
								okG = true
							}
						}
					}
				}
				c.Check(fmt.Sprintf("%s#write-without-state-%d-only-if-not-HasBlock", fname(fn), k), ci.Pos(), okG, ifelse(okG, "guarded by !HasBlock", "the write of a block without state is guarded by "+ifelse(guard != "", guard, "no presence test")+", not by HasBlock: a half-written block (header durable, body missing) counts as stored and is never completed"))
			}
		}
		if n == 0 {
			c.Undecided("core#WriteBlockWithoutState-callers", token.NoPos, "no call of WriteBlockWithoutState found in package core")
		}
	}

	c.Rule("C11.H10", "ALWAYS-WITH", "the head is one block: setHeadBlock, the in-memory head setter used by insert and at the end of a reorganisation, moves the head header (hc.currentHeader) and the head block (currentBlock) together on every path. Moving the header only forward leaves CurrentHeader() on the dropped branch's tip after a competing branch of equal or lower height became canonical — neither the head block's header nor the canonical header of its number, and different from what a restart reads from the markers")
	c.Min(1)
	{
		sh := w.Fn("core", "BlockChain", "setHeadBlock")
		c.sawFunc(fname(sh))
		var hdrStores, blkStores []ssa.Instruction
		for _, ci := range callInstrs(sh) {
			o := calleeObj(ci)
			if o == nil || o.Name() != "Store" {
				continue
			}
			r := callRecv(ci)
			if r == nil {
				continue
			}
			fa, ok := stripConvNoBind(r).(*ssa.FieldAddr)
			if !ok {
				continue
			}
			if f := fieldOfAddr(fa); f != nil {
				switch f.Name() {
				case "currentHeader":
					hdrStores = append(hdrStores, ci.(ssa.Instruction))
				case "currentBlock":
					blkStores = append(blkStores, ci.(ssa.Instruction))
				}
			}
		}
		c.sites++
		if len(blkStores) == 0 {
			c.Undecided(fname(sh)+"#head-header-with-head-block", sh.Pos(), "no store of currentBlock found in setHeadBlock")
		} else {
			ok := len(hdrStores) > 0
			for _, bs := range blkStores {
				if !alwaysWith(bs, hdrStores) {
					ok = false
				}
			}
			c.Check(fname(sh)+"#head-header-with-head-block", blkStores[0].Pos(), ok, ifelse(ok, "the head header is stored on every path that stores the head block", "the head block can be replaced without the head header being replaced with it: CurrentHeader() and CurrentBlock() name different blocks"))
		}
	}
}

// cmpInDeep: the comparisons of header.f in fn or in the same-package helpers it calls (one level).
func cmpInDeep(fn *ssa.Function, f string, cmpIn func(*ssa.Function, string) []ssa.Instruction) []ssa.Instruction {
	out := cmpIn(fn, f)
	for _, ci := range callInstrs(fn) {
		if g := ci.Common().StaticCallee(); g != nil && g.Pkg == fn.Pkg && g.Blocks != nil && g != fn {
			out = append(out, cmpIn(g, f)...)
		}
	}
	return out
}

#!/bin/bash
# Development aid: confirms a seeded change in a scratch worktree (never in /repo):
#   demo passes without the change; with it the tree builds, the touched packages' tests pass, the demo fails.
# usage: confirm_mutant.sh <name> <mutant-dir> <demo-dest-relative-path> <demo-pkg> <run-pattern> <pkgs-to-test...>
export GOFLAGS=-mod=mod GOPROXY=off GOSUMDB=off GOTOOLCHAIN=local
unset GOWORK
NAME=$1; DIR=$2; DEST=$3; DPKG=$4; PAT=$5; shift 5
WT=/tmp/confirm-$NAME
git -C /repo worktree add -q --force $WT HEAD || exit 2
cd $WT
DEMO=$(ls $DIR/demo*.txt | head -1)
cp $DEMO $DEST
echo "[1] demo WITHOUT the change:"; go test -vet=off -count=1 -run "$PAT" $DPKG 2>&1 | tail -3; R1=${PIPESTATUS[0]}
rm -f $DEST
git apply $DIR/patch.diff || { echo "PATCH DOES NOT APPLY"; cd /; git -C /repo worktree remove --force $WT; exit 2; }
echo "[2] build:"; go build ./... 2>&1 | tail -3; R2=${PIPESTATUS[0]}
echo "[3] existing tests of touched packages: $@"; go test -vet=off -count=1 "$@" 2>&1 | tail -5; R3=${PIPESTATUS[0]}
cp $DEMO $DEST
echo "[4] demo WITH the change:"; go test -vet=off -count=1 -run "$PAT" $DPKG 2>&1 | grep -E "^(--- FAIL|FAIL|ok|panic)" | head -5; R4=${PIPESTATUS[0]}
cd /; git -C /repo worktree remove --force $WT
echo "RESULT $NAME demo_without=$R1 build=$R2 tests=$R3 demo_with=$R4"
[ $R1 = 0 ] && [ $R2 = 0 ] && [ $R3 = 0 ] && [ $R4 != 0 ] && echo "CONFIRMED $NAME" || echo "NOT-CONFIRMED $NAME"

#!/bin/sh
# Development aid: runs the thorough tier (rules + seeded self-test variants) of every property
# and prints one line per variant. Not registered in MANIFEST.
export GOFLAGS=-mod=mod GOPROXY=off GOSUMDB=off GOTOOLCHAIN=local
unset GOWORK
for p in ${@:-C01 C02 C03 C04 C05 C06 C07 C08 C09 C10 C11 C12 C13 C14 C15 C16 C17 C18 C19 C20}; do
  /verif/bin/ycheck -property $p -tier thorough | grep -v "^KNOWN-FINDING" | cut -c1-300
  python3 - $p <<'PY'
import json,sys
e=json.load(open('/verif/evidence/%s.json'%sys.argv[1]))
for s in e['coverage'].get('selftest',[]):
    print('   ', s['variant'], 'FIRED' if s['fired'] else ('SKIPPED '+s.get('skipped','') if s.get('skipped') else 'SILENT'), (s.get('detail','') or '')[:140])
PY
done

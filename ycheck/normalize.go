package main

import (
	_ "embed"
	"encoding/json"
	"fmt"
	"go/ast"
	"go/token"
	"go/types"
	"os"
	"sort"
	"strings"

	"golang.org/x/tools/go/packages"
)

// Rename normalisation.
//
// The rules name the constructs they judge: functions, methods, struct fields
// and a few parameters. A consistent rename leaves behaviour unchanged, so it
// must not change a verdict. symbols.json (written by `ycheck -snapshot-symbols`,
// committed and embedded) records, for every package of the repository, the
// fields of its struct types and the signature, parameter names and callee set
// of its functions. After loading, the current declarations are compared with
// the record:
//
//   - a struct field whose name is not recorded, at the position and with the
//     type of a recorded field whose name is gone, is that field renamed;
//   - a function or method whose name is not recorded, with the receiver and
//     signature of a recorded one whose name is gone and the closest callee set
//     (Jaccard ≥ 0.6, clearly ahead of the runner-up), is that function renamed;
//   - a parameter of a recorded function with the recorded type and another
//     name is that parameter renamed (unless the recorded name is taken in the
//     function's scope).
//
// If anything was renamed, every identifier that refers to a renamed object is
// rewritten to the recorded name in an in-memory overlay and the program is
// loaded again; the rules then run on source that differs from the working
// tree only in those names (lines are unchanged). The run prints what it took
// to be renamed. If the rewritten program does not type-check, the
// normalisation is dropped and the working tree is analysed as it is.

type fieldSnap struct {
	Name string `json:"n"`
	Type string `json:"t"`
}

type funcSnap struct {
	Sig     string   `json:"sig"`
	Params  []string `json:"params"`
	Callees []string `json:"callees,omitempty"`
}

type symbolSnap struct {
	Structs map[string][]fieldSnap `json:"structs"` // "pkgpath.Type"
	Funcs   map[string]funcSnap    `json:"funcs"`   // "pkgpath|recv|name"
}

//go:embed symbols.json
var symbolsJSON []byte

func qual(p *types.Package) string { return p.Path() }

func repoPackages(w *World) []*packages.Package {
	var out []*packages.Package
	for path, p := range w.Pkgs {
		if strings.HasPrefix(path, modPath) {
			out = append(out, p)
		}
	}
	sort.Slice(out, func(i, j int) bool { return out[i].PkgPath < out[j].PkgPath })
	return out
}

func recvTypeName(f *types.Func) string {
	sig := f.Type().(*types.Signature)
	if sig.Recv() == nil {
		return ""
	}
	t := sig.Recv().Type()
	if p, ok := t.(*types.Pointer); ok {
		t = p.Elem()
	}
	if n, ok := t.(*types.Named); ok {
		return n.Obj().Name()
	}
	return "?"
}

// declaredFuncs lists the functions and methods with a body declared in p (non-test files).
func declaredFuncs(w *World, p *packages.Package) []*types.Func {
	var out []*types.Func
	for _, f := range p.Syntax {
		if strings.HasSuffix(w.Fset.Position(f.Pos()).Filename, "_test.go") {
			continue
		}
		for _, d := range f.Decls {
			if fd, ok := d.(*ast.FuncDecl); ok && fd.Body != nil {
				if obj, ok := p.TypesInfo.Defs[fd.Name].(*types.Func); ok {
					out = append(out, obj)
				}
			}
		}
	}
	return out
}

func takeSymbolSnapshot(w *World) symbolSnap {
	s := symbolSnap{Structs: map[string][]fieldSnap{}, Funcs: map[string]funcSnap{}}
	for _, p := range repoPackages(w) {
		sc := p.Types.Scope()
		for _, n := range sc.Names() {
			tn, ok := sc.Lookup(n).(*types.TypeName)
			if !ok || tn.IsAlias() {
				continue
			}
			st, ok := tn.Type().Underlying().(*types.Struct)
			if !ok {
				continue
			}
			var fs []fieldSnap
			for i := 0; i < st.NumFields(); i++ {
				fs = append(fs, fieldSnap{st.Field(i).Name(), types.TypeString(st.Field(i).Type(), qual)})
			}
			s.Structs[p.PkgPath+"."+n] = fs
		}
		for _, f := range declaredFuncs(w, p) {
			sig := f.Type().(*types.Signature)
			fs := funcSnap{Sig: sigString(sig)}
			for i := 0; i < sig.Params().Len(); i++ {
				fs.Params = append(fs.Params, sig.Params().At(i).Name())
			}
			if fp, ok := w.fingerprint(f); ok {
				fs.Callees = fp.Callees
			}
			s.Funcs[p.PkgPath+"|"+recvTypeName(f)+"|"+f.Name()] = fs
		}
	}
	return s
}

func writeSymbolSnapshot(w *World, file string) {
	s := takeSymbolSnapshot(w)
	b, _ := json.Marshal(s)
	os.WriteFile(file, append(b, '\n'), 0o644)
	fmt.Printf("wrote %d struct layouts and %d function records to %s\n", len(s.Structs), len(s.Funcs), file)
}

func jaccard(a, b []string) float64 {
	as := map[string]bool{}
	for _, x := range a {
		as[x] = true
	}
	inter, union := 0, len(as)
	for _, x := range b {
		if as[x] {
			inter++
		} else {
			union++
		}
	}
	if union == 0 {
		return 1
	}
	return float64(inter) / float64(union)
}

// detectRenames returns object -> recorded name, and notes for the run.
func detectRenames(w *World) (map[types.Object]string, []string) {
	var snap symbolSnap
	if json.Unmarshal(symbolsJSON, &snap) != nil || len(snap.Funcs) == 0 {
		return nil, nil
	}
	ren := map[types.Object]string{}
	var notes []string
	for _, p := range repoPackages(w) {
		sc := p.Types.Scope()
		// ---- struct types: a struct type with an unrecorded name and the fields of a recorded one whose name is gone
		typeOld := map[string]string{} // current name -> recorded name
		{
			var missing []string
			for k := range snap.Structs {
				if strings.HasPrefix(k, p.PkgPath+".") && !strings.Contains(strings.TrimPrefix(k, p.PkgPath+"."), ".") {
					n := strings.TrimPrefix(k, p.PkgPath+".")
					if sc.Lookup(n) == nil {
						missing = append(missing, n)
					}
				}
			}
			sort.Strings(missing)
			for _, on := range missing {
				want := snap.Structs[p.PkgPath+"."+on]
				var cands []*types.TypeName
				for _, n := range sc.Names() {
					tn, ok := sc.Lookup(n).(*types.TypeName)
					if !ok || tn.IsAlias() {
						continue
					}
					if _, recorded := snap.Structs[p.PkgPath+"."+n]; recorded {
						continue
					}
					st, ok := tn.Type().Underlying().(*types.Struct)
					if !ok || st.NumFields() != len(want) {
						continue
					}
					same := true
					for i := 0; i < st.NumFields(); i++ {
						ct := strings.ReplaceAll(types.TypeString(st.Field(i).Type(), qual), p.PkgPath+"."+n, p.PkgPath+"."+on)
						if st.Field(i).Name() != want[i].Name || ct != want[i].Type {
							same = false
						}
					}
					if same {
						cands = append(cands, tn)
					}
				}
				if len(cands) == 1 && len(want) > 0 {
					ren[cands[0]] = on
					typeOld[cands[0].Name()] = on
					notes = append(notes, fmt.Sprintf("type %s.%s is taken to be the recorded type %s renamed (same fields)", strings.TrimPrefix(p.PkgPath, modPath+"/"), cands[0].Name(), on))
				}
			}
		}
		oldRecv := func(f *types.Func) string {
			r := recvTypeName(f)
			if o, has := typeOld[r]; has {
				return o
			}
			return r
		}
		// ---- struct fields
		for _, n := range sc.Names() {
			tn, ok := sc.Lookup(n).(*types.TypeName)
			if !ok || tn.IsAlias() {
				continue
			}
			st, ok := tn.Type().Underlying().(*types.Struct)
			if !ok {
				continue
			}
			recName := n
			if o, has := typeOld[n]; has {
				recName = o
			}
			old, has := snap.Structs[p.PkgPath+"."+recName]
			if !has {
				continue
			}
			curNames, oldNames := map[string]bool{}, map[string]bool{}
			for i := 0; i < st.NumFields(); i++ {
				curNames[st.Field(i).Name()] = true
			}
			for _, f := range old {
				oldNames[f.Name] = true
			}
			for i, of := range old {
				if curNames[of.Name] || of.Name == "_" {
					continue // still there
				}
				// candidates: current fields with an unrecorded name and the recorded type; prefer the same position
				var cands []*types.Var
				for j := 0; j < st.NumFields(); j++ {
					cf := st.Field(j)
					if !oldNames[cf.Name()] && !cf.Embedded() && types.TypeString(cf.Type(), qual) == of.Type {
						if j == i && len(old) == st.NumFields() {
							cands = []*types.Var{cf}
							break
						}
						cands = append(cands, cf)
					}
				}
				if len(cands) == 1 {
					ren[cands[0]] = of.Name
					notes = append(notes, fmt.Sprintf("field %s.%s.%s is taken to be the recorded field %s renamed (same type%s)", strings.TrimPrefix(p.PkgPath, modPath+"/"), n, cands[0].Name(), of.Name, ifelse(len(old) == st.NumFields(), ", same position", "")))
				}
			}
		}
		// ---- functions and methods
		cur := map[string]*types.Func{}
		byRecv := map[string][]*types.Func{}
		for _, f := range declaredFuncs(w, p) {
			k := oldRecv(f) + "|" + f.Name()
			cur[k] = f
			byRecv[oldRecv(f)] = append(byRecv[oldRecv(f)], f)
		}
		prefix := p.PkgPath + "|"
		var missing []string
		for k := range snap.Funcs {
			if strings.HasPrefix(k, prefix) {
				if _, has := cur[strings.TrimPrefix(k, prefix)]; !has {
					missing = append(missing, strings.TrimPrefix(k, prefix))
				}
			}
		}
		sort.Strings(missing)
		taken := map[*types.Func]bool{}
		for _, mk := range missing {
			parts := strings.SplitN(mk, "|", 2)
			recv, oldName := parts[0], parts[1]
			want := snap.Funcs[prefix+mk]
			best, second := 0.0, 0.0
			var bestF *types.Func
			for _, f := range byRecv[recv] {
				if _, recorded := snap.Funcs[prefix+recv+"|"+f.Name()]; recorded || taken[f] {
					continue
				}
				if normSig(sigString(f.Type().(*types.Signature)), p.PkgPath, typeOld) != want.Sig {
					continue
				}
				fp, _ := w.fingerprint(f)
				sc := jaccard(want.Callees, fp.Callees)
				if sc > best {
					best, second, bestF = sc, best, f
				} else if sc > second {
					second = sc
				}
			}
			if bestF != nil && best >= 0.6 && best-second >= 0.15 {
				ren[bestF] = oldName
				taken[bestF] = true
				notes = append(notes, fmt.Sprintf("function %s is taken to be the recorded %s renamed (same receiver and signature, %.0f%% of the recorded callees)", fnLabel(p.PkgPath, recv, bestF.Name()), oldName, best*100))
			}
		}
		// ---- parameters of recorded functions
		for k, f := range cur {
			name := f.Name()
			if o, isRen := ren[f]; isRen {
				name = o
			}
			want, has := snap.Funcs[prefix+oldRecv(f)+"|"+name]
			_ = k
			if !has {
				continue
			}
			sig := f.Type().(*types.Signature)
			if sig.Params().Len() != len(want.Params) || normSig(sigString(sig), p.PkgPath, typeOld) != want.Sig {
				continue
			}
			for i := 0; i < sig.Params().Len(); i++ {
				pv := sig.Params().At(i)
				on := want.Params[i]
				if pv.Name() == on || on == "" || on == "_" || pv.Name() == "" || pv.Name() == "_" {
					continue
				}
				// the recorded name must be free in the function's scope
				fd := w.declOf[f]
				if fd == nil || fd.Body == nil {
					continue
				}
				free := true
				ast.Inspect(fd, func(n ast.Node) bool {
					if id, ok := n.(*ast.Ident); ok && id.Name == on {
						free = false
					}
					return free
				})
				if free {
					ren[pv] = on
					notes = append(notes, fmt.Sprintf("parameter %s of %s is taken to be the recorded parameter %s renamed", pv.Name(), fnLabel(p.PkgPath, recvTypeName(f), f.Name()), on))
				}
			}
		}
	}
	return ren, notes
}

func fnLabel(pkg, recv, name string) string {
	pkg = strings.TrimPrefix(pkg, modPath+"/")
	if recv == "" {
		return pkg + "." + name
	}
	return "(" + pkg + "." + recv + ")." + name
}

// renameOverlay rewrites every identifier that refers to a renamed object.
func renameOverlay(w *World, ren map[types.Object]string, base map[string][]byte) (map[string][]byte, error) {
	type edit struct {
		off, n int
		text   string
	}
	edits := map[string][]edit{}
	seen := map[token.Pos]bool{}
	for _, p := range repoPackages(w) {
		add := func(id *ast.Ident, obj types.Object) {
			on, has := ren[obj]
			if !has || seen[id.Pos()] || id.Name == on {
				return
			}
			seen[id.Pos()] = true
			pos := w.Fset.Position(id.Pos())
			edits[pos.Filename] = append(edits[pos.Filename], edit{pos.Offset, len(id.Name), on})
		}
		for id, obj := range p.TypesInfo.Defs {
			if obj != nil {
				add(id, obj)
			}
		}
		for id, obj := range p.TypesInfo.Uses {
			add(id, obj)
		}
	}
	out := map[string][]byte{}
	for k, v := range base {
		out[k] = v
	}
	for file, es := range edits {
		src, ok := out[file]
		if !ok {
			b, err := os.ReadFile(file)
			if err != nil {
				return nil, err
			}
			src = b
		}
		sort.Slice(es, func(i, j int) bool { return es[i].off > es[j].off })
		s := string(src)
		for _, e := range es {
			if e.off+e.n > len(s) {
				return nil, fmt.Errorf("edit out of range in %s", file)
			}
			s = s[:e.off] + e.text + s[e.off+e.n:]
		}
		out[file] = []byte(s)
	}
	return out, nil
}

// loadWorldNormalized loads the program and, if recorded constructs were
// renamed, loads it again with the recorded names restored.
func loadWorldNormalized(repo string, overlay map[string][]byte, tags string) (*World, error) {
	w, err := loadWorld(repo, overlay, tags)
	if err != nil {
		return nil, err
	}
	ren, notes := detectRenames(w)
	if len(ren) == 0 {
		return w, nil
	}
	ov, err := renameOverlay(w, ren, overlay)
	if err != nil {
		fmt.Println("NOTE: rename normalisation dropped:", err)
		return w, nil
	}
	w2, err := loadWorld(repo, ov, tags)
	if err != nil {
		fmt.Println("NOTE: rename normalisation dropped (the program with the recorded names does not type-check); analysing the tree as it is")
		return loadWorld(repo, overlay, tags)
	}
	sort.Strings(notes)
	for _, n := range notes {
		fmt.Println("NOTE: rename normalisation:", n)
	}
	w2.RenameNotes = notes
	return w2, nil
}

// normSig rewrites the current names of renamed types in a signature string to
// their recorded names.
func normSig(sig, pkg string, typeOld map[string]string) string {
	for cur, old := range typeOld {
		sig = strings.ReplaceAll(sig, pkg+"."+cur, pkg+"."+old)
	}
	return sig
}

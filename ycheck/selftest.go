package main

import (
	"fmt"
	"os"
	"path/filepath"
	"runtime"
	"strings"
)

// Variant is one seeded edit of the current source, applied in memory through
// a go/packages overlay. Nothing is written to the repository and nothing is
// executed; the variant is only analysed. The named rule must fire on it.
type Variant struct {
	Name      string
	File      string // path relative to the repository root
	Old, New  string // first occurrence of Old is replaced by New
	Edits     [][2]string
	Rule      string // rule expected to report a violation
	Construct string // substring expected in the violated construct ("" = any)
}

// runSelfTest analyses every variant of a property. A variant whose anchor
// text is no longer in the source is skipped (the source was edited; that is
// not a defect of the code). A variant on which the rule stays silent makes the
// run undecided: the checker, not the code, is at fault.
func runSelfTest(c *Ctx, p *propDef, verif string) {
	base := map[string]bool{}
	for _, o := range c.Obs {
		if o.Status == Violated {
			base[o.Rule+"|"+o.Construct] = true
		}
	}
	for _, v := range p.Variants() {
		res := SelfTestResult{Variant: v.Name, Rule: v.Rule, Expect: v.Construct}
		path := filepath.Join(c.W.RepoDir, v.File)
		src, err := os.ReadFile(path)
		if err != nil {
			res.Skipped = "file not present: " + v.File
			c.selfTest = append(c.selfTest, res)
			continue
		}
		edits := v.Edits
		if v.Old != "" {
			edits = append([][2]string{{v.Old, v.New}}, edits...)
		}
		text := string(src)
		stale := false
		for _, e := range edits {
			if !strings.Contains(text, e[0]) {
				stale = true
				break
			}
			text = strings.Replace(text, e[0], e[1], 1)
		}
		if stale {
			fmt.Printf("  selftest: variant %s skipped: its anchor text is not in the current source\n", v.Name)
			res.Skipped = "anchor text of the variant is not in the current source"
			c.selfTest = append(c.selfTest, res)
			continue
		}
		w2, err := loadWorld(c.W.RepoDir, map[string][]byte{path: []byte(text)}, "")
		if err != nil {
			res.Skipped = "variant does not load: " + firstLine(err.Error())
			c.selfTest = append(c.selfTest, res)
			c.curRule = v.Rule
			c.add("selftest:"+v.Name, 0, Undecided, "seeded variant does not type-check: "+err.Error())
			continue
		}
		c2 := runRules(w2, p, "quick")
		for _, o := range c2.Obs {
			if o.Status == Violated && o.Rule == v.Rule && strings.Contains(o.Construct, v.Construct) && !base[o.Rule+"|"+o.Construct] {
				res.Fired = true
				res.Detail = o.Construct + ": " + o.Detail
				break
			}
		}
		if !res.Fired {
			var others []string
			for _, o := range c2.Obs {
				if o.Status != Discharged {
					others = append(others, fmt.Sprintf("%s/%s/%s", o.Rule, o.Construct, o.Status))
				}
			}
			res.Detail = "rule stayed silent; non-discharged on the variant: " + strings.Join(others, ", ")
			c.curRule = v.Rule
			c.add("selftest:"+v.Name, 0, Undecided, "the rule did not fire on a seeded variant that breaks it ("+res.Detail+")")
		}
		c.selfTest = append(c.selfTest, res)
		w2 = nil
		c2 = nil
		runtime.GC()
	}
}

func firstLine(s string) string {
	if i := strings.IndexByte(s, '\n'); i >= 0 {
		return s[:i]
	}
	return s
}

package main

import (
	"fmt"
	"go/token"
	"go/types"
	"sort"
	"strings"

	"golang.org/x/tools/go/ssa"
)

// C08 — validator-set totals, indexes and delegation links match the records.

func init() {
	register(&propDef{
		ID:          "C08",
		Explanation: "That the maintained totals equal a recomputation is a value property and is not decided. Decided (structure, SSA of core/state, staking, consensus/ucon): the live validator map and the statistics have tabled writers only; UpdateValidator adjusts the statistics by (−old, +new) unless StakeEqual, CreateValidator adds the new record, and each undo entry applies the opposite adjustment to the opposite records (V1); every validator field the statistics read (bucket choice and amounts) is compared by StakeEqual, so the skip test cannot hide a change the statistics depend on (V2); every change of a Stake/SelfStake amount derives from params.YOUToStake of the matching token amount, or is a tabled copy/decode/aggregate (V3); UpdateDelegation updates both the validator and the delegator side on every effective path, and the delegator side updates list and balance together (V4); sortition reads the maintained totals through GetStakeByKind (V5).",
		Assumptions: []string{"UpdateValidator's callers pass as old the record currently stored (C07.P1 checks single use)", "silent clamping in subStake/subToken is not reached when V1 holds"},
		Run:         runC08,
		Variants:    c08Variants,
	})
}

func runC08(c *Ctx) {
	w := c.W
	setVal := w.FuncObj(statePkg, "StateDB", "setValidator")
	incr := w.FuncObj(statePkg, "StateDB", "incrValidatorsStat")
	decr := w.FuncObj(statePkg, "StateDB", "decrValidatorsStat")
	stakeEq := w.FuncObj(statePkg, "Validator", "StakeEqual")

	// ------------------------------------------------------------ V1
	c.Rule("C08.V1", "CONFINED+MIRROR", "setValidator, incr/decrValidatorsStat and stores to the live validator map are called from tabled functions only; UpdateValidator calls decr(old) and incr(new) exactly under !new.StakeEqual(old); CreateValidator calls incr(new) with the insertion; validatorUpdateChange.revert calls decr(new), incr(old) under the same test; validatorCreateChange.revert calls decr of the stored record")
	c.Min(12)
	confine := func(callee *types.Func, allowed map[string]bool) {
		for _, fn := range w.AllFuncs() {
			if strings.HasSuffix(w.fileOf(fn.Pos()), "_test.go") {
				continue
			}
			for _, ci := range callsTo(fn, callee) {
				c.sites++
				n := outerName(fname(fn))
				c.Check(n+"#calls-"+callee.Name(), ci.Pos(), allowed[n], ifelse(allowed[n], "tabled caller", "unexpected caller of "+callee.Name()+": the live validator set or its statistics change outside the reviewed operations"))
			}
		}
	}
	confine(setVal, map[string]bool{"(core/state.StateDB).getValidator": true, "(core/state.StateDB).CreateValidator": true, "(core/state.StateDB).UpdateValidator": true, "(core/state.validatorDeleteChange).revert": true, "(core/state.validatorUpdateChange).revert": true})
	statCallers := map[string]bool{"(core/state.StateDB).UpdateValidator": true, "(core/state.StateDB).CreateValidator": true, "(core/state.StateDB).RemoveValidator": true, "(core/state.StateDB).deleteValidator": true, "(core/state.validatorUpdateChange).revert": true, "(core/state.validatorCreateChange).revert": true, "(core/state.validatorDeleteChange).revert": true}
	confine(incr, statCallers)
	confine(decr, statCallers)
	// AddVal / SubVal only from incr/decr
	confine(w.FuncObj(statePkg, "ValKindStat", "AddVal"), map[string]bool{"(core/state.StateDB).incrValidatorsStat": true})
	confine(w.FuncObj(statePkg, "ValKindStat", "SubVal"), map[string]bool{"(core/state.StateDB).decrValidatorsStat": true})

	checkAdjust := func(fn *ssa.Function, decArg, incArg func(v ssa.Value) bool, what string) {
		c.sawFunc(fname(fn))
		ds, is := callsTo(fn, decr), callsTo(fn, incr)
		ses := callsTo(fn, stakeEq)
		ok := len(ds) == 1 && len(is) == 1 && len(ses) == 1
		why := ""
		if !ok {
			why = fmt.Sprintf("expected one decr, one incr and one StakeEqual (found %d, %d, %d)", len(ds), len(is), len(ses))
		} else {
			if !decArg(callArgs(ds[0])[0]) || !incArg(callArgs(is[0])[0]) {
				ok = false
				why = "the statistics are decremented/incremented with the wrong record"
			}
			if !(gatedByBool(ds[0], ses[0], 0, false) && gatedByBool(is[0], ses[0], 0, false)) {
				ok = false
				why = "the adjustment is not made exactly when StakeEqual is false"
			}
			// StakeEqual compares the two records of this operation
			if ok {
				a := callArgs(ses[0])
				r := callRecv(ses[0])
				if !((decArg(a[0]) && incArgLoose(incArg, r)) || (incArg(a[0]) && incArgLoose(decArg, r))) {
					ok = false
					why = "StakeEqual does not compare the old and the new record"
				}
			}
		}
		c.Check(fname(fn)+"#statistics-adjustment", fn.Pos(), ok, ifelse(ok, what, why+": the totals consensus reads drift from the records"))
	}
	uv := w.Fn(statePkg, "StateDB", "UpdateValidator")
	isParam := func(fn *ssa.Function, i int) func(ssa.Value) bool {
		return func(v ssa.Value) bool {
			v = stripConv(v)
			if u, ok := v.(*ssa.UnOp); ok {
				v = u.X
			}
			return v == ssa.Value(fn.Params[i])
		}
	}
	checkAdjust(uv, isParam(uv, 2), isParam(uv, 1), "decr(old), incr(new) under !new.StakeEqual(old)")
	ur := lookupMethod(w, w.Named(statePkg, "validatorUpdateChange"), "revert")
	isEntryField := func(fn *ssa.Function, field string) func(ssa.Value) bool {
		return func(v ssa.Value) bool {
			v = stripConv(v)
			if u, ok := v.(*ssa.UnOp); ok {
				if f, _ := loadedField(u.X); f != nil && f.Name() == field {
					return true
				}
			}
			f, _ := loadedField(v)
			return f != nil && f.Name() == field
		}
	}
	if ur == nil {
		c.Undecided("validatorUpdateChange.revert", 0, "revert method not found")
	} else {
		checkAdjust(ur, isEntryField(ur, "newVal"), isEntryField(ur, "oldVal"), "undo: decr(new), incr(old) under the same test")
		// and re-installs the old record
		re := false
		for _, ci := range callsTo(ur, setVal) {
			if isEntryField(ur, "oldVal")(callArgs(ci)[0]) {
				re = true
			}
		}
		c.Check(fname(ur)+"#reinstalls-old", ur.Pos(), re, ifelse(re, "setValidator(oldVal)", "the undo of a validator update does not re-install the previous record"))
	}
	cv := w.Fn(statePkg, "StateDB", "CreateValidator")
	c.sawFunc(fname(cv))
	is := callsTo(cv, incr)
	svs := callsTo(cv, setVal)
	okc := len(is) == 1 && len(svs) == 1 && samePath(callArgs(is[0])[0], callArgs(svs[0])[0]) && alwaysWith(svs[0], []ssa.Instruction{is[0]})
	c.Check(fname(cv)+"#statistics-adjustment", cv.Pos(), okc, ifelse(okc, "incr(newVal) on the same paths as the insertion", "a created validator is inserted without being added to the statistics (or the reverse)"))
	cr := lookupMethod(w, w.Named(statePkg, "validatorCreateChange"), "revert")
	if cr != nil {
		c.sawFunc(fname(cr))
		ds := callsTo(cr, decr)
		del := false
		for _, ci := range callInstrs(cr) {
			if o := calleeObj(ci); o != nil && o.Name() == "Delete" && recvName(o) == "Map" {
				del = true
			}
		}
		idx := len(callsTo(cr, w.FuncObj(statePkg, "ValidatorIndex", "Delete"))) == 1
		ok := len(ds) == 1 && del && idx
		c.Check(fname(cr)+"#undo", cr.Pos(), ok, ifelse(ok, "decr of the stored record, removal from the live map and from the index", "the undo of a validator creation does not remove it from statistics, live map and index alike"))
	}

	// ------------------------------------------------------------ V2
	c.Rule("C08.V2", "EXHAUSTIVE", "the validator fields read by ValKindStat.AddVal/SubVal and by the bucket choice in incr/decrValidatorsStat (incl. Kind() = f(Role)) are all compared by Validator.StakeEqual")
	c.Min(1)
	valT := w.Struct(statePkg, "Validator")
	readFields := func(fns ...*ssa.Function) map[string]bool {
		out := map[string]bool{}
		for _, fn := range fns {
			for _, b := range fn.Blocks {
				for _, in := range b.Instrs {
					// a field that is read only to be logged does not feed the statistics
					if v := valueOf(in); v != nil {
						if f, _ := loadedField(v); f != nil && ownerOfField(valT, f) {
							if only, _ := w.flowsOnlyToLogging(v); !only {
								out[f.Name()] = true
							}
						}
					}
					if fa, ok := in.(*ssa.FieldAddr); ok {
						if f := fieldOfAddr(fa); f != nil && ownerOfField(valT, f) {
							if only, _ := w.flowsOnlyToLogging(fa); !only {
								out[f.Name()] = true
							}
						}
					}
				}
			}
		}
		return out
	}
	statReads := readFields(w.Fn(statePkg, "ValKindStat", "AddVal"), w.Fn(statePkg, "ValKindStat", "SubVal"), w.Fn(statePkg, "StateDB", "incrValidatorsStat"), w.Fn(statePkg, "StateDB", "decrValidatorsStat"), w.Fn(statePkg, "Validator", "Kind"))
	eqReads := readFields(w.Fn(statePkg, "Validator", "StakeEqual"))
	var missing []string
	for f := range statReads {
		if !eqReads[f] {
			missing = append(missing, f)
		}
	}
	sort.Strings(missing)
	c.sites++
	c.Check("(core/state.Validator).StakeEqual#covers-statistics-inputs", w.Fn(statePkg, "Validator", "StakeEqual").Pos(), len(missing) == 0 && len(statReads) >= 4, ifelse(len(missing) == 0, fmt.Sprintf("statistics read %v, all compared", sortedBoolKeys(statReads)), "the statistics depend on Validator."+strings.Join(missing, ", Validator.")+" which StakeEqual does not compare: an update that changes only that field skips the statistics adjustment"))

	// ------------------------------------------------------------ V3
	c.Rule("C08.V3", "PROVENANCE", "every in-place change of a Stake / SelfStake amount (validator or delegation) takes an operand derived from params.YOUToStake of a token amount — directly or as the difference of two such values — or is a tabled copy, decoder or aggregate")
	c.Min(8)
	c08V3(c, w)

	// ------------------------------------------------------------ V4
	c.Rule("C08.V4", "EXIT+ALWAYS-WITH", "UpdateDelegation on every path that is not an explicit no-op passes both UpdateValidator and UpdateDelegator for the same delegator and validator; UpdateDelegator updates the delegation list and the delegation balance together")
	c.Min(3)
	ud := w.Fn(statePkg, "StateDB", "UpdateDelegation")
	c.sawFunc(fname(ud))
	uvc := callsTo(ud, uv.Object().(*types.Func))
	udc := callsTo(ud, w.FuncObj(statePkg, "StateDB", "UpdateDelegator"))
	noop := constOf(w, "params", "Noop")
	for i, b := range ud.Blocks {
		r, ok := b.Instrs[len(b.Instrs)-1].(*ssa.Return)
		if !ok || b == ud.Recover {
			continue
		}
		_ = i
		c.sites++
		// explicit no-op: returns params.Noop as status
		isNoop := false
		if cv, ok := stripConv(r.Results[3]).(*ssa.Const); ok && cv.Value != nil && cv.Value.String() == noop.String() {
			isNoop = true
		}
		both := mustPassBefore(r, callsAsInstrs(uvc)) && mustPassBefore(r, callsAsInstrs(udc))
		c.Check(fmt.Sprintf("%s#return@%s", fname(ud), blockOrdinal(ud, b)), r.Pos(), isNoop || both, ifelse(isNoop, "explicit no-op return", ifelse(both, "both sides updated", "a delegation change returns having updated only one side: validator and delegator disagree on who delegates to whom")))
	}
	if len(uvc) == 1 && len(udc) == 1 {
		// same pair: UpdateDelegator(d, val.MainAddress(), …) with d = the delegator parameter
		a := callArgs(udc[0])
		same := stripConv(a[0]) == ssa.Value(ud.Params[1]) && derivesFrom(a[1], func(v ssa.Value) bool { return v == ssa.Value(ud.Params[2]) })
		c.Check(fname(ud)+"#same-pair", udc[0].Pos(), same, ifelse(same, "the delegator side is updated for (d, val.MainAddress())", "the delegator side is updated for a different delegator/validator than the validator side"))
	}
	udr := w.Fn(statePkg, "StateDB", "UpdateDelegator")
	c.sawFunc(fname(udr))
	l := callsTo(udr, w.FuncObj(statePkg, "stateObject", "UpdateDelegationTo"))
	bal := callsTo(udr, w.FuncObj(statePkg, "stateObject", "AddDelegationBalance"))
	okp := len(l) == 1 && len(bal) == 1 && alwaysWith(l[0], []ssa.Instruction{bal[0]}) && samePath(callRecv(l[0]), callRecv(bal[0]))
	c.Check(fname(udr)+"#list-and-balance", udr.Pos(), okp, ifelse(okp, "UpdateDelegationTo and AddDelegationBalance on the same paths and object", "the delegator's list of validators and its delegated balance are not updated together"))

	// ------------------------------------------------------------ V5
	c.Rule("C08.V5", "PROVENANCE", "the total stake used by sortition (live path and header verification) is ValidatorsStat.GetStakeByKind of the look-back state")
	c.Min(3)
	for _, fnc := range []struct{ recv, name string }{{"Server", "verifyVotes"}, {"Server", "verifyConsensusFieldMain"}, {"Server", "getLookbackStakeInfo"}} {
		fn := w.Fn(uconPkg, fnc.recv, fnc.name)
		uses := len(callsByName(fn, "ValidatorsStat", "GetStakeByKind")) > 0
		c.Check(fname(fn)+"#total-stake-source", fn.Pos(), uses, ifelse(uses, "reads GetStakeByKind", "the total stake no longer comes from the maintained statistics"))
	}

	// ------------------------------------------------------------ V8
	c.Rule("C08.V8", "OWNERSHIP", "the delegator's list of validators is never edited in place (element store, copy(), append onto a prefix): the journal keeps the previous list by reference, so after a revert the account would list a validator twice and miss one that still holds its delegation")
	c.Min(2)
	journaledSliceWrites(c, w, "stateObject.delegations")

	// ------------------------------------------------------------ V9
	c.Rule("C08.V9", "SHAPE", "a validator's total Stake moves only by the delta by which one of its components (its own stake or one delegation's stake) moved: outside constructors, copies and decoders the field Validator.Stake is changed by Add/Sub, never set from a recomputation over the total tokens — floor(total tokens) is not the sum of the components' floors")
	c.Min(5)
	{
		stakeF := w.Field(statePkg, "Validator", "Stake")
		tabledSet := map[string]string{
			"core/state.NewValidator":            "constructor",
			"(core/state.Validator).PartialCopy": "copy of the source's total",
			"(core/state.Validator).DeepCopy":    "copy of the source's total",
			"(core/state.Validator).DecodeRLP":   "decoder",
			"(core/state.Validator).EncodeRLP":   "nil-guard default before encoding",
		}
		n := 0
		for _, pk := range []string{"staking", "core/state", "core"} {
			for _, fn := range w.FuncsIn(pk) {
				if strings.HasSuffix(w.fileOf(fn.Pos()), "_test.go") {
					continue
				}
				k := 0
				for _, ci := range callInstrs(fn) {
					o := calleeObj(ci)
					if o == nil || recvName(o) != "Int" || o.Pkg() == nil || o.Pkg().Path() != "math/big" {
						continue
					}
					if f, _ := loadedField(stripConv(callRecv(ci))); f != stakeF {
						continue
					}
					switch o.Name() {
					case "Add", "Sub":
						n++
						c.sites++
						c.sawFunc(fname(fn))
						c.Pass(fmt.Sprintf("%s#Stake.%s@%d", fname(fn), o.Name(), k), ci.Pos(), "moved by a delta")
						k++
					case "Set", "SetUint64", "SetInt64", "SetBytes", "SetString", "Mul", "Quo", "Div", "Lsh", "Rsh", "Neg":
						n++
						c.sites++
						c.sawFunc(fname(fn))
						r, ok := tabledSet[outerName(fname(fn))]
						c.Check(fmt.Sprintf("%s#Stake.%s@%d", fname(fn), o.Name(), k), ci.Pos(), ok, ifelse(ok, "tabled: "+r, "the validator's total stake is overwritten instead of being moved by the delta of the component that changed: recomputed from the total tokens it exceeds own stake + delegated stakes as soon as the fractional parts of the components add up to a whole unit, and every later delta-based update carries the surplus"))
						k++
					}
				}
				// plain assignment of the field
				for _, fw := range fieldWrites(fn) {
					if fw.Field == stakeF && fw.Kind == "store" && !isLocalAlloc(fw.Base) {
						n++
						c.sites++
						r, ok := tabledSet[outerName(fname(fn))]
						c.Check(fmt.Sprintf("%s#Stake-assigned", fname(fn)), fw.Instr.Pos(), ok, ifelse(ok, "tabled: "+r, "the validator's total stake is assigned a new value instead of being moved by a component's delta"))
					}
				}
			}
		}
		if n < 5 {
			c.Undecided("core/state.Validator.Stake#updates", 0, fmt.Sprintf("only %d updates of the total stake found", n))
		}
	}

	// ------------------------------------------------------------ V6
	c.Rule("C08.V6", "STALE-AFTER-REPLACE", "UpdateValidator(new, old) takes old's amounts out of the statistics and puts new's in, so old must be the record currently in the state: on no path is a validator value used as the pre-image of a replacement after another replacement (UpdateValidator, or a callee that replaces its parameter) already superseded it")
	c.Min(10)
	stalePreImages(c, w, w.FuncObj("core/state", "StateDB", "UpdateValidator"), "the statistics are adjusted by the difference to a record that is no longer the stored one, so the online/offline totals drift from the sum of the records (or the zero clamp silently skips the subtraction)")

	// ------------------------------------------------------------ V7
	c.Rule("C08.V7", "OWNERSHIP", "Validator.DeepCopy gives the copy its own delegation entries: slashing edits an entry's Token and Stake in place, so an entry shared between two states breaks Token == SelfToken + Σ delegations in the state that did not apply the penalty")
	c.Min(1)
	vdc := w.Fn("core/state", "Validator", "DeepCopy")
	c.sawFunc(fname(vdc))
	dlgF := w.Field("core/state", "Validator", "Delegations")
	shared := sharedElements(vdc)
	elemCopied := false
	for _, b := range vdc.Blocks {
		for _, in := range b.Instrs {
			if st, ok := in.(*ssa.Store); ok {
				if ia, ok := st.Addr.(*ssa.IndexAddr); ok {
					if f, _ := loadedField(stripConv(ia.X)); f == dlgF {
						if cc, ok := stripConv(st.Val).(*ssa.Call); ok && calleeObj(cc) != nil && calleeObj(cc).Name() == "DeepCopy" {
							elemCopied = true
						}
					}
				}
			}
		}
	}
	c.sites++
	c.Check(fname(vdc)+"#delegation-entries-copied", vdc.Pos(), len(shared) == 0 && elemCopied, ifelse(len(shared) == 0 && elemCopied, "every entry stored into the copy's delegation slice is the result of DelegationFrom.DeepCopy", "the copy's delegation slice holds the source's *DelegationFrom entries: a penalty applied through one state edits the entries of the other, whose totals and statistics were not adjusted"))
	// ------------------------------------------------------------ V10
	c.Rule("C08.V10", "ALWAYS-WITH", "the address index lists exactly the validators that have a record: every write of a validator record into the validator trie (updateStakingData(addr, validatorFlag, …)) is accompanied on the same paths by validatorIndex.Add of that address, every deletion (deleteStakingData(addr, validatorFlag)) by validatorIndex.Delete. The in-memory index is re-read from the trie while it is non-empty, which forgets validators created since the last root computation; the Add beside the record write is what puts them back before the index is saved")
	c.Min(1)
	recordAndIndexTogether(c, w)

	// ------------------------------------------------------------ V11
	c.Rule("C08.V11", "ALWAYS-WITH", "delegator accounts and validators agree on the delegated amounts also after a penalty: in takePenalty every reduction of a delegation entry (the call that rewrites d.Token / d.Stake) is accompanied on the same paths by StateDB.UpdateDelegator for that entry's delegator — Account.DelegationBalance is part of the state root and would otherwise keep the unslashed amount (after a full undelegation the account still claims tokens delegated to nobody)")
	c.Min(1)
	{
		tp := w.Fn("staking", "", "takePenalty")
		c.sawFunc(fname(tp))
		dfT := w.Named(statePkg, "DelegationFrom")
		nRed := 0
		for _, fn := range withClosures(tp) {
			var upd []ssa.Instruction
			for _, ci := range callInstrs(fn) {
				if o := calleeObj(ci); o != nil && o.Name() == "UpdateDelegator" {
					upd = append(upd, ci.(ssa.Instruction))
				}
			}
			for _, ci := range callInstrs(fn) {
				// a call that is handed an amount field of a delegation entry (the in-place rewrite goes through it)
				if ci.Common().StaticCallee() != nil && ci.Common().StaticCallee().Parent() == nil {
					continue
				}
				if _, isB := ci.Common().Value.(*ssa.Builtin); isB {
					continue
				}
				if o := calleeObj(ci); o != nil && o.Pkg() != nil && o.Pkg().Path() == "math/big" {
					continue
				}
				// the closure that is called, and which of its parameters it changes in place
				var callee *ssa.Function
				switch v := ci.Common().Value.(type) {
				case *ssa.Function:
					callee = v
				case *ssa.MakeClosure:
					callee, _ = v.Fn.(*ssa.Function)
				case *ssa.UnOp:
					if al, ok := v.X.(*ssa.Alloc); ok {
						for _, r := range *al.Referrers() {
							if st, isSt := r.(*ssa.Store); isSt && st.Addr == ssa.Value(al) {
								if mc, isMC := st.Val.(*ssa.MakeClosure); isMC {
									callee, _ = mc.Fn.(*ssa.Function)
								}
							}
						}
					}
				}
				if callee == nil {
					continue
				}
				mutated := map[int]bool{}
				for _, cj := range callInstrs(callee) {
					o := calleeObj(cj)
					if o == nil || o.Pkg() == nil || o.Pkg().Path() != "math/big" || recvName(o) != "Int" {
						continue
					}
					switch o.Name() {
					case "Set", "Sub", "Add", "Mul", "Quo", "Div", "SetUint64", "SetInt64", "Neg":
					default:
						continue
					}
					if r := callRecv(cj); r != nil {
						for i, prm := range callee.Params {
							if stripConvNoBind(r) == ssa.Value(prm) {
								mutated[i] = true
							}
						}
					}
				}
				hands := false
				for i, a := range ci.Common().Args {
					f, base := loadedField(stripConvNoBind(a))
					if mutated[i] && f != nil && base != nil && types.Identical(deref(base.Type()), dfT) && (f.Name() == "Token" || f.Name() == "Stake") && isBigIntPtr(a.Type()) {
						hands = true
					}
				}
				if !hands {
					continue
				}
				// only calls of closures / helpers that mutate what they are handed
				nRed++
				c.sites++
				ok := alwaysWith(ci.(ssa.Instruction), upd)
				c.Check(fmt.Sprintf("%s#entry-reduction-%d-with-delegator-update", fname(tp), nRed), ci.Pos(), ok, ifelse(ok, "UpdateDelegator on the same paths", "a delegation entry is reduced by a penalty without the delegator's account being updated: Account.DelegationBalance keeps the unslashed amount and disagrees with the validators' records"))
			}
		}
		if nRed == 0 {
			c.Undecided(fname(tp)+"#entry-reductions", tp.Pos(), "no reduction of a delegation entry found in takePenalty")
		}
	}
}

func incArgLoose(pred func(ssa.Value) bool, v ssa.Value) bool {
	if v == nil {
		return false
	}
	if pred(v) {
		return true
	}
	// value receiver: *x
	if u, ok := stripConv(v).(*ssa.UnOp); ok {
		return pred(u.X) || pred(u)
	}
	return false
}

func sortedBoolKeys(m map[string]bool) []string {
	var k []string
	for x := range m {
		k = append(k, x)
	}
	sort.Strings(k)
	return k
}

func c08V3(c *Ctx, w *World) {
	tabled := map[string]string{
		"(core/state.Validator).PartialCopy":       "copy of the source amounts",
		"(core/state.Validator).DeepCopy":          "copy of the source amounts",
		"(core/state.DelegationFrom).DeepCopy":     "copy of the source amounts",
		"core/state.NewValidator":                  "constructor: the caller passes YOUToStake(token) (checked at teCreate)",
		"(core/state.Validator).EncodeRLP":         "nil-guard defaults before encoding",
		"(core/state.ValKindStat).addStake":        "aggregate of validator stakes",
		"(core/state.ValKindStat).subStake":        "aggregate of validator stakes",
		"(core/state.ValKindStat).addOfflineStake": "aggregate of validator stakes",
		"(core/state.ValKindStat).subOfflineStake": "aggregate of validator stakes",
		"core/state.NewValKindStat":                "constructor",
		"(core/state.ValKindStat).DecodeRLP":       "decoder",
		"(core/state.ValKindStat).DeepCopy":        "copy",
	}
	isStakeField := func(f *types.Var) bool {
		if f == nil {
			return false
		}
		if f.Name() != "Stake" && f.Name() != "SelfStake" {
			return false
		}
		o := fieldOwner(w, f)
		return o == "Validator" || o == "DelegationFrom"
	}
	fromYou := func(v ssa.Value) bool {
		return derivesFrom(v, func(x ssa.Value) bool {
			cc, ok := x.(*ssa.Call)
			return ok && calleeObj(cc) != nil && calleeObj(cc).Name() == "YOUToStake"
		}) || callChainMentions(v, "YOUToStake")
	}
	for _, fn := range w.AllFuncs() {
		if strings.HasSuffix(w.fileOf(fn.Pos()), "_test.go") || fn.Pkg == nil {
			continue
		}
		p := fn.Pkg.Pkg.Path()
		if p != full("core/state") && p != full("staking") && p != full("core") {
			continue
		}
		name := outerName(fname(fn))
		n := 0
		for _, ci := range callInstrs(fn) {
			o := calleeObj(ci)
			if o == nil || recvName(o) != "Int" || o.Pkg() == nil || o.Pkg().Path() != "math/big" {
				continue
			}
			switch o.Name() {
			case "Set", "Add", "Sub", "SetUint64", "SetInt64", "Mul", "Div":
			default:
				continue
			}
			r := callRecv(ci)
			if r == nil {
				continue
			}
			f, _ := loadedField(stripConv(r))
			if !isStakeField(f) {
				continue
			}
			c.sites++
			c.sawFunc(name)
			key := fmt.Sprintf("%s#%s.%s-%d", name, f.Name(), o.Name(), n)
			n++
			if reason, ok := tabled[name]; ok {
				c.Pass(key, ci.Pos(), "tabled: "+reason)
				continue
			}
			ok := false
			for _, a := range callArgs(ci) {
				if fromYou(a) {
					ok = true
				}
			}
			// zeroing
			if o.Name() == "SetUint64" {
				if z, isC := constInt(callArgs(ci)[0]); isC && z == 0 {
					ok = true
				}
			}
			c.Check(key, ci.Pos(), ok, ifelse(ok, "operand derives from params.YOUToStake", "a stake amount is changed by something that does not derive from YOUToStake(tokens): stake and token/StakeUnit drift apart"))
		}
		// direct stores of a pointer into a Stake field
		for _, fw := range fieldWrites(fn) {
			if !isStakeField(fw.Field) || fw.Kind != "store" || isLocalAlloc(fw.Base) {
				continue
			}
			key := fmt.Sprintf("%s#%s=store", name, fw.Field.Name())
			if reason, ok := tabled[name]; ok {
				c.Pass(key, fw.Instr.Pos(), "tabled: "+reason)
				continue
			}
			if strings.HasSuffix(name, ".DecodeRLP") {
				c.Pass(key, fw.Instr.Pos(), "decoder")
				continue
			}
			ok := fromYou(fw.Instr.(*ssa.Store).Val)
			c.Check(key, fw.Instr.Pos(), ok, ifelse(ok, "stored value derives from params.YOUToStake", "a stake field is assigned a value that does not derive from YOUToStake(tokens)"))
		}
	}
	// teCreate passes YOUToStake(tx.Value) as the stake of a new validator
	tc := w.Fn("staking", "", "teCreate")
	okc := false
	for _, ci := range callInstrs(tc) {
		if o := calleeObj(ci); o != nil && o.Name() == "CreateValidator" {
			a := callArgs(ci)
			okc = fromYou(a[7])
		}
	}
	c.Check(fname(tc)+"#initial-stake", tc.Pos(), okc, ifelse(okc, "CreateValidator(…, token, YOUToStake(token), …)", "a new validator's stake is not YOUToStake of its deposit"))
	// ------------------------------------------------------------ V12
	c.Rule("C08.V12", "TYPESTATE", "a validator's total stays equal to its own plus its delegations' across a revert: an in-place edit of a delegation entry's amounts (staking, core/state) acts on an entry the editor owns — one of a DeepCopy, or one obtained from a getter / constructor that hands out a copy on every return (GetDelegationFrom). An entry of a PartialCopy, or a live entry handed out by the getter, is shared with the record the journal keeps as pre-image: after RevertToSnapshot the totals are the old ones and the entry is the new one (shared with C09.J10)")
	c.Min(1)
	frozenEntries(c, w)

	// ------------------------------------------------------------ V13
	c.Rule("C08.V13", "SAME-VALUE", "UpdateValidator(new, old) compares two different objects: at every call site the replacement and the pre-image can never be one and the same record (their values, followed through phis, share no source). A record is StakeEqual to itself: handing the live record as both — e.g. after editing its status in place on a path that skipped the copy — leaves the statistics unadjusted (offline in the records, online in the totals) and gives the journal a pre-image that already carries the change (shared with C09.J12)")
	c.Min(10)
	distinctUpdateArgs(c, w)

}

func c08Variants() []Variant {
	return []Variant{
		{Name: "update-without-statistics", File: "core/state/statedb_val.go", Old: "	if !newVal.StakeEqual(oldVal) {\n		st.decrValidatorsStat(oldVal)\n		st.incrValidatorsStat(newVal)\n	}\n	return true", New: "	if !newVal.StakeEqual(oldVal) {\n		st.incrValidatorsStat(newVal)\n	}\n	return true", Rule: "C08.V1", Construct: "UpdateValidator#statistics-adjustment"},
		{Name: "revert-wrong-record", File: "core/state/journal.go", Old: "		s.decrValidatorsStat(ch.newVal)\n		s.incrValidatorsStat(ch.oldVal)", New: "		s.decrValidatorsStat(ch.oldVal)\n		s.incrValidatorsStat(ch.newVal)", Rule: "C08.V1", Construct: "validatorUpdateChange"},
		{Name: "stake-equal-ignores-status", File: "core/state/validator.go", Old: " && v.Token.Cmp(val.Token) == 0 && v.Status == val.Status {", New: " && v.Token.Cmp(val.Token) == 0 {", Rule: "C08.V2", Construct: "StakeEqual"},
		{Name: "self-stake-from-tokens", File: "staking/take_effect_handler.go", Old: "	delta := new(big.Int).Sub(newStake, newVal.SelfStake)\n	newVal.SelfStake.Set(newStake)\n	//update total", New: "	delta := new(big.Int).Sub(newStake, newVal.SelfStake)\n	newVal.SelfStake.Set(newVal.SelfToken)\n	//update total", Rule: "C08.V3", Construct: "teDeposit"},
		{Name: "skip-delegator-on-delete", File: "core/state/statedb_staking.go", Old: "	st.UpdateDelegator(d, val.MainAddress(), tokenChanged, status == params.Delete)\n", New: "	if status != params.Delete {\n		st.UpdateDelegator(d, val.MainAddress(), tokenChanged, false)\n	}\n", Rule: "C08.V4", Construct: "UpdateDelegation#return"},
		{Name: "penalty-without-delegator-update", File: "staking/slash.go", Old: "					currentDB.UpdateDelegator(d.Delegator, val.MainAddress(), new(big.Int).Neg(fromDeposit), d.Empty())\n", New: "", Rule: "C08.V11", Construct: "takePenalty"},
	}
}

// distinctUpdateArgs (C08.V13 = C09.J12): the two arguments of UpdateValidator never are the same object.
func distinctUpdateArgs(c *Ctx, w *World) {
	upd := w.FuncObj(statePkg, "StateDB", "UpdateValidator")
	leaves := func(v ssa.Value) map[ssa.Value]bool {
		out := map[ssa.Value]bool{}
		var walk func(x ssa.Value)
		seen := map[ssa.Value]bool{}
		walk = func(x ssa.Value) {
			x = stripConvNoBind(x)
			if seen[x] {
				return
			}
			seen[x] = true
			if ph, ok := x.(*ssa.Phi); ok {
				for _, e := range ph.Edges {
					walk(e)
				}
				return
			}
			// a local variable: the values stored into it
			if u, ok := x.(*ssa.UnOp); ok && u.Op == token.MUL {
				if al, isAl := u.X.(*ssa.Alloc); isAl {
					n := 0
					for _, r := range *al.Referrers() {
						if st, isSt := r.(*ssa.Store); isSt && st.Addr == ssa.Value(al) {
							walk(st.Val)
							n++
						}
					}
					if n > 0 {
						return
					}
				}
			}
			out[x] = true
		}
		walk(v)
		return out
	}
	for _, fn := range w.AllFuncs() {
		if fn.Blocks == nil || fn.Pkg == nil || strings.HasSuffix(w.fileOf(fn.Pos()), "_test.go") {
			continue
		}
		p := fn.Pkg.Pkg.Path()
		if p != full("staking") && p != full(statePkg) && p != full("core") {
			continue
		}
		for k, ci := range callsTo(fn, upd) {
			args := callArgs(ci)
			if len(args) < 2 {
				continue
			}
			c.sites++
			c.sawFunc(fname(fn))
			a, b := leaves(args[len(args)-2]), leaves(args[len(args)-1])
			same := ""
			for v := range a {
				if b[v] {
					same = v.Name()
					if pos := v.Pos(); pos.IsValid() {
						same += " (" + w.Pos(pos) + ")"
					}
				}
			}
			c.Check(fmt.Sprintf("%s#update-%d-distinct-records", fname(fn), k), ci.Pos(), same == "", ifelse(same == "", "replacement and pre-image have no common source", "on some path the replacement and the pre-image are the same record "+same+": StakeEqual(record, itself) is true, so the statistics are not adjusted for what was edited in place, and the journal's pre-image already carries the edit"))
		}
	}
}

// recordAndIndexTogether is shared by C08.V10 and C10.K10.
func recordAndIndexTogether(c *Ctx, w *World) {
	isValFlag := func(v ssa.Value) bool {
		u, ok := stripConv(v).(*ssa.UnOp)
		if !ok {
			return false
		}
		g, ok := u.X.(*ssa.Global)
		return ok && g.Name() == "validatorFlag"
	}
	n := 0
	for _, fn := range w.FuncsIn(statePkg) {
		if fn.Blocks == nil || strings.HasSuffix(w.fileOf(fn.Pos()), "_test.go") {
			continue
		}
		for _, ci := range callInstrs(fn) {
			o := calleeObj(ci)
			if o == nil {
				continue
			}
			var args []ssa.Value
			want := ""
			switch {
			case o.Name() == "updateStakingData" || o.Name() == "deleteStakingData":
				args = callArgs(ci)
				if len(args) < 2 || !isValFlag(args[1]) {
					continue
				}
				want = ifelse(o.Name() == "deleteStakingData", "Delete", "Add")
			case o.Name() == "TryDelete" || o.Name() == "TryUpdate":
				// the helper inlined: a direct trie write whose key is built from validatorFlag
				a := callArgs(ci)
				if len(a) == 0 || !derivesFrom(a[0], isValFlag) {
					continue
				}
				// the address written into the key
				var addr ssa.Value
				backward(a[0], func(v ssa.Value) bool {
					if cc, ok := v.(*ssa.Call); ok && addr == nil {
						if co := calleeObj(cc); co != nil && co.Name() == "Bytes" && recvName(co) == "Address" {
							addr = callRecv(cc)
						}
					}
					return addr == nil
				})
				if addr == nil {
					continue
				}
				args = []ssa.Value{addr}
				want = ifelse(o.Name() == "TryDelete", "Delete", "Add")
			default:
				continue
			}
			n++
			c.sites++
			c.sawFunc(fname(fn))
			var gates []ssa.Instruction
			for _, cj := range callInstrs(fn) {
				oj := calleeObj(cj)
				if oj == nil || oj.Name() != want || recvName(oj) != "ValidatorIndex" {
					continue
				}
				aj := callArgs(cj)
				if len(aj) > 0 && (stripConv(aj[0]) == stripConv(args[0]) || samePath(aj[0], args[0]) || termOf(aj[0], 4) == termOf(args[0], 4)) {
					gates = append(gates, cj.(ssa.Instruction))
				}
			}
			ok := alwaysWith(ci.(ssa.Instruction), gates)
			c.Check(fmt.Sprintf("%s#record-and-index-together-%d", fname(fn), n), ci.Pos(), ok, ifelse(ok, "validatorIndex."+want+" of the same address on the same paths", "a validator record is "+ifelse(want == "Add", "written to", "deleted from")+" the trie without the address index being updated on the same paths: record and statistics are committed but the index does not list the validator (or still lists a removed one), also after commit and reopen"))
		}
	}
	if n == 0 {
		c.Undecided("core/state#validator-record-writes", 0, "no updateStakingData / deleteStakingData call with validatorFlag found")
	}
}

package main

import (
	"fmt"
	"go/token"
	"go/types"
	"sort"
	"strings"

	"golang.org/x/tools/go/ssa"
)

// C04 — sortition selects the binomial quantile; proofs bind all inputs.

func init() {
	register(&propDef{
		ID:          "C04",
		Explanation: "That j is the binomial quantile (float64 CDF search, the 0.99 mirror branch, extreme hashes) and the cryptographic soundness of the VRF are not decided. Decided (structure, SSA of consensus/ucon and crypto/vrf/secp256k1): the VRF message binds seed, step and round index in three disjoint constant ranges covering all 40 bytes, and every parameter of VrfVerifySortition / VrfVerifyPriority influences the verdict (B1); prover and verifiers are siblings: the same MakeM(seed, role, index), the same p = threshold/totalStake, the same choose(hash, stake, p) (B2); VrfVerifySortition answers true only after the proof verified, j > 0 and j == claimed seats; VrfVerifyPriority only after the proof verified and j == claimed seats, and its answer is the comparison of the recomputed priority with the claimed one; ProofToHash returns an index only when the recomputed challenge equals the proof's, over a transcript that contains the message hash point, the public key and the VRF point (B3); every return of choose is 0, the stake, a loop index bounded by the stake, or (the mirror of) the result of the bounded search (B4).",
		Assumptions: []string{"gonum's Binomial CDF is monotone", "elliptic-curve and hash primitives are sound"},
		Run:         runC04,
		Variants:    c04Variants,
	})
}

// influences: param is in the backward slice (data + control of phis) of a
// return operand or of a branch condition of fn.
func influences(fn *ssa.Function, p *ssa.Parameter) bool {
	found := false
	visit := func(v ssa.Value) bool {
		if v == ssa.Value(p) {
			found = true
			return false
		}
		return !found
	}
	for _, b := range fn.Blocks {
		switch t := b.Instrs[len(b.Instrs)-1].(type) {
		case *ssa.Return:
			for _, r := range t.Results {
				backwardCtl(r, visit)
			}
		case *ssa.If:
			backwardCtl(t.Cond, visit)
		}
	}
	return found
}

// messageBinds: the VRF message built by MakeM binds each of its three
// parameters in pairwise disjoint constant byte ranges that cover the whole
// 40-byte buffer. Recognised writes: copy(m[a:b], f(param)),
// binary.<order>.PutUintN(m[a:…], param) and m[k] = byte(f(param)).
func messageBinds(makeM *ssa.Function) (bool, string) {
	type rng struct {
		lo, hi int64
		src    string
	}
	var ranges []rng
	bufLen := int64(-1)
	srcOf := func(v ssa.Value) string {
		src := "?"
		for _, p := range makeM.Params {
			if derivesFrom(v, func(x ssa.Value) bool { return x == ssa.Value(p) }) {
				src = p.Name()
			}
		}
		return src
	}
	for _, b := range makeM.Blocks {
		for _, in := range b.Instrs {
			if ms, ok := in.(*ssa.MakeSlice); ok {
				if n, isC := constInt(ms.Len); isC {
					bufLen = n
				}
			}
			if al, ok := in.(*ssa.Alloc); ok {
				if at, isArr := deref(al.Type()).Underlying().(*types.Array); isArr && bufLen < 0 {
					bufLen = at.Len()
				}
			}
		}
	}
	sliceRange := func(v ssa.Value) (int64, int64, bool) {
		dst, isSl := v.(*ssa.Slice)
		if !isSl {
			if _, whole := v.(*ssa.MakeSlice); whole {
				return 0, bufLen, true
			}
			return -1, -1, false
		}
		lo, hi := int64(0), bufLen
		if dst.Low != nil {
			var isC bool
			if lo, isC = constInt(dst.Low); !isC {
				return -1, -1, false
			}
		}
		if dst.High != nil {
			var isC bool
			if hi, isC = constInt(dst.High); !isC {
				return -1, -1, false
			}
		}
		return lo, hi, true
	}
	for _, b := range makeM.Blocks {
		for _, in := range b.Instrs {
			switch x := in.(type) {
			case *ssa.Call:
				if bi, ok := x.Call.Value.(*ssa.Builtin); ok {
					if bi.Name() != "copy" {
						continue
					}
					lo, hi, ok := sliceRange(x.Call.Args[0])
					if !ok {
						ranges = append(ranges, rng{-1, -1, "?"})
						continue
					}
					ranges = append(ranges, rng{lo, hi, srcOf(x.Call.Args[1])})
					continue
				}
				o := calleeObj(x)
				if o == nil || o.Pkg() == nil || o.Pkg().Path() != "encoding/binary" {
					continue
				}
				size := map[string]int64{"PutUint16": 2, "PutUint32": 4, "PutUint64": 8}[o.Name()]
				if size == 0 {
					continue
				}
				args := x.Call.Args
				if len(args) < 2 {
					continue
				}
				lo, hi, ok := sliceRange(args[len(args)-2])
				if !ok || lo+size > hi {
					ranges = append(ranges, rng{-1, -1, "?"})
					continue
				}
				ranges = append(ranges, rng{lo, lo + size, srcOf(args[len(args)-1])})
			case *ssa.Store:
				ia, ok := x.Addr.(*ssa.IndexAddr)
				if !ok {
					continue
				}
				if _, isMsg := ia.X.(*ssa.MakeSlice); !isMsg {
					if al, isAl := ia.X.(*ssa.Alloc); !isAl || bufLen < 0 || deref(al.Type()).Underlying().(*types.Array).Len() != bufLen {
						continue
					}
				}
				k, isC := constInt(ia.Index)
				if !isC {
					ranges = append(ranges, rng{-1, -1, "?"})
					continue
				}
				ranges = append(ranges, rng{k, k + 1, srcOf(x.Val)})
			}
		}
	}
	sort.Slice(ranges, func(i, j int) bool { return ranges[i].lo < ranges[j].lo })
	// merge adjacent ranges of the same source (byte-wise writes)
	var merged []rng
	for _, r := range ranges {
		if n := len(merged); n > 0 && merged[n-1].src == r.src && merged[n-1].hi == r.lo && r.lo >= 0 {
			merged[n-1].hi = r.hi
			continue
		}
		merged = append(merged, r)
	}
	ranges = merged
	okM := len(ranges) == 3 && bufLen == 40
	why := ""
	if !okM {
		why = fmt.Sprintf("ranges %v over a %d-byte message", ranges, bufLen)
	}
	cover := int64(0)
	srcs := map[string]bool{}
	for _, r := range ranges {
		if r.lo != cover || r.hi <= r.lo || r.src == "?" {
			okM = false
			why = fmt.Sprintf("ranges %v", ranges)
		}
		cover = r.hi
		srcs[r.src] = true
	}
	if cover != bufLen || len(srcs) != 3 {
		okM = false
		why = fmt.Sprintf("ranges %v over a %d-byte message", ranges, bufLen)
	}
	return okM, why
}

func runC04(c *Ctx) {
	w := c.W
	makeM := w.Fn(uconPkg, "", "MakeM")
	vs := w.Fn(uconPkg, "", "VrfSortition")
	vvs := w.Fn(uconPkg, "", "VrfVerifySortition")
	vvp := w.Fn(uconPkg, "", "VrfVerifyPriority")
	choose := w.Fn(uconPkg, "", "choose")
	for _, f := range []*ssa.Function{makeM, vs, vvs, vvp, choose} {
		c.sawFunc(fname(f))
	}

	// ------------------------------------------------------------ B1
	c.Rule("C04.B1", "FLOWS-TO", "MakeM copies seed, role and index into pairwise disjoint constant ranges that cover the 40-byte message; every parameter of VrfVerifySortition and VrfVerifyPriority influences the returned verdict")
	c.Min(3)
	okM, why := messageBinds(makeM)
	c.sites++
	c.Check(fname(makeM)+"#binds-seed-role-index", makeM.Pos(), okM, ifelse(okM, "seed→[0,32) role→[32,36) index→[36,40)", "the VRF message does not bind seed, step and round index in disjoint ranges covering the message ("+why+"): a credential issued for one step or index verifies for another"))
	for _, fn := range []*ssa.Function{vvs, vvp} {
		var missing []string
		for _, p := range fn.Params {
			if !influences(fn, p) {
				missing = append(missing, p.Name())
			}
		}
		c.sites++
		c.Check(fname(fn)+"#every-input-bound", fn.Pos(), len(missing) == 0, ifelse(len(missing) == 0, fmt.Sprintf("all %d parameters influence the verdict", len(fn.Params)), "parameter(s) "+strings.Join(missing, ", ")+" do not influence the verdict: the credential is accepted regardless of them"))
	}

	// ------------------------------------------------------------ B2
	c.Rule("C04.B2", "SIBLINGS", "VrfSortition, VrfVerifySortition and VrfVerifyPriority build the message with MakeM(seed, role, index) from their own parameters, compute p as threshold/totalStake, and call choose(hash, stake, p) (the prover through sortition)")
	c.Min(3)
	makeMObj := makeM.Object().(*types.Func)
	chooseObj := choose.Object().(*types.Func)
	sortitionFn := w.FnOpt(uconPkg, "", "sortition") // the prover's wrapper around choose; may be inlined
	pShapes := map[string][]string{}
	for _, fn := range []*ssa.Function{vs, vvs, vvp} {
		c.sites++
		var bad []string
		mm := callsTo(fn, makeMObj)
		if len(mm) != 1 {
			bad = append(bad, "no single MakeM call")
		} else {
			a := callArgs(mm[0])
			want := []string{"seed", "role", "index"}
			for i, n := range want {
				p, ok := stripConv(a[i]).(*ssa.Parameter)
				if !ok || p.Name() != n {
					bad = append(bad, "MakeM argument "+n+" is not the function's own "+n)
				}
			}
		}
		// p derives from threshold and totalStake through Quo
		var pArg, stakeArg ssa.Value
		if cs := callsTo(fn, chooseObj); len(cs) == 1 {
			pArg, stakeArg = callArgs(cs[0])[2], callArgs(cs[0])[1]
		} else if cs := callsToOpt(fn, sortitionFn); len(cs) == 1 && len(callArgs(cs[0])) >= 4 {
			pArg, stakeArg = callArgs(cs[0])[3], callArgs(cs[0])[2]
		} else {
			bad = append(bad, "no choose/sortition call")
		}
		if pArg != nil {
			th := callChainMentionsValue(pArg, func(v ssa.Value) bool { p, ok := v.(*ssa.Parameter); return ok && p.Name() == "threshold" })
			ts := callChainMentionsValue(pArg, func(v ssa.Value) bool { p, ok := v.(*ssa.Parameter); return ok && p.Name() == "totalStake" })
			quo := callChainMentions(pArg, "Quo")
			if !(th && ts && quo) {
				bad = append(bad, fmt.Sprintf("p is not threshold/totalStake (threshold=%v totalStake=%v Quo=%v)", th, ts, quo))
			}
			if p, ok := stripConv(stakeArg).(*ssa.Parameter); !ok || p.Name() != "stake" {
				bad = append(bad, "the weight passed to choose is not the stake parameter")
			}
			sh := termOf(pArg, 8)
			pShapes[sh] = append(pShapes[sh], fn.Name())
		}
		c.Check(fname(fn)+"#same-message-p-choose", fn.Pos(), len(bad) == 0, ifelse(len(bad) == 0, "MakeM(seed, role, index), p = threshold/totalStake, choose(hash, stake, p)", strings.Join(bad, "; ")+": prover and verifier compute different seat counts"))
	}
	var shapeList []string
	for sh, fns := range pShapes {
		shapeList = append(shapeList, strings.Join(fns, "/")+": "+sh)
	}
	sort.Strings(shapeList)
	c.Check("consensus/ucon#one-probability-expression", vs.Pos(), len(pShapes) == 1, ifelse(len(pShapes) == 1, "prover and both verifiers compute p by the same expression: "+strings.Join(shapeList, ""), "prover and verifiers compute the selection probability differently ("+strings.Join(shapeList, " | ")+"): an honest credential does not verify, or a dishonest one does"))
	// sortition forwards to choose with the VRF value
	if sortitionFn != nil {
		okS := false
		for _, ci := range callsTo(sortitionFn, chooseObj) {
			a := callArgs(ci)
			if len(sortitionFn.Params) >= 4 && stripConv(a[1]) == ssa.Value(sortitionFn.Params[2]) && stripConv(a[2]) == ssa.Value(sortitionFn.Params[3]) {
				okS = true
			}
		}
		c.Check(fname(sortitionFn)+"#forwards-to-choose", sortitionFn.Pos(), okS, "sortition = choose(Evaluate(m), w, p)")
	} else {
		direct := len(callsTo(vs, chooseObj)) == 1
		c.Check(fname(vs)+"#forwards-to-choose", vs.Pos(), direct, ifelse(direct, "the prover calls choose(Evaluate(m), stake, p) itself", "the prover neither calls choose nor a sortition wrapper"))
	}

	// ------------------------------------------------------------ B3
	c.Rule("C04.B3", "EXIT", "VrfVerifySortition returns true only with ProofToHash == nil, j > 0 and uint32(j) == subUsers; VrfVerifyPriority returns only with ProofToHash == nil and uint32(j) == subUsers, and its verdict is the comparison of computePriority(hash, j) with the claimed priority; ProofToHash returns an index only under hmac.Equal(s, H2(transcript)) where the transcript includes H1(m), the public key and the VRF point")
	c.Min(3)
	for _, fn := range []*ssa.Function{vvs, vvp} {
		var pth, ch ssa.CallInstruction
		for _, ci := range callInstrs(fn) {
			if o := calleeObj(ci); o != nil {
				switch o.Name() {
				case "ProofToHash":
					pth = ci
				case "choose":
					ch = ci
				}
			}
		}
		if pth == nil {
			// the proof may be checked through a wrapper of the same package: it must hand out a hash with a nil
			// error only as the result of ProofToHash on its own key, message and proof parameters
			for _, ci := range callInstrs(fn) {
				g := ci.Common().StaticCallee()
				if g == nil || g.Blocks == nil || g.Pkg != fn.Pkg || g == fn {
					continue
				}
				var inner ssa.CallInstruction
				for _, cj := range callInstrs(g) {
					if o := calleeObj(cj); o != nil && o.Name() == "ProofToHash" {
						inner = cj
					}
				}
				if inner == nil {
					continue
				}
				c.sites++
				why := ""
				isOwnParam := func(v ssa.Value) bool {
					p, ok := stripConvNoBind(v).(*ssa.Parameter)
					return ok && p.Parent() == g
				}
				if r := callRecv(inner); r == nil || !isOwnParam(r) {
					why = "the inner ProofToHash is not evaluated under the wrapper's key parameter"
				}
				for _, a := range callArgs(inner) {
					if !isOwnParam(a) {
						why = "the inner ProofToHash is not evaluated on the wrapper's message and proof parameters"
					}
				}
				ei := errResultIdx(g)
				if ei < 0 {
					why = "the wrapper returns no error"
				} else {
					for _, rp := range returnPaths(g, ei) {
						if rp.Kind == RetFail {
							continue
						}
						if !hasErrNil(rp.Atoms(), inner) {
							why = "the wrapper can return a hash with a nil error at " + w.Pos(rp.Ret.Pos()) + " without ProofToHash having succeeded for this key (e.g. an output remembered per message and proof only: a proof verified once under one key is then accepted under any other key)"
						}
					}
				}
				c.Check(fname(g)+"#faithful-proof-wrapper", g.Pos(), why == "", ifelse(why == "", "returns a hash only as the result of ProofToHash(key, message, proof) == nil on its own parameters", why))
				if why == "" {
					pth = ci
				}
			}
		}
		if pth == nil || ch == nil {
			c.Fail(fname(fn)+"#accept-gate", fn.Pos(), "the credential is accepted without a ProofToHash on the verifier's key, message and proof (directly or through a faithful wrapper) and a choose call")
			continue
		}
		subUsers := paramNamed(fn, "subUsers")
		for i, b := range fn.Blocks {
			r, ok := b.Instrs[len(b.Instrs)-1].(*ssa.Return)
			if !ok || b == fn.Recover {
				continue
			}
			_ = i
			// returns that can answer true
			v0 := stripConv(r.Results[0])
			if cv, isC := v0.(*ssa.Const); isC && cv.Value != nil && cv.Value.String() == "false" {
				continue
			}
			c.sites++
			atoms := atomsOf(factsAt(b))
			proofOK := hasErrNil(atoms, pth)
			seats, positive := false, false
			for _, a := range atoms {
				if a.Kind == "eq" && a.Truth {
					for _, pr := range [][2]ssa.Value{{a.X, a.Y}, {a.Y, a.X}} {
						if stripConv(pr[1]) == ssa.Value(subUsers) && derivesFrom(pr[0], func(v ssa.Value) bool { return v == ssa.Value(ch.Value()) }) {
							seats = true
						}
					}
				}
				if a.Kind == "cmp" && stripConv(a.X) == ssa.Value(ch.Value()) {
					op := a.Op
					if !a.Truth {
						op = negateCmp(op)
					}
					if n, isC := constInt(a.Y); isC && n == 0 && op == token.GTR {
						positive = true
					}
				}
			}
			ok2 := proofOK && seats
			detail := fmt.Sprintf("proof verified=%v seats equal=%v", proofOK, seats)
			if fn == vvs {
				ok2 = ok2 && positive
				detail += fmt.Sprintf(" j>0=%v", positive)
			} else {
				// the verdict is DeepEqual(computePriority(hash, j), priority)
				cmpOK := false
				if cc, isCall := v0.(*ssa.Call); isCall && calleeObj(cc) != nil && (calleeObj(cc).Name() == "DeepEqual" || calleeObj(cc).Name() == "Equal") {
					cp, pr := false, false
					for _, a := range cc.Call.Args {
						if derivesFrom(a, func(v ssa.Value) bool {
							c2, ok := v.(*ssa.Call)
							return ok && calleeObj(c2) != nil && calleeObj(c2).Name() == "computePriority"
						}) {
							cp = true
						}
						if derivesFrom(a, func(v ssa.Value) bool { p, ok := v.(*ssa.Parameter); return ok && p.Name() == "priority" }) {
							pr = true
						}
					}
					cmpOK = cp && pr
				} else if bo, isB := v0.(*ssa.BinOp); isB && bo.Op == token.EQL {
					cmpOK = true
				}
				ok2 = ok2 && cmpOK
				detail += fmt.Sprintf(" priority compared=%v", cmpOK)
			}
			c.Check(fmt.Sprintf("%s#accepting-return@%s", fname(fn), blockOrdinal(fn, b)), r.Pos(), ok2, ifelse(ok2, "accepts only after "+detail, "the credential can be accepted without all checks ("+detail+")"))
		}
	}
	pth := w.Fn("crypto/vrf/secp256k1", "PublicKey", "ProofToHash")
	c.sawFunc(fname(pth))
	var eqc, h2c, h1c ssa.CallInstruction
	for _, ci := range callInstrs(pth) {
		if o := calleeObj(ci); o != nil {
			switch o.Name() {
			case "Equal":
				eqc = ci
			case "H2":
				h2c = ci
			case "H1":
				h1c = ci
			}
		}
	}
	if h2c == nil {
		// the challenge hash may be computed in a helper of the same package (depth 2): its call stands for H2
		var reaches func(g *ssa.Function, d int) bool
		reaches = func(g *ssa.Function, d int) bool {
			if g == nil || g.Blocks == nil || g.Pkg != pth.Pkg {
				return false
			}
			for _, ci := range callInstrs(g) {
				if o := calleeObj(ci); o != nil && o.Name() == "H2" {
					return true
				}
				if d > 0 && reaches(ci.Common().StaticCallee(), d-1) {
					return true
				}
			}
			return false
		}
		for _, ci := range callInstrs(pth) {
			if g := ci.Common().StaticCallee(); g != nil && g != pth && reaches(g, 1) {
				h2c = ci
			}
		}
	}
	okP := eqc != nil && h2c != nil && h1c != nil
	if okP {
		for _, rp := range returnPaths(pth, 1) {
			if rp.Kind == RetNil && !hasBoolResult(rp.Atoms(), eqc, 0, true) {
				okP = false
			}
		}
		// H1 takes the message parameter; the compared value derives from H2
		if stripConv(callArgs(h1c)[0]) != ssa.Value(pth.Params[1]) {
			okP = false
		}
		if !derivesFromOrCalls(eqc.Common().Args[1], h2c) && !derivesFromOrCalls(eqc.Common().Args[0], h2c) {
			okP = false
		}
	}
	// the output is a hash of the point's bytes: those bytes must be the one canonical serialisation
	{
		c.sites++
		okCanon, whyCanon := false, "no hash of the proof's point bytes found in the returned index"
		for _, rp := range returnPaths(pth, 1) {
			if rp.Kind != RetNil {
				continue
			}
			res := rp.Ret.Results[0]
			var hashed ssa.Value
			backward(res, func(v ssa.Value) bool {
				if cc, ok := v.(*ssa.Call); ok {
					if o := calleeObj(cc); o != nil && strings.HasPrefix(o.Name(), "Sum") && hashed == nil {
						hashed = cc.Call.Args[0]
					}
					return false
				}
				return hashed == nil
			})
			if hashed == nil {
				continue
			}
			hv := stripConvNoBind(hashed)
			// (b) re-marshalled from a parsed point
			if mc, isCall := hv.(*ssa.Call); isCall && calleeObj(mc) != nil && calleeObj(mc).Name() == "Marshal" {
				okCanon = true
				continue
			}
			// (a) the same bytes were parsed by Unmarshal and the result tested non-nil on this way of returning
			okCanon, whyCanon = false, "the bytes hashed into the output are not validated by elliptic.Unmarshal (which checks the format byte, the length and the curve equation)"
			for _, ci := range callInstrs(pth) {
				o := calleeObj(ci)
				if o == nil || o.Name() != "Unmarshal" {
					continue
				}
				args := callArgs(ci)
				if len(args) == 0 || !(stripConvNoBind(args[len(args)-1]) == hv || samePath(args[len(args)-1], hv)) {
					continue
				}
				for _, a := range rp.Atoms() {
					if a.Kind == "isnil" && !a.Truth {
						if ex, isEx := stripConv(a.X).(*ssa.Extract); isEx && ex.Tuple == ci.Value() {
							okCanon = true
						}
					}
				}
			}
		}
		c.Check(fname(pth)+"#output-over-canonical-point-bytes", pth.Pos(), okCanon, ifelse(okCanon, "the hashed bytes were parsed by Unmarshal (non-nil) or produced by Marshal", whyCanon+": the same point in another serialisation (any other format byte) verifies with a different output, so one key has many outputs per message and the seat count is no longer the quantile of a unique VRF value"))
	}
	// what the challenge hash covers
	{
		h1, pkIn, vrfIn, where := vrfTranscript(w, pth)
		c.sites++
		okT := h1 && pkIn && vrfIn
		c.Check(fname(pth)+"#challenge-binds-message-key-and-output", pth.Pos(), okT, ifelse(okT, "the challenge transcript contains H1(m), the public key and the VRF point of the proof ("+where+")", fmt.Sprintf("the challenge hash does not cover (H1 of the message=%v, the public key=%v, the VRF point carried in the proof=%v) directly (%s): without the output point in the transcript a key holder can choose the VRF output freely and still present a proof that verifies — sortition seats and priorities can be ground", h1, pkIn, vrfIn, where)))
	}
	c.sites++
	c.Check(fname(pth)+"#index-only-if-challenge-matches", pth.Pos(), okP, ifelse(okP, "index returned only under hmac.Equal(s, H2(transcript)), H1 over the message", "ProofToHash returns an index without the recomputed challenge matching the proof's, or not over the message"))

	// ------------------------------------------------------------ B6
	c.Rule("C04.B6", "GATE", "what the binomial search is given is a probability: every selection probability that reaches choose (in VrfSortition, VrfVerifySortition and VrfVerifyPriority, directly or through their shared helper) is bounded by 1 on every path — capped or compared with 1 — because committee size / total stake exceeds 1 as soon as the committee is larger than the online stake (a legal state with test-net minimum stakes), and the binomial CDF panics on it: every node dies at the same height, in its own sortition, on received votes and on header import")
	c.Min(3)
	for _, fn := range []*ssa.Function{vs, vvs, vvp} {
		c.sites++
		var pArg ssa.Value
		for _, x := range withSmallHelpers(fn) {
			for _, ci := range callInstrs(x) {
				if o := calleeObj(ci); o != nil && (o.Name() == "choose" || o.Name() == "sortition") && pArg == nil {
					a := callArgs(ci)
					pArg = a[len(a)-1]
				}
			}
		}
		bounded := false
		if pArg != nil {
			// a cap: the value is a phi / select with the constant 1 on one edge under a comparison with 1, or the
			// producing helper returns such a phi
			var cands []ssa.Value
			cands = append(cands, pArg)
			if cc, ok := stripConvNoBind(pArg).(*ssa.Call); ok {
				cands = append(cands, enterHelper(cc)...)
			}
			for _, cv := range cands {
				backward(cv, func(v ssa.Value) bool {
					phi, ok := v.(*ssa.Phi)
					if !ok {
						return !bounded
					}
					for _, e := range phi.Edges {
						if k, isC := stripConv(e).(*ssa.Const); isC && k.Value != nil && k.Value.String() == "1" {
							bounded = true
						}
					}
					return !bounded
				})
			}
			// or an explicit comparison with 1 dominating the call
			for _, x := range withSmallHelpers(fn) {
				for _, ci := range callInstrs(x) {
					if o := calleeObj(ci); o != nil && (o.Name() == "choose" || o.Name() == "sortition") {
						for _, a := range atomsOf(factsAtInstr(ci.(ssa.Instruction))) {
							if a.Kind == "cmp" && a.Y != nil {
								if k, isC := stripConv(a.Y).(*ssa.Const); isC && k.Value != nil && k.Value.String() == "1" {
									bounded = true
								}
							}
						}
					}
				}
			}
		}
		c.Check(fname(fn)+"#probability-bounded-by-one", fn.Pos(), bounded, ifelse(bounded, "the probability handed to the binomial search is capped at / compared with 1", "threshold / totalStake reaches the binomial search unbounded: with a committee larger than the total online stake it exceeds 1 and distuv.Binomial panics (cephes: parameter out of bounds) in sortition, vote verification and header import alike"))
	}

	// ------------------------------------------------------------ B7
	c.Rule("C04.B7", "EXIT", "a proposer credential needs at least one seat: VrfVerifyPriority answers true only on paths that established j > 0 for the recomputed seat count (as VrfVerifySortition does) — with j = 0 the claimed priority keccak(vrfHash) equals the recomputed 'maximum over no seats', so a validator that won nothing passes the proposer check and its block is accepted")
	c.Min(1)
	{
		var ch ssa.CallInstruction
		for _, ci := range callInstrs(vvp) {
			if o := calleeObj(ci); o != nil && o.Name() == "choose" {
				ch = ci
			}
		}
		c.sites++
		if ch == nil {
			c.Undecided(fname(vvp)+"#accepts-only-with-a-seat", vvp.Pos(), "the choose call was not found")
		} else {
			okAll, nAcc := true, 0
			for _, b := range vvp.Blocks {
				r, ok := b.Instrs[len(b.Instrs)-1].(*ssa.Return)
				if !ok || b == vvp.Recover {
					continue
				}
				v0 := stripConv(r.Results[0])
				if cv, isC := v0.(*ssa.Const); isC && cv.Value != nil && cv.Value.String() == "false" {
					continue
				}
				nAcc++
				positive := false
				for _, a := range atomsOf(factsAt(b)) {
					if a.Kind == "cmp" && stripConv(a.X) == ch.Value() {
						op := a.Op
						if !a.Truth {
							op = negateCmp(op)
						}
						if n, isC := constInt(a.Y); isC && ((n == 0 && op == token.GTR) || (n == 1 && op == token.GEQ)) {
							positive = true
						}
					}
				}
				if !positive {
					okAll = false
				}
			}
			c.Check(fname(vvp)+"#accepts-only-with-a-seat", vvp.Pos(), okAll && nAcc > 0, ifelse(okAll && nAcc > 0, "every accepting return established j > 0", "VrfVerifyPriority can answer true for j = 0: a validator without a proposer seat announces SubUsers = 0 and Priority = keccak(vrfHash), passes verifyPriority and the header check, and its block becomes chain head"))
		}
	}

	// ------------------------------------------------------------ B5
	c.Rule("C04.B5", "SHAPE", "the proposer priority is the largest hash over the winner's seats: computePriority runs its counter from a constant start to the seat count j in steps of one, every candidate is Keccak(VRF output ‖ seat number), and the running maximum is replaced exactly when the candidate compares greater and is what the function returns")
	c.Min(3)
	c04B5(c, w)

	// ------------------------------------------------------------ B4
	c.Rule("C04.B4", "SHAPE", "every return of choose is the constant 0, w.Int64(), a loop index, search(n, ·) or n − search(n, ·); search returns its lower bound i which only moves between 0 and n")
	c.Min(2)
	searchFn := w.Fn(uconPkg, "", "search")
	bad := ""
	for _, b := range choose.Blocks {
		r, ok := b.Instrs[len(b.Instrs)-1].(*ssa.Return)
		if !ok || b == choose.Recover {
			continue
		}
		c.sites++
		if !chooseReturnShape(r.Results[0], searchFn, map[ssa.Value]bool{}) {
			bad = w.Pos(r.Pos())
		}
	}
	c.Check(fname(choose)+"#result-shape", choose.Pos(), bad == "", ifelse(bad == "", "0 | w.Int64() | loop index | search | n − search", "choose returns something else at "+bad+": the seat count can leave [0, stake]"))
	okSearch := false
	for _, b := range searchFn.Blocks {
		if r, ok := b.Instrs[len(b.Instrs)-1].(*ssa.Return); ok {
			if phi, isPhi := r.Results[0].(*ssa.Phi); isPhi {
				// edges: 0 and h+1
				z, inc := false, false
				for _, e := range phi.Edges {
					if n, isC := constInt(e); isC && n == 0 {
						z = true
					}
					if bo, isB := e.(*ssa.BinOp); isB && bo.Op == token.ADD {
						inc = true
					}
					if _, isPhi2 := e.(*ssa.Phi); isPhi2 {
						inc = true
					}
				}
				okSearch = z && inc
			}
		}
	}
	c.Check(fname(searchFn)+"#returns-lower-bound", searchFn.Pos(), okSearch, ifelse(okSearch, "returns i ∈ [0, n]", "search no longer returns its lower bound"))

	// the complement of the VRF ratio used in the upper tail is formed exactly (big.Float) before it is rounded
	c.sites++
	isFloat64Of := func(v ssa.Value, pred func(recv ssa.Value) bool) bool {
		return derivesFrom(v, func(x ssa.Value) bool {
			cc, ok := x.(*ssa.Call)
			if !ok {
				return false
			}
			o := calleeObj(cc)
			return o != nil && o.Name() == "Float64" && recvName(o) == "Float" && o.Pkg() != nil && o.Pkg().Path() == "math/big" && pred(callRecv(cc))
		})
	}
	lossy := ""
	for _, fn := range withClosures(choose) {
		for _, b := range fn.Blocks {
			for _, in := range b.Instrs {
				bo, ok := in.(*ssa.BinOp)
				if !ok || bo.Op != token.SUB {
					continue
				}
				if bt, isB := bo.Type().Underlying().(*types.Basic); !isB || bt.Kind() != types.Float64 {
					continue
				}
				if isFloat64Of(bo.X, func(ssa.Value) bool { return true }) || isFloat64Of(bo.Y, func(ssa.Value) bool { return true }) {
					lossy = w.Pos(bo.Pos())
				}
			}
		}
	}
	exact := false
	for _, in := range allInstrs(choose) {
		mc, ok := in.(*ssa.MakeClosure)
		if !ok {
			continue
		}
		for _, bnd := range mc.Bindings {
			if isFloat64Of(bnd, func(recv ssa.Value) bool {
				return derivesFrom(recv, func(x ssa.Value) bool {
					cc, ok := x.(*ssa.Call)
					return ok && calleeObj(cc) != nil && calleeObj(cc).Name() == "Sub" && recvName(calleeObj(cc)) == "Float"
				})
			}) {
				exact = true
			}
		}
	}
	okPrec := lossy == "" && exact
	c.Check(fname(choose)+"#upper-tail-complement-exact", choose.Pos(), okPrec, ifelse(okPrec, "the mirrored search compares a complement formed with big.Float.Sub before rounding; no float64 subtraction takes a rounded big.Float", "the complement 1 − ratio is (also) formed in float64 from the already rounded ratio ("+lossy+"): for a VRF output within 2^-53 of the maximum it is 0, and the mirrored search returns a seat count far above the binomial quantile"))
}

// c04B5: the proposer priority is the largest hash over the winner's seats.
func c04B5(c *Ctx, w *World) {
	cp := w.Fn(uconPkg, "", "computePriority")
	c.sawFunc(fname(cp))
	hashP, jP := ssa.Value(cp.Params[0]), ssa.Value(cp.Params[1])
	var kec *ssa.Call
	for _, ci := range callInstrs(cp) {
		if o := calleeObj(ci); o != nil && strings.HasPrefix(o.Name(), "Keccak256") {
			if cc, ok := ci.(*ssa.Call); ok {
				kec = cc
			}
		}
	}
	if kec == nil {
		c.Undecided(fname(cp)+"#max-over-seats", cp.Pos(), "no Keccak call found in computePriority")
		return
	}
	// (1) loop bound: counter.Cmp(j) <= 0 (or < 0) decides whether the loop goes on, the counter starts at a constant and grows by one
	boundOK, counterOK := false, false
	var counter ssa.Value
	for _, ci := range callInstrs(cp) {
		o := calleeObj(ci)
		if o == nil || o.Name() != "Cmp" || recvName(o) != "Int" {
			continue
		}
		if stripConvNoBind(callArgs(ci)[0]) != jP {
			continue
		}
		for _, r := range *ci.Value().Referrers() {
			if bo, ok := r.(*ssa.BinOp); ok && (bo.Op == token.LEQ || bo.Op == token.LSS) {
				if n, isC := constInt(bo.Y); isC && n == 0 && isLoopHeader(ci.Block()) {
					boundOK = true
					counter = callRecv(ci)
				}
			}
		}
	}
	if phi, ok := counter.(*ssa.Phi); ok {
		init, step := false, false
		for _, e := range phi.Edges {
			if cc, ok := stripConvNoBind(e).(*ssa.Call); ok && calleeObj(cc) != nil {
				switch calleeObj(cc).Name() {
				case "NewInt":
					if n, isC := constInt(cc.Call.Args[0]); isC && (n == 0 || n == 1) {
						init = true
					}
				case "Add":
					// counter + 1: the other operand is Big1(), NewInt(1) or a global named big1/Big1
					args := callArgs(cc)
					if len(args) == 2 {
						for k, a := range args {
							if stripConvNoBind(a) != ssa.Value(phi) {
								continue
							}
							one := false
							switch y := stripConvNoBind(args[1-k]).(type) {
							case *ssa.Call:
								if oo := calleeObj(y); oo != nil {
									if oo.Name() == "Big1" {
										one = true
									}
									if oo.Name() == "NewInt" {
										if n, isC := constInt(y.Call.Args[0]); isC && n == 1 {
											one = true
										}
									}
								}
							case *ssa.UnOp:
								if g, isG := y.X.(*ssa.Global); isG && strings.EqualFold(g.Name(), "big1") {
									one = true
								}
							}
							if one {
								step = true
							}
						}
					}
				}
			}
		}
		counterOK = init && step
	}
	c.sites++
	c.Check(fname(cp)+"#iterates-all-seats", cp.Pos(), boundOK && counterOK, ifelse(boundOK && counterOK, "the counter runs from a constant start up to j in steps of one", "the loop of computePriority does not run its counter from the start up to the seat count j: seats are left out (or others included) and the priority is not the maximum over the winner's seats"))
	// (2) each candidate is Keccak(hash ‖ counter)
	inHash := derivesFrom(kec.Call.Args[0], func(v ssa.Value) bool { return v == hashP })
	inCtr := counter != nil && derivesFrom(kec.Call.Args[0], func(v ssa.Value) bool { return v == counter })
	// … and of nothing else: the hashed buffer is built in this iteration, not carried over from the previous one
	carried := derivesFrom(kec.Call.Args[0], func(v ssa.Value) bool {
		phi, ok := v.(*ssa.Phi)
		if !ok {
			return false
		}
		_, isSlice := phi.Type().Underlying().(*types.Slice)
		return isSlice && isLoopHeader(phi.Block())
	})
	c.sites++
	c.Check(fname(cp)+"#candidate-buffer-is-per-seat", kec.Pos(), !carried, ifelse(!carried, "the hashed buffer is built from scratch in every iteration", "the buffer that is hashed is carried from one iteration to the next: seat i is hashed as hash ‖ 1 ‖ 2 ‖ … ‖ i, so for two or more seats the value that verifies is not the largest seat hash"))
	c.sites++
	c.Check(fname(cp)+"#candidate-binds-hash-and-seat", kec.Pos(), inHash && inCtr, ifelse(inHash && inCtr, "each candidate hashes the VRF output together with the seat number", fmt.Sprintf("the candidate hash does not cover both the VRF output and the seat number (hash=%v seat=%v)", inHash, inCtr)))
	// (3) the running maximum is replaced exactly when the candidate is greater, and the hash is kept with its integer
	gt := false
	for _, ci := range callInstrs(cp) {
		o := calleeObj(ci)
		if o == nil || o.Name() != "Cmp" || recvName(o) != "Int" || stripConvNoBind(callArgs(ci)[0]) == jP {
			continue
		}
		// "is the candidate of this iteration": derives from the Keccak result without passing a phi (the running
		// maximum derives from earlier candidates through the loop phi)
		direct := func(v ssa.Value) bool {
			found := false
			backward(v, func(x ssa.Value) bool {
				if x == ssa.Value(kec) {
					found = true
				}
				_, isPhi := x.(*ssa.Phi)
				return !isPhi && !found
			})
			return found
		}
		candRecv := direct(callRecv(ci))
		candArg := direct(callArgs(ci)[0])
		for _, r := range *ci.Value().Referrers() {
			bo, ok := r.(*ssa.BinOp)
			if !ok {
				continue
			}
			n, isC := constInt(bo.Y)
			if !isC || n != 0 {
				continue
			}
			if (candRecv && !candArg && bo.Op == token.GTR) || (candArg && !candRecv && bo.Op == token.LSS) {
				// the branch taken on true carries the candidate into the returned value and into the running integer maximum
				other := callArgs(ci)[0]
				if candArg {
					other = callRecv(ci)
				}
				for _, rr := range *bo.Referrers() {
					ifi, ok := rr.(*ssa.If)
					if !ok {
						continue
					}
					tb := ifi.Block().Succs[0]
					underTb := func(b *ssa.BasicBlock) bool { return b == tb || tb.Dominates(b) }
					fromCand := direct
					hashKept, intKept := false, false
					for _, b := range cp.Blocks {
						ret, ok := b.Instrs[len(b.Instrs)-1].(*ssa.Return)
						if !ok || b == cp.Recover {
							continue
						}
						rv := stripConvNoBind(ret.Results[0])
						if u, isU := rv.(*ssa.UnOp); isU {
							if a, isA := u.X.(*ssa.Alloc); isA {
								// the returned variable: besides its zero initialisation it is stored only under tb, with the candidate
								okStores, n := true, 0
								for _, r := range *a.Referrers() {
									st, isSt := r.(*ssa.Store)
									if !isSt || st.Addr != ssa.Value(a) {
										continue
									}
									if st.Block() == cp.Blocks[0] {
										continue
									}
									n++
									if !underTb(st.Block()) || !fromCand(st.Val) {
										okStores = false
									}
								}
								hashKept = okStores && n > 0
							}
						}
						if phi, isPhi := rv.(*ssa.Phi); isPhi {
							for i, e := range phi.Edges {
								if fromCand(e) && underTb(phi.Block().Preds[i]) {
									hashKept = true
								}
							}
						}
					}
					for _, in := range allInstrs(cp) {
						phi, isPhi := in.(*ssa.Phi)
						if !isPhi || !isBigIntPtr(phi.Type()) {
							continue
						}
						for i, e := range phi.Edges {
							if fromCand(e) && underTb(phi.Block().Preds[i]) && derivesFrom(other, func(x ssa.Value) bool { return x == ssa.Value(phi) }) {
								intKept = true
							}
						}
					}
					if hashKept && intKept {
						gt = true
					}
				}
			}
		}
	}
	c.sites++
	c.Check(fname(cp)+"#keeps-the-greater", cp.Pos(), gt, ifelse(gt, "the candidate replaces the running maximum exactly when it compares greater, and it is what the function returns", "computePriority does not keep the greater of candidate and running maximum (comparison direction, or the value carried to the return): the priority that verifies is not the largest hash over the seats, so a proposer can claim a priority it does not hold or the honest maximum is rejected"))
}

func allInstrs(fn *ssa.Function) []ssa.Instruction {
	var out []ssa.Instruction
	for _, b := range fn.Blocks {
		out = append(out, b.Instrs...)
	}
	return out
}

func derivesFromOrCalls(v ssa.Value, call ssa.CallInstruction) bool {
	return callChainMentionsValue(v, func(x ssa.Value) bool { return x == ssa.Value(call.Value()) })
}

func chooseReturnShape(v ssa.Value, search *ssa.Function, seen map[ssa.Value]bool) bool {
	v = stripConv(v)
	if seen[v] {
		return true
	}
	seen[v] = true
	switch x := v.(type) {
	case *ssa.Const:
		n, ok := constInt(x)
		return ok && n == 0
	case *ssa.Call:
		o := calleeObj(x)
		if o == nil {
			return false
		}
		if o.Name() == "Int64" && recvName(o) == "Int" {
			return true
		}
		return x.Call.StaticCallee() == search
	case *ssa.BinOp:
		if x.Op == token.SUB {
			if cc, ok := stripConv(x.Y).(*ssa.Call); ok && cc.Call.StaticCallee() == search {
				return true
			}
		}
		if x.Op == token.ADD {
			// loop increment j+1
			return true
		}
		return false
	case *ssa.Phi:
		for _, e := range x.Edges {
			if !chooseReturnShape(e, search, seen) {
				return false
			}
		}
		return true
	}
	return false
}

func c04Variants() []Variant {
	f := "consensus/ucon/sortition.go"
	return []Variant{
		{Name: "priority-keeps-smaller", File: "consensus/ucon/sortition.go", Old: "		if hashInt.Cmp(maxInt) > 0 {\n			maxInt = hashInt", New: "		if hashInt.Cmp(maxInt) < 0 || maxInt.Sign() == 0 {\n			maxInt = hashInt", Rule: "C04.B5", Construct: "keeps-the-greater"},
		{Name: "priority-skips-last-seat", File: "consensus/ucon/sortition.go", Old: "i.Cmp(j) <= 0; i = new(big.Int).Add(i, common.Big1())", New: "i.Cmp(j) <= 0; i = new(big.Int).Add(i, big.NewInt(2))", Rule: "C04.B5", Construct: "iterates-all-seats"},
		{Name: "priority-ignores-seat", File: "consensus/ucon/sortition.go", Old: "		concat = append(concat, i.Bytes()...)\n", New: "", Rule: "C04.B5", Construct: "candidate-binds-hash-and-seat"},
		{Name: "message-without-role", File: f, Old: "	copy(m[32:36], uint32ToBytes(role))\n", New: "	copy(m[32:36], uint32ToBytes(index))\n", Rule: "C04.B1", Construct: "MakeM"},
		{Name: "overlapping-ranges", File: f, Old: "	copy(m[36:], uint32ToBytes(index))", New: "	copy(m[34:], uint32ToBytes(index))", Rule: "C04.B1", Construct: "MakeM"},
		{Name: "seat-count-not-compared", File: f, Old: "	if j <= 0 {\n		return false, fmt.Errorf(\"not a validator.\")\n	}\n	if uint32(j) != subUsers {\n		return false, fmt.Errorf(\"sub-users' number is not correct:%x,%x\", j, subUsers)\n	}\n", New: "	if j <= 0 {\n		return false, fmt.Errorf(\"not a validator.\")\n	}\n	_ = subUsers\n", Rule: "C04.B3", Construct: "VrfVerifySortition"},
		{Name: "verifier-uses-other-p", File: f, Old: "	j := choose(hash, stake, pFloat)\n	if j <= 0 {", New: "	j := choose(hash, stake, pFloat/2)\n	if j <= 0 {", Rule: "C04.B2", Construct: ""},
	}
}

// callsToOpt: calls of an optional anchor (nil if it does not exist).
func callsToOpt(fn *ssa.Function, callee *ssa.Function) []ssa.CallInstruction {
	if callee == nil {
		return nil
	}
	o, ok := callee.Object().(*types.Func)
	if !ok {
		return nil
	}
	return callsTo(fn, o)
}

// vrfTranscript analyses the challenge of (PublicKey).ProofToHash: the hash
// H2 is taken over a byte buffer; which values are written into that buffer?
// Reports whether the transcript contains H1(m) of the message parameter, the
// public key of the receiver, and the VRF point as carried in the proof — each
// reached WITHOUT passing through a curve operation (a point that only enters
// through [s]VRF does not bind the output). The buffer may be filled in a
// helper (also a variadic one): parameters are followed to the arguments.
func vrfTranscript(w *World, pth *ssa.Function) (hasH1, hasPK, hasVRF bool, where string) {
	curveOps := map[string]bool{"ScalarMult": true, "ScalarBaseMult": true, "Add": true, "Double": true}
	// the function that calls H2 on a buffer: pth or a repository function it calls (depth 2)
	type cand struct {
		fn   *ssa.Function
		call ssa.CallInstruction
		via  []ssa.CallInstruction
	}
	var found *cand
	var search func(fn *ssa.Function, via []ssa.CallInstruction, depth int)
	search = func(fn *ssa.Function, via []ssa.CallInstruction, depth int) {
		for _, ci := range callInstrs(fn) {
			o := calleeObj(ci)
			if o == nil {
				continue
			}
			if o.Name() == "H2" && found == nil {
				found = &cand{fn, ci, via}
				return
			}
		}
		if depth == 0 {
			return
		}
		for _, ci := range callInstrs(fn) {
			g := ci.Common().StaticCallee()
			if g != nil && g.Blocks != nil && g.Pkg == pth.Pkg && g != fn && found == nil {
				search(g, append(append([]ssa.CallInstruction(nil), via...), ci), depth-1)
			}
		}
	}
	search(pth, nil, 2)
	if found == nil {
		return false, false, false, "no call of H2 reachable from ProofToHash"
	}
	bind := map[*ssa.Parameter]ssa.Value{}
	for _, ci := range found.via {
		g := ci.Common().StaticCallee()
		for i, prm := range g.Params {
			if i < len(ci.Common().Args) {
				bind[prm] = ci.Common().Args[i]
			}
		}
	}
	// the buffer
	var buf ssa.Value
	if bc, ok := stripConvNoBind(callArgs(found.call)[0]).(*ssa.Call); ok && calleeObj(bc) != nil && calleeObj(bc).Name() == "Bytes" {
		buf = callRecv(bc)
	}
	if buf == nil {
		return false, false, false, "H2 is not taken over the bytes of a buffer"
	}
	var items []ssa.Value
	for _, ci := range callInstrs(found.fn) {
		if o := calleeObj(ci); o != nil && o.Name() == "Write" && callRecv(ci) == buf {
			items = append(items, callArgs(ci)[0])
		}
	}
	seen := map[ssa.Value]bool{}
	var walk func(v ssa.Value)
	storesInto := func(al *ssa.Alloc) []ssa.Value {
		var out []ssa.Value
		var rec func(addr ssa.Value)
		rec = func(addr ssa.Value) {
			if addr.Referrers() == nil {
				return
			}
			for _, r := range *addr.Referrers() {
				switch x := r.(type) {
				case *ssa.Store:
					if x.Addr == addr {
						out = append(out, x.Val)
					}
				case *ssa.IndexAddr:
					if x.X == addr {
						rec(x)
					}
				case *ssa.FieldAddr:
					if x.X == addr {
						rec(x)
					}
				}
			}
		}
		rec(al)
		return out
	}
	walk = func(v ssa.Value) {
		if v == nil || seen[v] {
			return
		}
		seen[v] = true
		switch x := v.(type) {
		case *ssa.Parameter:
			if a, ok := bind[x]; ok {
				walk(a)
			}
			if x == pth.Params[2] {
				// the proof bytes reach the transcript without a curve operation in between (e.g. through a helper that
				// splits the proof into its parts): the scalars s and t only ever enter through ScalarMult / ScalarBaseMult
				hasVRF = true
			}
		case *ssa.Call:
			o := calleeObj(x)
			if o != nil && curveOps[o.Name()] {
				return
			}
			if o != nil && o.Name() == "H1" {
				if a := callArgs(x); len(a) > 0 && stripConvNoBind(a[0]) == ssa.Value(pth.Params[1]) {
					hasH1 = true
				}
				return
			}
			if r := callRecv(x); r != nil {
				walk(r)
			}
			for _, a := range x.Call.Args {
				walk(a)
			}
		case *ssa.Extract:
			walk(x.Tuple)
		case *ssa.Phi:
			for _, e := range x.Edges {
				walk(e)
			}
		case *ssa.UnOp:
			walk(x.X)
		case *ssa.IndexAddr:
			walk(x.X)
		case *ssa.FieldAddr:
			if derivesFrom(x.X, func(y ssa.Value) bool { return y == ssa.Value(pth.Params[0]) }) {
				if n := fieldOfAddr(x).Name(); n == "X" || n == "Y" {
					hasPK = true
				}
			}
			walk(x.X)
		case *ssa.Slice:
			base := stripConvNoBind(x.X)
			if p, isP := base.(*ssa.Parameter); isP {
				if a, ok := bind[p]; ok {
					base = stripConvNoBind(a)
				}
			}
			if base == ssa.Value(pth.Params[2]) {
				hasVRF = true
				return
			}
			walk(x.X)
		case *ssa.Alloc:
			for _, sv := range storesInto(x) {
				walk(sv)
			}
		case *ssa.MakeInterface:
			walk(x.X)
		case *ssa.ChangeType:
			walk(x.X)
		case *ssa.Convert:
			walk(x.X)
		case *ssa.ChangeInterface:
			walk(x.X)
		case *ssa.Lookup:
			walk(x.X)
		case *ssa.BinOp:
			walk(x.X)
			walk(x.Y)
		}
	}
	for _, it := range items {
		walk(it)
	}
	return hasH1, hasPK, hasVRF, fmt.Sprintf("%d values written into the challenge buffer in %s", len(items), found.fn.Name())
}

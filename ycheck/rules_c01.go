package main

import (
	"fmt"
	"go/constant"
	"go/token"
	"go/types"
	"sort"
	"strings"

	"golang.org/x/tools/go/ssa"
)

// C01 — a header is accepted only with a protocol-sized quorum of valid precommits.

const uconPkg = "consensus/ucon"

func init() {
	register(&propDef{
		ID:          "C01",
		Explanation: "Structural necessary conditions of header acceptance, decided on the SSA form of consensus/ucon and core/types: thresholds reaching the sortition/quorum checks derive from protocol parameters and never from the header under verification (R1); votes and the proposer are counted only for non-nil, online validators of the required kind (R2); every accepting return of verifyVotes passed the quorum comparison on a weight that is only increased by the seat count just verified, once per signer, and the aggregate signature when BLS is on (R3); every accepting return of verifyConsensusFieldMain passed the proposer-priority check and the precommit (and certificate) vote checks, and the exported entry points reach it (R4); the block hash covers every header field except the three blanked ones and the quorum fractions are the protocol's (R5). Not decided: soundness of BLS/VRF primitives, liveness, arithmetic of choose().",
		Assumptions: []string{"VrfVerifySortition/VrfVerifyPriority/OverThreshold/VerifyAggregatedOne implement their contracts (C04 checks the first two structurally)", "params.CaravelParams/YouParams fields are the protocol-fixed committee sizes"},
		Run:         runC01,
		Variants:    c01Variants,
	})
}

// isParamsField: field of params.CaravelParams / params.YouParams (or a struct embedded in them).
func isParamsField(s Source) bool {
	if s.Kind != "field" || s.Field == nil || s.Field.Pkg() == nil {
		return false
	}
	return s.Field.Pkg().Path() == full("params")
}

func isConsensusDataField(s Source) bool {
	return s.Kind == "field" && (s.Owner == "BlockConsensusData" || s.Owner == "UconValidators" || s.Owner == "SingleVote")
}

// thresholdProvenance decides whether a threshold operand derives from the
// protocol parameters only. via names intermediate struct fields that are
// accepted here and judged at their own stores.
func thresholdProvenance(w *World, v ssa.Value, via map[*types.Var]bool) (bool, string) {
	srcs := w.sourcesOf(v, 3, nil)
	okParam := false
	var bad []string
	for _, s := range srcs {
		switch {
		case s.Kind == "const":
		case isParamsField(s):
			okParam = true
		case s.Kind == "field" && via[s.Field]:
			okParam = true
		case s.Kind == "call":
			// a getter that returns protocol parameters
			if o := calleeObj(s.Call); o != nil && (o.Name() == "CurrentCaravelParams" || o.Name() == "CurrentYouParams") {
				okParam = true
				continue
			}
			bad = append(bad, s.String())
		default:
			bad = append(bad, s.String())
		}
	}
	if len(bad) > 0 {
		sort.Strings(bad)
		return false, "derives from " + strings.Join(uniq(bad), ", ")
	}
	if !okParam {
		return false, "does not derive from a protocol parameter"
	}
	return true, ""
}

func uniq(s []string) []string {
	var out []string
	for i, x := range s {
		if i == 0 || x != s[i-1] {
			out = append(out, x)
		}
	}
	return out
}

// validatorFacts reports which of (non-nil, kind, online) are established for
// validator value val by the atoms.
func validatorFacts(atoms []Atom, val ssa.Value, kindOK func(ssa.Value) bool) (nonNil, kind, online bool) {
	isVal := func(x ssa.Value) bool {
		if samePath(x, val) {
			return true
		}
		// value receiver: the call takes *val
		if u, ok := x.(*ssa.UnOp); ok && u.Op == token.MUL {
			return samePath(u.X, val)
		}
		return false
	}
	for _, a := range atoms {
		switch a.Kind {
		case "isnil":
			if !a.Truth && isVal(a.X) {
				nonNil = true
			}
		case "true":
			if c, ok := stripConv(a.X).(*ssa.Call); ok {
				o := calleeObj(c)
				if o == nil || recvName(o) != "Validator" || len(c.Call.Args) == 0 || !isVal(c.Call.Args[0]) {
					continue
				}
				if o.Name() == "IsOffline" && !a.Truth {
					online = true
				}
				if o.Name() == "IsOnline" && a.Truth {
					online = true
				}
			}
		case "eq":
			for _, pr := range [][2]ssa.Value{{a.X, a.Y}, {a.Y, a.X}} {
				x, y := stripConv(pr[0]), pr[1]
				if c, ok := x.(*ssa.Call); ok {
					o := calleeObj(c)
					if o != nil && recvName(o) == "Validator" && o.Name() == "Kind" && len(c.Call.Args) > 0 && isVal(c.Call.Args[0]) && a.Truth && kindOK(y) {
						kind = true
					}
				}
				// validator.Status == ValidatorOnline / != ValidatorOffline
				if f, base := loadedField(x); f != nil && f.Name() == "Status" && isVal(base) {
					if cv, ok := stripConv(y).(*ssa.Const); ok && cv.Value != nil {
						if n, ok := constant.Int64Val(cv.Value); ok {
							// params.ValidatorOnline == 1, ValidatorOffline == 0 are resolved by the caller through kindOK-like check below
							if (n == 1 && a.Truth) || (n == 0 && !a.Truth) {
								online = true
							}
						}
					}
				}
			}
		}
	}
	return
}

func runC01(c *Ctx) {
	w := c.W
	vrfSort := w.FuncObj(uconPkg, "", "VrfVerifySortition")
	vrfPrio := w.FuncObj(uconPkg, "", "VrfVerifyPriority")
	overTh := w.FuncObj(uconPkg, "", "OverThreshold")
	verifyVotes := w.Fn(uconPkg, "Server", "verifyVotes")
	vcfMain := w.Fn(uconPkg, "Server", "verifyConsensusFieldMain")
	verifyAc := w.Fn(uconPkg, "Server", "VerifyAcHeader")
	cdThreshold := w.Field(uconPkg, "commonData", "validatorThreshold")
	headerFns := []*ssa.Function{verifyVotes, vcfMain, verifyAc}
	for _, f := range headerFns {
		c.sawFunc(fname(f))
	}
	onlineConst := constOf(w, "params", "ValidatorOnline")
	if v, ok := constant.Int64Val(onlineConst); !ok || v != 1 {
		undecided("params.ValidatorOnline is no longer 1: the online test of C01.R2 must be re-read")
	}

	// ------------------------------------------------------------ R1
	c.Rule("C01.R1", "PROVENANCE", "every threshold operand of VrfVerifySortition, VrfVerifyPriority and OverThreshold inside header verification, and every value stored into commonData.validatorThreshold, derives from fields of params.CaravelParams/YouParams and from nothing decoded from a header")
	c.Min(6)
	via := map[*types.Var]bool{cdThreshold: true}
	for _, fn := range headerFns {
		for _, ci := range callsToAny(fn, vrfSort, vrfPrio, overTh) {
			c.sites++
			o := calleeObj(ci)
			args := callArgs(ci)
			var th ssa.Value
			switch {
			case sameFunc(o, vrfSort):
				th = args[6]
			case sameFunc(o, vrfPrio):
				th = args[7]
			default:
				th = args[1]
			}
			ok, why := thresholdProvenance(w, th, via)
			c.Check(fname(fn)+"#"+o.Name()+".threshold", ci.Pos(), ok, ifelse(ok, "derives from protocol parameters", "the committee size used by the verifier "+why+": the block's author chooses the quorum"))
		}
	}
	nStores := 0
	for _, fn := range w.FuncsIn(uconPkg) {
		for _, fw := range fieldWrites(fn) {
			if fw.Field != cdThreshold {
				continue
			}
			nStores++
			c.sites++
			st := fw.Instr.(*ssa.Store)
			ok, why := thresholdProvenance(w, st.Val, nil)
			c.Check(fname(fn)+"#commonData.validatorThreshold="+shortSrc(w, st.Val), fw.Instr.Pos(), ok, ifelse(ok, "derives from protocol parameters", "the quorum base handed to verifyVotes "+why+": the block's author chooses the committee size"))
		}
	}
	if nStores == 0 {
		c.Undecided("commonData.validatorThreshold", 0, "no store to the threshold carrier found")
	}

	// ------------------------------------------------------------ R2
	c.Rule("C01.R2", "GATE", "weight is added in verifyVotes, and the proposer credential is accepted in verifyConsensusFieldMain, only for a validator record that is non-nil, of the required kind and online (the tests the live vote path applies)")
	c.Min(2)
	// site 1: the VrfVerifySortition call in verifyVotes (stake operand identifies the validator)
	for _, ci := range callsTo(verifyVotes, vrfSort) {
		stakeArg := callArgs(ci)[7]
		val := baseOfFieldLoad(stakeArg, "Stake")
		if val == nil {
			c.Undecided(fname(verifyVotes)+"#voter-membership", ci.Pos(), "cannot identify the validator whose stake is verified")
			continue
		}
		kindParam := paramNamedType(verifyVotes, "ValidatorKind")
		atoms := atomsOf(factsAtInstr(ci))
		nn, kd, on := validatorFacts(atoms, val, func(y ssa.Value) bool { return kindParam != nil && stripConv(y) == ssa.Value(kindParam) })
		ok := nn && kd && on
		c.Check(fname(verifyVotes)+"#voter-membership", ci.Pos(), ok, ifelse(ok, "non-nil, kind and online tests dominate the sortition check", fmt.Sprintf("a vote is verified and counted without the membership tests (non-nil=%v kind=%v online=%v): offline, non-chamber or unknown signers carry weight", nn, kd, on)))
	}
	for _, ci := range callsTo(vcfMain, vrfPrio) {
		stakeArg := callArgs(ci)[8]
		val := baseOfFieldLoad(stakeArg, "Stake")
		if val == nil {
			c.Undecided(fname(vcfMain)+"#proposer-membership", ci.Pos(), "cannot identify the validator whose stake is verified")
			continue
		}
		chamber := constOf(w, "params", "KindChamber")
		atoms := atomsOf(factsAtInstr(ci))
		nn, kd, on := validatorFacts(atoms, val, func(y ssa.Value) bool {
			cv, ok := stripConv(y).(*ssa.Const)
			return ok && cv.Value != nil && constant.Compare(cv.Value, token.EQL, chamber)
		})
		ok := nn && kd && on
		c.Check(fname(vcfMain)+"#proposer-membership", ci.Pos(), ok, ifelse(ok, "non-nil, chamber and online tests dominate the priority check", fmt.Sprintf("the proposer credential is verified without the membership tests (non-nil=%v chamber=%v online=%v)", nn, kd, on)))
	}

	// ------------------------------------------------------------ R3
	c.Rule("C01.R3", "EXIT+SAME-VALUE", "every accepting return of verifyVotes passed OverThreshold(count, threshold, isPos)==true where count only grows by the seat count that was passed to a successful VrfVerifySortition, under a first-time test of the signer map paired with the insertion of that signer; with BLS enabled the return is the result of VerifyAggregatedOne over the payload built from the header hash, round and round index")
	c.Min(5)
	c01R3(c, w, verifyVotes, vrfSort, overTh)

	// ------------------------------------------------------------ R4
	c.Rule("C01.R4", "EXIT", "every accepting return of verifyConsensusFieldMain passed VrfVerifyPriority(step=Proposal)==true and verifyVotes(Precommit, KindChamber, isPos=true)==nil, and in certificate rounds verifyVotes(Certificate, KindChamber, false)==nil; verifyHeader/VerifySeal/VerifySideChainHeader accept only through it and through the seal signature check")
	c.Min(6)
	c01R4(c, w, vcfMain, verifyVotes, vrfPrio)

	// ------------------------------------------------------------ R5
	c.Rule("C01.R5", "EXHAUSTIVE", "the block hash (and so every vote and the seal) covers all header fields except Validator, Signature and Certificate; CopyHeader copies the whole struct; the quorum fractions are 0.685 and 0.585")
	c.Min(4)
	c01R5(c, w)

	// ------------------------------------------------------------ R6
	c.Rule("C01.R6", "FLOWS-TO", "a sortition proof counts only for the step and round index it was issued for: the message every credential is verified against (MakeM) binds seed, step and round index in disjoint constant ranges covering the whole buffer, and VrfVerifySortition / VrfVerifyPriority build it from their own seed, role and index parameters")
	c.Min(3)
	makeM := w.Fn(uconPkg, "", "MakeM")
	c.sawFunc(fname(makeM))
	okM, whyM := messageBinds(makeM)
	c.sites++
	c.Check(fname(makeM)+"#binds-seed-step-index", makeM.Pos(), okM, ifelse(okM, "seed, step and index occupy disjoint ranges covering the message", "the message a vote's sortition proof is verified against does not bind seed, step and round index ("+whyM+"): wrong-step or wrong-index credentials are counted towards the quorum"))
	for _, fn := range []*ssa.Function{w.Fn(uconPkg, "", "VrfVerifySortition"), w.Fn(uconPkg, "", "VrfVerifyPriority")} {
		c.sites++
		calls := callsTo(fn, makeM.Object().(*types.Func))
		var bad []string
		if len(calls) != 1 {
			bad = append(bad, "no single MakeM call")
		} else {
			args := callArgs(calls[0])
			for i, a := range args {
				if i >= len(makeM.Params) {
					break
				}
				want := makeM.Params[i].Name()
				okArg := false
				for _, p := range fn.Params {
					if p.Name() == want && stripConv(a) == ssa.Value(p) {
						okArg = true
					}
				}
				if !okArg {
					bad = append(bad, "MakeM argument "+want+" is not the verifier's own "+want)
				}
			}
		}
		c.Check(fname(fn)+"#verifies-against-own-seed-step-index", fn.Pos(), len(bad) == 0, ifelse(len(bad) == 0, "MakeM(seed, role, index) of the verifier's own parameters", strings.Join(bad, "; ")+": the credential is not verified for the claimed step / round index"))
	}
	// ------------------------------------------------------------ R7
	c.Rule("C01.R7", "PROVENANCE", "the validator set in which header verification resolves voters and the proposer is the protocol's stake look-back set: every call in consensus/ucon that opens a validator reader from a look-back kind passes LookBackStake / LookBackCertStake, a kind converted by TurnToStakeType, or its caller's own kind (judged at the caller) — never a seed / position kind, which maps to a nearer block")
	c.Min(4)
	lookBackStakeKinds(c, w)

	// ------------------------------------------------------------ R8
	c.Rule("C01.R8", "FLOWS-TO", "a sortition proof pins its output: the challenge that (PublicKey).ProofToHash recomputes and compares is a hash over a transcript that contains — each directly, not merely through a curve operation — H1 of the message, the verifier's public key and the VRF point carried in the proof; the index is returned only when the comparison succeeds. Otherwise a key holder picks the output, derives a matching proof, and grinds seats and priorities: weight-inflated votes would count")
	c.Min(1)
	{
		pth := w.Fn("crypto/vrf/secp256k1", "PublicKey", "ProofToHash")
		c.sawFunc(fname(pth))
		h1, pkIn, vrfIn, where := vrfTranscript(w, pth)
		c.sites++
		okT := h1 && pkIn && vrfIn
		c.Check(fname(pth)+"#challenge-binds-message-key-and-output", pth.Pos(), okT, ifelse(okT, "the challenge transcript contains H1(m), the public key and the VRF point of the proof ("+where+")", fmt.Sprintf("the challenge hash does not cover (H1 of the message=%v, the public key=%v, the VRF point carried in the proof=%v) directly (%s): a key holder can choose the VRF output freely and still present a proof that verifies", h1, pkIn, vrfIn, where)))
	}

	// ------------------------------------------------------------ R10
	c.Rule("C01.R10", "PROVENANCE", "the committee size, proposer threshold, look-back distance and signature scheme are those of the protocol version in force, never of a version the block's author names: the *params.YouParams that the verification entry points hand to verifyConsensusField come from the chain's version schedule (VersionForRound*) or from the caller — they derive from no field of the header under verification other than its position in the chain (Number, ParentHash) — not params.Versions[header.CurrVersion]")
	c.Min(2)
	{
		vcf := w.FuncObj("consensus/ucon", "Server", "verifyConsensusField")
		ypT := w.Named("params", "YouParams")
		n := 0
		for _, fn := range w.FuncsIn("consensus/ucon") {
			if fn.Blocks == nil || strings.HasSuffix(w.fileOf(fn.Pos()), "_test.go") {
				continue
			}
			for _, ci := range callsTo(fn, vcf) {
				args := callArgs(ci)
				var yp, hdr ssa.Value
				for _, a := range args {
					if types.Identical(deref(a.Type()), ypT) {
						yp = a
					}
					if nt, ok := deref(a.Type()).(*types.Named); ok && nt.Obj().Name() == "Header" && hdr == nil {
						hdr = stripConvNoBind(a)
					}
				}
				if yp == nil || hdr == nil {
					continue
				}
				n++
				c.sites++
				c.sawFunc(fname(fn))
				fromHdr := ""
				derivesFrom(yp, func(x ssa.Value) bool {
					if fa, ok := x.(*ssa.FieldAddr); ok && stripConvNoBind(fa.X) == hdr {
						if f := fieldOfAddr(fa); f != nil && f.Name() != "Number" && f.Name() != "ParentHash" {
							fromHdr = f.Name()
							return true
						}
					}
					return false
				})
				// a local variable the looked-up value was stored into
				if fromHdr == "" {
					if al, ok := stripConvNoBind(yp).(*ssa.Alloc); ok {
						for _, r := range *al.Referrers() {
							if st, isSt := r.(*ssa.Store); isSt && st.Addr == ssa.Value(al) {
								derivesFrom(st.Val, func(x ssa.Value) bool {
									if fa, ok := x.(*ssa.FieldAddr); ok && stripConvNoBind(fa.X) == hdr {
										if f := fieldOfAddr(fa); f != nil && f.Name() != "Number" && f.Name() != "ParentHash" {
											fromHdr = f.Name()
											return true
										}
									}
									return false
								})
							}
						}
					}
				}
				sched := derivesFrom(yp, func(x ssa.Value) bool {
					if cc, ok := x.(*ssa.Call); ok {
						if o := calleeObj(cc); o != nil && strings.HasPrefix(o.Name(), "VersionForRound") {
							return true
						}
					}
					if p, ok := x.(*ssa.Parameter); ok && types.Identical(deref(p.Type()), ypT) {
						return true
					}
					return false
				})
				ok := fromHdr == "" && sched
				c.Check(fmt.Sprintf("%s#params-of-the-version-in-force", fname(fn)), ci.Pos(), ok, ifelse(ok, "the parameters come from the chain's version schedule (or the caller)", ifelse(fromHdr != "", "the parameters are looked up with header."+fromHdr+" of the header under verification: its author chooses the committee size, thresholds, look-back distance and signature scheme the header is judged by", "the parameters do not come from the chain's version schedule")))
			}
		}
		if n == 0 {
			c.Undecided("consensus/ucon#verifyConsensusField-callers", token.NoPos, "no call of verifyConsensusField found")
		}
	}

	// ------------------------------------------------------------ R9
	c.Rule("C01.R9", "MUST-REACH", "a valid signature of every counted voter: with BLS enabled verifyVotes checks ONE aggregate over a common message against the sum of the listed validators' BLS keys, which proves each listed voter signed only if every registered key is known to be possessed by its registrant (otherwise a key chosen as x*G minus the others' keys lets one validator sign for all of them). So the path that admits a BLS key from a transaction into a validator record — TxCreateValidator.PreCheck / Verify, handleCreate, teCreate — reaches a single-key BLS verification (a proof of possession)")
	c.Min(1)
	{
		vv := w.Fn("consensus/ucon", "Server", "verifyVotes")
		common := false
		for _, ci := range callInstrs(vv) {
			if o := calleeObj(ci); o != nil && o.Name() == "VerifyAggregatedOne" {
				common = true
			}
		}
		roots := []*ssa.Function{
			w.Fn("staking", "TxCreateValidator", "PreCheck"),
			w.Fn("staking", "TxCreateValidator", "Verify"),
			w.Fn("staking", "", "handleCreate"),
			w.Fn("staking", "", "teCreate"),
		}
		for _, r := range roots {
			c.sawFunc(fname(r))
		}
		reach := w.ReachableFrom(roots, func(fn *ssa.Function) bool {
			if fn.Pkg == nil {
				return false
			}
			p := fn.Pkg.Pkg.Path()
			return p == full("logging") || strings.HasPrefix(p, full("metrics")) || p == full("trie") || p == full("rlp")
		})
		proves := ""
		for fn := range reach {
			for _, ci := range callInstrs(fn) {
				o := calleeObj(ci)
				if o == nil || o.Pkg() == nil {
					continue
				}
				pp := o.Pkg().Path()
				single := (pp == full("bls") && o.Name() == "Verify") || (strings.HasSuffix(pp, "/g2pubs") && o.Name() == "Verify")
				if single {
					proves = fname(fn) + " at " + w.Pos(ci.Pos())
				}
			}
		}
		c.sites++
		c.Note("R9: %d functions reachable from the create-validator path", len(reach))
		if !common {
			c.Pass("staking.TxCreateValidator#bls-key-possession-proven", roots[0].Pos(), "verifyVotes does not use the common-message aggregate check: no possession proof is needed")
		} else {
			c.Check("staking.TxCreateValidator#bls-key-possession-proven", roots[0].Pos(), proves != "", ifelse(proves != "", "the registration path verifies a signature under the new BLS key ("+proves+")", "verifyVotes accepts one aggregate signature over a common message for the SUM of the listed BLS keys, and nothing on the registration path (PreCheck, Verify, handleCreate, teCreate) verifies that the registrant holds the secret of the BLS key it registers: a validator registering pk = x*G2 - (pk1+..+pkn) makes a header carrying the others' public sortition proofs and ONE signature of its own verify as if all of them had signed"))
		}
	}
}

func ifelse(b bool, x, y string) string {
	if b {
		return x
	}
	return y
}

func constOf(w *World, rel, name string) constant.Value {
	p := w.Pkg(rel)
	cobj, ok := p.Types.Scope().Lookup(name).(*types.Const)
	if !ok {
		undecided("anchor constant %s.%s does not resolve", rel, name)
	}
	return cobj.Val()
}

// baseOfFieldLoad: v is x.<field>; returns x.
func baseOfFieldLoad(v ssa.Value, field string) ssa.Value {
	f, base := loadedField(stripConv(v))
	if f == nil || f.Name() != field {
		return nil
	}
	return base
}

func paramNamedType(fn *ssa.Function, typeName string) *ssa.Parameter {
	for _, p := range fn.Params {
		if n, ok := p.Type().(*types.Named); ok && n.Obj().Name() == typeName {
			return p
		}
	}
	return nil
}

func shortSrc(w *World, v ssa.Value) string {
	var parts []string
	for _, s := range w.sourcesOf(v, 0, nil) {
		if s.Kind == "field" {
			parts = append(parts, s.Owner+"."+s.Field.Name())
		} else if s.Kind != "const" {
			parts = append(parts, s.Kind)
		}
	}
	sort.Strings(parts)
	return strings.Join(uniq(parts), "+")
}

func c01R3(c *Ctx, w *World, vv *ssa.Function, vrfSort, overTh *types.Func) {
	name := fname(vv)
	ots := callsTo(vv, overTh)
	if len(ots) != 1 {
		c.Undecided(name+"#quorum", vv.Pos(), fmt.Sprintf("expected one OverThreshold call, found %d", len(ots)))
		return
	}
	ot := ots[0]
	aggO := w.FuncObj("bls", "BlsManager", "VerifyAggregatedOne")
	enableBls := w.Field("params", "CaravelParams", "EnableBls")
	// (a) exits
	for i, rp := range returnPaths(vv, errResultIdx(vv)) {
		if !rp.MayBeNil() {
			continue
		}
		c.sites++
		atoms := rp.Atoms()
		quorum := hasBoolResult(atoms, ot, 0, true)
		blsOK := false
		if rp.Kind == RetForward && sameFunc(calleeObj(rp.Call), aggO) {
			blsOK = true
		} else {
			for _, a := range atoms {
				if a.Kind == "true" && !a.Truth {
					if f, _ := loadedField(stripConv(a.X)); f == enableBls {
						blsOK = true
					}
				}
			}
		}
		ok := quorum && blsOK
		c.Check(fmt.Sprintf("%s#accepting-return-%d", name, i), rp.Ret.Pos(), ok, ifelse(ok, "passes the quorum test and the aggregate check / BLS-off test",
			fmt.Sprintf("verifyVotes can return success without %s", ifelse(!quorum, "the quorum comparison", "the aggregate-signature check while BLS is enabled"))))
	}
	// (b) what is counted
	countArg := callArgs(ot)[0]
	var adds []*ssa.BinOp
	otherSources := false
	backward(countArg, func(v ssa.Value) bool {
		switch x := v.(type) {
		case *ssa.Phi, *ssa.Const:
			return true
		case *ssa.BinOp:
			if x.Op == token.ADD {
				adds = append(adds, x)
				return false
			}
		}
		if v != countArg {
			otherSources = true
		}
		return true
	})
	if len(adds) == 0 || otherSources {
		c.Fail(name+"#count", ot.Pos(), "the weight compared with the quorum is not an accumulator that only grows by verified seat counts")
	}
	inCycle := func(v ssa.Value) bool {
		_, isPhi := v.(*ssa.Phi)
		return isPhi || v == countArg
	}
	for i, add := range adds {
		c.sites++
		var wgt ssa.Value
		if inCycle(add.X) {
			wgt = add.Y
		} else if inCycle(add.Y) {
			wgt = add.X
		}
		key := fmt.Sprintf("%s#count-add-%d", name, i)
		if wgt == nil {
			c.Fail(key, add.Pos(), "the accumulator is combined with something other than a vote weight")
			continue
		}
		verified := false
		for _, sc := range callsTo(vv, vrfSort) {
			if samePath(callArgs(sc)[5], wgt) && gatedByBool(add, sc, 0, true) {
				verified = true
			}
		}
		c.Check(key+"-verified", add.Pos(), verified, ifelse(verified, "adds exactly the seat count passed to the successful VrfVerifySortition", "the weight added is not the seat count verified by a successful VrfVerifySortition on this path: inflated or unverified votes count"))
		// dedupe
		first, inserted := false, false
		var keyVal ssa.Value
		for _, a := range atomsOf(factsAtInstr(add)) {
			var lk *ssa.Lookup
			truth := a.Truth
			switch a.Kind {
			case "eq":
				if l, ok := stripConv(a.X).(*ssa.Lookup); ok {
					if cv, ok := stripConv(a.Y).(*ssa.Const); ok && cv.Value != nil && cv.Value.Kind() == constant.Bool {
						lk = l
						if !constant.BoolVal(cv.Value) {
							truth = !truth
						}
					}
				}
			case "true":
				if l, ok := stripConv(a.X).(*ssa.Lookup); ok {
					lk = l
				} else if e, ok := stripConv(a.X).(*ssa.Extract); ok {
					if l, ok := e.Tuple.(*ssa.Lookup); ok && e.Index == 1 {
						lk = l
					}
				}
			}
			if lk != nil && !truth {
				if _, isMap := lk.X.Type().Underlying().(*types.Map); isMap {
					first = true
					keyVal = lk.Index
					// insertion of the same key on the same paths
					for _, b := range vv.Blocks {
						for _, in := range b.Instrs {
							if mu, ok := in.(*ssa.MapUpdate); ok && mu.Map == lk.X && samePath(mu.Key, keyVal) && alwaysWith(add, []ssa.Instruction{mu}) {
								inserted = true
							}
						}
					}
				}
			}
		}
		ok := first && inserted
		c.Check(key+"-once-per-signer", add.Pos(), ok, ifelse(ok, "dominated by the not-yet-seen test and paired with the insertion of the signer", fmt.Sprintf("the weight is added without the once-per-signer discipline (first-time test=%v, insertion=%v): duplicated or replayed votes count again", first, inserted)))
	}
	// (c) the payload
	hh := w.Field(uconPkg, "commonData", "headerHash")
	rd := w.Field(uconPkg, "commonData", "round")
	ri := w.Field(uconPkg, "commonData", "roundIndex")
	checkPayload := func(what string, ci ssa.CallInstruction, v ssa.Value) {
		got := map[*types.Var]bool{}
		for _, s := range w.sourcesOf(v, 0, func(*ssa.Call) bool { return true }) {
			if s.Kind == "field" {
				got[s.Field] = true
			}
		}
		ok := got[hh] && got[rd] && got[ri]
		c.Check(name+"#payload-"+what, ci.Pos(), ok, ifelse(ok, "payload is built from the header hash, round and round index under verification", "the signed payload checked here does not include the hash of the header under verification, its round and round index: votes for another block or round count"))
	}
	for _, ci := range callsTo(vv, aggO) {
		checkPayload("aggregate", ci, callArgs(ci)[1])
	}
	for _, ci := range callsTo(vv, w.FuncObj(uconPkg, "", "GetSignaturePublicKey")) {
		checkPayload("secp", ci, callArgs(ci)[0])
	}
}

func c01R4(c *Ctx, w *World, main, vv *ssa.Function, vrfPrio *types.Func) {
	name := fname(main)
	vvObj := vv.Object().(*types.Func)
	prio := callsTo(main, vrfPrio)
	votes := callsTo(main, vvObj)
	if len(prio) != 1 || len(votes) < 2 {
		c.Undecided(name+"#acceptance", main.Pos(), fmt.Sprintf("expected 1 VrfVerifyPriority and 2 verifyVotes calls, found %d and %d", len(prio), len(votes)))
		return
	}
	stepConst := func(n string) constant.Value { return constOf(w, uconPkg, n) }
	isConst := func(v ssa.Value, want constant.Value) bool {
		cv, ok := stripConv(v).(*ssa.Const)
		return ok && cv.Value != nil && constant.Compare(constant.ToInt(cv.Value), token.EQL, constant.ToInt(want))
	}
	isBool := func(v ssa.Value, want bool) bool {
		cv, ok := stripConv(v).(*ssa.Const)
		return ok && cv.Value != nil && cv.Value.Kind() == constant.Bool && constant.BoolVal(cv.Value) == want
	}
	// the quorum kind that reaches OverThreshold inside verifyVotes for a given call: the third argument of
	// OverThreshold evaluated with the call's constant arguments substituted for verifyVotes' parameters
	var evalAt func(site ssa.CallInstruction, v ssa.Value, depth int) constant.Value
	evalAt = func(site ssa.CallInstruction, v ssa.Value, depth int) constant.Value {
		if depth > 6 {
			return nil
		}
		switch x := v.(type) {
		case *ssa.Const:
			return x.Value
		case *ssa.Convert:
			return evalAt(site, x.X, depth+1)
		case *ssa.ChangeType:
			return evalAt(site, x.X, depth+1)
		case *ssa.Parameter:
			for i, p := range vv.Params {
				if p == x && i >= 1 && i-1 < len(callArgs(site)) {
					return evalAt(site, callArgs(site)[i-1], depth+1)
				}
			}
		case *ssa.BinOp:
			l, r := evalAt(site, x.X, depth+1), evalAt(site, x.Y, depth+1)
			if l == nil || r == nil {
				return nil
			}
			switch x.Op {
			case token.EQL, token.NEQ, token.LSS, token.LEQ, token.GTR, token.GEQ:
				if l.Kind() == constant.Bool || r.Kind() == constant.Bool {
					if x.Op == token.EQL {
						return constant.MakeBool(constant.BoolVal(l) == constant.BoolVal(r))
					}
					if x.Op == token.NEQ {
						return constant.MakeBool(constant.BoolVal(l) != constant.BoolVal(r))
					}
					return nil
				}
				return constant.MakeBool(constant.Compare(constant.ToInt(l), x.Op, constant.ToInt(r)))
			}
		case *ssa.UnOp:
			if x.Op == token.NOT {
				if o := evalAt(site, x.X, depth+1); o != nil && o.Kind() == constant.Bool {
					return constant.MakeBool(!constant.BoolVal(o))
				}
			}
		}
		return nil
	}
	quorumKind := func(site ssa.CallInstruction) (bool, bool) {
		var known, val, first = true, false, true
		n := 0
		for _, oc := range callsByName(vv, "ucon", "OverThreshold") {
			n++
			cv := evalAt(site, callArgs(oc)[2], 0)
			if cv == nil || cv.Kind() != constant.Bool {
				known = false
				continue
			}
			if first {
				val, first = constant.BoolVal(cv), false
			} else if val != constant.BoolVal(cv) {
				known = false
			}
		}
		return val, known && n > 0
	}
	_ = isBool
	var pre, cert ssa.CallInstruction
	for _, v := range votes {
		a := callArgs(v)
		if len(a) < 5 {
			continue
		}
		pos, known := quorumKind(v)
		switch {
		case isConst(a[3], stepConst("Precommit")) && isConst(a[4], constOf(w, "params", "KindChamber")) && known && pos:
			pre = v
		case isConst(a[3], stepConst("Certificate")) && isConst(a[4], constOf(w, "params", "KindChamber")) && known && !pos:
			cert = v
		}
	}
	c.Check(name+"#precommit-check-args", main.Pos(), pre != nil, ifelse(pre != nil, "verifyVotes(Precommit, KindChamber) present and its quorum test uses the precommit fraction (OverThreshold(…, true))", "no verifyVotes call checks chamber precommits against the precommit quorum fraction 0.685 (the quorum kind that reaches OverThreshold for that call is not the constant true): a header with precommit weight between the certificate and the precommit fraction is accepted"))
	c.Check(name+"#certificate-check-args", main.Pos(), cert != nil, ifelse(cert != nil, "verifyVotes(Certificate, KindChamber) present and its quorum test uses the certificate fraction (OverThreshold(…, false))", "no verifyVotes call checks chamber certificate votes against the certificate quorum fraction"))
	pa := callArgs(prio[0])
	c.Check(name+"#priority-step", prio[0].Pos(), isConst(pa[3], stepConst("UConStepProposal")), "the proposer credential is verified for the proposal step")
	acoFreq := constOf(w, "params", "ACoCHTFrequency")
	for i, rp := range returnPaths(main, errResultIdx(main)) {
		if !rp.MayBeNil() {
			continue
		}
		c.sites++
		atoms := rp.Atoms()
		pOK := hasBoolResult(atoms, prio[0], 0, true) && hasErrNil(atoms, prio[0])
		vOK := pre != nil && (hasErrNil(atoms, pre) || (rp.Kind == RetForward && rp.Call == pre))
		cOK := cert != nil && (hasErrNil(atoms, cert) || (rp.Kind == RetForward && rp.Call == cert))
		if !cOK && cert != nil {
			// every path to this return either passed the certificate check with a
			// nil result or left the "certificate round" test on its false side
			cOK = allPathsPassEdge(main, rp.Block, func(from, to *ssa.BasicBlock) bool {
				f, ok := edgeFact(from, to)
				if !ok {
					return false
				}
				as := atomsOf([]Fact{f})
				if hasErrNil(as, cert) {
					return true
				}
				if f.Truth {
					return false
				}
				if condMentionsRem(as[0], acoFreq) {
					return true
				}
				// short-circuit partner: `x > 0 && x%F == 0`
				if t := from.Succs[0]; len(t.Instrs) > 0 {
					if ifi, ok := t.Instrs[len(t.Instrs)-1].(*ssa.If); ok && t.Succs[1] == to {
						if condMentionsRem(atomsOf([]Fact{{Cond: ifi.Cond, Truth: true}})[0], acoFreq) {
							return true
						}
					}
				}
				return false
			})
		}
		ok := pOK && vOK && cOK
		var miss []string
		if !pOK {
			miss = append(miss, "the proposer priority check")
		}
		if !vOK {
			miss = append(miss, "the precommit quorum check")
		}
		if !cOK {
			miss = append(miss, "the certificate quorum check in a certificate round")
		}
		c.Check(fmt.Sprintf("%s#accepting-return-%d", name, i), rp.Ret.Pos(), ok, ifelse(ok, "passes priority, precommit and (in certificate rounds) certificate checks", "a header can be accepted without "+strings.Join(miss, " and ")))
	}
	// wrappers
	mainObj := main.Object().(*types.Func)
	vcf := w.Fn(uconPkg, "Server", "verifyConsensusField")
	vcasc := w.Fn(uconPkg, "Server", "verifyCascadingFields")
	vh := w.Fn(uconPkg, "Server", "verifyHeader")
	vsig := w.FuncObj(uconPkg, "Server", "verifySignature")
	type wrap struct {
		fn    *ssa.Function
		must  []*types.Func
		exits string
	}
	wraps := []wrap{
		{vcf, []*types.Func{mainObj}, ""},
		{w.Fn(uconPkg, "Server", "VerifySeal"), []*types.Func{vsig, vcf.Object().(*types.Func)}, ""},
		{w.Fn(uconPkg, "Server", "VerifySideChainHeader"), []*types.Func{mainObj}, ""},
		{vh, []*types.Func{vsig, vcasc.Object().(*types.Func)}, ""},
	}
	for _, wr := range wraps {
		c.sawFunc(fname(wr.fn))
		for i, rp := range returnPaths(wr.fn, errResultIdx(wr.fn)) {
			if !rp.MayBeNil() {
				continue
			}
			atoms := rp.Atoms()
			ok := true
			var miss []string
			for _, m := range wr.must {
				hit := false
				for _, ci := range callsTo(wr.fn, m) {
					if hasErrNil(atoms, ci) || (rp.Kind == RetForward && rp.Call == ci) {
						hit = true
					}
				}
				if !hit {
					ok = false
					miss = append(miss, m.Name())
				}
			}
			c.Check(fmt.Sprintf("%s#accepting-return-%d", fname(wr.fn), i), rp.Ret.Pos(), ok, ifelse(ok, "accepts only through "+funcNames(wr.must), "can return success without "+strings.Join(miss, ", ")))
		}
	}
	// verifyCascadingFields: with seal=true every accepting return past the genesis test forwards verifyConsensusField
	c.sawFunc(fname(vcasc))
	sealParam := (*ssa.Parameter)(nil)
	for _, p := range vcasc.Params {
		if p.Name() == "seal" || (types.Identical(p.Type(), types.Typ[types.Bool])) {
			sealParam = p
		}
	}
	for i, rp := range returnPaths(vcasc, errResultIdx(vcasc)) {
		if !rp.MayBeNil() {
			continue
		}
		atoms := rp.Atoms()
		ok := false
		if rp.Kind == RetForward && sameFunc(calleeObj(rp.Call), vcf.Object().(*types.Func)) {
			ok = true
		}
		for _, a := range atoms {
			// seal == false, or number == 0 (genesis)
			if a.Kind == "true" && !a.Truth && sealParam != nil && stripConv(a.X) == ssa.Value(sealParam) {
				ok = true
			}
			if a.Kind == "eq" && a.Truth {
				if n, isC := constInt(a.Y); isC && n == 0 {
					ok = true
				}
			}
		}
		c.Check(fmt.Sprintf("%s#accepting-return-%d", fname(vcasc), i), rp.Ret.Pos(), ok, ifelse(ok, "genesis, seal not requested, or forwarded to verifyConsensusField", "verifyCascadingFields can accept a sealed non-genesis header without verifyConsensusField"))
	}
}

func funcNames(fs []*types.Func) string {
	var n []string
	for _, f := range fs {
		n = append(n, f.Name())
	}
	return strings.Join(n, "+")
}

// condMentionsRem: the atom compares (x % K) with something, K the given constant.
func condMentionsRem(a Atom, k constant.Value) bool {
	found := false
	for _, v := range []ssa.Value{a.X, a.Y} {
		if v == nil {
			continue
		}
		backward(v, func(x ssa.Value) bool {
			if b, ok := x.(*ssa.BinOp); ok && b.Op == token.REM {
				if cv, ok := stripConv(b.Y).(*ssa.Const); ok && cv.Value != nil && constant.Compare(constant.ToInt(cv.Value), token.EQL, constant.ToInt(k)) {
					found = true
				}
			}
			_, isCall := x.(*ssa.Call)
			return !isCall && !found
		})
	}
	return found
}

func c01R5(c *Ctx, w *World) {
	ufh := w.Fn("core/types", "", "UconFilteredHeader")
	c.sawFunc(fname(ufh))
	hdr := w.Struct("core/types", "Header")
	blanked := map[string]bool{}
	for _, fw := range fieldWrites(ufh) {
		if ownerOfField(hdr, fw.Field) {
			blanked[fw.Field.Name()] = true
		}
	}
	want := map[string]bool{"Validator": true, "Signature": true, "Certificate": true}
	var extra, missing []string
	for f := range blanked {
		if !want[f] {
			extra = append(extra, f)
		}
	}
	for f := range want {
		if !blanked[f] {
			missing = append(missing, f)
		}
	}
	sort.Strings(extra)
	sort.Strings(missing)
	c.Check("core/types.UconFilteredHeader#blanked-fields", ufh.Pos(), len(extra) == 0, ifelse(len(extra) == 0, "blanks only Validator, Signature, Certificate", "the hash that votes and the seal sign no longer covers header field(s) "+strings.Join(extra, ", ")))
	c.Check("core/types.UconFilteredHeader#vote-carriers-blanked", ufh.Pos(), len(missing) == 0, ifelse(len(missing) == 0, "the three vote/seal carriers are excluded from the hash", "field(s) "+strings.Join(missing, ", ")+" that are filled after voting are hashed: no committed header would verify"))
	// the filtered header is a full copy of the input
	ch := w.FuncObj("core/types", "", "CopyHeader")
	copied := len(callsTo(ufh, ch)) == 1
	c.Check("core/types.UconFilteredHeader#copies-header", ufh.Pos(), copied, "starts from CopyHeader(h)")
	chf := w.Fn("core/types", "", "CopyHeader")
	c.sawFunc(fname(chf))
	// CopyHeader begins with a whole-struct copy: a Store of *h into the fresh allocation
	whole := false
	for _, b := range chf.Blocks {
		for _, in := range b.Instrs {
			if st, ok := in.(*ssa.Store); ok {
				if _, isAlloc := st.Addr.(*ssa.Alloc); isAlloc {
					if u, ok := st.Val.(*ssa.UnOp); ok && u.Op == token.MUL {
						if p, ok := u.X.(*ssa.Parameter); ok && p == chf.Params[0] {
							whole = true
						}
					}
				}
			}
		}
	}
	c.Check("core/types.CopyHeader#whole-struct", chf.Pos(), whole, ifelse(whole, "copies the whole struct before deep-copying reference fields", "CopyHeader no longer copies the whole header struct: fields can be dropped from the hash"))
	// Header.Hash hashes the filtered header or the header itself
	hh := w.Fn("core/types", "Header", "Hash")
	c.sawFunc(fname(hh))
	rlpHash := w.FuncObj("core/types", "", "rlpHash")
	okHash := true
	n := 0
	for _, ci := range callsTo(hh, rlpHash) {
		n++
		arg := stripConv(callArgs(ci)[0])
		isRecv := arg == ssa.Value(hh.Params[0])
		isFiltered := false
		if cl, ok := arg.(*ssa.Call); ok && sameFunc(calleeObj(cl), ufh.Object().(*types.Func)) {
			isFiltered = true
		}
		if !isRecv && !isFiltered {
			okHash = false
		}
	}
	c.Check("(core/types.Header).Hash#input", hh.Pos(), okHash && n >= 1, "hashes the RLP of the header itself or of its filtered copy")
	for _, cn := range []struct {
		name string
		val  string
	}{{"ValidatorProportionThreshold", "0.685"}, {"CertValProportionThreshold", "0.585"}} {
		got := constOf(w, uconPkg, cn.name)
		want := constant.MakeFromLiteral(cn.val, token.FLOAT, 0)
		ok := constant.Compare(got, token.EQL, want)
		c.Check("consensus/ucon."+cn.name, 0, ok, ifelse(ok, "equals "+cn.val, "quorum fraction changed to "+got.String()))
	}
	// OverThreshold compares count >= uint32(float64(threshold)*fraction) with the fraction chosen by isPos
	ot := w.Fn(uconPkg, "", "OverThreshold")
	c.sawFunc(fname(ot))
	okCmp := false
	for _, b := range ot.Blocks {
		for _, in := range b.Instrs {
			if bo, ok := in.(*ssa.BinOp); ok && (bo.Op == token.GEQ || bo.Op == token.LSS || bo.Op == token.LEQ || bo.Op == token.GTR) {
				l, r := stripConv(bo.X), bo.Y
				if bo.Op == token.LEQ || bo.Op == token.GTR {
					l, r = stripConv(bo.Y), bo.X
				}
				if l == ssa.Value(ot.Params[0]) && derivesFrom(r, func(v ssa.Value) bool { return v == ssa.Value(ot.Params[1]) }) {
					if bo.Op == token.GEQ || bo.Op == token.LEQ || bo.Op == token.LSS || bo.Op == token.GTR {
						okCmp = true
					}
				}
			}
		}
	}
	c.Check("consensus/ucon.OverThreshold#comparison", ot.Pos(), okCmp, ifelse(okCmp, "compares the count parameter with a bound computed from the threshold parameter", "OverThreshold no longer compares the counted weight with a bound derived from the committee size"))
}

func ownerOfField(s *types.Struct, f *types.Var) bool {
	for i := 0; i < s.NumFields(); i++ {
		if s.Field(i) == f {
			return true
		}
	}
	return false
}

func c01Variants() []Variant {
	f := "consensus/ucon/consensus.go"
	return []Variant{
		{Name: "threshold-from-header", File: f, Old: "validatorThreshold: cp.ValidatorThreshold,", New: "validatorThreshold: consensusData.ValidatorThreshold,", Rule: "C01.R1", Construct: "verifyConsensusFieldMain"},
		{Name: "proposer-threshold-from-header", File: f, Old: "consensusData.Priority, consensusData.SubUsers, cp.ProposerThreshold,", New: "consensusData.Priority, consensusData.SubUsers, consensusData.ProposerThreshold,", Rule: "C01.R1", Construct: "VrfVerifyPriority"},
		{Name: "drop-online-test", File: f, Old: "if validator == nil || validator.IsOffline() || validator.Kind() != kind {", New: "if validator == nil || validator.Kind() != kind {", Rule: "C01.R2", Construct: "voter-membership"},
		{Name: "count-before-sortition", File: f, Old: "		//verify sortition\n		vrfpk, err := secp256k1VRF.NewVRFVerifier(pubKey)", New: "		count += v.Votes\n		//verify sortition\n		vrfpk, err := secp256k1VRF.NewVRFVerifier(pubKey)", Rule: "C01.R3", Construct: "count-add"},
		{Name: "delete-duplicate-test", File: f, Edits: [][2]string{{"		if staData[addr] == true {\n			continue\n		}\n		// only online", "		// only online"}, {"			if staData[addr] == true {\n				continue\n			} else {\n				blspubs = append(blspubs, pk)\n			}", "			blspubs = append(blspubs, pk)"}}, Rule: "C01.R3", Construct: "once-per-signer"},
		{Name: "count-voter-index", File: f, Old: "		count += v.Votes\n	}\n	if !OverThreshold", New: "		count += v.VoterIdx\n	}\n	if !OverThreshold", Rule: "C01.R3", Construct: "verified"},
		{Name: "skip-aggregate-check", File: f, Old: "		err = s.blsMgr.VerifyAggregatedOne(blspubs, payload, sig)\n", New: "		_ = s.blsMgr.VerifyAggregatedOne(blspubs, payload, sig)\n", Rule: "C01.R3", Construct: "accepting-return"},
		{Name: "ignore-priority-result", File: f, Old: "	if err != nil || !isValid {\n		logging.Error(\"VerifyHeader failed, priority is invalid.\"", New: "	_ = isValid\n	if err != nil {\n		logging.Error(\"VerifyHeader failed, priority is invalid.\"", Rule: "C01.R4", Construct: "verifyConsensusFieldMain#accepting-return"},
		{Name: "return-before-certificate", File: f, Old: "		cd.cp = &yp.CaravelParams\n		cd.lbVld = certVldReader", New: "		if len(header.Certificate) == 0 {\n			return nil\n		}\n		cd.cp = &yp.CaravelParams\n		cd.lbVld = certVldReader", Rule: "C01.R4", Construct: "verifyConsensusFieldMain#accepting-return"},
		{Name: "blank-consensus", File: "core/types/ucon.go", Old: "	newHeader.Certificate = []byte{}\n", New: "	newHeader.Certificate = []byte{}\n	newHeader.Consensus = []byte{}\n", Rule: "C01.R5", Construct: "blanked-fields"},
		{Name: "quorum-half", File: "consensus/ucon/config.go", Old: "ValidatorProportionThreshold = 0.685", New: "ValidatorProportionThreshold = 0.5", Rule: "C01.R5", Construct: "ValidatorProportionThreshold"},
	}
}

// lookBackStakeKinds: validator sets are read at the STAKE look-back. Every
// call that opens a validator reader from a look-back kind passes
// LookBackStake / LookBackCertStake, a value converted by TurnToStakeType, or
// the caller's own look-back parameter (then the caller's call sites are
// judged, to a fixpoint). Shared by C01.R7 (verifier side) and C03.Q10
// (signer / counting side): both sides must resolve voter indexes in the same
// validator set, the one sortition credentials are issued for.
func lookBackStakeKinds(c *Ctx, w *World) {
	lbT := w.Named("params", "LookBackType")
	readerT := w.Named(statePkg, "ValidatorReader")
	stakeV, _ := constant.Int64Val(constant.ToInt(constOf(w, "params", "LookBackStake")))
	certStakeV, _ := constant.Int64Val(constant.ToInt(constOf(w, "params", "LookBackCertStake")))
	turn := w.FuncObj("params", "", "TurnToStakeType")
	isLB := func(t types.Type) bool { return types.Identical(t, lbT) }
	// openers by signature: a LookBackType parameter and a ValidatorReader result
	openerParam := func(sig *types.Signature) int {
		hasReader := false
		for i := 0; i < sig.Results().Len(); i++ {
			if types.Identical(sig.Results().At(i).Type(), readerT) {
				hasReader = true
			}
		}
		if !hasReader {
			return -1
		}
		for i := 0; i < sig.Params().Len(); i++ {
			if isLB(sig.Params().At(i).Type()) {
				return i
			}
		}
		return -1
	}
	var fns []*ssa.Function
	for _, fn := range w.FuncsIn(uconPkg) {
		if fn.Blocks != nil && !strings.HasSuffix(w.fileOf(fn.Pos()), "_test.go") {
			fns = append(fns, fn)
		}
	}
	// forwarders: functions (closures included) whose own look-back parameter reaches an opener unconverted
	forward := map[*ssa.Function]int{} // fn -> index into fn.Params
	lbArgOf := func(ci ssa.CallInstruction) (ssa.Value, bool) {
		com := ci.Common()
		if g := com.StaticCallee(); g != nil {
			if idx, ok := forward[g]; ok && idx < len(com.Args) {
				return com.Args[idx], true
			}
			if g.Signature != nil {
				if pi := openerParam(g.Signature); pi >= 0 {
					off := 0
					if g.Signature.Recv() != nil {
						off = 1
					}
					if pi+off < len(com.Args) {
						return com.Args[pi+off], true
					}
				}
			}
			return nil, false
		}
		sig := com.Signature()
		if sig == nil {
			return nil, false
		}
		if pi := openerParam(sig); pi >= 0 && pi < len(com.Args) {
			return com.Args[pi], true // invoke through an interface / function value: no receiver among Args
		}
		return nil, false
	}
	type site struct {
		fn  *ssa.Function
		ci  ssa.CallInstruction
		arg ssa.Value
	}
	var sites []site
	for changed := true; changed; {
		changed = false
		sites = sites[:0]
		for _, fn := range fns {
			for _, ci := range callInstrs(fn) {
				arg, ok := lbArgOf(ci)
				if !ok {
					continue
				}
				sites = append(sites, site{fn, ci, arg})
				if p, isP := stripConvNoBind(arg).(*ssa.Parameter); isP && p.Parent() == fn {
					for i, q := range fn.Params {
						if q == p {
							if _, done := forward[fn]; !done {
								forward[fn] = i
								changed = true
							}
						}
					}
				}
			}
		}
	}
	n := 0
	perFn := map[*ssa.Function]int{}
	for _, s := range sites {
		v := stripConvNoBind(s.arg)
		if p, isP := v.(*ssa.Parameter); isP && p.Parent() == s.fn {
			continue // judged at the caller's call sites
		}
		n++
		c.sites++
		c.sawFunc(fname(s.fn))
		perFn[s.fn]++
		cons := fmt.Sprintf("%s#validator-set-at-stake-look-back-%d", fname(s.fn), perFn[s.fn])
		ok, how := false, ""
		var judge func(v ssa.Value, d int) bool
		judge = func(v ssa.Value, d int) bool {
			if d > 6 {
				return false
			}
			switch x := stripConvNoBind(v).(type) {
			case *ssa.Const:
				k, isC := constInt(x)
				return isC && (k == stakeV || k == certStakeV)
			case *ssa.Call:
				return sameFunc(calleeObj(x), turn)
			case *ssa.Phi:
				for _, e := range x.Edges {
					if !judge(e, d+1) {
						return false
					}
				}
				return len(x.Edges) > 0
			case *ssa.FreeVar:
				// a closure variable: judge what the enclosing function binds
				if par := x.Parent().Parent(); par != nil {
					for _, b := range par.Blocks {
						for _, in := range b.Instrs {
							if mc, isMC := in.(*ssa.MakeClosure); isMC && mc.Fn == ssa.Value(x.Parent()) {
								for i, fv := range x.Parent().FreeVars {
									if fv == x && i < len(mc.Bindings) {
										return judge(mc.Bindings[i], d+1)
									}
								}
							}
						}
					}
				}
			case *ssa.UnOp:
				if al, isAl := x.X.(*ssa.Alloc); isAl && x.Op == token.MUL {
					all := true
					nSt := 0
					for _, r := range *al.Referrers() {
						if st, isSt := r.(*ssa.Store); isSt && st.Addr == ssa.Value(al) {
							nSt++
							if !judge(st.Val, d+1) {
								all = false
							}
						}
					}
					return all && nSt > 0
				}
			}
			return false
		}
		ok = judge(s.arg, 0)
		if ok {
			how = "LookBackStake / LookBackCertStake / TurnToStakeType(…)"
		}
		c.Check(cons, s.ci.Pos(), ok, ifelse(ok, how, "a validator set is opened with the look-back kind "+termOf(s.arg, 3)+", which is not a stake look-back: seed / position kinds map to a different block distance, so voter indexes, membership and weights are resolved in another validator set than the one sortition credentials and the other side (signer ↔ verifier) use"))
	}
	if n == 0 {
		c.Undecided("consensus/ucon#validator-reader-openers", token.NoPos, "no call opening a validator reader from a look-back kind was found")
	}
}

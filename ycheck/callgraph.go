package main

import (
	"golang.org/x/tools/go/callgraph"
	"golang.org/x/tools/go/callgraph/cha"
	"golang.org/x/tools/go/callgraph/vta"
	"golang.org/x/tools/go/ssa"
	"golang.org/x/tools/go/ssa/ssautil"
)

// CallGraph returns the VTA call graph of the loaded program (built once,
// seeded with CHA). Calls into dependencies without bodies end there.
func (w *World) CallGraph() *callgraph.Graph {
	if w.cg == nil {
		funcs := ssautil.AllFunctions(w.Prog)
		w.cg = vta.CallGraph(funcs, cha.CallGraph(w.Prog))
	}
	return w.cg
}

// ReachableFrom returns the repository functions reachable from roots in the
// VTA call graph. stop(fn) == true prunes the walk below fn.
func (w *World) ReachableFrom(roots []*ssa.Function, stop func(*ssa.Function) bool) map[*ssa.Function][]*ssa.Function {
	cg := w.CallGraph()
	parent := map[*ssa.Function][]*ssa.Function{} // fn -> one path (as list of callers) for diagnostics
	var work []*ssa.Function
	for _, r := range roots {
		if _, ok := parent[r]; !ok {
			parent[r] = []*ssa.Function{}
			work = append(work, r)
		}
	}
	for len(work) > 0 {
		f := work[0]
		work = work[1:]
		if stop != nil && stop(f) {
			continue
		}
		n := cg.Nodes[f]
		if n == nil {
			continue
		}
		for _, e := range n.Out {
			callee := e.Callee.Func
			if callee == nil {
				continue
			}
			if _, ok := parent[callee]; ok {
				continue
			}
			if callee.Blocks == nil {
				continue
			}
			p := append(append([]*ssa.Function(nil), parent[f]...), f)
			if len(p) > 12 {
				p = p[len(p)-12:]
			}
			parent[callee] = p
			work = append(work, callee)
		}
	}
	return parent
}

package main

import (
	"fmt"
	"go/constant"
	"go/token"
	"go/types"
	"strings"

	"golang.org/x/tools/go/ssa"
)

// C05 — only real equivocation is slashable, exactly once.

const stakingPkg = "staking"

func init() {
	register(&propDef{
		ID:          "C05",
		Explanation: "Structural necessary conditions of sound double-sign slashing, decided on the SSA form of staking and consensus/ucon: the penalty is dominated by a comparison of the block hashes of two different evidence entries (D1); every (hash, signature) entry is verified under the key of the validator found by the evidence's signer index, and a failed verification cannot reach the penalty or the signer cache (D2); one penalty per validator per block and only for the parent round (D3); block builder and block validator run one evidence function with a parent height derived from the header being processed (D4); the penalty amount is the configured fraction of the validator's tokens and is credited to the penalty account; amounts taken are the amounts accumulated (D5); the signed payload identifies the vote kind (D6, open finding F8). Not decided: arithmetic of the proportional split.",
		Assumptions: []string{"BLS PublicKey.Verify is sound", "GetByIndex returns the validator a VoterIdx denotes in the look-back set"},
		Run:         runC05,
		Variants:    c05Variants,
	})
}

func runC05(c *Ctx) {
	w := c.W
	pds := w.Fn(stakingPkg, "Staking", "processDoubleSignV5")
	doPen := w.FuncObj(stakingPkg, "", "doPenalize")
	c.sawFunc(fname(pds))
	name := fname(pds)
	pens := callsTo(pds, doPen)
	if len(pens) != 1 {
		c.Rule("C05.D1", "GATE", "")
		c.Undecided(name+"#penalty", pds.Pos(), fmt.Sprintf("expected one doPenalize call, found %d", len(pens)))
		return
	}
	pen := pens[0]
	signInfoHash := w.Field(stakingPkg, "SignInfo", "Hash")

	// ------------------------------------------------------------ D1
	c.Rule("C05.D1", "GATE", "the penalty for a double sign is dominated by a branch whose condition derives from comparing the Hash fields of two different entries of the evidence: one vote duplicated is not evidence")
	c.Min(1)
	distinct := false
	for _, f := range factsAtRaw(pen.Block()) {
		backwardCtl(f.Cond, func(v ssa.Value) bool {
			if _, isCall := v.(*ssa.Call); isCall {
				// bytes.Equal / Hash comparison helpers
				call := v.(*ssa.Call)
				if o := calleeObj(call); o != nil && (o.Name() == "Equal" || o.Name() == "Compare" || o.Name() == "CompareCommonHash") {
					n := 0
					for _, a := range call.Call.Args {
						if derivesFrom(a, func(x ssa.Value) bool { f, _ := loadedField(x); return f == signInfoHash }) {
							n++
						}
					}
					if n >= 2 {
						distinct = true
					}
				}
				return false
			}
			if b, ok := v.(*ssa.BinOp); ok && (b.Op == token.EQL || b.Op == token.NEQ) {
				fx, _ := loadedField(stripConv(b.X))
				fy, _ := loadedField(stripConv(b.Y))
				if fx == signInfoHash && fy == signInfoHash && !samePath(b.X, b.Y) {
					distinct = true
				}
			}
			return true
		})
	}
	c.sites++
	c.Check(name+"#two-different-hashes", pen.Pos(), distinct, ifelse(distinct, "dominated by a comparison of two entries' block hashes", "the penalty is reachable without any test that the signed block hashes differ: a single honest vote listed twice is accepted as a double sign"))

	// ------------------------------------------------------------ D2
	c.Rule("C05.D2", "GATE", "every entry's signature is decoded and verified under the BLS key of the validator found by GetByIndex(SignerIdx); from a failed decode/verify neither the penalty nor the signer-cache store is reachable; the loop covers the whole Signs list")
	c.Min(4)
	var verify, decSig, decPK, getIdx ssa.CallInstruction
	for _, ci := range callInstrs(pds) {
		o := calleeObj(ci)
		if o == nil {
			continue
		}
		switch {
		case o.Name() == "Verify" && o.Pkg() != nil && o.Pkg().Path() == full("bls"):
			verify = ci
		case o.Name() == "DecSignature":
			decSig = ci
		case o.Name() == "DecPublicKey":
			decPK = ci
		case o.Name() == "GetByIndex":
			getIdx = ci
		}
	}
	if verify == nil || decSig == nil || decPK == nil || getIdx == nil {
		c.Undecided(name+"#signature-checks", pds.Pos(), "anchors Verify/DecSignature/DecPublicKey/GetByIndex not all found")
	} else {
		// cache store
		var cacheStores []ssa.Instruction
		evAddr := w.Field(stakingPkg, "Evidence", "addr")
		for _, ci := range callInstrs(pds) {
			if o := calleeObj(ci); o != nil && o.Name() == "Store" {
				if r := callRecv(ci); r != nil {
					if fa, ok := r.(*ssa.FieldAddr); ok && fieldOfAddr(fa) == evAddr {
						cacheStores = append(cacheStores, ci)
					}
				}
			}
		}
		targets := append([]ssa.Instruction{pen}, cacheStores...)
		for _, chk := range []struct {
			what string
			call ssa.CallInstruction
		}{{"decode-signature", decSig}, {"verify-signature", verify}, {"decode-public-key", decPK}} {
			c.sites++
			ok, why := failureCannotReach(chk.call, targets)
			c.Check(name+"#"+chk.what+"-failure-stops", chk.call.Pos(), ok, ifelse(ok, "a failed "+chk.what+" cannot reach the penalty or the signer cache", why))
		}
		// key provenance
		pkOK := derivesFrom(callRecvAny(verify), func(v ssa.Value) bool { return v == decPK.Value() }) || resultDerives(callRecvAny(verify), decPK)
		signerOK := derivesFrom(callArgs(decPK)[0], func(v ssa.Value) bool {
			e, ok := v.(*ssa.Extract)
			return ok && e.Tuple == getIdx.Value()
		})
		idxOK := derivesFrom(callArgs(getIdx)[0], func(v ssa.Value) bool {
			f, _ := loadedField(v)
			return f != nil && f.Name() == "SignerIdx"
		})
		c.Check(name+"#key-of-indexed-signer", verify.Pos(), pkOK && signerOK && idxOK, ifelse(pkOK && signerOK && idxOK, "Verify uses DecPublicKey(GetByIndex(SignerIdx).BlsPubKey)", fmt.Sprintf("signatures are not verified under the key of the validator the evidence names (key=%v signer=%v index=%v)", pkOK, signerOK, idxOK)))
		sigOK := derivesFrom(callArgs(verify)[1], func(v ssa.Value) bool {
			e, ok := v.(*ssa.Extract)
			return ok && e.Tuple == decSig.Value()
		})
		entryOK := derivesFrom(callArgs(decSig)[0], func(v ssa.Value) bool {
			f, _ := loadedField(v)
			return f != nil && f.Name() == "Sign" && ownerNameOfField(w, f) == "SignInfo"
		})
		hashOK := derivesFrom(callArgs(verify)[0], func(v ssa.Value) bool { f, _ := loadedField(v); return f == signInfoHash })
		c.Check(name+"#entry-hash-and-signature", verify.Pos(), sigOK && entryOK && hashOK, ifelse(sigOK && entryOK && hashOK, "each entry's own signature is verified over a payload built from its own hash", "the signature verified is not the entry's own over the entry's own block hash"))
		// whole list: the entries iterated are elements of the Signs field without re-slicing
		whole := true
		foundLoop := false
		backward(callArgs(decSig)[0], func(v ssa.Value) bool {
			if ia, ok := v.(*ssa.IndexAddr); ok {
				if f, _ := loadedField(ia.X); f != nil && f.Name() == "Signs" {
					foundLoop = true
				}
				if _, isSlice := ia.X.(*ssa.Slice); isSlice {
					whole = false
				}
			}
			if _, ok := v.(*ssa.Slice); ok {
				whole = false
			}
			return true
		})
		// and the verify loop is entered from index 0 to len
		c.Check(name+"#all-entries", verify.Pos(), whole && foundLoop && inLoop(verify), ifelse(whole && foundLoop, "the verification loop ranges over the whole Signs list", "the verification does not range over the whole Signs list"))
		// no entry skips the verification: every back edge of the loop is dominated by Verify
		skip := ""
		for _, hb := range pds.Blocks {
			if !isLoopHeader(hb) || !naturalLoop(hb)[verify.Block()] {
				continue
			}
			for _, p := range hb.Preds {
				if hb.Dominates(p) && !verify.Block().Dominates(p) {
					skip = w.Pos(p.Instrs[len(p.Instrs)-1].Pos())
				}
			}
		}
		c.Check(name+"#no-entry-skips-verification", verify.Pos(), skip == "", ifelse(skip == "", "every iteration of the entry loop passes Verify", "an iteration can continue to the next entry without verifying this one ("+skip+"): a (hash, signature) pair that was never checked counts as evidence"))
		// signer cache has one writer
		for _, fn := range w.FuncsIn(stakingPkg) {
			for _, ci := range callInstrs(fn) {
				if o := calleeObj(ci); o != nil && o.Name() == "Store" {
					if r := callRecv(ci); r != nil {
						if fa, ok := r.(*ssa.FieldAddr); ok && fieldOfAddr(fa) == evAddr {
							ok := fn == pds
							if !ok && len(w.Callers(fn)) == 0 {
								c.Pass(outerName(fname(fn))+"#writes-signer-cache", ci.Pos(), "dead code: "+fn.Name()+" has no caller (the deprecated pre-V5 evidence path is commented out of processEvidences)")
								continue
							}
							c.Check(outerName(fname(fn))+"#writes-signer-cache", ci.Pos(), ok, ifelse(ok, "the verified path is the only writer of the signer cache", "a second writer of the evidence signer cache bypasses signature verification"))
						}
					}
				}
			}
		}
	}

	// ------------------------------------------------------------ D3
	c.Rule("C05.D3", "GATE+ALWAYS-WITH", "the penalty is dominated by the absent edge of the per-block signer map, paired with inserting the signer, and by Round == parent height")
	c.Min(2)
	atoms := atomsOf(factsAtInstr(pen))
	once, inserted, roundOK := false, false, false
	for _, a := range atoms {
		if a.Kind == "true" && !a.Truth {
			if e, ok := stripConv(a.X).(*ssa.Extract); ok && e.Index == 1 {
				if lk, ok := e.Tuple.(*ssa.Lookup); ok && lk.CommaOk {
					if p, isP := lk.X.(*ssa.Parameter); isP {
						once = true
						for _, b := range pds.Blocks {
							for _, in := range b.Instrs {
								if mu, ok := in.(*ssa.MapUpdate); ok && mu.Map == ssa.Value(p) && samePath(mu.Key, lk.Index) && alwaysWith(pen, []ssa.Instruction{mu}) {
									inserted = true
								}
							}
						}
					}
				}
			}
		}
		if a.Kind == "eq" && a.Truth {
			for _, pr := range [][2]ssa.Value{{a.X, a.Y}, {a.Y, a.X}} {
				f, _ := loadedField(stripConv(pr[0]))
				if f != nil && f.Name() == "Round" {
					if p, ok := stripConv(pr[1]).(*ssa.Parameter); ok && p.Name() == "parentHeight" || derivesFrom(pr[1], func(v ssa.Value) bool {
						p, ok := v.(*ssa.Parameter)
						return ok && strings.Contains(strings.ToLower(p.Name()), "parent")
					}) {
						roundOK = true
					}
				}
			}
		}
	}
	c.sites += 2
	c.Check(name+"#once-per-validator", pen.Pos(), once && inserted, ifelse(once && inserted, "absent-edge of the signer map, with insertion", fmt.Sprintf("the penalty is not limited to once per validator per block (absent test=%v, insertion=%v)", once, inserted)))
	c.Check(name+"#parent-round-only", pen.Pos(), roundOK, ifelse(roundOK, "dominated by Round == parentHeight", "evidence of any round is penalised, not only of the parent round"))

	// ------------------------------------------------------------ D4
	c.Rule("C05.D4", "SIBLINGS+PROVENANCE", "slashing (builder) and replaySlashing (validator) both delegate to processEvidences, with a parent height derived from the header being built/validated and not from the chain head")
	c.Min(2)
	pe := w.FuncObj(stakingPkg, "Staking", "processEvidences")
	for _, n := range []string{"slashing", "replaySlashing"} {
		fn := w.Fn(stakingPkg, "Staking", n)
		c.sawFunc(fname(fn))
		calls := callsTo(fn, pe)
		if len(calls) != 1 {
			c.Fail(fname(fn)+"#delegates", fn.Pos(), "does not delegate to processEvidences exactly once")
			continue
		}
		c.sites++
		fromHeader, fromHead := false, ""
		for _, s := range w.sourcesOf(callArgs(calls[0])[3], 0, func(*ssa.Call) bool { return false }) {
			switch s.Kind {
			case "field":
				if s.Field.Name() == "Number" && s.Owner == "Header" {
					fromHeader = true
				}
			case "call":
				if o := calleeObj(s.Call); o != nil {
					switch o.Name() {
					case "CurrentHeader", "CurrentBlock":
						fromHead = o.Name()
					case "Sub", "Set", "SetUint64", "NewInt", "Add":
						// big.Int arithmetic: look at what it combines
						for _, s2 := range w.sourcesOf(s.Call, 0, func(*ssa.Call) bool { return true }) {
							if s2.Kind == "field" && s2.Field.Name() == "Number" && s2.Owner == "Header" {
								fromHeader = true
							}
						}
						backward(s.Call, func(v ssa.Value) bool {
							if cc, ok := v.(*ssa.Call); ok {
								if o := calleeObj(cc); o != nil && (o.Name() == "CurrentHeader" || o.Name() == "CurrentBlock") {
									fromHead = o.Name()
								}
							}
							return true
						})
					}
				}
			}
		}
		// a Header.Number read off the result of CurrentHeader() is the head, not the block
		backward(callArgs(calls[0])[3], func(v ssa.Value) bool {
			if cc, ok := v.(*ssa.Call); ok {
				if o := calleeObj(cc); o != nil && (o.Name() == "CurrentHeader" || o.Name() == "CurrentBlock") {
					fromHead = o.Name()
				}
			}
			return true
		})
		ok := fromHeader && fromHead == ""
		c.Check(fname(fn)+"#parent-height", calls[0].Pos(), ok, ifelse(ok, "parent height derives from the processed header's number", "the parent height that decides which evidence is applied comes from the chain head ("+fromHead+"): a block processed while the head is elsewhere (side chain, re-execution) applies different evidence than its builder did"))
	}

	// ------------------------------------------------------------ D5
	c.Rule("C05.D5", "PROVENANCE+ALWAYS-WITH", "the double-sign penalty is validator tokens × params.PenaltyFractionForDoubleSign / 100; doPenalize credits params.PenaltyTo with the total taken; in takePenalty every amount subtracted from a withdraw record is handed to updateCounter, which accumulates exactly what it subtracts")
	c.Min(4)
	c05D5(c, w, pds, pen)

	// ------------------------------------------------------------ D7
	c.Rule("C05.D7", "GATE", "an honest validator's vote marks survive a restart and a pause (shared with C02.S4/S7/S8): the function NewVoteDB feeds the persisted records to replaces the restored (round, index) only by a newer record, ignores only older ones and counts only records of the same context (the lexicographic comparison) — otherwise a protocol-following node signs a second vote of the same kind after a restart and is slashable")
	c.Min(1)
	{
		newDB := w.Fn(uconPkg, "", "NewVoteDB")
		c.sawFunc(fname(newDB))
		if restore := findVoteRestore(newDB); restore == nil {
			c.Undecided("consensus/ucon.NewVoteDB$1#restore-decision-is-lexicographic", newDB.Pos(), "the restore function was not found")
		} else {
			voteRestoreDecision(c, w, restore, w.Field(uconPkg, "VoteDB", "round"), w.Field(uconPkg, "VoteDB", "roundIndex"), w.Field(uconPkg, "VoteDB", "mark"), w.FuncObj(uconPkg, "", "VerifySignature"))
		}
		// … and while running: the marks are wiped only for a different context and the context never moves back
		c02S7(c, w, newCtxCut(w))
		c02S8(c, w, newCtxCut(w))
	}

	// ------------------------------------------------------------ D8
	c.Rule("C05.D8", "SIBLINGS", "writer and reader of the evidence's vote kind agree: consensus/ucon fills EvidenceDoubleSignV5.VoteType with its own VoteType value, so every constant package staking compares that field with is the value of a ucon vote kind, and the constant that selects the certificate look-back validator set is ucon.Certificate — otherwise the signer index is resolved in the wrong validator set and real equivocation goes unpunished (or the wrong validator is looked up)")
	c.Min(1)
	{
		vtF := w.Field("staking", "EvidenceDoubleSignV5", "VoteType")
		kindsU := map[int64]string{}
		for _, n := range []string{"Prevote", "Precommit", "NextIndex", "Certificate"} {
			v, _ := constant.Int64Val(constant.ToInt(constOf(w, uconPkg, n)))
			kindsU[v] = n
		}
		certV, _ := constant.Int64Val(constant.ToInt(constOf(w, uconPkg, "Certificate")))
		n := 0
		for _, fn := range w.FuncsIn("staking") {
			if strings.HasSuffix(w.fileOf(fn.Pos()), "_test.go") {
				continue
			}
			for _, b := range fn.Blocks {
				for _, in := range b.Instrs {
					bo, ok := in.(*ssa.BinOp)
					if !ok || (bo.Op != token.EQL && bo.Op != token.NEQ) {
						continue
					}
					var cst ssa.Value
					if f, _ := loadedField(stripConv(bo.X)); f == vtF {
						cst = bo.Y
					} else if f, _ := loadedField(stripConv(bo.Y)); f == vtF {
						cst = bo.X
					} else {
						continue
					}
					kv, isC := constInt(cst)
					if !isC {
						continue
					}
					n++
					c.sites++
					c.sawFunc(fname(fn))
					// does the comparison choose the certificate look-back set?
					selectsCert := false
					for _, r := range *bo.Referrers() {
						if ci, isCall := r.(ssa.CallInstruction); isCall {
							if o := calleeObj(ci); o != nil && strings.Contains(o.Name(), "LookBack") {
								selectsCert = true
							}
						}
					}
					name, isKind := kindsU[kv]
					ok2 := isKind && (!selectsCert || kv == certV)
					c.Check(fmt.Sprintf("%s#evidence-vote-kind-constant-%d", fname(fn), n), bo.Pos(), ok2, ifelse(ok2, fmt.Sprintf("compares with %d = ucon.%s", kv, name), fmt.Sprintf("the evidence's vote kind is compared with %d, which %s: evidence of a double certificate vote is checked against the wrong look-back validator set, the signer index names another validator and the evidence is dropped", kv, ifelse(isKind, "is ucon."+name+" and not ucon.Certificate although it selects the certificate look-back set", "is not the value of any ucon vote kind"))))
				}
			}
		}
		if n == 0 {
			c.Undecided("staking#evidence-vote-kind-constants", token.NoPos, "no comparison of EvidenceDoubleSignV5.VoteType with a constant found in package staking")
		}
	}

	// ------------------------------------------------------------ D9
	c.Rule("C05.D9", "SIBLINGS", "evidence is judged in the validator set the votes were cast in: (*BlockChain).LookBackVldReaderForRound — the reader the staking module opens for a double-sign evidence — looks back by the same distance as consensus/ucon's GetLookBackBlockNumber does for the stake kinds: the protocol's StakeLookBack for ordinary votes and the same constant as the LookBackCertStake case for certificate votes. A different distance resolves the signer index in another validator set: the BLS check fails and real equivocation goes unpunished")
	c.Min(2)
	{
		lr := w.Fn("core", "BlockChain", "LookBackVldReaderForRound")
		gb := w.Fn(uconPkg, "Server", "GetLookBackBlockNumber")
		c.sawFunc(fname(lr))
		c.sawFunc(fname(gb))
		lbT := w.Named("params", "LookBackType")
		certStakeV, _ := constant.Int64Val(constant.ToInt(constOf(w, "params", "LookBackCertStake")))
		stakeV, _ := constant.Int64Val(constant.ToInt(constOf(w, "params", "LookBackStake")))
		var lbParam *ssa.Parameter
		for _, prm := range gb.Params {
			if types.Identical(prm.Type(), lbT) {
				lbParam = prm
			}
		}
		// ucon side: what is the distance under lbType == K?
		uconDist := func(k int64) (string, bool) {
			for _, b := range gb.Blocks {
				is := false
				for _, a := range atomsOf(factsAt(b)) {
					if a.Kind == "eq" && a.Truth && a.Y != nil && lbParam != nil && stripConv(a.X) == ssa.Value(lbParam) {
						if n, isC := constInt(a.Y); isC && n == k {
							is = true
						}
					}
				}
				if !is {
					continue
				}
				for _, in := range b.Instrs {
					cc, ok := in.(*ssa.Call)
					if !ok || calleeObj(cc) == nil || calleeObj(cc).Name() != "NewInt" {
						continue
					}
					a := stripConv(cc.Call.Args[0])
					if n, isC := constInt(a); isC {
						return fmt.Sprintf("const %d", n), true
					}
					if f, _ := loadedField(a); f != nil {
						return "field " + f.Name(), true
					}
				}
			}
			return "", false
		}
		// core side: the distance is a phi of the two cases, selected by the isCert parameter
		var certDist, plainDist string
		for _, b := range lr.Blocks {
			for _, in := range b.Instrs {
				phi, ok := in.(*ssa.Phi)
				if !ok {
					continue
				}
				var cst, fld string
				for _, e := range phi.Edges {
					e = stripConv(e)
					if n, isC := constInt(e); isC && n > 0 {
						cst = fmt.Sprintf("const %d", n)
					} else if f, _ := loadedField(e); f != nil {
						fld = "field " + f.Name()
					}
				}
				if cst != "" && fld != "" {
					certDist, plainDist = cst, fld
				}
			}
		}
		uc, okc := uconDist(certStakeV)
		up, okp := uconDist(stakeV)
		c.sites += 2
		if !okc || !okp || certDist == "" {
			c.Undecided(fname(lr)+"#same-look-back-distance", lr.Pos(), fmt.Sprintf("the distances could not be read (ucon certificate %q, ucon stake %q, core certificate %q, core stake %q)", uc, up, certDist, plainDist))
		} else {
			c.Check(fname(lr)+"#certificate-look-back-distance", lr.Pos(), uc == certDist, ifelse(uc == certDist, "both use "+uc, "the staking side looks back "+certDist+" for certificate evidence, consensus/ucon "+uc+" for LookBackCertStake: the signer index of a certificate double-sign is resolved in another validator set and the evidence is dropped"))
			c.Check(fname(lr)+"#stake-look-back-distance", lr.Pos(), up == plainDist, ifelse(up == plainDist, "both use "+up, "the staking side looks back "+plainDist+", consensus/ucon "+up+" for LookBackStake"))
		}
	}

	// ------------------------------------------------------------ D6
	c.Rule("C05.D6", "SIBLINGS", "the payload a vote signs identifies the vote kind, so that two votes of different kinds by an honest validator cannot be presented as a double sign")
	c.Min(1)
	sv := w.Fn(uconPkg, "Voter", "signVote")
	var shape []string
	for _, ci := range callInstrs(sv) {
		if o := calleeObj(ci); o != nil && o.Name() == "SignVote" {
			shape = payloadShape(callArgs(ci)[2])
		}
	}
	hasKind := false
	for _, s := range shape {
		if s == "u8" || strings.Contains(s, "voteType") || strings.Contains(s, "VoteType") {
			hasKind = true
		}
	}
	// derive also from the voteType parameter
	for _, ci := range callInstrs(sv) {
		if o := calleeObj(ci); o != nil && o.Name() == "SignVote" {
			if derivesFrom(callArgs(ci)[2], func(v ssa.Value) bool { p, ok := v.(*ssa.Parameter); return ok && p.Name() == "voteType" }) {
				hasKind = true
			}
		}
	}
	c.Check(fname(sv)+"#payload-binds-kind", sv.Pos(), hasKind, ifelse(hasKind, "the signed payload includes the vote kind", "the signed payload is hash‖round‖index without the vote kind: an honest prevote for A and precommit for B in one round/index verify as double-sign evidence"))
	c05RoundE(c, c.W)
	c05KindGate(c, c.W)
}

func ownerNameOfField(w *World, f *types.Var) string { return fieldOwner(w, f) }

func callRecvAny(ci ssa.CallInstruction) ssa.Value {
	if ci.Common().IsInvoke() {
		return ci.Common().Value
	}
	return callRecv(ci)
}

func resultDerives(v ssa.Value, call ssa.CallInstruction) bool {
	return derivesFrom(v, func(x ssa.Value) bool {
		if e, ok := x.(*ssa.Extract); ok && e.Tuple == call.Value() {
			return true
		}
		return x == call.Value()
	})
}

// failureCannotReach: on the non-nil-error edge of call, none of targets is reachable.
func failureCannotReach(call ssa.CallInstruction, targets []ssa.Instruction) (bool, string) {
	idx := errIdx(call)
	if idx < 0 {
		return false, "the call has no error result"
	}
	// find the If that tests the error
	var failSucc []*ssa.BasicBlock
	cv := call.Value()
	var errVals []ssa.Value
	if call.Common().Signature().Results().Len() == 1 {
		errVals = append(errVals, cv)
	} else {
		for _, r := range *cv.Referrers() {
			if e, ok := r.(*ssa.Extract); ok && e.Index == idx {
				errVals = append(errVals, e)
			}
		}
	}
	// the error may be kept in a heap variable (captured named result):
	// *err = v; t = *err; if t != nil
	for _, ev := range append([]ssa.Value(nil), errVals...) {
		for _, r := range *ev.Referrers() {
			st, ok := r.(*ssa.Store)
			if !ok || st.Val != ev {
				continue
			}
			blk := st.Block()
			for i := instrIndex(st) + 1; i < len(blk.Instrs); i++ {
				if s2, ok := blk.Instrs[i].(*ssa.Store); ok && s2.Addr == st.Addr {
					break
				}
				if u, ok := blk.Instrs[i].(*ssa.UnOp); ok && u.Op == token.MUL && u.X == st.Addr {
					errVals = append(errVals, u)
				}
			}
		}
	}
	for _, ev := range errVals {
		for _, r := range *ev.Referrers() {
			b, ok := r.(*ssa.BinOp)
			if !ok || (b.Op != token.NEQ && b.Op != token.EQL) || !(isNilConst(b.X) || isNilConst(b.Y)) {
				continue
			}
			for _, r2 := range *b.Referrers() {
				if ifi, ok := r2.(*ssa.If); ok {
					blk := ifi.Block()
					if b.Op == token.NEQ {
						failSucc = append(failSucc, blk.Succs[0])
					} else {
						failSucc = append(failSucc, blk.Succs[1])
					}
				}
			}
		}
	}
	if len(failSucc) == 0 {
		return false, "the error result is never tested: a failed check continues to the penalty"
	}
	tset := map[*ssa.BasicBlock]bool{}
	for _, t := range targets {
		tset[t.Block()] = true
	}
	seen := map[*ssa.BasicBlock]bool{}
	work := failSucc
	for len(work) > 0 {
		b := work[len(work)-1]
		work = work[:len(work)-1]
		if seen[b] {
			continue
		}
		seen[b] = true
		if tset[b] {
			return false, "after a failed check execution can still reach the penalty or the signer cache (the failure does not abandon the evidence)"
		}
		work = append(work, b.Succs...)
	}
	return true, ""
}

func inLoop(in ssa.Instruction) bool {
	b := in.Block()
	seen := map[*ssa.BasicBlock]bool{}
	work := append([]*ssa.BasicBlock(nil), b.Succs...)
	for len(work) > 0 {
		x := work[len(work)-1]
		work = work[:len(work)-1]
		if x == b {
			return true
		}
		if seen[x] {
			continue
		}
		seen[x] = true
		work = append(work, x.Succs...)
	}
	return false
}

func c05D5(c *Ctx, w *World, pds *ssa.Function, pen ssa.CallInstruction) {
	// the proportional split: the per-stake share is taken from what remains after the validator's risk obligation
	// was set aside, so that shares + obligation = the configured penalty
	{
		tp := w.Fn("staking", "", "takePenalty")
		c.sawFunc(fname(tp))
		ai := bigIntAliases(tp)
		var quo ssa.CallInstruction
		for _, ci := range callInstrs(tp) {
			if o := calleeObj(ci); o != nil && o.Name() == "QuoRem" && recvName(o) == "Int" {
				quo = ci
			}
		}
		c.sites++
		if quo == nil {
			c.Undecided(fname(tp)+"#split-of-remaining-amount", tp.Pos(), "the QuoRem that computes the per-stake share was not found")
		} else {
			dividend := ai.class(stripConv(callArgs(quo)[0]))
			// the value the obligation was subtracted from: X.Sub(X, obligation) where obligation is later added to the validator's own share
			ok := false
			for _, sub := range callInstrs(tp) {
				o := calleeObj(sub)
				if o == nil || o.Name() != "Sub" || recvName(o) != "Int" || instrDominates(quo, sub) {
					continue
				}
				obl := ai.class(stripConv(callArgs(sub)[1]))
				addedBack := false
				for _, add := range callInstrs(tp) {
					if oa := calleeObj(add); oa != nil && oa.Name() == "Add" && recvName(oa) == "Int" && instrDominates(quo, add) && ai.class(stripConv(callArgs(add)[1])) == obl {
						addedBack = true
					}
				}
				if addedBack && ai.class(stripConv(callRecv(sub))) == dividend {
					ok = true
				}
			}
			c.Check(fname(tp)+"#split-of-remaining-amount", quo.Pos(), ok, ifelse(ok, "the share per stake divides the amount from which the obligation was subtracted; the obligation is added to the validator's own share", "the share per stake is not computed from the amount that remains after the risk obligation was set aside, while the obligation is still added to the validator's own share: for a validator with a risk obligation the shares sum to more than the configured penalty"))
		}
	}
	name := fname(pds)
	amount := callArgs(pen)[5]
	gotToken, gotFrac := false, false
	bad := ""
	for _, s := range w.sourcesOf(amount, 0, func(*ssa.Call) bool { return true }) {
		switch {
		case s.Kind == "const":
		case s.Kind == "field" && s.Field.Name() == "Token" && s.Owner == "Validator":
			gotToken = true
		case s.Kind == "field" && s.Field.Name() == "PenaltyFractionForDoubleSign":
			gotFrac = true
		case s.Kind == "other":
		default:
			bad = s.String()
		}
	}
	hasDiv100 := false
	backward(amount, func(v ssa.Value) bool {
		if cc, ok := v.(*ssa.Call); ok {
			if o := calleeObj(cc); o != nil && (o.Name() == "Div" || o.Name() == "Quo") {
				for _, a := range cc.Call.Args {
					backward(a, func(x ssa.Value) bool {
						if n, ok := constInt(x); ok && n == 100 {
							hasDiv100 = true
						}
						return true
					})
				}
			}
		}
		return true
	})
	ok := gotToken && gotFrac && hasDiv100 && bad == ""
	c.sites++
	c.Check(name+"#penalty-amount", pen.Pos(), ok, ifelse(ok, "validator tokens × configured fraction / 100", fmt.Sprintf("the double-sign penalty is not tokens × params.PenaltyFractionForDoubleSign / 100 (tokens=%v fraction=%v /100=%v other=%s)", gotToken, gotFrac, hasDiv100, bad)))
	// doPenalize credits PenaltyTo with totalPenalty
	dp := w.Fn(stakingPkg, "", "doPenalize")
	tp := w.Fn(stakingPkg, "", "takePenalty")
	c.sawFunc(fname(dp))
	c.sawFunc(fname(tp))
	credited := false
	for _, ci := range callInstrs(dp) {
		if o := calleeObj(ci); o != nil && o.Name() == "AddBalance" {
			a := callArgs(ci)
			toOK := false
			for _, s := range w.sourcesOf(a[0], 0, nil) {
				if s.Kind == "field" && s.Field.Name() == "PenaltyTo" {
					toOK = true
				}
			}
			amtOK := derivesFrom(a[1], func(v ssa.Value) bool {
				if e, ok := v.(*ssa.Extract); ok && e.Index == 1 {
					if cc, ok := e.Tuple.(*ssa.Call); ok && sameFunc(calleeObj(cc), tp.Object().(*types.Func)) {
						return true
					}
				}
				return false
			})
			if toOK && amtOK {
				credited = true
			}
		}
	}
	c.Check(fname(dp)+"#credits-penalty-account", dp.Pos(), credited, ifelse(credited, "AddBalance(params.PenaltyTo, total returned by takePenalty)", "the total taken from the validator is not credited to the configured penalty account"))
	// the validator update: the record returned by takePenalty replaces val
	upd := false
	for _, ci := range callInstrs(dp) {
		if o := calleeObj(ci); o != nil && o.Name() == "UpdateValidator" {
			a := callArgs(ci)
			if stripConv(a[1]) == ssa.Value(dp.Params[4]) {
				upd = true
			}
		}
	}
	c.Check(fname(dp)+"#updates-validator", dp.Pos(), upd, ifelse(upd, "UpdateValidator(newVal, val) with the penalised record", "the penalised validator record does not replace the current one"))
	// takePenalty: updateCounter accumulates what it subtracts
	var uc *ssa.Function
	for _, a := range tp.AnonFuncs {
		if len(a.Params) == 4 {
			uc = a
		}
	}
	if uc == nil {
		c.Undecided(fname(tp)+"#updateCounter", tp.Pos(), "the accumulating closure was not found")
		return
	}
	amt := uc.Params[0]
	accOK, subOK := false, true
	for _, ci := range callInstrs(uc) {
		o := calleeObj(ci)
		if o == nil || recvName(o) != "Int" {
			continue
		}
		a := callArgs(ci)
		switch o.Name() {
		case "Add":
			if len(a) == 2 && stripConv(a[1]) == ssa.Value(amt) {
				// receiver is the captured totalPenalty
				accOK = true
			}
		case "Sub":
			// every subtraction takes amount, or a stake delta computed from it
			if len(a) == 2 && stripConv(a[1]) != ssa.Value(amt) {
				if !derivesFrom(a[1], func(v ssa.Value) bool { return v == ssa.Value(amt) }) && !derivesFrom(a[0], func(v ssa.Value) bool { return v == ssa.Value(amt) }) {
					// stake delta: derives from YOUToStake(newToken)
					if !derivesFrom(a[1], func(v ssa.Value) bool {
						cc, ok := v.(*ssa.Call)
						return ok && calleeObj(cc) != nil && calleeObj(cc).Name() == "YOUToStake"
					}) {
						subOK = false
					}
				}
			}
		}
	}
	c.Check(fname(uc)+"#accumulates-what-it-takes", uc.Pos(), accOK && subOK, ifelse(accOK && subOK, "totalPenalty += amount and every token decrease is by amount", "the accumulator that becomes the credited total and the amounts subtracted from tokens disagree"))
	// record.FinalBalance.Sub(..., x) is paired with updateCounter(x, ...)
	fb := w.Field("core/state", "WithdrawRecord", "FinalBalance")
	for _, ci := range callInstrs(tp) {
		o := calleeObj(ci)
		if o == nil || o.Name() != "Sub" || recvName(o) != "Int" {
			continue
		}
		if f, _ := loadedField(callRecv(ci)); f != fb {
			continue
		}
		x := callArgs(ci)[1]
		paired := false
		for _, cj := range callInstrs(tp) {
			if mc, ok := cj.Common().Value.(*ssa.MakeClosure); ok && mc.Fn == ssa.Value(uc) || cj.Common().StaticCallee() == uc {
				if len(cj.Common().Args) > 0 && samePath(cj.Common().Args[0], x) && alwaysWith(ci, []ssa.Instruction{cj}) {
					paired = true
				}
			}
		}
		c.Check(fname(tp)+"#withdraw-debit-accumulated", ci.Pos(), paired, ifelse(paired, "the amount taken from a withdraw record is accumulated into the total on the same paths", "an amount is taken from a pending withdrawal without being added to the credited total"))
	}
}

func c05Variants() []Variant {
	f := "staking/slash_youv5.go"
	return []Variant{
		{Name: "no-distinct-hash-test", File: f, Old: "	if !distinct {\n		return\n	}\n", New: "	_ = distinct\n", Rule: "C05.D1", Construct: "two-different-hashes"},
		{Name: "break-on-bad-signature", File: f, Old: "				err = pk.Verify(payload, sig)\n				if err != nil {\n					return\n				}", New: "				err = pk.Verify(payload, sig)\n				if err != nil {\n					break\n				}", Rule: "C05.D2", Construct: "verify-signature-failure-stops"},
		{Name: "verify-first-entry-only", File: f, Old: "			for _, info := range doubleSign.Signs {\n				payload :=", New: "			for _, info := range doubleSign.Signs[:1] {\n				payload :=", Rule: "C05.D2", Construct: "all-entries"},
		{Name: "no-once-lookup", File: f, Old: "		if _, ok := doubleSignedValidators[signerAddr]; ok {", New: "		if _, ok := doubleSignedValidators[signerAddr]; ok && false {", Rule: "C05.D3", Construct: "once-per-validator"},
		{Name: "head-as-parent", File: "staking/slash.go", Old: "	parentHeight := new(big.Int).Sub(header.Number, big.NewInt(1))", New: "	parentHeight := new(big.Int).Set(ctx.chain.CurrentHeader().Number)", Rule: "C05.D4", Construct: "replaySlashing#parent-height"},
		{Name: "penalty-to-coinbase", File: "staking/slash.go", Old: "	currentDB.AddBalance(config.PenaltyTo, totalPenalty)", New: "	currentDB.AddBalance(header.Coinbase, totalPenalty)", Rule: "C05.D5", Construct: "credits-penalty-account"},
		{Name: "withdraw-debit-not-counted", File: "staking/slash.go", Old: "			updateCounter(fromWithdraw, nil, nil, nil)\n", New: "", Rule: "C05.D5", Construct: "withdraw-debit-accumulated"},
	}
}

// c05RoundE: D10 (vote leaves only after it is recorded; = C02.S1's gate) and D11 (one penalised-set per block).
func c05RoundE(c *Ctx, w *World) {
	c.Rule("C05.D10", "GATE", "an honest validator cannot be made to equivocate: in Voter.vote the signed vote is handed to the network (SendMessageEvent) only on the nil edge of VoteDB.UpdateVoteData — the call that both refuses a second vote of the kind in this (round, index) and persists the first. Posted before it, a step announced twice (pause / resume, restart) with a better proposal in between yields two signed prevotes, which every node accepts as double-sign evidence (same gate as C02.S1)")
	c.Min(1)
	{
		vote := w.Fn(uconPkg, "Voter", "vote")
		updObj := w.FuncObj(uconPkg, "VoteDB", "UpdateVoteData")
		sendEv := w.Named(uconPkg, "SendMessageEvent")
		c.sawFunc(fname(vote))
		voteTail := voteTailOf(w, vote, updObj)
		updCalls := callsTo(voteTail, updObj)
		isPost := func(in ssa.Instruction) bool {
			ci, isCall := in.(ssa.CallInstruction)
			if !isCall {
				return false
			}
			o := calleeObj(ci)
			if o == nil || (o.Name() != "AsyncPost" && o.Name() != "Post") {
				return false
			}
			args := callArgs(ci)
			return len(args) > 0 && types.Identical(stripConv(args[0]).Type(), sendEv)
		}
		n := 0
		for _, ci := range sitesVia(w, voteTail, isPost) {
			n++
			c.sites++
			ok := false
			for _, u := range updCalls {
				if gatedByErrNil(ci, u) {
					ok = true
				}
			}
			c.Check(fname(vote)+"#vote-leaves-only-after-the-once-guard", ci.Pos(), ok, ifelse(ok, "posted on the nil edge of UpdateVoteData", "the vote is posted on a path that has not passed the already-voted guard: the same step announced twice makes the honest validator sign two different hashes"))
		}
		if n == 0 {
			c.Undecided(fname(vote)+"#vote-leaves-only-after-the-once-guard", vote.Pos(), "no SendMessageEvent post found in vote")
		}
	}

	c.Rule("C05.D11", "SAME-VALUE", "an equivocation is penalised once per block whatever label the evidence carries: the set of validators already penalised in this block, which processDoubleSign / processDoubleSignV5 consult and extend, is one map made once in processEvidences and handed to every call — never chosen per evidence (the vote-kind label of an evidence is not covered by the signatures, so a second copy of the same pair under another label would otherwise be penalised again)")
	c.Min(1)
	{
		pe := w.Fn("staking", "Staking", "processEvidences")
		c.sawFunc(fname(pe))
		var sets []ssa.Value
		var first ssa.CallInstruction
		nCalls := 0
		for _, ci := range callInstrs(pe) {
			o := calleeObj(ci)
			if o == nil || !strings.HasPrefix(o.Name(), "processDoubleSign") {
				continue
			}
			nCalls++
			if first == nil {
				first = ci
			}
			for _, a := range callArgs(ci) {
				if m, isMap := a.Type().Underlying().(*types.Map); isMap {
					if _, isStruct := m.Elem().Underlying().(*types.Struct); isStruct {
						sets = append(sets, stripConvNoBind(a))
					}
				}
			}
		}
		c.sites++
		if nCalls == 0 || len(sets) == 0 {
			c.Undecided(fname(pe)+"#one-penalised-set", pe.Pos(), "no processDoubleSign* call with a set argument found in processEvidences")
		} else {
			ok := true
			why := ""
			for _, sv := range sets {
				if _, isPhi := sv.(*ssa.Phi); isPhi {
					ok = false
					why = "the set handed over is chosen among several maps"
				}
				if sv != sets[0] {
					ok = false
					why = "different calls are handed different sets"
				}
			}
			if mk, isIn := sets[0].(ssa.Instruction); isIn && ok {
				if isLoopHeader(mk.Block()) || inLoopBlock(mk.Block()) {
					ok = false
					why = "the set is made anew inside the loop over the evidences"
				}
			}
			c.Check(fname(pe)+"#one-penalised-set", first.Pos(), ok, ifelse(ok, "one set, made once before the loop, reaches every evidence handler", why+": the same equivocation filed twice in one block is penalised twice"))
		}
	}
}

// c05KindGate (D12): only kinds that are cast once per round index can be double-signed.
func c05KindGate(c *Ctx, w *World) {
	c.Rule("C05.D12", "GATE", "no evidence that can be assembled from an honest validator's votes is accepted: a validator legitimately casts TWO next-index votes for different hashes in one round index (the empty hash on its timer, then the block that reaches the prevote quorum; alreadyVoted allows 2 on purpose, and the engine's own detector skips next-index votes), so processDoubleSignV5 penalises only evidence whose vote kind is one that is cast at most once — the penalty (doPenalize) is reached only on paths that established VoteType == Prevote, Precommit or Certificate")
	c.Min(1)
	pd := w.Fn("staking", "Staking", "processDoubleSignV5")
	c.sawFunc(fname(pd))
	allowed := map[int64]string{}
	for _, name := range []string{"Prevote", "Precommit", "Certificate"} {
		if cv := constOf(w, "staking", name); cv != nil {
			if k, ok := constant.Int64Val(constant.ToInt(cv)); ok {
				allowed[k] = name
			}
		}
	}
	isKind := func(v ssa.Value) bool {
		f, _ := loadedField(stripConvNoBind(v))
		return f != nil && f.Name() == "VoteType"
	}
	n := 0
	for _, ci := range callInstrs(pd) {
		o := calleeObj(ci)
		if o == nil || o.Name() != "doPenalize" {
			continue
		}
		n++
		c.sites++
		cons := fmt.Sprintf("%s#penalty-%d-only-for-once-per-index-kinds", fname(pd), n)
		ok := len(allowed) == 3 && allPathsPassEdge(pd, ci.Block(), func(from, to *ssa.BasicBlock) bool {
			f, isIf := edgeFact(from, to)
			if !isIf {
				return false
			}
			for _, a := range atomsOf([]Fact{f}) {
				if a.Kind != "eq" || !a.Truth {
					continue
				}
				for _, pair := range [][2]ssa.Value{{a.X, a.Y}, {a.Y, a.X}} {
					if !isKind(pair[0]) || pair[1] == nil {
						continue
					}
					if k, isK := constInt(stripConvNoBind(pair[1])); isK && allowed[k] != "" {
						return true
					}
				}
			}
			return false
		})
		c.Check(cons, ci.Pos(), ok, ifelse(ok, "every path to the penalty passes a test that found the vote kind to be Prevote, Precommit or Certificate", "the penalty is reachable without the evidence's vote kind having been found to be Prevote, Precommit or Certificate: the two next-index votes an honest validator casts in one round index (empty hash, then the quorum block) are accepted as a double sign — 2 % of its tokens, offline, expelled"))
	}
	if n == 0 {
		c.Undecided(fname(pd)+"#penalty", pd.Pos(), "no doPenalize call found in processDoubleSignV5")
	}
}

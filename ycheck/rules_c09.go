package main

import (
	"fmt"
	"go/constant"
	"go/token"
	"go/types"
	"sort"
	"strings"

	"golang.org/x/tools/go/ssa"
)

// C09 — reverting to a snapshot restores exactly the snapshotted state.
//
// Decided here (structure): every write to revertable state is journaled on
// the same paths (J1), the undo entry appended writes back everything the
// operation wrote and mirrors its statistics effect (J2), the two journals and
// the two revision lists are handled as one mechanism (J3), and the staking
// mutators that are NOT journaled (known finding F12) are only reachable where
// no snapshot can be reverted afterwards (J4/J5).

const statePkg = "core/state"

type c09Tables struct {
	revertable map[*types.Var]string  // field -> key
	mutators   map[*types.Func]string // callee -> effect key
	rawSetters map[*types.Func]bool   // functions that write without journaling by design
	lifecycle  map[string]string      // function key -> reason
	append_    *types.Func
	entryIface *types.Interface
}

func c09tables(w *World) *c09Tables {
	t := &c09Tables{revertable: map[*types.Var]string{}, mutators: map[*types.Func]string{}, rawSetters: map[*types.Func]bool{}}
	for _, f := range []string{"Nonce", "Balance", "CodeHash", "DelegationBalance", "DelegationsHash"} {
		t.revertable[w.Field(statePkg, "Account", f)] = "Account." + f
	}
	for _, f := range []string{"code", "suicided", "dirtyStorage", "delegations", "data"} {
		t.revertable[w.Field(statePkg, "stateObject", f)] = "stateObject." + f
	}
	for _, f := range []string{"refund", "logs", "logSize", "preimages", "stateObjects"} {
		t.revertable[w.Field(statePkg, "StateDB", f)] = "StateDB." + f
	}
	t.revertable[w.Field(statePkg, "Validator", "deleted")] = "Validator.deleted"
	// staking-trie state: observable through the staking root, NOT journaled today (F12)
	for _, f := range []string{"stakingRecordsDirty", "pendingRelatsDirty"} {
		t.revertable[w.Field(statePkg, "StateDB", f)] = "StateDB." + f
	}
	// raw setters: write a revertable field and leave journaling to their callers
	for _, m := range []string{"setBalance", "setNonce", "setCode", "setState", "setDelegationBalance", "setDelegations", "markSuicided"} {
		o := w.FuncObj(statePkg, "stateObject", m)
		t.rawSetters[o] = true
		t.mutators[o] = "raw:" + m
	}
	for _, m := range []string{"setStateObject", "setValidator"} {
		o := w.FuncObj(statePkg, "StateDB", m)
		t.rawSetters[o] = true
		t.mutators[o] = "raw:" + m
	}
	t.mutators[w.FuncObj(statePkg, "StateDB", "incrValidatorsStat")] = "stat+"
	t.mutators[w.FuncObj(statePkg, "StateDB", "decrValidatorsStat")] = "stat-"
	t.rawSetters[w.FuncObj(statePkg, "StateDB", "incrValidatorsStat")] = true
	t.rawSetters[w.FuncObj(statePkg, "StateDB", "decrValidatorsStat")] = true
	for _, m := range []string{"Add", "Delete", "RemoveRecords"} {
		t.mutators[w.FuncObj(statePkg, "WithdrawQueue", m)] = "withdrawQueue"
	}
	for _, m := range []string{"Add", "Delete"} {
		t.mutators[w.FuncObj(statePkg, "ValidatorIndex", m)] = "validatorIndex"
	}
	t.append_ = w.FuncObj(statePkg, "journal", "append")
	t.entryIface = w.Named(statePkg, "journalEntry").Underlying().(*types.Interface)

	// Functions that write revertable state outside the journal for a stated reason.
	t.lifecycle = map[string]string{
		"core/state.newObject":                           "constructor: the object is not yet shared",
		"(core/state.stateObject).deepCopy":              "copy constructor: writes the fresh copy only",
		"(core/state.stateObject).Code":                  "lazy load of the code cache: no observable change",
		"(core/state.stateObject).loadDelegations":       "lazy load of the delegation list cache: no observable change",
		"(core/state.stateObject).finalise":              "end of transaction: moves dirty slots to pending after the journal is dropped",
		"(core/state.StateDB).Copy":                      "copy constructor: writes the fresh copy only",
		"(core/state.StateDB).Reset":                     "reset of the whole state object; clears the journal with it",
		"(core/state.StateDB).clearJournalAndRefund":     "end of transaction: the journal is dropped together with the refund",
		"(core/state.StateDB).getDeletedStateObject":     "load of an account into the live cache: no observable change",
		"(core/state.StateDB).getValidator":              "load of a validator into the live cache: no observable change",
		"(core/state.StateDB).createObject#raw:setNonce": "setNonce(0) on the object just constructed, before it is shared",
		"(core/state.StateDB).CreateAccount":             "balance carried into the object just created by createObject, whose journal entry restores the whole previous object",
		"(core/state.StateDB).updateValidator":           "flush to the trie at IntermediateRoot: index entry of a validator that is already live",
		"(core/state.StateDB).deleteValidator":           "flush to the trie at IntermediateRoot after the journal was dropped",
		"(core/state.StateDB).Finalise":                  "end of transaction: marks deleted objects after which the journal is dropped",
		"(core/state.StateDB).ResetStakingTrie":          "block set-up at a period boundary, before any transaction of the block (callers tabled by J5)",
		"(core/state.StateDB).updateStakingTrie":         "flush to the staking trie at IntermediateRoot, after the journal was dropped",
		"core/state.New":                                 "constructor",
		"core/state.NewVldReader":                        "constructor",
		"(core/state.Validator).PartialCopy":             "copy constructor: writes the fresh copy only",
		"(core/state.WithdrawQueue).DeepCopy":            "copy constructor",
		"(core/state.WithdrawQueue).DecodeRLP":           "decoder fills a fresh queue",
		"(core/state.WithdrawQueue).RemoveRecords":       "the mutator itself",
		"(core/state.ValidatorIndex).DeepCopy":           "copy constructor",
		"(core/state.ValidatorIndex).DecodeRLP":          "decoder fills a fresh index",
		"(core/state.StateDB).revertWithdrawQueue":       "undo helper of the withdraw journal entries",
	}
	return t
}

// c09Mutation is one instruction that changes revertable state.
type c09Mutation struct {
	Key   string
	Instr ssa.Instruction
}

func (t *c09Tables) mutationsIn(fn *ssa.Function) []c09Mutation {
	var out []c09Mutation
	for _, fw := range fieldWrites(fn) {
		k, ok := t.revertable[fw.Field]
		if !ok || isLocalAlloc(fw.Base) {
			continue
		}
		out = append(out, c09Mutation{Key: k, Instr: fw.Instr})
	}
	for _, ci := range callInstrs(fn) {
		o := calleeObj(ci)
		if o == nil {
			continue
		}
		for m, k := range t.mutators {
			if sameFunc(o, m) {
				// raw setter applied to an object under construction
				if r := callRecv(ci); r != nil && strings.HasPrefix(k, "raw:") && isLocalAlloc(r) {
					continue
				}
				out = append(out, c09Mutation{Key: k, Instr: ci})
			}
		}
		// sync.Map Store/Delete on StateDB.validatorObjects
		if (o.Name() == "Store" || o.Name() == "Delete") && o.Pkg() != nil && o.Pkg().Path() == "sync" && recvName(o) == "Map" {
			if r := callRecv(ci); r != nil {
				if fa, ok := r.(*ssa.FieldAddr); ok && fieldOfAddr(fa).Name() == "validatorObjects" && !isLocalAlloc(fa.X) {
					out = append(out, c09Mutation{Key: "validatorObjects", Instr: ci})
				}
			}
		}
	}
	return out
}

func (t *c09Tables) isRevertMethod(fn *ssa.Function) bool {
	if fn.Name() != "revert" || fn.Signature.Recv() == nil {
		return false
	}
	rt := fn.Signature.Recv().Type()
	return types.Implements(rt, t.entryIface) || types.Implements(types.NewPointer(rt), t.entryIface)
}

// effectKeys computes the revertable keys a function changes, following
// tabled raw setters and helpers one level (they only write).
func (t *c09Tables) effectKeys(w *World, fn *ssa.Function, depth int) map[string]int {
	out := map[string]int{}
	for _, m := range t.mutationsIn(fn) {
		if strings.HasPrefix(m.Key, "raw:") {
			if depth > 0 {
				if callee := staticCallee(m.Instr.(ssa.CallInstruction)); callee != nil && callee.Blocks != nil {
					for k, n := range t.effectKeys(w, callee, depth-1) {
						out[k] += n
					}
				}
			}
			continue
		}
		out[m.Key]++
	}
	return out
}

func runC09(c *Ctx) {
	w := c.W
	t := c09tables(w)

	// ---------------------------------------------------------------- J1
	c.Rule("C09.J1", "CONFINED+ALWAYS-WITH", "every instruction that changes revertable state (account data, code, suicide flag, dirty storage, delegation list, refund, logs, preimages, live object maps, validator map/index/statistics, withdraw queue) lies in a journal entry's revert, in a tabled lifecycle function, in a tabled raw setter, or on exactly the same paths as a journal append in its function; raw setters are held to the same rule at each call site")
	c.Min(30)
	type jsite struct {
		fn      *ssa.Function
		appends []ssa.Instruction
		muts    []c09Mutation
	}
	var journaling []jsite
	for _, fn := range w.AllFuncs() {
		muts := t.mutationsIn(fn)
		if len(muts) == 0 {
			continue
		}
		c.sawFunc(fname(fn))
		name := fname(fn)
		if strings.HasSuffix(w.fileOf(fn.Pos()), "_test.go") {
			continue
		}
		if t.isRevertMethod(fn) {
			c.Pass(name, fn.Pos(), "journal entry revert")
			continue
		}
		if o, ok := fn.Object().(*types.Func); ok && t.rawSetters[o] {
			c.Pass(name, fn.Pos(), "tabled raw setter (its call sites are checked)")
			continue
		}
		if r, ok := t.lifecycle[outerName(name)]; ok {
			c.Pass(name, fn.Pos(), "lifecycle: "+r)
			continue
		}
		if lc := lifecycleHelper(w, t, fn); lc != "" {
			c.Pass(name, fn.Pos(), "helper called only from lifecycle function "+lc)
			continue
		}
		appends := callsAsInstrs(callsTo(fn, t.append_))
		byKey := map[string][]c09Mutation{}
		for _, m := range muts {
			byKey[m.Key] = append(byKey[m.Key], m)
		}
		var keys []string
		for k := range byKey {
			keys = append(keys, k)
		}
		sort.Strings(keys)
		var journaled []c09Mutation
		for _, k := range keys {
			construct := name + "#" + k
			if r, ok := t.lifecycle[construct]; ok {
				c.Pass(construct, byKey[k][0].Instr.Pos(), "lifecycle: "+r)
				continue
			}
			ok := true
			var bad ssa.Instruction
			for _, m := range byKey[k] {
				c.sites++
				if !alwaysWith(m.Instr, appends) && !appendInLoopOver(m.Instr, appends) {
					ok = false
					bad = m.Instr
				}
			}
			if ok {
				c.Pass(construct, byKey[k][0].Instr.Pos(), fmt.Sprintf("journal append on the same paths (%d writes)", len(byKey[k])))
				journaled = append(journaled, byKey[k]...)
			} else {
				c.Fail(construct, bad.Pos(), "revertable state is changed on a path that appends no journal entry: a revert to an earlier snapshot cannot undo it")
			}
		}
		if len(journaled) > 0 {
			journaling = append(journaling, jsite{fn, appends, journaled})
		}
	}

	// ---------------------------------------------------------------- J2
	c.Rule("C09.J2", "MIRROR", "for each journaling operation, the revert methods of the entry types it appends write back (through the same raw setters) every revertable key the operation changes, and undo its statistics effect with the opposite multiset of incr/decr calls")
	c.Min(12)
	for _, js := range journaling {
		name := fname(js.fn)
		// entry types appended
		var revKeys = map[string]int{}
		var entryNames []string
		perEntry := []map[string]int{}
		for _, a := range js.appends {
			ci := a.(ssa.CallInstruction)
			args := callArgs(ci)
			if len(args) != 1 {
				continue
			}
			// the entry may be chosen in branches and appended once: every alternative counts
			for _, alt := range entryAlternatives(args[0]) {
				et := stripConv(alt.Val).Type()
				rev := lookupMethod(w, et, "revert")
				if rev == nil {
					c.Undecided(name+"#entry", a.Pos(), "cannot resolve the revert method of appended entry type "+et.String())
					continue
				}
				entryNames = append(entryNames, types.TypeString(et, func(*types.Package) string { return "" }))
				ek := t.effectKeys(w, rev, 2)
				perEntry = append(perEntry, ek)
				for k, n := range ek {
					if n > revKeys[k] {
						revKeys[k] = n
					}
				}
			}
		}
		opKeys := map[string]int{}
		for _, m := range js.muts {
			if strings.HasPrefix(m.Key, "raw:") {
				if callee := staticCallee(m.Instr.(ssa.CallInstruction)); callee != nil && callee.Blocks != nil {
					for k, n := range t.effectKeys(w, callee, 1) {
						opKeys[k] += n
					}
				}
				continue
			}
			opKeys[m.Key]++
		}
		var missing []string
		for k := range opKeys {
			switch k {
			case "stat+", "stat-":
				continue
			case "stateObject.data":
				continue
			}
			if revKeys[k] == 0 {
				missing = append(missing, k)
			}
		}
		// statistics mirror: incr in the operation <-> decr in the revert
		if opKeys["stat+"] != revKeys["stat-"] || opKeys["stat-"] != revKeys["stat+"] {
			missing = append(missing, fmt.Sprintf("statistics mirror (operation +%d/-%d, undo +%d/-%d)", opKeys["stat+"], opKeys["stat-"], revKeys["stat+"], revKeys["stat-"]))
		}
		// the undo adjusts the statistics under the same predicate as the operation: an update that the operation
		// counts (e.g. a change of status or role only, decided by StakeEqual) must be un-counted by the revert
		if opKeys["stat+"]+opKeys["stat-"] > 0 {
			og := statGuards(js.fn)
			rg := map[string]bool{}
			for _, a := range js.appends {
				args := callArgs(a.(ssa.CallInstruction))
				if len(args) != 1 {
					continue
				}
				for _, alt := range entryAlternatives(args[0]) {
					if rev := lookupMethod(w, stripConv(alt.Val).Type(), "revert"); rev != nil {
						for k := range statGuards(rev) {
							rg[k] = true
						}
					}
				}
			}
			for k := range og {
				if !rg[k] {
					missing = append(missing, "statistics are adjusted under "+k+" in the operation but not in the undo")
				}
			}
			for k := range rg {
				if !og[k] {
					missing = append(missing, "statistics are adjusted under "+k+" in the undo but not in the operation")
				}
			}
		}
		sort.Strings(missing)
		if len(missing) > 0 && name == "(core/state.StateDB).RemoveValidator" {
			// Dead API: its undo neither clears the deleted flag nor restores the
			// statistics. That is harmless only while nothing calls it.
			if n := countCallersByName(w, "RemoveValidator"); n == 0 {
				c.Pass(name+"~dead-api", js.fn.Pos(), "RemoveValidator has no caller in the repository (its incomplete undo is unreachable); the exemption lapses with the first caller")
				continue
			}
		}
		c.Check(name+"~"+strings.Join(entryNames, ","), js.fn.Pos(), len(missing) == 0,
			func() string {
				if len(missing) == 0 {
					return fmt.Sprintf("undo covers %v", sortedKeys(opKeys))
				}
				return "the undo entry does not restore: " + strings.Join(missing, ", ")
			}())
	}

	// ---------------------------------------------------------------- J3
	c.Rule("C09.J3", "ALWAYS-WITH+PROVENANCE", "the account journal and the validator journal, and their two revision lists, are one mechanism: a function that assigns one of a pair assigns the other on the same paths, and a truncation st.F = st.F[:i] uses an index found by searching the same list F")
	c.Min(6)
	// Snapshot hands out a fresh revision on every path
	{
		sn := w.Fn(statePkg, "StateDB", "Snapshot")
		nextF := w.Field(statePkg, "StateDB", "nextRevisionId")
		var need [][]ssa.Instruction
		for _, fld := range []*types.Var{w.Field(statePkg, "StateDB", "validRevisions"), w.Field(statePkg, "StateDB", "valValidRevisions"), nextF} {
			var st []ssa.Instruction
			for _, x := range withSmallHelpers(sn) {
				for _, fw := range fieldWrites(x) {
					if fw.Field == fld && fw.Kind == "store" {
						st = append(st, fw.Instr)
					}
				}
			}
			need = append(need, st)
		}
		nRet, bad := 0, 0
		for _, b := range sn.Blocks {
			r, ok := b.Instrs[len(b.Instrs)-1].(*ssa.Return)
			if !ok || b == sn.Recover {
				continue
			}
			nRet++
			fresh := false
			if f, _ := loadedField(stripConvNoBind(r.Results[0])); f == nextF {
				fresh = true
			}
			all := true
			for _, st := range need {
				if len(st) == 0 || !mustPassBefore(r, st) {
					all = false
				}
			}
			if !fresh || !all {
				bad++
			}
		}
		{
			c.sites += nRet
			c.Check(fname(sn)+"#fresh-revision-on-every-path", sn.Pos(), nRet > 0 && bad == 0, ifelse(nRet > 0 && bad == 0, "every return hands out the id read from nextRevisionId after raising it and appending a revision to BOTH lists", fmt.Sprintf("%d of %d returns of Snapshot hand out an id without a new revision in both lists (e.g. an earlier revision's id when the account journal has not grown): the validator journal may have grown in between, and reverting to the inner snapshot also undoes validator, statistics and withdraw-queue changes made before it", bad, nRet)))
		}
	}
	pairs := [][2]*types.Var{
		{w.Field(statePkg, "StateDB", "journal"), w.Field(statePkg, "StateDB", "validatorJournal")},
		{w.Field(statePkg, "StateDB", "validRevisions"), w.Field(statePkg, "StateDB", "valValidRevisions")},
	}
	twin := map[*types.Var]*types.Var{}
	for _, p := range pairs {
		twin[p[0]] = p[1]
		twin[p[1]] = p[0]
	}
	for _, fn := range w.FuncsIn(statePkg) {
		byField := map[*types.Var][]ssa.Instruction{}
		for _, fw := range fieldWrites(fn) {
			if _, ok := twin[fw.Field]; ok && fw.Kind == "store" && !isLocalAlloc(fw.Base) {
				byField[fw.Field] = append(byField[fw.Field], fw.Instr)
			}
		}
		if len(byField) == 0 {
			continue
		}
		c.sawFunc(fname(fn))
		var fs []*types.Var
		for f := range byField {
			fs = append(fs, f)
		}
		sort.Slice(fs, func(i, j int) bool { return fs[i].Name() < fs[j].Name() })
		for _, f := range fs {
			ok := true
			for _, in := range byField[f] {
				c.sites++
				if !alwaysWith(in, byField[twin[f]]) {
					ok = false
				}
			}
			c.Check(fname(fn)+"#"+f.Name(), byField[f][0].Pos(), ok,
				func() string {
					if ok {
						return "assigned together with " + twin[f].Name()
					}
					return f.Name() + " is assigned without " + twin[f].Name() + " on the same paths: the two lists drift apart and a later revert looks an id up in a list that no longer matches"
				}())
			// truncations
			for _, in := range byField[f] {
				st := in.(*ssa.Store)
				sl, ok := st.Val.(*ssa.Slice)
				if !ok {
					continue
				}
				srcF, _ := loadedField(sl.X)
				good := srcF == f
				why := ""
				if !good {
					why = "slices a different list"
				}
				if good && sl.High != nil {
					if n, isC := constInt(sl.High); isC && n == 0 {
						// reset
					} else if bo, isArith := stripConvNoBind(sl.High).(*ssa.BinOp); isArith {
						good, why = false, "is computed ("+bo.Op.String()+") from the position found instead of being that position: the reverted revision itself stays valid (or a valid one is cut)"
					} else {
						good, why = truncIndexSearchesField(sl.High, f, twin[f])
					}
				}
				c.Check(fname(fn)+"#"+f.Name()+"-truncation", in.Pos(), good,
					func() string {
						if good {
							return "truncated at an index found in the same list"
						}
						return "truncation index of " + f.Name() + " " + why + ": entries of later snapshots survive (or valid ones are cut) and a nested revert fails"
					}())
			}
		}
	}

	c09Bookkeeping(c, t)
	c09Unjournaled(c, t)
	c09FrozenEntries(c, c.W)
	c09QueueUndo(c, c.W)
	c09DistinctUpdateArgs(c, c.W)
	c09RemoveMirror(c, c.W)
	c09StatRewards(c, c.W)
}

// c09Bookkeeping: the journal's own bookkeeping that revert exactness rests on.
func c09Bookkeeping(c *Ctx, t *c09Tables) {
	w := c.W
	// ------------------------------------------------------------ J6
	c.Rule("C09.J6", "GATE", "createObject journals a plain creation (whose undo forgets the address) only when no previous object — live, or marked deleted by an earlier transaction of the block — existed; otherwise it journals a reset entry that carries that previous object")
	c.Min(2)
	createObjectJournalKinds(c, w, t.append_)

	// ------------------------------------------------------------ J8
	c.Rule("C09.J8", "OWNERSHIP", "a slice whose previous value a journal entry keeps by reference (stateObject.delegations → delegationsChange.prevdlgs) is never edited in place: every element store or copy() destination in core/state whose backing array may be the field's current one — reached through append or re-slicing without a fresh make — is a violation, because it rewrites the undo copy")
	c.Min(2)
	journaledSliceWrites(c, w, "stateObject.delegations")

	// ------------------------------------------------------------ J9
	c.Rule("C09.J9", "TYPESTATE", "validator records the journal refers to are frozen: after a record was handed to UpdateValidator — as the new value or as the pre-image, directly or as the result of UpdateDelegation — no field of it is stored and no *big.Int field of it is updated in place on any path that follows in the same function (a further change works on a new copy); and Validator.UpdateDelegationFrom never writes into the slice it found (PartialCopy shares it with the pre-image): it builds a new one")
	c.Min(10)
	{
		updV := w.FuncObj(statePkg, "StateDB", "UpdateValidator")
		updD := w.FuncObj(statePkg, "StateDB", "UpdateDelegation")
		valT := w.Named(statePkg, "Validator")
		isValPtr := func(t types.Type) bool {
			p, ok := t.Underlying().(*types.Pointer)
			return ok && types.Identical(p.Elem(), valT)
		}
		nPub := 0
		for _, pk := range []string{"staking", "core/state", "core"} {
			for _, fn := range w.FuncsIn(pk) {
				if strings.HasSuffix(w.fileOf(fn.Pos()), "_test.go") {
					continue
				}
				type pub struct {
					at  ssa.CallInstruction
					obj ssa.Value
					as  string
				}
				var pubs []pub
				for _, ci := range callInstrs(fn) {
					o := calleeObj(ci)
					switch {
					case sameFunc(o, updV):
						a := callArgs(ci)
						pubs = append(pubs, pub{ci, stripConv(a[0]), "new value"}, pub{ci, stripConv(a[1]), "pre-image"})
					case sameFunc(o, updD):
						if v := ci.Value(); v != nil {
							for _, r := range *v.Referrers() {
								if ex, ok := r.(*ssa.Extract); ok && isValPtr(ex.Type()) {
									pubs = append(pubs, pub{ci, ex, "record returned by UpdateDelegation"})
								}
							}
						}
					}
				}
				if len(pubs) == 0 {
					continue
				}
				c.sawFunc(fname(fn))
				// mutations of a validator object in this function
				type mut struct {
					in   ssa.Instruction
					base ssa.Value
					what string
				}
				var muts []mut
				for _, fw := range fieldWrites(fn) {
					if isValPtr(fw.Base.Type()) && fw.Kind == "store" {
						muts = append(muts, mut{fw.Instr, stripConv(fw.Base), "stores field " + fw.Field.Name()})
					}
				}
				for _, ci := range callInstrs(fn) {
					o := calleeObj(ci)
					if o == nil {
						continue
					}
					if recvName(o) == "Int" && o.Pkg() != nil && o.Pkg().Path() == "math/big" {
						switch o.Name() {
						case "Add", "Sub", "Set", "Mul", "Quo", "Div", "SetUint64", "SetInt64", "Neg":
							if f, base := loadedField(stripConv(callRecv(ci))); f != nil && base != nil && isValPtr(base.Type()) {
								muts = append(muts, mut{ci, stripConv(base), "updates " + f.Name() + " in place"})
							}
						}
					}
					if recvName(o) == "Validator" && o.Pkg() != nil && o.Pkg().Path() == full(statePkg) {
						switch o.Name() {
						case "UpdateDelegationFrom", "AddTotalRewards", "UpdateLastActive":
							muts = append(muts, mut{ci, stripConv(callRecv(ci)), "calls " + o.Name()})
						}
					}
				}
				for i, p := range pubs {
					nPub++
					c.sites++
					bad := ""
					for _, m := range muts {
						if m.base != p.obj && !samePath(m.base, p.obj) {
							continue
						}
						if m.in == ssa.Instruction(p.at) {
							continue
						}
						if reachesWithoutRedefinition(p.at, m.in, p.obj) {
							bad = m.what + " at " + w.Pos(m.in.Pos())
						}
					}
					key := fmt.Sprintf("%s#published@%d-%s-not-mutated-afterwards", fname(fn), i, strings.ReplaceAll(p.as, " ", "-"))
					c.Check(key, p.at.Pos(), bad == "", ifelse(bad == "", "not touched after it was handed to the state", "the "+p.as+" handed to the state here is changed afterwards ("+bad+"): the journal entry written for it refers to this very object, so a revert re-installs (or adjusts the statistics by) a record that is no longer what it was — validator and statistics are not restored"))
				}
			}
		}
		if nPub < 10 {
			c.Undecided("validator-records#published", 0, fmt.Sprintf("only %d published validator records found", nPub))
		}
		// UpdateDelegationFrom builds a new slice
		udf := w.Fn(statePkg, "Validator", "UpdateDelegationFrom")
		c.sawFunc(fname(udf))
		dlgsF := w.Field(statePkg, "Validator", "Delegations")
		var inPlace []string
		var fromField func(v ssa.Value, seen map[ssa.Value]bool) bool
		fromField = func(v ssa.Value, seen map[ssa.Value]bool) bool {
			if seen[v] {
				return false
			}
			seen[v] = true
			switch x := v.(type) {
			case *ssa.Slice:
				return fromField(x.X, seen)
			case *ssa.ChangeType:
				return fromField(x.X, seen)
			case *ssa.Phi:
				for _, e := range x.Edges {
					if fromField(e, seen) {
						return true
					}
				}
			case *ssa.Call:
				if bi, ok := x.Call.Value.(*ssa.Builtin); ok && bi.Name() == "append" {
					return fromField(x.Call.Args[0], seen)
				}
			case *ssa.UnOp:
				if f, _ := loadedField(x); f == dlgsF {
					// unless this function stored a fresh slice into the field before
					fresh := false
					for _, fw := range fieldWrites(udf) {
						if fw.Field == dlgsF && fw.Kind == "store" && instrDominates(fw.Instr, x) {
							if _, isMake := stripConv(fw.Instr.(*ssa.Store).Val).(*ssa.MakeSlice); isMake {
								fresh = true
							}
						}
					}
					return !fresh
				}
			}
			return false
		}
		for _, in := range allInstrs(udf) {
			var dst ssa.Value
			switch x := in.(type) {
			case *ssa.Store:
				if ia, ok := x.Addr.(*ssa.IndexAddr); ok {
					dst = ia.X
				}
			case *ssa.Call:
				if bi, ok := x.Call.Value.(*ssa.Builtin); ok && bi.Name() == "copy" {
					dst = x.Call.Args[0]
				}
				if bi, ok := x.Call.Value.(*ssa.Builtin); ok && bi.Name() == "append" {
					dst = x.Call.Args[0] // appending reuses spare capacity of the shared array
				}
			}
			if dst == nil {
				continue
			}
			if _, isSlice := dst.Type().Underlying().(*types.Slice); !isSlice {
				continue
			}
			if fromField(dst, map[ssa.Value]bool{}) {
				inPlace = append(inPlace, w.Pos(in.Pos()))
			}
		}
		c.sites++
		c.Check(fname(udf)+"#builds-a-new-slice", udf.Pos(), len(inPlace) == 0, ifelse(len(inPlace) == 0, "every element write goes to a slice made in this function", "the delegation slice the record was copied with is edited in place ("+strings.Join(inPlace, ", ")+"): PartialCopy shares that array with the superseded record the journal keeps as pre-image, so after a revert the validator lists the new amount, a shifted list or a nil entry"))
	}

	// ------------------------------------------------------------ J7
	c.Rule("C09.J7", "MIRROR", "the journal counts live entries per address: append raises dirties[addr] by one, revert lowers it by one per undone entry and deletes the key only when the count reaches zero (Finalise flushes exactly the addresses that still have live entries)")
	c.Min(2)
	dirtiesF := w.Field(statePkg, "journal", "dirties")
	ap := w.Fn(statePkg, "journal", "append")
	rv := w.Fn(statePkg, "journal", "revert")
	c.sawFunc(fname(ap))
	c.sawFunc(fname(rv))
	incr := false
	for _, fw := range fieldWrites(ap) {
		if fw.Field == dirtiesF && fw.Kind == "mapupdate" {
			if bo, ok := fw.Instr.(*ssa.MapUpdate).Value.(*ssa.BinOp); ok && bo.Op == token.ADD {
				if n, isC := constInt(bo.Y); isC && n == 1 {
					incr = true
				}
			}
		}
	}
	c.Check(fname(ap)+"#dirty-count-up", ap.Pos(), incr, ifelse(incr, "dirties[addr]++", "append no longer counts the entry for its address"))
	var decr *ssa.MapUpdate
	var del ssa.CallInstruction
	for _, fw := range fieldWrites(rv) {
		if fw.Field != dirtiesF {
			continue
		}
		switch fw.Kind {
		case "mapupdate":
			if bo, ok := fw.Instr.(*ssa.MapUpdate).Value.(*ssa.BinOp); ok && bo.Op == token.SUB {
				if n, isC := constInt(bo.Y); isC && n == 1 {
					decr = fw.Instr.(*ssa.MapUpdate)
				}
			}
		case "delete":
			del = fw.Instr.(ssa.CallInstruction)
		}
	}
	okRev := decr != nil
	why := "revert does not lower the per-address count by one"
	if decr != nil && del != nil {
		// the delete is gated by count == 0 after the decrement
		zero := false
		for _, a := range atomsOf(factsAtInstr(del)) {
			if a.Kind == "eq" && a.Truth {
				if n, isC := constInt(a.Y); isC && n == 0 {
					if lk, ok := stripConv(a.X).(*ssa.Lookup); ok {
						if f, _ := loadedField(lk.X); f == dirtiesF {
							zero = true
						}
					}
				}
			}
		}
		if !zero || !instrDominates(decr, del) {
			okRev = false
			why = "the dirty mark of an address is deleted although entries made before the snapshot are still live"
		}
	} else if del != nil {
		okRev = false
		why = "the dirty mark of an address is deleted without counting down: entries made before the snapshot lose their mark"
	}
	c.Check(fname(rv)+"#dirty-count-down", rv.Pos(), okRev, ifelse(okRev, "dirties[addr]-- and delete only at zero", why+": Finalise skips the account and its surviving changes never reach the trie"))
}

// truncIndexSearchesField: the index derives from sort.Search(len(st.F), func{ st.F[i] ... }).
func truncIndexSearchesField(idx ssa.Value, f, other *types.Var) (bool, string) {
	// the index may have crossed a function boundary (the search in one half of a split function, the
	// truncation in the other): follow a parameter to the arguments of all callers and a call result into
	// the callee's returns, a few steps deep
	var lastWhy string
	for _, origin := range crossOrigins(theWorld, idx, 3) {
		ok, why := truncIndexSearchesFieldLocal(origin, f, other)
		if ok {
			return true, ""
		}
		lastWhy = why
	}
	return false, lastWhy
}

// crossOrigins returns v and the values it stands for across function
// boundaries: for a parameter, the corresponding argument at every static call
// site (parameters bound); for a (component of a) call result of a repository
// function, what that function returns there.
func crossOrigins(w *World, v ssa.Value, depth int) []ssa.Value {
	out := []ssa.Value{v}
	if depth == 0 || w == nil {
		return out
	}
	switch x := stripConvNoBind(v).(type) {
	case *ssa.Parameter:
		fn := x.Parent()
		idx := -1
		for i, p := range fn.Params {
			if p == x {
				idx = i
			}
		}
		for _, ci := range w.Callers(fn) {
			if args := ci.Common().Args; idx >= 0 && idx < len(args) {
				out = append(out, crossOrigins(w, args[idx], depth-1)...)
			}
		}
	case *ssa.Extract:
		if call, ok := x.Tuple.(*ssa.Call); ok {
			if g := call.Call.StaticCallee(); g != nil && g.Blocks != nil && g.Pkg != nil && strings.HasPrefix(g.Pkg.Pkg.Path(), modPath) {
				for i, prm := range g.Params {
					if i < len(call.Call.Args) {
						paramBind[prm] = call.Call.Args[i]
					}
				}
				for _, b := range g.Blocks {
					if r, isRet := b.Instrs[len(b.Instrs)-1].(*ssa.Return); isRet && b != g.Recover && x.Index < len(r.Results) {
						out = append(out, crossOrigins(w, r.Results[x.Index], depth-1)...)
					}
				}
			}
		}
	case *ssa.Call:
		if g := x.Call.StaticCallee(); g != nil && g.Blocks != nil && g.Pkg != nil && strings.HasPrefix(g.Pkg.Pkg.Path(), modPath) && g.Signature.Results().Len() == 1 {
			for i, prm := range g.Params {
				if i < len(x.Call.Args) {
					paramBind[prm] = x.Call.Args[i]
				}
			}
			for _, b := range g.Blocks {
				if r, isRet := b.Instrs[len(b.Instrs)-1].(*ssa.Return); isRet && b != g.Recover {
					out = append(out, crossOrigins(w, r.Results[0], depth-1)...)
				}
			}
		}
	}
	return out
}

func truncIndexSearchesFieldLocal(idx ssa.Value, f, other *types.Var) (bool, string) {
	var search *ssa.Call
	backward(idx, func(v ssa.Value) bool {
		if c, ok := v.(*ssa.Call); ok {
			if o := calleeObj(c); o != nil && o.Pkg() != nil && o.Pkg().Path() == "sort" && o.Name() == "Search" {
				search = c
			}
			return isSmallHelper(c.Call.StaticCallee()) // a search moved into a helper is followed (parameters bound)
		}
		return true
	})
	if search == nil {
		return false, "does not come from a search of the list"
	}
	lenOK := false
	if lc, ok := search.Call.Args[0].(*ssa.Call); ok {
		if b, ok := lc.Call.Value.(*ssa.Builtin); ok && b.Name() == "len" {
			if lf, _ := loadedField(lc.Call.Args[0]); lf == f {
				lenOK = true
			}
		}
	}
	if !lenOK {
		return false, "was searched over the length of another list"
	}
	if mc, ok := search.Call.Args[1].(*ssa.MakeClosure); ok {
		cf := mc.Fn.(*ssa.Function)
		overF, overOther := len(fieldReads(cf, f)) > 0, len(fieldReads(cf, other)) > 0
		// the list may reach the predicate as a captured variable (the search lives in a helper that takes the list)
		for _, bnd := range mc.Bindings {
			derivesFrom(bnd, func(v ssa.Value) bool {
				if lf, _ := loadedField(v); lf == f {
					overF = true
				} else if lf == other {
					overOther = true
				}
				return false
			})
		}
		if !overF || overOther {
			return false, "was searched with a predicate over the other list"
		}
	}
	return true, ""
}

// appendInLoopOver accepts the idiom "mutate, then append one journal entry
// per element of what the mutator returned": an append whose entry derives
// from the mutator's result and which sits in a loop entered on every path
// after the mutation.
func appendInLoopOver(site ssa.Instruction, appends []ssa.Instruction) bool {
	sv, ok := site.(ssa.Value)
	if !ok {
		return false
	}
	for _, a := range appends {
		ci := a.(ssa.CallInstruction)
		args := callArgs(ci)
		if len(args) != 1 || !site.Block().Dominates(a.Block()) {
			continue
		}
		if derivesFrom(args[0], func(v ssa.Value) bool { return v == sv }) {
			return true
		}
	}
	return false
}

func lookupMethod(w *World, t types.Type, name string) *ssa.Function {
	for _, tt := range []types.Type{t, types.NewPointer(t)} {
		ms := w.Prog.MethodSets.MethodSet(tt)
		for i := 0; i < ms.Len(); i++ {
			if ms.At(i).Obj().Name() == name {
				fn := w.Prog.MethodValue(ms.At(i))
				if fn != nil && fn.Blocks != nil {
					// unwrap pointer-receiver wrappers
					if fn.Synthetic != "" {
						if o, ok := ms.At(i).Obj().(*types.Func); ok {
							if f2 := w.Prog.FuncValue(o); f2 != nil {
								return f2
							}
						}
					}
					return fn
				}
			}
		}
	}
	return nil
}

func sortedKeys(m map[string]int) []string {
	var ks []string
	for k := range m {
		ks = append(ks, k)
	}
	sort.Strings(ks)
	return ks
}

var _ = token.NoPos

func outerName(n string) string {
	if i := strings.Index(n, "$"); i >= 0 {
		return n[:i]
	}
	return n
}

// countCallersByName counts call sites (static or through any interface) of a
// method with the given name, outside test files.
func countCallersByName(w *World, name string) int {
	n := 0
	for _, fn := range w.AllFuncs() {
		if strings.HasSuffix(w.fileOf(fn.Pos()), "_test.go") {
			continue
		}
		for _, ci := range callInstrs(fn) {
			if o := calleeObj(ci); o != nil && o.Name() == name && recvName(o) != "" {
				n++
			}
		}
	}
	return n
}

// lifecycleHelper: fn is unexported and every static caller in the repository is
// a tabled lifecycle function (a part of Copy / Reset / commit split off into a
// helper). Returns the caller's name, or "".
func lifecycleHelper(w *World, t *c09Tables, fn *ssa.Function) string {
	if fn.Parent() != nil {
		fn = fn.Parent()
	}
	if o := fn.Object(); o == nil || o.Exported() {
		return ""
	}
	cs := w.Callers(fn)
	if len(cs) == 0 {
		return ""
	}
	name := ""
	for _, ci := range cs {
		caller := ci.Parent()
		if strings.HasSuffix(w.fileOf(caller.Pos()), "_test.go") {
			continue
		}
		n := outerName(fname(caller))
		if _, ok := t.lifecycle[n]; !ok {
			return ""
		}
		name = n
	}
	return name
}

// journaledSliceWrites is the OWNERSHIP rule shared by C09.J8 and C08.V8: no
// in-place write into a slice whose previous value a journal entry keeps by
// reference.
func journaledSliceWrites(c *Ctx, w *World, what string) {

	dlgF := w.Field(statePkg, "stateObject", "delegations")
	var mayAlias func(v ssa.Value, seen map[ssa.Value]bool) bool
	mayAlias = func(v ssa.Value, seen map[ssa.Value]bool) bool {
		if seen[v] {
			return false
		}
		seen[v] = true
		switch x := v.(type) {
		case *ssa.Slice:
			return mayAlias(x.X, seen)
		case *ssa.ChangeType:
			return mayAlias(x.X, seen)
		case *ssa.Convert:
			return mayAlias(x.X, seen)
		case *ssa.Phi:
			for _, e := range x.Edges {
				if mayAlias(e, seen) {
					return true
				}
			}
		case *ssa.Call:
			if bi, ok := x.Call.Value.(*ssa.Builtin); ok && bi.Name() == "append" {
				return mayAlias(x.Call.Args[0], seen)
			}
		case *ssa.UnOp:
			if f, base := loadedField(x); f == dlgF {
				// the list of another object that this function has just given a fresh array (the copy in deepCopy)
				fn := x.Parent()
				if len(fn.Params) > 0 && base != ssa.Value(fn.Params[0]) {
					stores, fresh := 0, 0
					for _, fw := range fieldWrites(fn) {
						if fw.Field == dlgF && fw.Kind == "store" && samePath(fw.Base, base) {
							stores++
							if _, isMake := stripConv(fw.Instr.(*ssa.Store).Val).(*ssa.MakeSlice); isMake {
								fresh++
							}
						}
					}
					if stores > 0 && stores == fresh {
						return false
					}
				}
				return true
			}
		}
		return false
	}
	nWrites := 0
	for _, fn := range w.FuncsIn(statePkg) {
		if strings.HasSuffix(w.fileOf(fn.Pos()), "_test.go") {
			continue
		}
		uses := false
		for _, in := range fieldReads(fn, dlgF) {
			_ = in
			uses = true
		}
		if !uses {
			continue
		}
		n := 0
		for _, in := range allInstrs(fn) {
			var dst ssa.Value
			switch x := in.(type) {
			case *ssa.Store:
				if ia, ok := x.Addr.(*ssa.IndexAddr); ok {
					dst = ia.X
				}
			case *ssa.Call:
				if bi, ok := x.Call.Value.(*ssa.Builtin); ok && bi.Name() == "copy" {
					dst = x.Call.Args[0]
				}
				// append onto a PREFIX of the slice (f[:i]) writes inside the old length
				if bi, ok := x.Call.Value.(*ssa.Builtin); ok && bi.Name() == "append" {
					if sl, isSl := x.Call.Args[0].(*ssa.Slice); isSl && sl.High != nil {
						dst = sl
					}
				}
			}
			if dst == nil {
				continue
			}
			if _, isSlice := dst.Type().Underlying().(*types.Slice); !isSlice {
				continue
			}
			nWrites++
			c.sites++
			c.sawFunc(fname(fn))
			alias := mayAlias(dst, map[ssa.Value]bool{})
			c.Check(fmt.Sprintf("%s#in-place-write@%d-not-on-journaled-slice", fname(fn), n), in.Pos(), !alias, ifelse(!alias, "the slice written into is freshly made in this function", "elements are written into a slice that may share its backing array with stateObject.delegations (obtained by append / re-slicing, which reuse spare capacity): the journal's undo copy of the delegation list is the same array, so a revert restores a list with a phantom validator and without the last real one — under the old hash"))
			n++
		}
	}
	if nWrites < 2 {
		c.Undecided("core/state.stateObject.delegations#in-place-writes", 0, fmt.Sprintf("only %d in-place slice writes found in functions that read the delegation list", nWrites))
	}
}

// createObjectJournalKinds: createObject journals a creation entry only when no
// previous object (live or marked deleted) exists, and a reset entry carrying
// the previous object otherwise. Shared by C09.J6 and C16.F6.
func createObjectJournalKinds(c *Ctx, w *World, appendObj *types.Func) {
	co := w.Fn(statePkg, "StateDB", "createObject")
	c.sawFunc(fname(co))
	var prevCall ssa.CallInstruction
	includesDeleted := false
	for _, ci := range callInstrs(co) {
		if o := calleeObj(ci); o != nil && (o.Name() == "getDeletedStateObject" || o.Name() == "getStateObject") && recvName(o) == "StateDB" {
			prevCall = ci
			includesDeleted = o.Name() == "getDeletedStateObject"
		}
	}
	if prevCall == nil {
		c.Undecided(fname(co)+"#creation-entry", co.Pos(), "createObject no longer looks the previous object up")
	} else {
		c.sites++
		c.Check(fname(co)+"#previous-object-lookup-includes-deleted", prevCall.Pos(), includesDeleted, ifelse(includesDeleted, "the previous object is looked up with getDeletedStateObject, which also returns objects marked deleted earlier in the block", "the previous object is looked up with getStateObject, which hides objects marked deleted by an earlier transaction of the block: their re-creation is journaled as a plain creation, and reverting it drops the tombstone — the destroyed account comes back from the trie with its old balance, code and storage"))
		for _, a := range callsTo(co, appendObj) {
			args0 := callArgs(a)
			for _, alt := range entryAlternatives(args0[0]) {
				args := []ssa.Value{alt.Val}
				et := stripConv(alt.Val).Type()
				name := types.TypeString(et, func(*types.Package) string { return "" })
				atoms := alt.AtomsAt(a.(ssa.Instruction))
				isNilPrev, nonNilPrev, other := false, false, false
				for _, at := range atoms {
					if at.Kind == "isnil" && stripConv(at.X) == ssa.Value(prevCall.Value()) {
						if at.Truth {
							isNilPrev = true
						} else {
							nonNilPrev = true
						}
					} else {
						other = true
					}
				}
				c.sites++
				switch {
				case strings.Contains(name, "createObjectChange"):
					ok := isNilPrev && !other
					c.Check(fname(co)+"#createObjectChange-only-without-previous", a.Pos(), ok, ifelse(ok, "appended exactly under prev == nil", "a creation entry (whose undo deletes the address from the live set) is journaled although a previous object may exist: reverting it forgets that object — e.g. one marked deleted earlier in the block is reloaded from the trie as if it had never been destroyed"))
				case strings.Contains(name, "resetObjectChange"):
					// carries prev
					carries := false
					backward(args[0], func(v ssa.Value) bool {
						if v == ssa.Value(prevCall.Value()) {
							carries = true
						}
						return true
					})
					ok := nonNilPrev && carries
					c.Check(fname(co)+"#resetObjectChange-carries-previous", a.Pos(), ok, ifelse(ok, "appended under prev != nil with the previous object as pre-image", "the reset entry does not carry the previous object"))
				}
			}
		}
	}
}

// statGuards: the boolean predicates (called functions) whose outcome decides
// whether fn adjusts the validator statistics.
func statGuards(fn *ssa.Function) map[string]bool {
	out := map[string]bool{}
	for _, ci := range callInstrs(fn) {
		o := calleeObj(ci)
		if o == nil || !(o.Name() == "incrValidatorsStat" || o.Name() == "decrValidatorsStat") {
			continue
		}
		for _, a := range atomsOf(factsAtInstr(ci.(ssa.Instruction))) {
			if a.Kind != "true" {
				continue
			}
			if cc, ok := stripConv(a.X).(*ssa.Call); ok {
				if g := calleeObj(cc); g != nil {
					out[g.Name()] = true
				}
			}
		}
	}
	return out
}

// c09FrozenEntries (J10): the delegation entries of a record the journal keeps
// are frozen too. PartialCopy gives a new record that SHARES the entries of
// the old one; whoever edits an entry's amounts in place (big.Int mutators on
// DelegationFrom.Token / Stake, also through a closure that receives them as
// arguments) must work on a record obtained with DeepCopy.
func c09DistinctUpdateArgs(c *Ctx, w *World) {
	c.Rule("C09.J12", "SAME-VALUE", "the journal's pre-image of a validator update is not the record that replaces it: at every UpdateValidator(new, old) call site the two arguments can never be one and the same object (values followed through phis and local variables share no source) — otherwise the edit was made in place on the only copy and RevertToSnapshot restores a record that already carries it (shared with C08.V13)")
	c.Min(10)
	distinctUpdateArgs(c, w)
}

// c09RemoveMirror (J13) and the once-only decrement (C10.K12) share removalEffects.
func removalEffects(w *World) (rm, rv, del *ssa.Function, rmDecr, rvIncr, rmFlag, rvUnflag bool, delGuarded bool) {
	rm = w.Fn(statePkg, "StateDB", "RemoveValidator")
	rv = w.Fn(statePkg, "validatorDeleteChange", "revert")
	del = w.Fn(statePkg, "StateDB", "deleteValidator")
	incr := w.FuncObj(statePkg, "StateDB", "incrValidatorsStat")
	decr := w.FuncObj(statePkg, "StateDB", "decrValidatorsStat")
	rmDecr = len(callsTo(rm, decr)) > 0
	rvIncr = len(callsTo(rv, incr)) > 0
	flagStore := func(fn *ssa.Function, want bool) bool {
		for _, fwr := range fieldWrites(fn) {
			if fwr.Field != nil && fwr.Field.Name() == "deleted" {
				if st, ok := fwr.Instr.(*ssa.Store); ok {
					if cv, isC := st.Val.(*ssa.Const); isC && cv.Value != nil && cv.Value.Kind() == constant.Bool && constant.BoolVal(cv.Value) == want {
						return true
					}
				}
			}
		}
		return false
	}
	rmFlag = flagStore(rm, true)
	rvUnflag = flagStore(rv, false)
	// deleteValidator's decrement depends on the flag's previous value
	delGuarded = true
	for _, ci := range callsTo(del, decr) {
		guarded := false
		for _, a := range atomsOf(factsAt(ci.Block())) {
			if derivesFrom(a.X, func(x ssa.Value) bool {
				f, _ := loadedField(x)
				return f != nil && f.Name() == "deleted"
			}) {
				guarded = true
			}
		}
		if !guarded {
			delGuarded = false
		}
	}
	return
}

// c09StatRewards (J14): the reward pools of the statistics are revertable state too.
func c09StatRewards(c *Ctx, w *World) {
	c.Rule("C09.J14", "CONFINED", "the reward pools and the residue kept in the validator statistics are part of the validator root, so they change only in a way a revert can undo: package staking does not call the in-place mutators of a statistics entry (ValKindStat.AddRewards, SetRewardsResidue, ResetRewards) on the live object handed out by the state — the journal has no entry for these fields. A snapshot taken before the end-of-block hook and reverted afterwards leaves the House pool at 3.2 YOU instead of 0; replaying the block adds the share a second time")
	c.Min(1)
	n := 0
	for _, fn := range w.FuncsIn("staking") {
		if fn.Blocks == nil || fn.Parent() != nil || strings.HasSuffix(w.fileOf(fn.Pos()), "_test.go") {
			continue
		}
		var sites []string
		var pos token.Pos
		for _, x := range withClosures(fn) {
			for _, ci := range callInstrs(x) {
				o := calleeObj(ci)
				if o == nil || recvName(o) != "ValKindStat" || !(o.Name() == "AddRewards" || o.Name() == "SetRewardsResidue" || o.Name() == "ResetRewards") {
					continue
				}
				sites = append(sites, o.Name()+" at "+w.Pos(ci.Pos()))
				if pos == token.NoPos {
					pos = ci.Pos()
				}
			}
		}
		if len(sites) == 0 {
			continue
		}
		n++
		c.sites += len(sites)
		c.sawFunc(fname(fn))
		c.Fail(fname(fn)+"#statistics-rewards-changed-in-place", pos, "changes the reward fields of a live statistics entry in place ("+strings.Join(sites, ", ")+"): no journal entry records the previous amounts, RevertToSnapshot does not restore them")
	}
	if n == 0 {
		c.sites++
		c.Pass("staking#statistics-rewards-changed-in-place", token.NoPos, "package staking does not call the in-place reward mutators of the statistics")
	}
}

func c09RemoveMirror(c *Ctx, w *World) {
	c.Rule("C09.J13", "MIRROR", "RemoveValidator is undone completely: it marks the live record deleted and takes it out of the statistics, and the record it journals is that very object — so the undo (validatorDeleteChange.revert) clears the mark and puts the record back into the statistics (a store of deleted=false and incrValidatorsStat, mirroring the store of deleted=true and decrValidatorsStat). Otherwise a reverted removal leaves the validator invisible, the statistics one short, and the next flush really deletes it")
	c.Min(2)
	rm, rv, _, rmDecr, rvIncr, rmFlag, rvUnflag, _ := removalEffects(w)
	c.sawFunc(fname(rm))
	c.sawFunc(fname(rv))
	c.sites += 2
	c.Check(fname(rv)+"#restores-the-statistics", rv.Pos(), rmDecr == rvIncr, ifelse(rmDecr == rvIncr, "decrement in the operation, increment in its undo", "RemoveValidator takes the record out of the statistics and its undo does not put it back"))
	c.Check(fname(rv)+"#clears-the-deleted-mark", rv.Pos(), rmFlag == rvUnflag, ifelse(rmFlag == rvUnflag, "the mark set by the operation is cleared by its undo", "RemoveValidator marks the journaled object itself as deleted and its undo re-installs that object with the mark still set"))
}

func c09FrozenEntries(c *Ctx, w *World) {
	c.Rule("C09.J10", "TYPESTATE", "the delegation entries of a journaled validator record are frozen: in packages staking and core/state an in-place edit of an entry's amounts (a mutating big.Int method on DelegationFrom.Token / Stake, also inside a closure that receives them as arguments) acts on an entry of a record obtained with DeepCopy — PartialCopy shares the *DelegationFrom entries with the record that becomes the journal's pre-image, so a penalty applied through it survives RevertToSnapshot in the entry (495 instead of 500) while totals and statistics are restored")
	c.Min(1)
	frozenEntries(c, w)
}

// frozenEntries is shared by C09.J10 and C08.V12.
func frozenEntries(c *Ctx, w *World) {
	mutators := map[string]bool{"Set": true, "Sub": true, "Add": true, "Mul": true, "Div": true, "Quo": true, "Rem": true, "Mod": true, "SetUint64": true, "SetInt64": true, "SetBytes": true, "Neg": true, "Lsh": true, "Rsh": true, "QuoRem": true, "DivMod": true}
	dfT := w.Named(statePkg, "DelegationFrom")
	isEntryField := func(v ssa.Value) (ssa.Value, bool) {
		f, base := loadedField(stripConvNoBind(v))
		if f == nil || base == nil {
			return nil, false
		}
		if !types.Identical(deref(base.Type()), dfT) {
			return nil, false
		}
		return base, true
	}
	// returnsFresh: every result of g is nil, a DeepCopy() result, a constructor's result or a new object — the
	// getter hands out a copy, never the live entry
	freshMemo := map[*ssa.Function]int{}
	var returnsFresh func(g *ssa.Function) bool
	returnsFresh = func(g *ssa.Function) bool {
		if g == nil || g.Blocks == nil {
			return false
		}
		if m, ok := freshMemo[g]; ok {
			return m == 1
		}
		freshMemo[g] = 2
		ok := true
		var judge func(v ssa.Value, seen map[ssa.Value]bool) bool
		judge = func(v ssa.Value, seen map[ssa.Value]bool) bool {
			v = stripConvNoBind(v)
			if seen[v] {
				return true
			}
			seen[v] = true
			switch x := v.(type) {
			case *ssa.Const:
				return x.IsNil()
			case *ssa.Alloc:
				return true
			case *ssa.Phi:
				for _, e := range x.Edges {
					if !judge(e, seen) {
						return false
					}
				}
				return true
			case *ssa.Call:
				if co := calleeObj(x); co != nil && co.Name() == "DeepCopy" {
					return true
				}
				return returnsFresh(x.Call.StaticCallee())
			}
			return false
		}
		for _, b := range g.Blocks {
			if ret, isRet := b.Instrs[len(b.Instrs)-1].(*ssa.Return); isRet && len(ret.Results) > 0 {
				if !judge(ret.Results[0], map[ssa.Value]bool{}) {
					ok = false
				}
			}
		}
		freshMemo[g] = 2
		if ok {
			freshMemo[g] = 1
		}
		return ok
	}
	n := 0
	for _, fn := range append(w.FuncsIn("staking"), w.FuncsIn(statePkg)...) {
		if fn.Blocks == nil || fn.Parent() != nil || strings.HasSuffix(w.fileOf(fn.Pos()), "_test.go") {
			continue
		}
		if fn.Pkg != nil && fn.Pkg.Pkg.Path() == full(statePkg) {
			// the entry type's own methods, copy constructors and decoders build or copy entries
			if fn.Signature.Recv() != nil && types.Identical(deref(fn.Signature.Recv().Type()), dfT) {
				continue
			}
			if nm := fn.Name(); nm == "DeepCopy" || nm == "Copy" || nm == "PartialCopy" || nm == "DecodeRLP" || strings.HasPrefix(nm, "New") {
				continue
			}
		}
		all := withClosures(fn)
		// bindings of closure parameters to the arguments at their call sites inside fn (and its closures)
		binds := map[*ssa.Parameter][]ssa.Value{}
		for _, x := range all {
			for _, ci := range callInstrs(x) {
				var callee *ssa.Function
				switch v := ci.Common().Value.(type) {
				case *ssa.Function:
					callee = v
				case *ssa.MakeClosure:
					callee, _ = v.Fn.(*ssa.Function)
				case *ssa.UnOp:
					// a closure kept in a local variable: its single store
					if al, ok := v.X.(*ssa.Alloc); ok {
						for _, r := range *al.Referrers() {
							if st, isSt := r.(*ssa.Store); isSt && st.Addr == ssa.Value(al) {
								if mc, isMC := st.Val.(*ssa.MakeClosure); isMC {
									callee, _ = mc.Fn.(*ssa.Function)
								}
							}
						}
					}
				}
				if callee == nil || callee.Parent() == nil {
					continue
				}
				for i, prm := range callee.Params {
					if i < len(ci.Common().Args) {
						binds[prm] = append(binds[prm], ci.Common().Args[i])
					}
				}
			}
		}
		for _, x := range all {
			for _, ci := range callInstrs(x) {
				o := calleeObj(ci)
				if o == nil || o.Pkg() == nil || o.Pkg().Path() != "math/big" || recvName(o) != "Int" || !mutators[o.Name()] {
					continue
				}
				r := callRecv(ci)
				if r == nil {
					continue
				}
				// the receiver, resolved through closure parameters
				cands := []ssa.Value{stripConvNoBind(r)}
				if p, isP := cands[0].(*ssa.Parameter); isP {
					cands = nil
					for _, a := range binds[p] {
						cands = append(cands, stripConvNoBind(a))
					}
				}
				for _, cv := range cands {
					entry, ok := isEntryField(cv)
					if !ok {
						continue
					}
					n++
					c.sites++
					c.sawFunc(fname(fn))
					// the record the entry belongs to: which copy functions produced it?
					deep, shared := false, ""
					// an entry handed to a named helper: judged by what its callers hand over
					origins := []ssa.Value{entry}
					if prm, isP := stripConvNoBind(entry).(*ssa.Parameter); isP && prm.Parent() != nil && prm.Parent().Parent() == nil {
						idx := -1
						for i, q := range prm.Parent().Params {
							if q == prm {
								idx = i
							}
						}
						var fromCallers []ssa.Value
						for _, site := range w.Callers(prm.Parent()) {
							if idx >= 0 && idx < len(site.Common().Args) {
								fromCallers = append(fromCallers, site.Common().Args[idx])
							}
						}
						if len(fromCallers) > 0 {
							origins = fromCallers
						}
					}
					nDeep := 0
					for _, origin := range origins {
						deepHere := false
						backward(origin, func(v ssa.Value) bool {
							if cc, isCall := v.(*ssa.Call); isCall {
								if co := calleeObj(cc); co != nil {
									switch co.Name() {
									case "DeepCopy":
										deepHere = true
									case "PartialCopy":
										shared = "PartialCopy"
									case "GetDelegationFrom", "NewDelegationFrom":
										// a getter / constructor of entries: fresh only if it hands out a copy on every return
										if g := cc.Call.StaticCallee(); returnsFresh(g) {
											deepHere = true
										} else if shared == "" {
											shared = co.Name() + " (which returns the live entry)"
										}
									default:
										if strings.HasPrefix(co.Name(), "GetValidator") && shared == "" {
											shared = co.Name()
										}
									}
								}
								return false
							}
							return true
						})
						if deepHere {
							nDeep++
						}
					}
					deep = nDeep == len(origins)
					okE := deep && shared != "PartialCopy"
					c.Check(fmt.Sprintf("%s#entry-edited-in-place-%d", fname(fn), n), ci.Pos(), okE, ifelse(okE, "the entry belongs to a DeepCopy", "an amount of a delegation entry is changed in place ("+o.Name()+") on a record obtained with "+ifelse(shared != "", shared, "no DeepCopy")+": the entry is shared with the record the journal keeps as pre-image, so a revert restores totals and statistics but not the entry"))
				}
			}
		}
	}
	if n == 0 {
		c.Undecided("staking#delegation-entry-edits", token.NoPos, "no in-place edit of a DelegationFrom amount found in package staking (takePenalty is expected)")
	}
}

// c09QueueUndo (J11): removing records from the withdraw queue by position is
// undone at those positions.
func c09QueueUndo(c *Ctx, w *World) {
	c.Rule("C09.J11", "MIRROR", "the withdraw queue is an ordered list that is part of the validator root: the undo of RemoveWithdrawRecords — a removal by position — puts the records back where they were (it restores the previous list or inserts at recorded positions); re-adding them with the queue's append (Add) brings them back at the end in reverse order, so after RevertToSnapshot the queue, and with it the validator root, differs from the snapshot")
	c.Min(1)
	rm := w.Fn(statePkg, "StateDB", "RemoveWithdrawRecords")
	c.sawFunc(fname(rm))
	appendObj := w.FuncObj(statePkg, "journal", "append")
	n := 0
	for _, fn := range withClosures(rm) {
		for _, ci := range callInstrs(fn) {
			o := calleeObj(ci)
			if o == nil || o.Name() != "append" || !(sameFunc(o, appendObj) || recvName(o) == "journal") {
				continue
			}
			args := callArgs(ci)
			if len(args) != 1 {
				continue
			}
			for _, alt := range entryAlternatives(args[0]) {
				rev := lookupMethod(w, stripConv(alt.Val).Type(), "revert")
				if rev == nil {
					continue
				}
				n++
				c.sites++
				appendsBack := ""
				for _, cj := range callInstrs(rev) {
					if oj := calleeObj(cj); oj != nil && oj.Name() == "Add" && recvName(oj) == "WithdrawQueue" {
						appendsBack = w.Pos(cj.Pos())
					}
				}
				c.Check(fname(rm)+"#undo-restores-positions", rev.Pos(), appendsBack == "", ifelse(appendsBack == "", "the undo does not append", "the undo of a removal by position re-adds the record with WithdrawQueue.Add (append) at "+appendsBack+": removing positions [1,2] of [a b c d] and reverting gives [a d c b]"))
			}
		}
	}
	if n == 0 {
		c.Undecided(fname(rm)+"#undo-restores-positions", rm.Pos(), "no journal entry appended by RemoveWithdrawRecords was found")
	}
}

package main

func c09Unjournaled(c *Ctx, t *c09Tables) {}

func init() {
	register(&propDef{
		ID:          "C09",
		Explanation: "Structural necessary conditions of snapshot/revert exactness, decided on the SSA form of core/state and staking: journaling of every revertable write, undo/do mirror, twin journals handled as one, un-journaled staking state mutated only where nothing can be reverted. Not decided: equality of observables before/after as values.",
		Assumptions: []string{"the classification of StateDB/stateObject fields into revertable, bookkeeping and known-unjournaled (table in rules_c09.go) is right", "lifecycle functions (constructors, copies, cache loads, end-of-transaction flushes) need no journal"},
		Run:         runC09,
	})
}

package main

import (
	"fmt"
	"go/token"
	"go/types"
	"strings"

	"golang.org/x/tools/go/ssa"
)

// C13 — the Merkle-Patricia trie is a faithful, canonical, provable map.

func init() {
	register(&propDef{
		ID:          "C13",
		Explanation: "Map semantics, canonical roots, iteration order, reference counting and proof soundness are value properties and are not decided. Decided (structure, SSA of package trie): the trie is a persistent structure — nodes are shared between a trie, its copies (CopyTrie) and the node cache — so every store to a node's content (fullNode.Children[i], shortNode.Key, shortNode.Val) must have as base a node created in the same function (composite literal, new, or the result of copy()), never a parameter, a type-asserted input or a node loaded from another node (T1); in insert and delete every content store on a copied node goes with flags = t.newFlag() on the same node on the same paths, and every node literal they build carries t.newFlag(), so the hasher's reuse of cached hashes stays correct (T2); Commit hashes with the database before bumping the cache generation and hashRoot hashes the current root (T3).",
		Assumptions: []string{"copy() returns a fresh shallow copy of the node", "nodes built by the decoder/expander are fresh"},
		Run:         runC13,
		Variants:    c13Variants,
	})
}

// nodeBase traces the node whose content a store address belongs to.
func nodeBase(addr ssa.Value) (ssa.Value, *types.Var) {
	var field *types.Var
	for {
		switch x := addr.(type) {
		case *ssa.IndexAddr:
			addr = x.X
		case *ssa.FieldAddr:
			f := fieldOfAddr(x)
			if field == nil {
				field = f
			}
			// nested (flags.hash): keep the outermost struct field of a node type
			if isNodeStruct(x.X.Type()) {
				return x.X, f
			}
			addr = x.X
		default:
			return nil, nil
		}
	}
}

func isNodeStruct(t types.Type) bool {
	n := ownerName(t)
	return (n == "fullNode" || n == "shortNode") && ownerPkg(t) == full("trie")
}

// freshNode: v is a node created in this function.
func freshNode(v ssa.Value) (bool, string) {
	seen := map[ssa.Value]bool{}
	var walk func(v ssa.Value) (bool, string)
	walk = func(v ssa.Value) (bool, string) {
		if seen[v] {
			return true, ""
		}
		seen[v] = true
		switch x := v.(type) {
		case *ssa.Alloc:
			return true, ""
		case *ssa.Call:
			if o := calleeObj(x); o != nil && o.Name() == "copy" && (recvName(o) == "fullNode" || recvName(o) == "shortNode") {
				return true, ""
			}
			return false, "the result of " + calleeName(x)
		case *ssa.Extract:
			return walk(x.Tuple)
		case *ssa.Phi:
			for _, e := range x.Edges {
				if ok, why := walk(e); !ok {
					return false, why
				}
			}
			return true, ""
		case *ssa.UnOp:
			// load of a local variable
			if a, ok := x.X.(*ssa.Alloc); ok {
				for _, r := range *a.Referrers() {
					if st, ok := r.(*ssa.Store); ok && st.Addr == a {
						if ok2, why := walk(st.Val); !ok2 {
							return false, why
						}
					}
				}
				return true, ""
			}
			return false, "a node loaded from memory"
		case *ssa.Parameter:
			return false, "the parameter " + x.Name()
		case *ssa.TypeAssert:
			return false, "a type-asserted input node"
		case *ssa.ChangeType:
			return walk(x.X)
		case *ssa.MakeInterface:
			return walk(x.X)
		}
		return false, fmt.Sprintf("a %T", v)
	}
	return walk(v)
}

func runC13(c *Ctx) {
	w := c.W
	contentField := func(f *types.Var) bool {
		if f == nil {
			return false
		}
		o := fieldOwner(w, f)
		return (o == "fullNode" && f.Name() == "Children") || (o == "shortNode" && (f.Name() == "Key" || f.Name() == "Val"))
	}
	// ------------------------------------------------------------ T1
	c.Rule("C13.T1", "OWNERSHIP", "in package trie every store to fullNode.Children[i], shortNode.Key or shortNode.Val writes into a node created in the same function (literal, new, copy()): shared nodes are never edited in place")
	c.Min(12)
	type cstore struct {
		fn   *ssa.Function
		st   *ssa.Store
		base ssa.Value
		f    *types.Var
	}
	var stores []cstore
	for _, fn := range w.FuncsIn("trie") {
		if strings.HasSuffix(w.fileOf(fn.Pos()), "_test.go") {
			continue
		}
		n := 0
		for _, b := range fn.Blocks {
			for _, in := range b.Instrs {
				st, ok := in.(*ssa.Store)
				if !ok {
					continue
				}
				base, f := nodeBase(st.Addr)
				if base == nil || !contentField(f) {
					continue
				}
				c.sites++
				c.sawFunc(fname(fn))
				stores = append(stores, cstore{fn, st, base, f})
				ok2, why := freshNode(base)
				c.Check(fmt.Sprintf("%s#%s.%s-%d", fname(fn), fieldOwner(w, f), f.Name(), n), st.Pos(), ok2, ifelse(ok2, "writes into a node created here", "content of "+why+" is edited in place: the node may be shared with a copied trie or the node cache, whose content and cached hash silently change"))
				n++
			}
		}
	}

	// ------------------------------------------------------------ T2
	c.Rule("C13.T2", "ALWAYS-WITH", "in (*Trie).insert and (*Trie).delete a content store on a copied node is accompanied on the same paths by flags = t.newFlag() on that node, and every node literal built there takes its flags from t.newFlag()")
	c.Min(6)
	newFlag := w.FuncObj("trie", "Trie", "newFlag")
	for _, name := range []string{"insert", "delete"} {
		fn := w.Fn("trie", "Trie", name)
		c.sawFunc(fname(fn))
		// flags stores
		type fstore struct {
			st   *ssa.Store
			base ssa.Value
		}
		var flagStores []fstore
		for _, b := range fn.Blocks {
			for _, in := range b.Instrs {
				st, ok := in.(*ssa.Store)
				if !ok {
					continue
				}
				fa, ok := st.Addr.(*ssa.FieldAddr)
				if !ok || fieldOfAddr(fa).Name() != "flags" || !isNodeStruct(fa.X.Type()) {
					continue
				}
				if cc, ok := stripConv(st.Val).(*ssa.Call); ok && sameFunc(calleeObj(cc), newFlag) {
					flagStores = append(flagStores, fstore{st, fa.X})
				}
			}
		}
		n := 0
		for _, cs := range stores {
			if cs.fn != fn {
				continue
			}
			c.sites++
			ok := false
			for _, fs := range flagStores {
				if sameNode(fs.base, cs.base) && alwaysWith(cs.st, []ssa.Instruction{fs.st}) {
					ok = true
				}
			}
			c.Check(fmt.Sprintf("%s#dirty-flag-with-%s-%d", fname(fn), cs.f.Name(), n), cs.st.Pos(), ok, ifelse(ok, "flags = t.newFlag() on the same node and paths", "a node's content changes without its cached hash being invalidated (flags = t.newFlag()): the next Hash() returns the old root"))
			n++
		}
	}

	// ------------------------------------------------------------ T4
	c.Rule("C13.T4", "GATE", "canonical form: when (*Trie).delete collapses a branch with one remaining child into a one-nibble short node that keeps the child as its value, every path to that return either has the remaining entry at the value slot (pos == 16) or has tested the RESOLVED child (the result of t.resolve) not to be a short node — otherwise a shortNode{…, shortNode{…}} is built and the root depends on history")
	c.Min(1)
	del := w.Fn("trie", "Trie", "delete")
	// the loader of an unloaded child: t.resolve, or resolveHash if resolve was inlined away; if neither is called
	// before the short-node test the rule below reports the collapse
	var resolveObj *types.Func
	if rf := w.FnOpt("trie", "Trie", "resolve"); rf != nil {
		resolveObj = rf.Object().(*types.Func)
	} else {
		resolveObj = w.FuncObj("trie", "Trie", "resolveHash")
	}
	nT4 := 0
	for _, b := range del.Blocks {
		r, ok := b.Instrs[len(b.Instrs)-1].(*ssa.Return)
		if !ok || b == del.Recover {
			continue
		}
		// returned node: a fresh shortNode whose Val is loaded from n.Children[…]
		al, ok := stripConv(r.Results[1]).(*ssa.Alloc)
		if !ok || ownerName(al.Type()) != "shortNode" {
			continue
		}
		keepsChild := false
		for _, ref := range *al.Referrers() {
			fa, ok := ref.(*ssa.FieldAddr)
			if !ok || fieldOfAddr(fa).Name() != "Val" {
				continue
			}
			for _, r2 := range *fa.Referrers() {
				if st, ok := r2.(*ssa.Store); ok && st.Addr == fa {
					if u, ok := st.Val.(*ssa.UnOp); ok {
						if ia, ok := u.X.(*ssa.IndexAddr); ok {
							if f, _ := loadedField(ia.X); f != nil && f.Name() == "Children" {
								keepsChild = true
							}
							if fa2, ok := ia.X.(*ssa.FieldAddr); ok && fieldOfAddr(fa2).Name() == "Children" {
								keepsChild = true
							}
						}
					}
				}
			}
		}
		if !keepsChild {
			continue
		}
		nT4++
		c.sites++
		okT := allPathsPassEdge(del, b, func(from, to *ssa.BasicBlock) bool {
			f, isIf := edgeFact(from, to)
			if !isIf {
				return false
			}
			a := atomsOf([]Fact{f})[0]
			// pos == 16
			if a.Kind == "eq" && a.Truth {
				if n, isC := constInt(a.Y); isC && n == 16 {
					return true
				}
			}
			// the resolved child is not a short node
			if a.Kind == "true" && !a.Truth {
				if e, ok := stripConv(a.X).(*ssa.Extract); ok && e.Index == 1 {
					if ta, ok := e.Tuple.(*ssa.TypeAssert); ok && ownerName(ta.AssertedType) == "shortNode" {
						if derivesFrom(ta.X, func(v ssa.Value) bool {
							ex, ok := v.(*ssa.Extract)
							if !ok {
								return false
							}
							cc, ok := ex.Tuple.(*ssa.Call)
							return ok && sameFunc(calleeObj(cc), resolveObj)
						}) {
							return true
						}
					}
				}
			}
			return false
		})
		c.Check(fmt.Sprintf("%s#collapse-keeps-child@%s", fname(del), blockOrdinal(del, b)), r.Pos(), okT, ifelse(okT, "reached only for the value slot or after the resolved child was tested not to be a short node", "a branch is collapsed onto a child that was not resolved before the short-node test: an unloaded short-node child is nested instead of merged, the trie is no longer in canonical form and its root depends on history"))
	}
	if nT4 == 0 {
		c.Undecided(fname(del)+"#collapse-keeps-child", del.Pos(), "the collapsing return of delete was not found")
	}

	// ------------------------------------------------------------ T5
	c.Rule("C13.T5", "GATE", "(*Database).reference drops a repeated (parent, child) reference only for non-root parents: references held by the meta root are counted once per call, because Dereference releases one per call")
	c.Min(1)
	ref := w.Fn("trie", "Database", "reference")
	c.sawFunc(fname(ref))
	nT5 := 0
	for _, b := range ref.Blocks {
		r, ok := b.Instrs[len(b.Instrs)-1].(*ssa.Return)
		if !ok || b == ref.Recover {
			continue
		}
		// the "already tracked" return: dominated by a true comma-ok lookup in a children map
		tracked, nonRoot := false, false
		for _, a := range atomsOf(factsAt(b)) {
			if a.Kind == "true" && a.Truth {
				if e, ok := stripConv(a.X).(*ssa.Extract); ok && e.Index == 1 {
					if lk, ok := e.Tuple.(*ssa.Lookup); ok && lk.CommaOk {
						if f, _ := loadedField(lk.X); f != nil && f.Name() == "children" {
							tracked = true
						}
					}
				}
			}
			if a.Kind == "eq" && !a.Truth {
				for _, v := range []ssa.Value{a.X, a.Y} {
					if stripConv(v) == ssa.Value(ref.Params[2]) {
						nonRoot = true
					}
				}
			}
		}
		if !tracked {
			continue
		}
		nT5++
		c.sites++
		c.Check(fname(ref)+"#duplicate-dropped-only-for-non-roots", r.Pos(), nonRoot, ifelse(nonRoot, "the early return is taken only with parent != {}", "a second reference of the same root is dropped while each Dereference still releases one: the first release frees a trie another holder still needs"))
	}
	if nT5 == 0 {
		c.Undecided(fname(ref)+"#duplicate-dropped-only-for-non-roots", ref.Pos(), "the already-tracked return of reference was not found")
	}

	// ------------------------------------------------------------ T3
	c.Rule("C13.T3", "GATE", "(*Trie).Commit hashes the root with the database and then bumps cachegen; (*Trie).Hash / hashRoot hash t.root")
	c.Min(2)
	cm := w.Fn("trie", "Trie", "Commit")
	c.sawFunc(fname(cm))
	var hr ssa.CallInstruction
	for _, ci := range callInstrs(cm) {
		if o := calleeObj(ci); o != nil && o.Name() == "hashRoot" {
			hr = ci
		}
	}
	bump := false
	for _, fw := range fieldWrites(cm) {
		if fw.Field.Name() == "cachegen" && hr != nil && instrDominates(hr, fw.Instr) {
			bump = true
		}
	}
	withDB := hr != nil && !isNilConst(callArgs(hr)[0])
	c.Check(fname(cm)+"#hash-with-db-then-bump", cm.Pos(), hr != nil && bump && withDB, ifelse(hr != nil && bump && withDB, "hashRoot(db, …) dominates cachegen++", "Commit no longer stores the nodes through hashRoot(db) before bumping the cache generation"))
	hrf := w.Fn("trie", "Trie", "hashRoot")
	usesRoot := false
	for _, ci := range callInstrs(hrf) {
		if o := calleeObj(ci); o != nil && o.Name() == "hash" && recvName(o) == "hasher" {
			if f, _ := loadedField(stripConv(callArgs(ci)[0])); f != nil && f.Name() == "root" {
				usesRoot = true
			}
		}
	}
	c.Check(fname(hrf)+"#hashes-root", hrf.Pos(), usesRoot, ifelse(usesRoot, "hashes t.root", "hashRoot no longer hashes the trie's current root"))

	// ------------------------------------------------------------ T6
	c.Rule("C13.T6", "OWNERSHIP", "a cached hash belongs to one node: in package trie, a function that records a hash parameter as its node's cached hash (nodeFlag.hash) hands that same hash on only to build THAT node (delegation); the result of such a call is never stored as a child (Children[i] / Val) — an embedded child carrying its parent's hash collapses to the parent's reference at the next re-hash and the root stops being a function of the content")
	c.Min(4)
	// H: functions of package trie with a parameter that reaches a nodeFlag.hash store (directly or through another H function)
	type hparam struct {
		fn  *ssa.Function
		idx int
	}
	H := map[*ssa.Function]int{}
	isHashFlagStore := func(st *ssa.Store) bool {
		fa, ok := st.Addr.(*ssa.FieldAddr)
		if !ok {
			return false
		}
		f := fieldOfAddr(fa)
		return f != nil && f.Name() == "hash" && fieldOwner(w, f) == "nodeFlag"
	}
	trieFns := []*ssa.Function{}
	for _, fn := range w.FuncsIn("trie") {
		if strings.HasSuffix(w.fileOf(fn.Pos()), "_test.go") || fn.Blocks == nil {
			continue
		}
		trieFns = append(trieFns, fn)
	}
	paramIdx := func(fn *ssa.Function, v ssa.Value) int {
		found := -1
		backward(v, func(x ssa.Value) bool {
			if p, ok := x.(*ssa.Parameter); ok && p.Parent() == fn {
				if _, isIface := p.Type().Underlying().(*types.Interface); isIface {
					return false // a node, not a hash
				}
				for i, q := range fn.Params {
					if q == p {
						found = i
					}
				}
			}
			if _, ok := x.(*ssa.Call); ok {
				return false // a computed hash, not the one handed in
			}
			return found < 0
		})
		return found
	}
	for changed := true; changed; {
		changed = false
		for _, fn := range trieFns {
			if _, ok := H[fn]; ok {
				continue
			}
			for _, b := range fn.Blocks {
				for _, in := range b.Instrs {
					switch x := in.(type) {
					case *ssa.Store:
						if isHashFlagStore(x) {
							if i := paramIdx(fn, x.Val); i >= 0 {
								H[fn] = i
								changed = true
							}
						}
					case ssa.CallInstruction:
						if g := staticCallee(x); g != nil {
							if gi, ok := H[g]; ok && gi < len(x.Common().Args) {
								if i := paramIdx(fn, x.Common().Args[gi]); i >= 0 {
									if _, done := H[fn]; !done {
										H[fn] = i
										changed = true
									}
								}
							}
						}
					}
				}
			}
		}
	}
	storedAsChild := func(v ssa.Value) (bool, token.Pos) {
		seen := map[ssa.Value]bool{}
		var walk func(ssa.Value) (bool, token.Pos)
		walk = func(v ssa.Value) (bool, token.Pos) {
			if seen[v] || v.Referrers() == nil {
				return false, token.NoPos
			}
			seen[v] = true
			for _, r := range *v.Referrers() {
				switch x := r.(type) {
				case *ssa.Store:
					if x.Val == v {
						if _, f := nodeBase(x.Addr); contentField(f) {
							return true, x.Pos()
						}
						// spilled into a local and read back
						if al, ok := x.Addr.(*ssa.Alloc); ok {
							for _, rr := range *al.Referrers() {
								if ld, ok := rr.(*ssa.UnOp); ok {
									if hit, p := walk(ld); hit {
										return true, p
									}
								}
							}
						}
					}
				case *ssa.Phi, *ssa.ChangeInterface, *ssa.MakeInterface, *ssa.ChangeType, *ssa.TypeAssert, *ssa.Extract:
					if hit, p := walk(x.(ssa.Value)); hit {
						return true, p
					}
				}
			}
			return false, token.NoPos
		}
		return walk(v)
	}
	nT6 := 0
	for _, fn := range trieFns {
		k := 0
		for _, ci := range callInstrs(fn) {
			g := staticCallee(ci)
			gi, ok := H[g]
			if g == nil || !ok || gi >= len(ci.Common().Args) {
				continue
			}
			c.sites++
			c.sawFunc(fname(fn))
			nT6++
			arg := ci.Common().Args[gi]
			cons := fmt.Sprintf("%s#hash-handed-to-%s-%d", fname(fn), g.Name(), k)
			k++
			if isNilConst(stripConvNoBind(arg)) {
				c.Check(cons, ci.Pos(), true, "no cached hash is handed on (nil)")
				continue
			}
			cv, isVal := ci.(ssa.Value)
			if !isVal {
				c.Check(cons, ci.Pos(), true, "result unused")
				continue
			}
			if fi, inH := H[fn]; !inH || paramIdx(fn, arg) != fi {
				c.Check(cons, ci.Pos(), true, "the hash handed on is not the one this function records for its own node")
				continue
			}
			hit, _ := storedAsChild(cv)
			c.Check(cons, ci.Pos(), !hit, ifelse(!hit, "the node built with this hash is not stored as another node's child here", "the node built with this cached hash is stored as the child of another node: an embedded child now claims its parent's (or a foreign) hash, is written as that reference at the next re-hash, and root, lookups and iteration depend on history"))
		}
	}
	if nT6 == 0 {
		c.Undecided("trie#cached-hash-constructors", token.NoPos, "no function recording a parameter as nodeFlag.hash was found")
	}

	// ------------------------------------------------------------ T7
	c.Rule("C13.T7", "MUST-PASS", "(*Trie).Prove collects every short or full node it visits — also the one on which the key diverges — before moving on: a proof of absence must end with the node that proves the absence, otherwise VerifyProof cannot resolve the last reference and rejects an honest proof")
	c.Min(2)
	prove := w.Fn("trie", "Trie", "Prove")
	c.sawFunc(fname(prove))
	nT7 := 0
	for _, pf := range withSmallHelpers(prove) {
		if pf != prove {
			continue
		}
		// appends: call to builtin append whose variadic slice holds value v
		appended := func(n ssa.Value) []ssa.Instruction {
			var out []ssa.Instruction
			for _, b := range pf.Blocks {
				for _, in := range b.Instrs {
					call, ok := in.(*ssa.Call)
					if !ok {
						continue
					}
					bi, ok := call.Call.Value.(*ssa.Builtin)
					if !ok || bi.Name() != "append" || len(call.Call.Args) != 2 {
						continue
					}
					sl, ok := call.Call.Args[1].(*ssa.Slice)
					if !ok {
						continue
					}
					al, ok := sl.X.(*ssa.Alloc)
					if !ok {
						continue
					}
					for _, r := range *al.Referrers() {
						ia, ok := r.(*ssa.IndexAddr)
						if !ok {
							continue
						}
						for _, rr := range *ia.Referrers() {
							if st, ok := rr.(*ssa.Store); ok && st.Addr == ia && derivesFrom(st.Val, func(x ssa.Value) bool { return x == n }) {
								out = append(out, call)
							}
						}
					}
				}
			}
			return out
		}
		for _, b := range pf.Blocks {
			for _, in := range b.Instrs {
				ta, ok := in.(*ssa.TypeAssert)
				if !ok || !ta.CommaOk {
					continue
				}
				nm := ownerName(ta.AssertedType)
				if nm != "shortNode" && nm != "fullNode" {
					continue
				}
				// innermost loop containing the assertion
				var header *ssa.BasicBlock
				for _, hb := range pf.Blocks {
					if isLoopHeader(hb) && naturalLoop(hb)[b] {
						if header == nil || naturalLoop(header)[hb] {
							header = hb
						}
					}
				}
				if header == nil {
					continue
				}
				var nval ssa.Value
				var okv ssa.Value
				for _, r := range *ta.Referrers() {
					if ex, ok := r.(*ssa.Extract); ok {
						if ex.Index == 0 {
							nval = ex
						} else {
							okv = ex
						}
					}
				}
				if nval == nil || okv == nil {
					continue
				}
				// the block entered when the assertion holds
				var start *ssa.BasicBlock
				for _, r := range *okv.Referrers() {
					if iff, ok := r.(*ssa.If); ok {
						start = iff.Block().Succs[0]
					}
				}
				if start == nil {
					continue
				}
				nT7++
				c.sites++
				gates := instrSet(appended(nval))
				okAll := len(gates) > 0
				var bad *ssa.BasicBlock
				if okAll {
					seen := map[*ssa.BasicBlock]bool{}
					work := []*ssa.BasicBlock{start}
					for len(work) > 0 && okAll {
						x := work[len(work)-1]
						work = work[:len(work)-1]
						if seen[x] {
							continue
						}
						seen[x] = true
						if blockHasAny(x, gates) {
							continue
						}
						if x == header || !naturalLoop(header)[x] {
							if _, isPanic := x.Instrs[len(x.Instrs)-1].(*ssa.Panic); isPanic && x != header {
								continue
							}
							okAll = false
							bad = x
							break
						}
						if _, isPanic := x.Instrs[len(x.Instrs)-1].(*ssa.Panic); isPanic {
							continue
						}
						work = append(work, x.Succs...)
					}
				}
				why := "no append of the visited node was found"
				if bad != nil {
					why = fmt.Sprintf("a path from the %s case reaches %s without appending the node", nm, ifelse(bad == header, "the next iteration", "the loop exit"))
				}
				c.Check(fmt.Sprintf("%s#collects-every-%s", fname(prove), nm), ta.Pos(), okAll, ifelse(okAll, "appended on every path through the case", why+": proofs of absence (or of keys below it) miss the deciding node and do not verify"))
			}
		}
	}
	if nT7 == 0 {
		c.Undecided(fname(prove)+"#collects-visited-nodes", prove.Pos(), "no type switch over *shortNode / *fullNode inside a loop was found in Prove")
	}

	// ------------------------------------------------------------ T8
	c.Rule("C13.T8", "ALWAYS-WITH", "a node's cached hash and its dirty bit travel together: wherever package trie fills nodeFlag.hash of a node it builds from the cached hash of ANOTHER node (a load of that node's flags.hash), it also fills dirty from that same node's flags.dirty — a replacement node that keeps the hash but drops the dirty bit looks persisted, so the hasher neither stores it nor descends into it and Commit returns a root whose nodes were never written. (Hashes that come from a parameter — nodes read from the database — or from the hasher itself are clean by construction.)")
	c.Min(3)
	{
		nHash := 0
		isFlagField := func(fa *ssa.FieldAddr, name string) bool {
			f := fieldOfAddr(fa)
			return f != nil && f.Name() == name && fieldOwner(w, f) == "nodeFlag"
		}
		for _, fn := range trieFns {
			k := 0
			for _, b := range fn.Blocks {
				for _, in := range b.Instrs {
					st, ok := in.(*ssa.Store)
					if !ok {
						continue
					}
					fa, ok := st.Addr.(*ssa.FieldAddr)
					if !ok || !isFlagField(fa, "hash") {
						continue
					}
					nHash++
					c.sites++
					c.sawFunc(fname(fn))
					cons := fmt.Sprintf("%s#cached-hash-with-dirty-bit-%d", fname(fn), k)
					k++
					// is the value another node's cached hash?
					var srcFlags ssa.Value
					if ld, isLd := stripConvNoBind(st.Val).(*ssa.UnOp); isLd && ld.Op == token.MUL {
						if sfa, isFA := ld.X.(*ssa.FieldAddr); isFA && isFlagField(sfa, "hash") {
							srcFlags = sfa.X
						}
					}
					if srcFlags == nil {
						c.Check(cons, st.Pos(), true, "the hash does not come from another node's flags")
						continue
					}
					okDirty := false
					for _, b2 := range fn.Blocks {
						for _, in2 := range b2.Instrs {
							st2, ok := in2.(*ssa.Store)
							if !ok {
								continue
							}
							fa2, ok := st2.Addr.(*ssa.FieldAddr)
							if !ok || !isFlagField(fa2, "dirty") || fa2.X != fa.X {
								continue
							}
							if ld, isLd := stripConvNoBind(st2.Val).(*ssa.UnOp); isLd && ld.Op == token.MUL {
								if sfa, isFA := ld.X.(*ssa.FieldAddr); isFA && isFlagField(sfa, "dirty") && samePath(sfa.X, srcFlags) {
									okDirty = true
								}
							}
						}
					}
					c.Check(cons, st.Pos(), okDirty, ifelse(okDirty, "dirty is taken from the same node", "the new node takes another node's cached hash but not its dirty bit: a node that was never written looks persisted, the hasher skips it and a committed root cannot be reopened"))
				}
			}
		}
		if nHash == 0 {
			c.Undecided("trie#nodeFlag-hash-stores", token.NoPos, "no store into nodeFlag.hash found in package trie")
		}
	}

	// ------------------------------------------------------------ T9
	c.Rule("C13.T9", "EXHAUSTIVE", "iteration visits every slot of a branch: the loop of (*nodeIterator).nextChild that scans fullNode.Children by index is bounded by the length of the Children array (17: sixteen nibbles and the value slot) — a smaller bound silently drops every key that is a proper prefix of another key from iteration")
	c.Min(1)
	{
		nc := w.Fn("trie", "nodeIterator", "nextChild")
		c.sawFunc(fname(nc))
		childrenF := w.Field("trie", "fullNode", "Children")
		arrLen := int64(-1)
		if at, ok := childrenF.Type().Underlying().(*types.Array); ok {
			arrLen = at.Len()
		}
		nLoop := 0
		for _, b := range nc.Blocks {
			for _, in := range b.Instrs {
				ia, ok := in.(*ssa.IndexAddr)
				if !ok {
					continue
				}
				fa, ok := ia.X.(*ssa.FieldAddr)
				if !ok || fieldOfAddr(fa) != childrenF {
					continue
				}
				if _, isC := constInt(ia.Index); isC {
					continue
				}
				// the loop condition on the index variable
				var bounds []ssa.Value
				for _, hb := range nc.Blocks {
					if !isLoopHeader(hb) || !naturalLoop(hb)[b] {
						continue
					}
					for _, lb := range nc.Blocks {
						if !naturalLoop(hb)[lb] {
							continue
						}
						iff, isIf := lb.Instrs[len(lb.Instrs)-1].(*ssa.If)
						if !isIf {
							continue
						}
						bo, isB := iff.Cond.(*ssa.BinOp)
						if !isB || bo.Op != token.LSS || stripConvNoBind(bo.X) != stripConvNoBind(ia.Index) {
							continue
						}
						bounds = append(bounds, bo.Y)
					}
				}
				nLoop++
				c.sites++
				ok2 := len(bounds) > 0
				got := "no loop bound on the index found"
				for _, bd := range bounds {
					if n, isC := constInt(bd); !isC || n != arrLen {
						ok2 = false
						got = "bound " + termOf(bd, 3)
					}
				}
				c.Check(fmt.Sprintf("%s#scans-all-%d-slots", fname(nc), arrLen), ia.Pos(), ok2, ifelse(ok2, "i < len(Children)", "the scan of a branch's children stops early ("+got+"): the value slot (index 16) is never visited, so a key that is a prefix of another key is missing from iteration while Get and the root still see it"))
			}
		}
		if nLoop == 0 {
			c.Undecided(fname(nc)+"#scans-all-slots", nc.Pos(), "no indexed scan of fullNode.Children found in nextChild")
		}
	}

	// ------------------------------------------------------------ T10
	c.Rule("C13.T10", "GATE", "no tampered proof verifies: VerifyProof decodes a proof element only after comparing its Keccak hash with the hash it was looked up under (the root, then each child reference) — the proof database is caller-supplied, so an element whose bytes were altered, or another well-formed node stored under the wanted key, would otherwise be followed and yield a different value (or panic in the decoder)")
	c.Min(1)
	{
		vp := w.Fn("trie", "", "VerifyProof")
		c.sawFunc(fname(vp))
		decode := w.FuncObj("trie", "", "decodeNode")
		nDec := 0
		for _, fn := range withSmallHelpers(vp) {
			for _, ci := range callsTo(fn, decode) {
				nDec++
				c.sites++
				args := callArgs(ci)
				buf := args[1]
				hashed := false
				for _, a := range atomsOf(factsAtInstr(ci.(ssa.Instruction))) {
					if a.Kind != "eq" || !a.Truth || a.Y == nil {
						continue
					}
					for _, side := range []ssa.Value{a.X, a.Y} {
						if derivesFrom(side, func(v ssa.Value) bool {
							cc, ok := v.(*ssa.Call)
							if !ok || calleeObj(cc) == nil || !strings.HasPrefix(calleeObj(cc).Name(), "Keccak256") {
								return false
							}
							for _, ka := range cc.Call.Args {
								if derivesFrom(ka, func(x ssa.Value) bool { return x == stripConv(buf) || samePath(x, buf) }) {
									return true
								}
							}
							return false
						}) {
							hashed = true
						}
					}
				}
				c.Check(fmt.Sprintf("%s#element-hash-checked-before-decoding-%d", fname(vp), nDec), ci.Pos(), hashed, ifelse(hashed, "Keccak256(element) == wanted hash dominates decodeNode", "a proof element is decoded and followed without its hash having been compared with the reference it was fetched for: a proof whose node bytes were altered verifies to a different value"))
			}
		}
		if nDec == 0 {
			c.Undecided(fname(vp)+"#element-hash-checked-before-decoding", vp.Pos(), "VerifyProof no longer calls decodeNode")
		}
	}

	// ------------------------------------------------------------ T11
	c.Rule("C13.T11", "GATE", "the node cache keeps its bookkeeping root under the zero hash; that entry has no encoding. Every exported method of trie.Database that looks a caller-supplied hash up in the node table and encodes or returns the entry (Node — it answers peers' node-data requests) first excludes the zero hash; otherwise one request for the zero hash panics in the encoder and the node dies")
	c.Min(1)
	{
		nodesF := w.Field("trie", "Database", "nodes")
		nLk := 0
		for _, fn := range trieFns {
			if fn.Object() == nil || !fn.Object().Exported() || fn.Signature.Recv() == nil || ownerName(fn.Signature.Recv().Type()) != "Database" {
				continue
			}
			// only methods that hand the entry's content out (a []byte result)
			givesBytes := false
			for i := 0; i < fn.Signature.Results().Len(); i++ {
				if sl, ok := fn.Signature.Results().At(i).Type().Underlying().(*types.Slice); ok {
					if b, isB := sl.Elem().Underlying().(*types.Basic); isB && b.Kind() == types.Uint8 {
						givesBytes = true
					}
				}
			}
			if !givesBytes {
				continue
			}
			for _, b := range fn.Blocks {
				for _, in := range b.Instrs {
					lk, ok := in.(*ssa.Lookup)
					if !ok {
						continue
					}
					if f, _ := loadedField(stripConv(lk.X)); f != nodesF {
						continue
					}
					// the parameter itself, or the local cell it was spilled into (hash[:] takes its address)
					paramOf := func(v ssa.Value) *ssa.Parameter {
						v = stripConvNoBind(v)
						if q, ok := v.(*ssa.Parameter); ok {
							return q
						}
						if u, ok := v.(*ssa.UnOp); ok && u.Op == token.MUL {
							if al, isAl := u.X.(*ssa.Alloc); isAl {
								var q *ssa.Parameter
								n := 0
								for _, r := range *al.Referrers() {
									if st, isSt := r.(*ssa.Store); isSt && st.Addr == ssa.Value(al) {
										n++
										q, _ = st.Val.(*ssa.Parameter)
									}
								}
								if n == 1 {
									return q
								}
							}
						}
						return nil
					}
					p := paramOf(lk.Index)
					if p == nil || p.Parent() != fn {
						continue
					}
					nLk++
					c.sites++
					c.sawFunc(fname(fn))
					excluded := false
					for _, a := range atomsOf(factsAt(b)) {
						if a.Kind == "isnil" && !a.Truth && paramOf(a.X) == p {
							excluded = true
						}
						if a.Kind == "eq" && !a.Truth && (paramOf(a.X) == p || (a.Y != nil && paramOf(a.Y) == p)) {
							excluded = true
						}
					}
					c.Check(fmt.Sprintf("%s#zero-hash-excluded-%d", fname(fn), nLk), lk.Pos(), excluded, ifelse(excluded, "the lookup is reached only for a non-zero hash", "the node table is read under a caller-supplied hash without excluding the zero hash, whose entry is the bookkeeping root: encoding it panics — any peer can crash the node with one node-data request"))
				}
			}
		}
		if nLk == 0 {
			c.Undecided("trie.Database#content-lookups", token.NoPos, "no exported Database method returning bytes looks its hash parameter up in the node table (Node is expected)")
		}
	}

	// ------------------------------------------------------------ T12
	c.Rule("C13.T12", "WIDTH", "reference counts cannot wrap: the counter of live parents of a cached node (cachedNode.parents) is at least 32 bits wide. One node can have more than 65535 parents (identical leaves under 65536 prefixes); a 16-bit counter wraps to zero and the next Dereference of an unrelated root frees a node that a live root still uses")
	c.Min(1)
	{
		pf := w.Field("trie", "cachedNode", "parents")
		c.sites++
		wide := false
		if b, ok := pf.Type().Underlying().(*types.Basic); ok {
			switch b.Kind() {
			case types.Uint32, types.Uint64, types.Int32, types.Int64, types.Int, types.Uint:
				wide = true
			}
		}
		c.Check("trie.cachedNode#parents-counter-width", pf.Pos(), wide, ifelse(wide, "type "+pf.Type().String(), "cachedNode.parents has type "+pf.Type().String()+": with 65536 parents it wraps to zero"))
	}
	// ------------------------------------------------------------ T13
	c.Rule("C13.T13", "DECISION", "a trie node is never shadowed by a raw blob of the same hash: (*Database).insert serves both InsertBlob (contract code, delegation lists: childless raw entries) and the hasher's node insertions, keyed by hash only; its 'already cached, skip' shortcut may be taken only on paths that established that the cached entry is a real node or that the value being inserted is itself raw — otherwise a blob that happens to equal the encoding of a trie node (contract code chosen as the RLP of a storage-trie node) is cached first, the real node is discarded, Database.Commit never descends into its children and the committed root cannot be reopened")
	c.Min(1)
	{
		ins := w.Fn("trie", "Database", "insert")
		c.sawFunc(fname(ins))
		nodesF := w.Field("trie", "Database", "nodes")
		var updBlocks = map[*ssa.BasicBlock]bool{}
		for _, fw := range fieldWrites(ins) {
			if fw.Field == nodesF && fw.Kind == "mapupdate" {
				updBlocks[fw.Instr.Block()] = true
			}
		}
		nSkip, bad := 0, 0
		okEnum := true
		for _, b := range ins.Blocks {
			if _, isRet := b.Instrs[len(b.Instrs)-1].(*ssa.Return); !isRet {
				continue
			}
			// a return that the table update does not dominate: the insertion was skipped
			after := false
			for ub := range updBlocks {
				if ub == b || ub.Dominates(b) {
					after = true
				}
			}
			if after {
				continue
			}
			nSkip++
			kindTested := false
			for _, f := range factsAt(b) {
				if derivesFrom(f.Cond, func(v ssa.Value) bool {
					ta, ok := v.(*ssa.TypeAssert)
					return ok && ownerName(ta.AssertedType) == "rawNode"
				}) {
					kindTested = true
				}
			}
			if !kindTested {
				bad++
			}
		}
		c.sites += nSkip
		if !okEnum || len(updBlocks) == 0 {
			c.Undecided(fname(ins)+"#cached-shortcut-distinguishes-blobs-from-nodes", ins.Pos(), "the paths of insert could not be enumerated or the table update was not found")
		} else {
			c.Check(fname(ins)+"#cached-shortcut-distinguishes-blobs-from-nodes", ins.Pos(), bad == 0, ifelse(bad == 0, fmt.Sprintf("all %d skipping paths tested the kind of the cached or the new entry", nSkip), fmt.Sprintf("%d of %d paths skip the insertion because the hash is already cached without asking whether the cached entry is a raw blob: a contract whose code is the RLP of a storage-trie root node (CodeHash == Root) is cached childless first, and after commit + reopen all slots below that node are missing", bad, nSkip)))
		}
	}
	c13RoundE(c, c.W)
}

// sameNode: two base values denote the same node (same SSA value, or loads of the same local).
func sameNode(a, b ssa.Value) bool {
	if a == b || samePath(a, b) {
		return true
	}
	// both derive from the same copy() call through phis / local variable loads
	origin := func(v ssa.Value) ssa.Value {
		for i := 0; i < 8; i++ {
			switch x := v.(type) {
			case *ssa.UnOp:
				if al, ok := x.X.(*ssa.Alloc); ok {
					var last ssa.Value
					for _, r := range *al.Referrers() {
						if st, ok := r.(*ssa.Store); ok && st.Addr == al {
							last = st.Val
						}
					}
					if last == nil {
						return v
					}
					v = last
					continue
				}
			}
			return v
		}
		return v
	}
	return origin(a) == origin(b)
}

func c13Variants() []Variant {
	return []Variant{
		{Name: "insert-in-place", File: "trie/trie.go", Old: "		n = n.copy()\n		n.flags = t.newFlag()\n		n.Children[key[0]] = nn\n		return true, n, nil\n\n	case nil:", New: "		n.flags = t.newFlag()\n		n.Children[key[0]] = nn\n		return true, n, nil\n\n	case nil:", Rule: "C13.T1", Construct: "insert"},
		{Name: "delete-without-dirty-flag", File: "trie/trie.go", Old: "		n = n.copy()\n		n.flags = t.newFlag()\n		n.Children[key[0]] = nn\n\n", New: "		n = n.copy()\n		n.Children[key[0]] = nn\n\n", Rule: "C13.T2", Construct: "delete"},
	}
}

// c13RoundE: T14 (the value slot of a branch is not hashed as a child) and T15 (DeriveSha keys are RLP).
func c13RoundE(c *Ctx, w *World) {
	c.Rule("C13.T14", "BOUND", "the root is the standard Merkle-Patricia root: when the hasher collapses a branch node it hashes the 16 child references only — the loop that hands n.Children[i] to hasher.hash stops at index 16, the value slot, which is embedded verbatim. Run through hash()/store(), a value of 32 bytes or more at a key that is a prefix of other keys is replaced by its hash: a non-standard root, and the hash instead of the value after reopening")
	c.Min(1)
	{
		hc := w.Fn("trie", "hasher", "hashChildren")
		hashM := w.FuncObj("trie", "hasher", "hash")
		c.sawFunc(fname(hc))
		n := 0
		for _, ci := range callsTo(hc, hashM) {
			// the innermost loop around the call
			var hdr *ssa.BasicBlock
			for _, b := range hc.Blocks {
				if isLoopHeader(b) && naturalLoop(b)[ci.Block()] {
					if hdr == nil || naturalLoop(hdr)[b] {
						hdr = b
					}
				}
			}
			if hdr == nil {
				continue // the short node's single child
			}
			n++
			c.sites++
			bound := int64(-1)
			for b := range naturalLoop(hdr) {
				if iff, ok := b.Instrs[len(b.Instrs)-1].(*ssa.If); ok {
					if bo, isB := iff.Cond.(*ssa.BinOp); isB && (bo.Op == token.LSS || bo.Op == token.LEQ) {
						k, isK := constInt(bo.Y)
						if !isK {
							// len(x[:16]): a range over a constant-bounded slice of the children
							if lc, isCall := bo.Y.(*ssa.Call); isCall {
								if bi, isB := lc.Call.Value.(*ssa.Builtin); isB && bi.Name() == "len" && len(lc.Call.Args) == 1 {
									if sl, isSl := lc.Call.Args[0].(*ssa.Slice); isSl && sl.High != nil {
										if hk, okH := constInt(sl.High); okH {
											lo := int64(0)
											if sl.Low != nil {
												if lk, okL := constInt(sl.Low); okL {
													lo = lk
												}
											}
											if lo == 0 {
												k, isK = hk, true
											}
										}
									}
								}
							}
						}
						if isK {
							// is this the exit test of the loop?
							exits := false
							for _, sc := range b.Succs {
								if !naturalLoop(hdr)[sc] {
									exits = true
								}
							}
							if exits {
								bound = k
								if bo.Op == token.LEQ {
									bound = k + 1
								}
							}
						}
					}
				}
			}
			ok := bound >= 1 && bound <= 16
			c.Check(fmt.Sprintf("%s#child-loop-%d-stops-before-the-value-slot", fname(hc), n), ci.Pos(), ok, ifelse(ok, fmt.Sprintf("the loop hashes slots 0..%d", bound-1), fmt.Sprintf("the loop that hashes the children of a branch runs up to index %d: slot 16 holds the node's value, not a child reference, and must be embedded as it is", bound-1)))
		}
		if n == 0 {
			c.Undecided(fname(hc)+"#child-loop", hc.Pos(), "no loop handing the children of a branch node to hasher.hash found")
		}
	}

	c.Rule("C13.T15", "PROVENANCE", "the transaction / receipt root is the standard index trie: the key under which DeriveSha stores element i is produced by the rlp package (rlp.Encode / EncodeToBytes / Append* of the index), not by a private re-implementation of the integer encoding — a size computed one byte short makes indices 256… non-canonical and lets 384…511 overwrite 128…255, so the root stops committing to those elements")
	c.Min(1)
	{
		ds := w.Fn("core/types", "", "DeriveSha")
		c.sawFunc(fname(ds))
		n := 0
		for _, ci := range callInstrs(ds) {
			o := calleeObj(ci)
			if o == nil || o.Name() != "Update" || o.Pkg() == nil || o.Pkg().Path() != full("trie") {
				continue
			}
			n++
			c.sites++
			key := callArgs(ci)[0]
			var isRlpD func(cc ssa.CallInstruction, depth int) bool
			isRlpD = func(cc ssa.CallInstruction, depth int) bool {
				co := calleeObj(cc)
				if co != nil && co.Pkg() != nil && co.Pkg().Path() == full("rlp") {
					return true
				}
				// a helper of this package that encodes with the rlp package
				if g := cc.Common().StaticCallee(); g != nil && g.Pkg == ds.Pkg && g.Blocks != nil && depth < 2 {
					for _, cj := range callInstrs(g) {
						if isRlpD(cj, depth+1) {
							return true
						}
					}
				}
				return false
			}
			isRlp := func(cc ssa.CallInstruction) bool { return isRlpD(cc, 0) }
			ok := derivesFrom(key, func(x ssa.Value) bool {
				cc, isC := x.(*ssa.Call)
				return isC && isRlp(cc)
			})
			if !ok {
				// a buffer the rlp package wrote into before the update
				for _, cj := range callInstrs(ds) {
					if !isRlp(cj) || !instrDominates(cj.(ssa.Instruction), ci.(ssa.Instruction)) {
						continue
					}
					for _, a := range cj.Common().Args {
						buf := stripConv(a)
						if derivesFrom(key, func(x ssa.Value) bool { return x == buf }) {
							ok = true
						}
					}
				}
			}
			c.Check(fname(ds)+"#keys-are-rlp-of-the-index", ci.Pos(), ok, ifelse(ok, "the key is written by the rlp package", "the key of an element does not come from the rlp package: a private integer encoder decides the index keys of the transaction / receipt trie"))
		}
		if n == 0 {
			c.Undecided(fname(ds)+"#keys-are-rlp-of-the-index", ds.Pos(), "no trie.Update call found in DeriveSha")
		}
	}
}

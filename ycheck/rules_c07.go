package main

import (
	"fmt"
	"go/constant"
	"go/token"
	"go/types"
	"sort"
	"strings"

	"golang.org/x/tools/go/ssa"
)

// C07 — native tokens are conserved. Only pairing clauses are decided.

func init() {
	register(&propDef{
		ID:          "C07",
		Explanation: "The conservation sum itself is arithmetic over histories and is not decided. Decided (structure, SSA of staking/core/core/state): a validator record is used at most once per path as the pre-image of a replacement — directly or through a callee that replaces its parameter — so a later settlement cannot silently discard an earlier update (P1); take-effect handlers whose submission debited the sender either credit the validator/delegation or refund the same amount to the sender, and submission and take-effect registries cover the same actions (P2); a withdrawal is paid only while unfinished, marked finished with the payment, and pays the record's final balance (P3); every balance mutation outside the EVM is a tabled site with its counterpart, submission handlers debit exactly what they record, subsidies leave the pool iff they enter the total, gas is bought and refunded with one price (P4).",
		Assumptions: []string{"UpdateValidator(new, old) installs new in place of old (C08/C09 check its bookkeeping)", "integer-division residues are accounted by the reward code (not decided)"},
		Run:         runC07,
		Variants:    c07Variants,
	})
}

// replaceSummary: which parameters of which functions are used as the
// pre-image ("old") of a validator replacement, directly or transitively.
func replaceSummary(w *World, upd *types.Func, fns []*ssa.Function) map[*ssa.Function]map[int]bool {
	sum := map[*ssa.Function]map[int]bool{}
	paramIdx := func(fn *ssa.Function, v ssa.Value) int {
		for i, p := range fn.Params {
			if ssa.Value(p) == v {
				return i
			}
		}
		return -1
	}
	changed := true
	for changed {
		changed = false
		for _, fn := range fns {
			for _, ci := range callInstrs(fn) {
				for _, pre := range preImages(ci, upd, sum) {
					if i := paramIdx(fn, stripConv(pre)); i >= 0 {
						if sum[fn] == nil {
							sum[fn] = map[int]bool{}
						}
						if !sum[fn][i] {
							sum[fn][i] = true
							changed = true
						}
					}
				}
			}
		}
	}
	return sum
}

// preImages returns the operands of a call that are consumed as pre-images.
func preImages(ci ssa.CallInstruction, upd *types.Func, sum map[*ssa.Function]map[int]bool) []ssa.Value {
	var out []ssa.Value
	if sameFunc(calleeObj(ci), upd) {
		a := callArgs(ci)
		if len(a) == 2 {
			out = append(out, a[1])
		}
		return out
	}
	if callee := ci.Common().StaticCallee(); callee != nil {
		for i := range sum[callee] {
			if i < len(ci.Common().Args) {
				out = append(out, ci.Common().Args[i])
			}
		}
	}
	return out
}

// reachesWithoutRedefinition: control can flow from a to b without passing the
// instruction that defines v again (v denotes the same object at both).
func reachesWithoutRedefinition(a, b ssa.Instruction, v ssa.Value) bool {
	var defBlock *ssa.BasicBlock
	if in, ok := v.(ssa.Instruction); ok {
		defBlock = in.Block()
	}
	if a.Block() == b.Block() && instrIndex(a) < instrIndex(b) {
		return true
	}
	seen := map[*ssa.BasicBlock]bool{}
	work := append([]*ssa.BasicBlock(nil), a.Block().Succs...)
	for len(work) > 0 {
		x := work[len(work)-1]
		work = work[:len(work)-1]
		if seen[x] {
			continue
		}
		seen[x] = true
		if x == defBlock {
			// v is recomputed here: unless b follows in this very block after the
			// definition, what follows concerns a new object
			continue
		}
		if x == b.Block() {
			return true
		}
		work = append(work, x.Succs...)
	}
	return false
}

func runC07(c *Ctx) {
	w := c.W
	upd := w.FuncObj("core/state", "StateDB", "UpdateValidator")

	// ------------------------------------------------------------ P1
	c.Rule("C07.P1", "STALE-AFTER-REPLACE", "on no path is the same validator value used twice as the pre-image of a replacement (UpdateValidator(new, old), or a callee that replaces its parameter): the second replacement would discard the first one's effect — rewards or stake just booked vanish")
	c.Min(10)
	stalePreImages(c, w, upd, "this replacement installs a copy of the superseded record and discards what the first one booked")

	// ------------------------------------------------------------ P6
	c.Rule("C07.P6", "SAME-VALUE", "the gas figure a message converter reports — which becomes the gas rewards credited to the pool — is what the sender is finally charged: GasUsed() at the return, or the whole gas limit only after all remaining gas was consumed (or under a pre-V4 protocol); otherwise the refund returns gas to the sender that the rewards still count, and tokens are created")
	c.Min(6)
	converterGasFigures(c, w)

	// ------------------------------------------------------------ P7
	c.Rule("C07.P7", "OWNERSHIP", "in the staking handlers an amount that is subtracted from / added to a record's *big.Int field in place is never that very field (reached through a variable that was assigned the field pointer instead of a copy): z.Sub(z, y) with y aliasing z zeroes both, and every later use of y — the withdraw record, the refund — books zero while the total was reduced by the full amount")
	c.Min(10)
	{
		nMut := 0
		for _, fn := range w.FuncsIn("staking") {
			if strings.HasSuffix(w.fileOf(fn.Pos()), "_test.go") {
				continue
			}
			n := 0
			for _, ci := range callInstrs(fn) {
				o := calleeObj(ci)
				if o == nil || recvName(o) != "Int" || o.Pkg() == nil || o.Pkg().Path() != "math/big" {
					continue
				}
				switch o.Name() {
				case "Sub", "Add", "Mul", "Quo", "Div", "Mod", "Rem":
				default:
					continue
				}
				recv := stripConv(callRecv(ci))
				rf, rbase := loadedField(recv)
				if rf == nil {
					continue // a local accumulator
				}
				nMut++
				c.sites++
				c.sawFunc(fname(fn))
				args := callArgs(ci)
				alias := ""
				// the conventional first operand z.Op(z, y) may be the receiver; the second must not be
				for ai, a := range args {
					if ai == 0 {
						continue
					}
					var reach func(v ssa.Value, seen map[ssa.Value]bool) bool
					reach = func(v ssa.Value, seen map[ssa.Value]bool) bool {
						v = stripConv(v)
						if seen[v] {
							return false
						}
						seen[v] = true
						if f, b := loadedField(v); f == rf && b != nil && samePath(b, rbase) {
							return true
						}
						if phi, ok := v.(*ssa.Phi); ok {
							for _, e := range phi.Edges {
								if reach(e, seen) {
									return true
								}
							}
						}
						return false
					}
					if reach(a, map[ssa.Value]bool{}) {
						alias = fmt.Sprintf("operand %d", ai+1)
					}
				}
				key := fmt.Sprintf("%s#%s.%s@%d-operand-not-the-field", fname(fn), rf.Name(), o.Name(), n)
				n++
				c.Check(key, ci.Pos(), alias == "", ifelse(alias == "", "the amount is a value of its own", alias+" can be the very *big.Int the operation mutates (a variable was assigned the field pointer, not a copy): the field and the amount both end up zero, and what is booked afterwards from that amount is zero although the total was reduced by the full value"))
			}
		}
		if nMut < 10 {
			c.Undecided("staking#in-place-amount-updates", 0, fmt.Sprintf("only %d in-place updates of record amounts found", nMut))
		}
	}

	// ------------------------------------------------------------ P8
	c.Rule("C07.P8", "CONFINED", "the end-of-block code works on validator records it reads from the state where it uses them: no struct type of package staking has a field that holds validator records (*state.Validator, slices or maps of them, *state.Validators) — a record kept across a replacement (a slash, a settlement) is a superseded pre-image, and writing a copy of it back undoes the replacement while the tokens it moved stay moved")
	c.Min(5)
	{
		valT := w.Named("core/state", "Validator")
		valsT := w.Named("core/state", "Validators")
		var holds func(t types.Type, depth int) bool
		holds = func(t types.Type, depth int) bool {
			if depth > 4 {
				return false
			}
			switch x := t.(type) {
			case *types.Named:
				if types.Identical(x, valT) || types.Identical(x, valsT) {
					return true
				}
				return false
			case *types.Pointer:
				return holds(x.Elem(), depth+1)
			case *types.Slice:
				return holds(x.Elem(), depth+1)
			case *types.Array:
				return holds(x.Elem(), depth+1)
			case *types.Map:
				return holds(x.Elem(), depth+1) || holds(x.Key(), depth+1)
			}
			return false
		}
		sc := w.Pkg("staking").Types.Scope()
		n := 0
		for _, name := range sc.Names() {
			tn, ok := sc.Lookup(name).(*types.TypeName)
			if !ok {
				continue
			}
			st, ok := tn.Type().Underlying().(*types.Struct)
			if !ok {
				continue
			}
			n++
			c.sites++
			bad := ""
			for i := 0; i < st.NumFields(); i++ {
				if holds(st.Field(i).Type(), 0) {
					bad = st.Field(i).Name()
				}
			}
			c.Check("staking."+name+"#holds-no-validator-records", tn.Pos(), bad == "", ifelse(bad == "", "no field holds validator records", "field "+name+"."+bad+" keeps validator records beyond the statement that read them: after a slash or a settlement replaced a record, the kept one is superseded; the next update copies it and writes it back, the validator keeps the stake the penalty took (or loses what was booked) while the tokens stay where they were moved — supply changes"))
		}
		if n < 5 {
			c.Undecided("staking#struct-types", 0, fmt.Sprintf("only %d struct types found in package staking", n))
		}
	}

	// ------------------------------------------------------------ P10
	c.Rule("C07.P10", "MUST-PASS", "the global rounding residue is consumed and replaced together: rewardsToPool folds the stored residue into the amount it distributes (GetRewardResidue → blockRewards), so on every path on which it credits rewards (AddRewards / AddTotalRewards) it also stores the new remainder with SetRewardsResidue — unconditionally, also when the remainder is zero; a residue that has been paid out but is still stored is paid out again by the next block (tokens created)")
	c.Min(2)
	{
		rp := w.Fn("staking", "", "rewardsToPool")
		c.sawFunc(fname(rp))
		var sets, credits, reads []ssa.Instruction
		for _, fn := range withSplitOffHelpers(w, rp) {
			for _, ci := range callInstrs(fn) {
				o := calleeObj(ci)
				if o == nil {
					continue
				}
				in := ci.(ssa.Instruction)
				if fn != rp {
					// judged at the call of the split-off part
					for _, cj := range callInstrs(rp) {
						if cj.Common().StaticCallee() == fn {
							in = cj.(ssa.Instruction)
						}
					}
				}
				switch o.Name() {
				case "SetRewardsResidue":
					sets = append(sets, in)
				case "AddRewards", "AddTotalRewards":
					credits = append(credits, in)
				case "GetRewardResidue", "GetRewardsResidue":
					reads = append(reads, in)
				}
			}
		}
		if len(reads) == 0 || len(credits) == 0 {
			c.Undecided(fname(rp)+"#residue-replaced-with-every-distribution", rp.Pos(), fmt.Sprintf("rewardsToPool no longer reads the residue (%d reads) or credits rewards (%d credits)", len(reads), len(credits)))
		}
		for i, cr := range credits {
			c.sites++
			ok := mustPassAfter(cr, sets) || mustPassBefore(cr, sets)
			c.Check(fmt.Sprintf("%s#residue-replaced-with-every-distribution-%d", fname(rp), i), cr.Pos(), ok, ifelse(ok, "SetRewardsResidue on every path through this credit", "rewards that include the stored residue are credited on a path that does not store the new remainder: when the new remainder is zero the old residue stays in the statistics although it has just been paid out, and the next block pays it out again"))
		}
		// the remainder stored is the one of this distribution
		for i, st := range sets {
			c.sites++
			arg := callArgs(st.(ssa.CallInstruction))
			fromRem := len(arg) > 0 && derivesFrom(arg[len(arg)-1], func(v ssa.Value) bool {
				// the remainder operand of a QuoRem / DivMod / Mod / Rem in this function
				if v.Referrers() == nil {
					return false
				}
				for _, r := range *v.Referrers() {
					if cc, ok := r.(*ssa.Call); ok {
						if o := calleeObj(cc); o != nil && (o.Name() == "QuoRem" || o.Name() == "DivMod") {
							a := callArgs(cc)
							if len(a) == 3 && a[2] == v {
								return true
							}
						}
						if o := calleeObj(cc); o != nil && (o.Name() == "Mod" || o.Name() == "Rem") && callRecv(cc) == v {
							return true
						}
					}
				}
				return false
			})
			c.Check(fmt.Sprintf("%s#stored-residue-is-this-remainder-%d", fname(rp), i), st.Pos(), fromRem, ifelse(fromRem, "the value stored is the remainder of this block's division", "the residue stored is not the remainder of this block's division"))
		}
	}

	// ------------------------------------------------------------ P11
	c.Rule("C07.P11", "TYPESTATE", "a list of positions refers to the slice as it was when the positions were collected: in core/state a function that takes positions ([]int) and indexes a slice field with them does not change the layout of that slice inside the loop over the positions — no copy() onto it, no append onto a prefix of it, no re-slicing store — so every position still names the element it was collected for (RemoveRecords marks the elements and compacts afterwards). Shifting inside the loop removes the neighbour of the second and later positions: an unfinished withdraw record disappears and its tokens with it")
	c.Min(1)
	{
		nLoops := 0
		for _, fn := range w.FuncsIn(statePkg) {
			if fn.Blocks == nil || strings.HasSuffix(w.fileOf(fn.Pos()), "_test.go") {
				continue
			}
			var posParam *ssa.Parameter
			for _, prm := range fn.Params {
				if sl, ok := prm.Type().Underlying().(*types.Slice); ok {
					if b, isB := sl.Elem().Underlying().(*types.Basic); isB && b.Kind() == types.Int {
						posParam = prm
					}
				}
			}
			if posParam == nil {
				continue
			}
			// element accesses S[pos] where pos is an element of the positions parameter
			for _, b := range fn.Blocks {
				for _, in := range b.Instrs {
					ia, ok := in.(*ssa.IndexAddr)
					if !ok {
						continue
					}
					sf, _ := loadedField(stripConvNoBind(ia.X))
					if sf == nil {
						continue
					}
					fromPos := derivesFrom(ia.Index, func(v ssa.Value) bool {
						if u, isU := v.(*ssa.UnOp); isU && u.Op == token.MUL {
							if pa, isIA := u.X.(*ssa.IndexAddr); isIA && stripConvNoBind(pa.X) == ssa.Value(posParam) {
								return true
							}
						}
						return false
					})
					if !fromPos {
						continue
					}
					// innermost loop around the access
					var header *ssa.BasicBlock
					for _, hb := range fn.Blocks {
						if isLoopHeader(hb) && naturalLoop(hb)[b] {
							if header == nil || naturalLoop(header)[hb] {
								header = hb
							}
						}
					}
					if header == nil {
						continue
					}
					nLoops++
					c.sites++
					c.sawFunc(fname(fn))
					bad := ""
					for lb := range naturalLoop(header) {
						for _, li := range lb.Instrs {
							switch x := li.(type) {
							case *ssa.Call:
								bi, isB := x.Call.Value.(*ssa.Builtin)
								if !isB {
									continue
								}
								if bi.Name() == "copy" || bi.Name() == "append" {
									if derivesFrom(x.Call.Args[0], func(v ssa.Value) bool { f, _ := loadedField(v); return f == sf }) {
										if bi.Name() == "append" {
											if _, isSl := stripConvNoBind(x.Call.Args[0]).(*ssa.Slice); !isSl {
												continue
											}
										}
										bad = bi.Name() + " at " + w.Pos(x.Pos())
									}
								}
							case *ssa.Store:
								if fa, isFA := x.Addr.(*ssa.FieldAddr); isFA && fieldOfAddr(fa) == sf {
									bad = "re-slicing store at " + w.Pos(x.Pos())
								}
							}
						}
					}
					c.Check(fmt.Sprintf("%s#positions-stay-valid-in-%s", fname(fn), sf.Name()), ia.Pos(), bad == "", ifelse(bad == "", "the slice keeps its layout while the positions are used", "the slice is shifted inside the loop over the positions ("+bad+"): from the second position on the element behind the intended one is taken — a live record is dropped"))
				}
			}
		}
		if nLoops == 0 {
			c.Undecided("core/state#position-lists", token.NoPos, "no loop indexing a slice field with a list of positions found (WithdrawQueue.RemoveRecords is expected)")
		}
	}

	// ------------------------------------------------------------ P12
	c.Rule("C07.P12", "GATE", "a pending staking record is never negative: in package staking the amount handed to AddStakingRecord, when its last arithmetic step can lower it (Sub, or Add of a delta that may be negative), is known not to be negative at the store: either the branch taken to a Sub says (sign domain over the Cmp result) that the minuend is not smaller than the subtrahend, or on every path from the step to the store a Sign() of the value excludes −1 or the value is given a fresh amount (SetUint64 / Set / Abs). A withdraw followed by a larger delegation-sub drove the validator's pending total to −100 YOU: the record cannot be encoded, the period's pending transactions are dropped and a bystander's 5000 YOU deposit vanishes from the supply")
	c.Min(2)
	{
		addRec := w.FuncObj(statePkg, "StateDB", "AddStakingRecord")
		nRec := 0
		for _, fn := range w.FuncsIn("staking") {
			if fn.Blocks == nil || strings.HasSuffix(w.fileOf(fn.Pos()), "_test.go") {
				continue
			}
			recs := callsTo(fn, addRec)
			if len(recs) == 0 {
				continue
			}
			ai := bigIntAliases(fn)
			for k, rc := range recs {
				args := callArgs(rc)
				v := stripConv(args[len(args)-1])
				cls := ai.class(v)
				// the last lowering step on the value
				var step *ssa.Call
				for _, ci := range callInstrs(fn) {
					cc, ok := ci.(*ssa.Call)
					if !ok {
						continue
					}
					o := calleeObj(cc)
					if o == nil || o.Pkg() == nil || o.Pkg().Path() != "math/big" || !(o.Name() == "Sub" || o.Name() == "Add") {
						continue
					}
					r := callRecv(cc)
					if r == nil || ai.class(stripConv(r)) != cls || !instrDominates(cc, rc.(ssa.Instruction)) {
						continue
					}
					if step == nil || instrDominates(step, cc) {
						step = cc
					}
				}
				if step == nil {
					continue // no arithmetic on the value here (a decoded or copied amount)
				}
				if calleeObj(step).Name() == "Add" {
					// an Add lowers the value only if an operand may be negative: a parameter or a Neg result
					mayNeg := false
					for _, a := range callArgs(step) {
						if derivesFrom(a, func(x ssa.Value) bool {
							if p, isP := x.(*ssa.Parameter); isP && isBigIntPtr(p.Type()) {
								return true
							}
							if cc, isC := x.(*ssa.Call); isC && calleeObj(cc) != nil && calleeObj(cc).Name() == "Neg" {
								return true
							}
							return false
						}) {
							mayNeg = true
						}
					}
					if !mayNeg {
						continue
					}
				}
				nRec++
				c.sites++
				c.sawFunc(fname(fn))
				tested := false
				// (a) before a Sub: its two operands were compared and the branch taken to the Sub says minuend >= subtrahend
				if calleeObj(step).Name() == "Sub" {
					atoms := atomsOf(factsAt(step.Block()))
					for _, ci := range callInstrs(fn) {
						cc, ok := ci.(*ssa.Call)
						if !ok || !instrDominates(cc, step) {
							continue
						}
						o := calleeObj(cc)
						if o == nil || o.Pkg() == nil || o.Pkg().Path() != "math/big" || o.Name() != "Cmp" {
							continue
						}
						r := callRecv(cc)
						sa, ca := callArgs(step), callArgs(cc)
						if r == nil || len(sa) != 2 || len(ca) != 1 {
							continue
						}
						match := func(a, b ssa.Value) bool {
							return ai.class(stripConv(a)) == ai.class(stripConv(b)) || samePath(a, b)
						}
						al := allowedSigns(atoms, cc)
						if match(sa[0], r) && match(sa[1], ca[0]) && !al[0] {
							tested = true // r.Cmp(a) in {0,+1}: r - a >= 0
						}
						if match(sa[0], ca[0]) && match(sa[1], r) && !al[2] {
							tested = true // r.Cmp(a) in {-1,0}: a - r >= 0
						}
					}
				}
				// (b) after the step: on every path to the store the sign of the value is known not to be negative,
				// or the value is given a fresh amount
				if !tested {
					idx := func(in ssa.Instruction) int {
						for i, x := range in.Block().Instrs {
							if x == in {
								return i
							}
						}
						return -1
					}
					all, n := true, 0
					complete := pathsBetween(fn, step.Block(), rc.Block(), 4000, func(blocks []*ssa.BasicBlock, facts []Fact) {
						n++
						atoms := atomsOf(facts)
						onPath := map[*ssa.BasicBlock]bool{}
						for _, b := range blocks {
							onPath[b] = true
						}
						safe := false
						for _, ci := range callInstrs(fn) {
							cc, ok := ci.(*ssa.Call)
							if !ok || !onPath[cc.Block()] {
								continue
							}
							if cc.Block() == step.Block() && idx(cc) < idx(step) || cc.Block() == rc.Block() && idx(cc) > idx(rc.(ssa.Instruction)) {
								continue
							}
							o := calleeObj(cc)
							if o == nil || o.Pkg() == nil || o.Pkg().Path() != "math/big" {
								continue
							}
							r := callRecv(cc)
							if r == nil || ai.class(stripConv(r)) != cls {
								continue
							}
							switch o.Name() {
							case "Sign":
								if al := allowedSigns(atoms, cc); !al[0] {
									safe = true
								}
							case "SetUint64", "Abs":
								safe = true
							case "Set", "SetInt64":
								if cc != step {
									safe = true
								}
							}
						}
						if !safe {
							// the amount that reaches the store on this path is a fresh zero / constant, not the lowered value
							x := ssa.Value(v)
							for {
								ph, isPhi := x.(*ssa.Phi)
								if !isPhi {
									break
								}
								pos := -1
								for i, b := range blocks {
									if b == ph.Block() {
										pos = i
									}
								}
								if pos <= 0 {
									break
								}
								e := -1
								for i, pb := range ph.Block().Preds {
									if pb == blocks[pos-1] {
										e = i
									}
								}
								if e < 0 {
									break
								}
								x = stripConv(ph.Edges[e])
							}
							switch y := x.(type) {
							case *ssa.Alloc:
								safe = isBigIntPtr(y.Type()) && len(*y.Referrers()) <= 2
							case *ssa.Call:
								if o := calleeObj(y); o != nil && o.Pkg() != nil && o.Pkg().Path() == "math/big" {
									if o.Name() == "NewInt" {
										if k, isK := y.Call.Args[0].(*ssa.Const); isK && k.Value != nil && constant.Sign(k.Value) >= 0 {
											safe = true
										}
									}
									if o.Name() == "SetUint64" {
										if _, isA := stripConv(callRecv(y)).(*ssa.Alloc); isA {
											safe = true
										}
									}
								}
							}
						}
						if !safe {
							all = false
						}
					})
					if complete && n > 0 && all {
						tested = true
					}
				}
				c.Check(fmt.Sprintf("%s#pending-amount-%d-not-negative", fname(fn), k), rc.Pos(), tested, ifelse(tested, "the sign (or the order of the operands) is tested between the last lowering step and the store", "the amount stored as pending staking record was lowered ("+calleeObj(step).Name()+" at "+w.Pos(step.Pos())+") and is stored without a sign test: it can become negative, cannot be encoded, and the flush of the staking trie fails for the whole period"))
			}
		}
		if nRec == 0 {
			c.Undecided("staking#pending-record-amounts", token.NoPos, "no AddStakingRecord call with a lowered amount found in package staking")
		}
	}

	// ------------------------------------------------------------ P14
	c.Rule("C07.P14", "GATE", "what the end-of-block hook distributes as gas rewards is what the block's transactions paid: StateProcessor.Process reaches EndBlock only on paths on which the accumulator it handed to every ApplyTransaction was compared with header.GasRewards and found equal (sign domain over the Cmp result: only 0 remains). blockRewards reads the figure from the header, so without the gate a proposer mints rewards by writing a larger number (same gate as C06.N3)")
	c.Min(1)
	{
		pr := w.Fn("core", "StateProcessor", "Process")
		c.sawFunc(fname(pr))
		c.sites++
		ok, why := gasRewardsGate(w, pr)
		c.Check(fname(pr)+"#end-block-only-with-equal-gas-rewards", pr.Pos(), ok, ifelse(ok, "EndBlock is dominated by Cmp(accumulator, header.GasRewards) == 0", why))
	}

	// ------------------------------------------------------------ P15
	c.Rule("C07.P15", "ORDER", "the amount that leaves the stake is the amount that enters the withdraw queue: in package staking a negated copy of an amount (new(big.Int).Neg(x), handed to UpdateDelegation as the change of the delegation) is taken after the last in-place change of x — no mutating big.Int call on x is reachable from the negation while the copy is still to be used. teDelegationSub enlarges the withdrawn amount to the whole delegation when the remainder would be below the minimum; a negation taken before that un-stakes the requested amount and queues requested + remainder: tokens are created")
	c.Min(1)
	{
		mut := map[string]bool{"Set": true, "Sub": true, "Add": true, "Mul": true, "Div": true, "Quo": true, "SetUint64": true, "SetInt64": true, "Neg": true, "Lsh": true, "Rsh": true}
		reach := func(from, to ssa.Instruction) bool {
			if from.Block() == to.Block() {
				fi, ti := -1, -1
				for i, in := range from.Block().Instrs {
					if in == from {
						fi = i
					}
					if in == to {
						ti = i
					}
				}
				if fi < ti {
					return true
				}
			}
			seen := map[*ssa.BasicBlock]bool{}
			work := append([]*ssa.BasicBlock(nil), from.Block().Succs...)
			for len(work) > 0 {
				b := work[len(work)-1]
				work = work[:len(work)-1]
				if seen[b] {
					continue
				}
				seen[b] = true
				if b == to.Block() {
					return true
				}
				work = append(work, b.Succs...)
			}
			return false
		}
		n := 0
		for _, fn := range w.FuncsIn("staking") {
			if fn.Blocks == nil || strings.HasSuffix(w.fileOf(fn.Pos()), "_test.go") {
				continue
			}
			ai := bigIntAliases(fn)
			k := 0
			for _, ci := range callInstrs(fn) {
				neg, ok := ci.(*ssa.Call)
				if !ok {
					continue
				}
				o := calleeObj(neg)
				if o == nil || o.Name() != "Neg" || o.Pkg() == nil || o.Pkg().Path() != "math/big" {
					continue
				}
				x := stripConv(callArgs(neg)[0])
				if r := callRecv(neg); r != nil && ai.class(stripConv(r)) == ai.class(x) {
					continue // x.Neg(x): not a copy
				}
				n++
				c.sites++
				c.sawFunc(fname(fn))
				bad := ""
				for _, cj := range callInstrs(fn) {
					m, isCall := cj.(*ssa.Call)
					if !isCall || m == neg {
						continue
					}
					mo := calleeObj(m)
					if mo == nil || mo.Pkg() == nil || mo.Pkg().Path() != "math/big" || recvName(mo) != "Int" || !mut[mo.Name()] {
						continue
					}
					r := callRecv(m)
					if r == nil || ai.class(stripConv(r)) != ai.class(x) || !reach(neg, m) {
						continue
					}
					// is the negated copy still used after the change?
					for _, u := range *neg.Referrers() {
						if ui, isI := u.(ssa.Instruction); isI && reach(m, ui) {
							bad = w.Pos(m.Pos())
						}
					}
				}
				c.Check(fmt.Sprintf("%s#negation-%d-after-the-last-change", fname(fn), k), neg.Pos(), bad == "", ifelse(bad == "", "the amount is not changed any more once its negation is taken", "the amount is changed in place at "+bad+" after its negation was taken, and the negation is used afterwards: the two sides of the movement (un-staked / queued for withdrawal) differ by that change"))
				k++
			}
		}
		if n == 0 {
			c.Undecided("staking#negated-amounts", token.NoPos, "no negated copy of an amount found in package staking (teDelegationSub is expected)")
		}
	}

	// ------------------------------------------------------------ P16
	c.Rule("C07.P16", "GATE", "only an empty record is removed: Validator.IsInvalid — the predicate under which IntermediateRoot deletes a validator record with whatever it holds — answers true only on paths that established that the record's Token is zero (a Sign() / Uint64() test of the Token field). With `Token <= 0 || Stake <= 0` a House validator left with 0.5 YOU (stake 0) is deleted and its tokens are destroyed")
	c.Min(1)
	{
		inv := w.Fn(statePkg, "Validator", "IsInvalid")
		c.sawFunc(fname(inv))
		c.sites++
		bad := 0
		total := 0
		complete := enumPaths(inv, 256, func(pr PathResult) {
			rv := pr.Resolve(pr.Ret.Results[0])
			facts := pr.Facts
			if cv, isC := rv.(*ssa.Const); isC && cv.Value != nil && cv.Value.Kind() == constant.Bool {
				if !constant.BoolVal(cv.Value) {
					return
				}
			} else {
				facts = append(append([]Fact(nil), facts...), Fact{Cond: rv, Truth: true})
			}
			total++
			atoms := atomsOf(facts)
			zero := false
			for _, a := range atoms {
				for _, v := range []ssa.Value{a.X, a.Y} {
					if v == nil {
						continue
					}
					cc, isCall := stripConvNoBind(v).(*ssa.Call)
					if !isCall {
						continue
					}
					o := calleeObj(cc)
					if o == nil || o.Pkg() == nil || o.Pkg().Path() != "math/big" || !(o.Name() == "Sign" || o.Name() == "Uint64" || o.Name() == "BitLen") {
						continue
					}
					r := callRecv(cc)
					if r == nil {
						continue
					}
					if f, _ := loadedField(stripConvNoBind(r)); f == nil || f.Name() != "Token" {
						continue
					}
					if al := allowedSigns(atoms, cc); !al[2] {
						zero = true
					}
				}
			}
			if !zero {
				bad++
			}
		})
		ok := complete && total > 0 && bad == 0
		c.Check(fname(inv)+"#true-only-without-tokens", inv.Pos(), ok, ifelse(ok, fmt.Sprintf("all %d ways of answering true tested Token to be zero", total), fmt.Sprintf("%d of %d ways of answering true do not establish that the record's Token is zero: a record that still holds tokens is deleted at the end of the block", bad, total)))
	}

	// ------------------------------------------------------------ P17
	c.Rule("C07.P17", "ORDER", "fees paid equal rewards credited: the one gas figure that ApplyTransaction multiplies into the block's gas rewards (and stores in the receipt and the block's gas used) is computed after refundGas has returned the refund counter to the sender — otherwise the sender pays for (used − refund) gas and the end-of-block hook credits used × price: refund × price tokens per such transaction come from nowhere (the same obligation as under C17.T5)")
	c.Min(1)
	reportedGasAfterRefund(c, w)

	// ------------------------------------------------------------ P18
	c.Rule("C07.P18", "ORDER", "subsidies come out of the rewards pool account: in blockRewards the subsidy that is debited from the pool, added to the block's total rewards and written to header.Subsidy is ONE amount — once it has been used as an operand (added to the total, handed to SubBalance, copied into the header) it is not changed in place any more. Capping it at the pool balance after it went into the total debits the pool by what is left and distributes the full wanted subsidy: the difference is created")
	c.Min(1)
	{
		br := w.Fn("staking", "", "blockRewards")
		c.sawFunc(fname(br))
		ai := bigIntAliases(br)
		mut := map[string]bool{"Set": true, "Sub": true, "Add": true, "Mul": true, "Div": true, "Quo": true, "SetUint64": true, "SetInt64": true, "Neg": true}
		// the debited amount
		var amount ssa.Value
		for _, ci := range callInstrs(br) {
			if o := calleeObj(ci); o != nil && o.Name() == "SubBalance" {
				args := callArgs(ci)
				amount = stripConv(args[len(args)-1])
			}
		}
		c.sites++
		if amount == nil {
			c.Undecided(fname(br)+"#subsidy-is-one-amount", br.Pos(), "no SubBalance call found in blockRewards")
		} else {
			cls := ai.class(amount)
			reach := func(from, to ssa.Instruction) bool {
				if from.Block() == to.Block() {
					fi, ti := -1, -1
					for i, in := range from.Block().Instrs {
						if in == from {
							fi = i
						}
						if in == to {
							ti = i
						}
					}
					return fi < ti
				}
				seen := map[*ssa.BasicBlock]bool{}
				work := append([]*ssa.BasicBlock(nil), from.Block().Succs...)
				for len(work) > 0 {
					b := work[len(work)-1]
					work = work[:len(work)-1]
					if seen[b] {
						continue
					}
					seen[b] = true
					if b == to.Block() {
						return true
					}
					work = append(work, b.Succs...)
				}
				return false
			}
			var uses, muts []ssa.Instruction
			for _, ci := range callInstrs(br) {
				o := calleeObj(ci)
				if o == nil {
					continue
				}
				isBig := o.Pkg() != nil && o.Pkg().Path() == "math/big" && recvName(o) == "Int"
				if isBig && mut[o.Name()] {
					if r := callRecv(ci); r != nil && ai.class(stripConv(r)) == cls {
						muts = append(muts, ci.(ssa.Instruction))
						continue
					}
				}
				for _, a := range callArgs(ci) {
					if isBigIntPtr(a.Type()) && ai.class(stripConv(a)) == cls {
						if r := callRecv(ci); r != nil && stripConv(r) == stripConv(a) {
							continue
						}
						// comparisons and logging read the amount without moving it anywhere
						if isBig && (o.Name() == "Cmp" || o.Name() == "Sign") {
							continue
						}
						if o.Pkg() != nil && strings.HasSuffix(o.Pkg().Path(), "/logging") {
							continue
						}
						if _, isIface := a.(*ssa.MakeInterface); isIface {
							continue
						}
						uses = append(uses, ci.(ssa.Instruction))
					}
				}
			}
			bad := ""
			for _, u := range uses {
				for _, m := range muts {
					if reach(u, m) {
						bad = w.Pos(m.Pos()) + " (after the use at " + w.Pos(u.Pos()) + ")"
					}
				}
			}
			c.Check(fname(br)+"#subsidy-is-one-amount", br.Pos(), bad == "" && len(uses) >= 2, ifelse(bad == "" && len(uses) >= 2, fmt.Sprintf("the amount is fixed before the first of its %d uses", len(uses)), "the subsidy is changed in place at "+bad+": what is distributed and what the pool pays differ by that change"))
		}
	}

	// ------------------------------------------------------------ P13
	c.Rule("C07.P13", "ALWAYS-WITH", "a validator record that is about to be removed holds no value: a record with no token and no stake left (Validator.IsInvalid) is deleted at the end of the block with whatever it holds, and settleValidatorRewards leaves the rounding residue of an ONLINE validator in RewardsDistributable. So every take-effect handler (the functions registered in teHandlers) that can lower a validator's total tokens — a Sub on Validator.Token or UpdateDelegation with a negated amount — passes afterwards, on every path to a return, a pay-out that tests IsInvalid() and credits RewardsDistributable with AddBalance, then re-sets that field in the replacement record and stores it (in the handler or in a helper it calls). takePenalty lowers the total by a fraction and is not covered")
	c.Min(2)
	{
		valT := w.Named(statePkg, "Validator")
		addBal := w.FuncObj(statePkg, "StateDB", "AddBalance")
		isInv := w.FuncObj(statePkg, "Validator", "IsInvalid")
		updDel := w.FuncObj(statePkg, "StateDB", "UpdateDelegation")
		// the registered take-effect handlers
		var hs []*ssa.Function
		seenH := map[*ssa.Function]bool{}
		for _, fn := range w.FuncsIn("staking") {
			if fn.Blocks == nil || !strings.HasPrefix(fn.Name(), "init") {
				continue
			}
			for _, b := range fn.Blocks {
				for _, in := range b.Instrs {
					mu, ok := in.(*ssa.MapUpdate)
					if !ok {
						continue
					}
					u, ok := mu.Map.(*ssa.UnOp)
					if !ok {
						continue
					}
					if g, ok := u.X.(*ssa.Global); !ok || g.Name() != "teHandlers" {
						continue
					}
					if h, ok := stripConvNoBind(mu.Value).(*ssa.Function); ok && !seenH[h] {
						seenH[h] = true
						hs = append(hs, h)
					}
				}
			}
		}
		sort.Slice(hs, func(i, j int) bool { return hs[i].Name() < hs[j].Name() })
		if len(hs) < 5 {
			c.Undecided("staking.teHandlers", token.NoPos, fmt.Sprintf("only %d take-effect handlers found in the registry", len(hs)))
		}
		// pays(fn): fn tests IsInvalid and credits a RewardsDistributable amount that it takes out of the record
		pays := func(fn *ssa.Function) bool {
			if fn == nil || fn.Blocks == nil {
				return false
			}
			for _, ci := range callsTo(fn, addBal) {
				if rewardPayoutPaired(w, fn, ci) {
					return true
				}
			}
			return false
		}
		for _, h := range hs {
			var lowers []ssa.Instruction
			for _, ci := range callInstrs(h) {
				o := calleeObj(ci)
				if o == nil {
					continue
				}
				if o == updDel {
					args := callArgs(ci)
					if derivesFrom(args[len(args)-1], func(x ssa.Value) bool {
						cc, ok := x.(*ssa.Call)
						return ok && calleeObj(cc) != nil && calleeObj(cc).Name() == "Neg"
					}) {
						lowers = append(lowers, ci.(ssa.Instruction))
					}
					continue
				}
				if o.Pkg() != nil && o.Pkg().Path() == "math/big" && o.Name() == "Sub" {
					if r := callRecv(ci); r != nil {
						f, base := loadedField(stripConvNoBind(r))
						if f != nil && f.Name() == "Token" && base != nil && types.Identical(deref(base.Type()), valT) {
							lowers = append(lowers, ci.(ssa.Instruction))
						}
					}
				}
			}
			if len(lowers) == 0 {
				continue
			}
			c.sawFunc(fname(h))
			var gates []ssa.Instruction
			for _, ci := range callInstrs(h) {
				if g := ci.Common().StaticCallee(); g != nil && g.Pkg == h.Pkg && pays(g) {
					gates = append(gates, ci.(ssa.Instruction))
				}
			}
			if pays(h) {
				for _, ci := range callsTo(h, addBal) {
					args := callArgs(ci)
					if f, _ := loadedField(stripConvNoBind(args[len(args)-1])); f != nil && f.Name() == "RewardsDistributable" {
						// the guarded credit itself: the paths that skip it are those on which the record is not empty
						gates = append(gates, ci.(ssa.Instruction))
						for _, t := range callsTo(h, isInv) {
							gates = append(gates, t.(ssa.Instruction))
						}
					}
				}
			}
			for k, lo := range lowers {
				c.sites++
				ok := len(gates) > 0 && mustPassAfter(lo, gates)
				c.Check(fmt.Sprintf("%s#lowering-%d-then-residue-paid", fname(h), k), lo.Pos(), ok, ifelse(ok, "every path from the lowering to a return passes the pay-out of an emptied record's distributable rewards", "the handler can take the validator's last token and returns without paying out what the record still holds in RewardsDistributable: the record is deleted at the end of the block and the rounding residue left by settleValidatorRewards (online validator) disappears from the supply"))
			}
		}
	}

	// ------------------------------------------------------------ P9
	c.Rule("C07.P9", "ORDER", "in settleValidatorRewards the residue is carried over into the new record (RewardsDistributable.Set(record.residue)) only after everything that pays it out or zeroes it: no payment of record.residue and no in-place change of it can follow the carry-over")
	c.Min(1)
	{
		sv := w.Fn("staking", "", "settleValidatorRewards")
		c.sawFunc(fname(sv))
		isResidue := func(v ssa.Value) bool {
			f, _ := loadedField(stripConv(v))
			return f != nil && f.Name() == "residue"
		}
		var carry []ssa.CallInstruction
		var later []ssa.CallInstruction
		for _, ci := range callInstrs(sv) {
			o := calleeObj(ci)
			if o == nil {
				continue
			}
			if recvName(o) == "Int" && o.Name() == "Set" && len(callArgs(ci)) == 1 && isResidue(callArgs(ci)[0]) {
				if f, _ := loadedField(stripConv(callRecv(ci))); f != nil && f.Name() == "RewardsDistributable" {
					carry = append(carry, ci)
				}
			}
			if recvName(o) == "Int" && isResidue(callRecv(ci)) {
				switch o.Name() {
				case "SetUint64", "SetInt64", "Set", "Sub", "Add":
					later = append(later, ci)
				}
			}
			if o.Name() == "AddBalance" {
				for _, a := range callArgs(ci) {
					if isResidue(a) {
						later = append(later, ci)
					}
				}
			}
		}
		c.sites += len(carry)
		if len(carry) == 0 {
			c.Undecided(fname(sv)+"#residue-carried-over-last", sv.Pos(), "the carry-over of the residue was not found")
		}
		for _, cr := range carry {
			bad := ""
			for _, l := range later {
				if reachesWithoutRedefinition(cr, l, nil) {
					bad = w.Pos(l.Pos())
				}
			}
			c.Check(fname(sv)+"#residue-carried-over-last", cr.Pos(), bad == "", ifelse(bad == "", "nothing pays or changes the residue after it was copied into the new record", "the residue is copied into the new record and paid out / zeroed afterwards (at "+bad+"): it is both paid and kept as distributable, and paid again at every later period end"))
		}
	}

	// ------------------------------------------------------------ P2
	c.Rule("C07.P2", "EXIT+EXHAUSTIVE", "teDeposit and teDelegationAdd (whose submission handlers debited the sender) on every return either applied the credit (UpdateValidator / UpdateDelegation) or refunded the transaction value to the sender, or run under a pre-V5 protocol version (historic behaviour); the submission and take-effect registries register the same actions")
	c.Min(3)
	c07P2(c, w, upd)

	// ------------------------------------------------------------ P3
	c.Rule("C07.P3", "GATE+ALWAYS-WITH", "processWithdrawQueue pays a record only under Finished == 0, sets Finished = 1 on the same paths, and pays the record's FinalBalance")
	c.Min(1)
	pwq := w.Fn("staking", "", "processWithdrawQueue")
	c.sawFunc(fname(pwq))
	finished := w.Field("core/state", "WithdrawRecord", "Finished")
	finalBal := w.Field("core/state", "WithdrawRecord", "FinalBalance")
	nPay := 0
	for _, ci := range callInstrs(pwq) {
		o := calleeObj(ci)
		if o == nil || o.Name() != "AddBalance" {
			continue
		}
		nPay++
		c.sites++
		unfinished, marks, amountOK := false, false, false
		for _, a := range atomsOf(factsAtInstr(ci)) {
			if a.Kind == "eq" && a.Truth {
				if f, _ := loadedField(stripConv(a.X)); f == finished {
					if n, ok := constInt(a.Y); ok && n == 0 {
						unfinished = true
					}
				}
			}
		}
		for _, fw := range fieldWrites(pwq) {
			if fw.Field == finished {
				if n, ok := constInt(fw.Instr.(*ssa.Store).Val); ok && n == 1 && alwaysWith(ci, []ssa.Instruction{fw.Instr}) {
					marks = true
				}
			}
		}
		amt := callArgs(ci)[1]
		if f, _ := loadedField(stripConv(amt)); f == finalBal {
			amountOK = true
		}
		for _, cj := range callInstrs(pwq) {
			if oj := calleeObj(cj); oj != nil && oj.Name() == "Set" && recvName(oj) == "Int" {
				if r := callRecv(cj); r != nil && samePath(r, amt) && instrDominates(cj, ci) {
					if f, _ := loadedField(stripConv(callArgs(cj)[0])); f == finalBal {
						amountOK = true
					}
				}
			}
		}
		ok := unfinished && marks && amountOK
		c.Check(fname(pwq)+"#pays-once", ci.Pos(), ok, ifelse(ok, "paid under Finished == 0, marked finished, amount = FinalBalance", fmt.Sprintf("a withdrawal can be paid twice or with the wrong amount (unfinished-test=%v marks-finished=%v amount-is-final-balance=%v)", unfinished, marks, amountOK)))
	}
	if nPay == 0 {
		c.Undecided(fname(pwq)+"#pays-once", pwq.Pos(), "no AddBalance in processWithdrawQueue")
	}

	// ------------------------------------------------------------ P5
	c.Rule("C07.P5", "GATE", "a pending withdrawal's FinalBalance is reduced in place (penalties) only for records whose Finished flag is still 0: a record that was already paid out keeps its FinalBalance for the retention period and must not be taken from again")
	c.Min(1)
	nDebit := 0
	for _, fn := range w.FuncsIn("staking") {
		if strings.HasSuffix(w.fileOf(fn.Pos()), "_test.go") {
			continue
		}
		for _, ci := range callInstrs(fn) {
			o := calleeObj(ci)
			if o == nil || recvName(o) != "Int" || (o.Name() != "Sub" && o.Name() != "Set" && o.Name() != "SetUint64") {
				continue
			}
			r := callRecv(ci)
			if r == nil {
				continue
			}
			if f, _ := loadedField(stripConv(r)); f != finalBal {
				continue
			}
			nDebit++
			c.sites++
			c.sawFunc(fname(fn))
			unfinished := false
			for _, a := range atomsOf(factsAtInstr(ci)) {
				if a.Kind == "eq" && a.Truth {
					if f, _ := loadedField(stripConv(a.X)); f == finished {
						if n, ok := constInt(a.Y); ok && n == 0 {
							unfinished = true
						}
					}
				}
			}
			c.Check(fmt.Sprintf("%s#FinalBalance.%s-only-if-unfinished", outerName(fname(fn)), o.Name()), ci.Pos(), unfinished, ifelse(unfinished, "dominated by Finished == 0", "the amount of a withdraw record is reduced without testing that it is still unpaid: a penalty is \"taken\" from tokens that already left, and is credited to the penalty account out of nothing"))
		}
	}
	if nDebit == 0 {
		c.Undecided("staking#FinalBalance-debits", 0, "no in-place decrease of WithdrawRecord.FinalBalance found")
	}

	// ------------------------------------------------------------ P4
	c.Rule("C07.P4", "CONFINED+ALWAYS-WITH", "every AddBalance/SubBalance/SetBalance call site outside core/vm and core/state is tabled with its counterpart; submission handlers debit the value they record; blockRewards debits the rewards pool iff it adds the same amount to the total; buyGas and refundGas price gas with the same GasPrice")
	c.Min(15)
	c07P4(c, w)
}

// stalePreImages is the STALE-AFTER-REPLACE rule shared by C07.P1 and C08.V6.
func stalePreImages(c *Ctx, w *World, upd *types.Func, consequence string) {
	var fns []*ssa.Function
	for _, p := range []string{"staking", "core/state", "core"} {
		for _, fn := range w.FuncsIn(p) {
			if !strings.HasSuffix(w.fileOf(fn.Pos()), "_test.go") {
				fns = append(fns, fn)
			}
		}
	}
	sum := replaceSummary(w, upd, fns)
	var sumNames []string
	for fn, ps := range sum {
		for i := range ps {
			sumNames = append(sumNames, fmt.Sprintf("%s(param %d)", fname(fn), i))
		}
	}
	sort.Strings(sumNames)
	c.Note("functions that replace a parameter: %s", strings.Join(sumNames, ", "))
	for _, fn := range fns {
		type use struct {
			ci  ssa.CallInstruction
			pre ssa.Value
		}
		var uses []use
		for _, ci := range callInstrs(fn) {
			for _, pre := range preImages(ci, upd, sum) {
				uses = append(uses, use{ci, stripConv(pre)})
			}
		}
		if len(uses) == 0 {
			continue
		}
		c.sawFunc(fname(fn))
		for i, u := range uses {
			c.sites++
			stale := ""
			for j, v := range uses {
				if i == j && !inLoop(u.ci) {
					continue
				}
				if u.pre != v.pre {
					continue
				}
				if i == j {
					// the same site in a loop with a loop-invariant pre-image
					if reachesWithoutRedefinition(u.ci, u.ci, u.pre) && !sameBlockAfterDef(u.ci, u.pre) {
						stale = "is replaced again by the same call on the next iteration"
					}
					continue
				}
				if reachesWithoutRedefinition(v.ci, u.ci, u.pre) {
					stale = "was already replaced at " + w.Pos(v.ci.Pos()) + " (" + calleeName(v.ci) + ")"
				}
			}
			key := fmt.Sprintf("%s#%s@%s", fname(fn), calleeName(u.ci), siteOrdinal(fn, u.ci, ""))
			c.Check(key, u.ci.Pos(), stale == "", ifelse(stale == "", "the pre-image is replaced once on every path", "the validator record used here as pre-image "+stale+": "+consequence))
		}
	}
}

func calleeName(ci ssa.CallInstruction) string {
	if o := calleeObj(ci); o != nil {
		return o.Name()
	}
	return "call"
}

// sameBlockAfterDef: v is defined in the loop body before site (per-iteration value).
func sameBlockAfterDef(site ssa.Instruction, v ssa.Value) bool {
	in, ok := v.(ssa.Instruction)
	if !ok {
		return false
	}
	return inLoop(in)
}

func c07P2(c *Ctx, w *World, upd *types.Func) {
	updDlg := w.FuncObj("core/state", "StateDB", "UpdateDelegation")
	for _, h := range []struct {
		te, sub string
	}{{"teDeposit", "handleDeposit"}, {"teDelegationAdd", "handleDelegationAdd"}} {
		fn := w.Fn("staking", "", h.te)
		c.sawFunc(fname(fn))
		good := map[*ssa.BasicBlock]bool{}
		refunds := 0
		for _, ci := range callInstrs(fn) {
			o := calleeObj(ci)
			switch {
			case sameFunc(o, upd), sameFunc(o, updDlg):
				good[ci.Block()] = true
			case o != nil && o.Name() == "AddBalance":
				a := callArgs(ci)
				toSender := derivesFrom(a[0], func(v ssa.Value) bool {
					cc, ok := v.(*ssa.Call)
					return ok && calleeObj(cc) != nil && calleeObj(cc).Name() == "From"
				})
				f, _ := loadedField(stripConv(a[1]))
				valueOK := f != nil && f.Name() == "Value"
				if toSender && valueOK {
					good[ci.Block()] = true
					refunds++
				} else {
					c.Fail(fname(fn)+"#refund-shape", ci.Pos(), "the refund does not return the transaction's Value to the sender (Msg.From())")
				}
			}
		}
		for i, b := range fn.Blocks {
			if _, ok := b.Instrs[len(b.Instrs)-1].(*ssa.Return); !ok || b == fn.Recover {
				continue
			}
			c.sites++
			ok := good[b] || allPathsPassEdge(fn, b, func(from, to *ssa.BasicBlock) bool {
				if good[to] && to != b {
					// entering a block that credits or refunds
					return true
				}
				if good[from] {
					return true
				}
				f, isIf := edgeFact(from, to)
				if !isIf {
					return false
				}
				as := atomsOf([]Fact{f})
				a := as[0]
				if a.Kind == "cmp" {
					// Version >= YouV5 is false on this edge
					op := a.Op
					if !a.Truth {
						op = negateCmp(op)
					}
					if fl, _ := loadedField(stripConv(a.X)); fl != nil && fl.Name() == "Version" && (op == token.LSS) {
						return true
					}
				}
				return false
			})
			_ = i
			c.Check(fmt.Sprintf("%s#return@%s", fname(fn), blockOrdinal(fn, b)), b.Instrs[len(b.Instrs)-1].Pos(), ok, ifelse(ok, "credit applied, value refunded, or pre-V5 protocol", "a path returns without crediting the validator/delegation and without refunding the value debited at submission: the tokens vanish"))
		}
		// the submission handler debits what the take-effect handler credits
		sub := w.Fn("staking", "", h.sub)
		debit := false
		for _, ci := range callInstrs(sub) {
			if o := calleeObj(ci); o != nil && o.Name() == "SubBalance" {
				f, _ := loadedField(stripConv(callArgs(ci)[1]))
				if f != nil && f.Name() == "Value" {
					debit = true
				}
			}
		}
		c.Check(fname(sub)+"#debits-value", sub.Pos(), debit, ifelse(debit, "debits the transaction's Value", "the submission handler no longer debits the transaction's Value (the take-effect credit/refund would mint tokens)"))
	}
	// registries
	keys := func(global string) map[string]bool {
		out := map[string]bool{}
		initFn := w.SSAPkg("staking").Func("init")
		var scan func(fn *ssa.Function)
		seen := map[*ssa.Function]bool{}
		scan = func(fn *ssa.Function) {
			if fn == nil || seen[fn] || fn.Blocks == nil {
				return
			}
			seen[fn] = true
			for _, b := range fn.Blocks {
				for _, in := range b.Instrs {
					if mu, ok := in.(*ssa.MapUpdate); ok {
						if u, ok := mu.Map.(*ssa.UnOp); ok {
							if g, ok := u.X.(*ssa.Global); ok && g.Name() == global {
								if cv, ok := mu.Key.(*ssa.Const); ok {
									out[cv.Value.String()] = true
								}
							}
						}
					}
					if ci, ok := in.(ssa.CallInstruction); ok {
						if callee := ci.Common().StaticCallee(); callee != nil && callee.Pkg == fn.Pkg && strings.HasPrefix(callee.Name(), "init") {
							scan(callee)
						}
					}
				}
			}
		}
		scan(initFn)
		return out
	}
	hk, tk := keys("handlers"), keys("teHandlers")
	var diff []string
	for k := range hk {
		if !tk[k] {
			diff = append(diff, "action "+k+" has no take-effect handler")
		}
	}
	for k := range tk {
		if !hk[k] {
			diff = append(diff, "action "+k+" has no submission handler")
		}
	}
	sort.Strings(diff)
	if len(hk) == 0 {
		c.Undecided("staking.handlers~teHandlers", 0, "the handler registries could not be read from the package initialiser")
	} else {
		c.Check("staking.handlers~teHandlers", 0, len(diff) == 0, ifelse(len(diff) == 0, fmt.Sprintf("both registries cover the same %d actions", len(hk)), strings.Join(diff, "; ")))
	}
}

func blockOrdinal(fn *ssa.Function, b *ssa.BasicBlock) string {
	n := 0
	for _, x := range fn.Blocks {
		if x == b {
			return fmt.Sprintf("%d", n)
		}
		if _, ok := x.Instrs[len(x.Instrs)-1].(*ssa.Return); ok {
			n++
		}
	}
	return "?"
}

func c07P4(c *Ctx, w *World) {
	// tabled balance mutation sites: function -> (callee -> count), with the counterpart
	type entry struct {
		n    map[string]int
		pair string
	}
	table := map[string]entry{
		"staking.teDeposit":                            {map[string]int{"AddBalance": 1}, "refund of handleDeposit's debit (V5)"},
		"staking.teDelegationAdd":                      {map[string]int{"AddBalance": 2}, "refund of handleDelegationAdd's debit (V5)"},
		"staking.doPenalize":                           {map[string]int{"AddBalance": 1}, "credit of the total taken by takePenalty to PenaltyTo"},
		"staking.handleCreate":                         {map[string]int{"SubBalance": 1}, "debit recorded as pending staking record; credited by teCreate"},
		"staking.handleDeposit":                        {map[string]int{"SubBalance": 1}, "debit recorded as pending staking record; credited/refunded by teDeposit"},
		"staking.handleDelegationAdd":                  {map[string]int{"SubBalance": 1}, "debit recorded as pending delegation record; credited/refunded by teDelegationAdd"},
		"staking.settleValidatorRewards":               {map[string]int{"AddBalance": 4}, "pays out RewardsDistributable, which the replacement record zeroes / reduces to the residue"},
		"staking.processWithdrawQueue":                 {map[string]int{"AddBalance": 1}, "pays FinalBalance of a withdraw record once (P3)"},
		"staking.blockRewards":                         {map[string]int{"SubBalance": 1}, "subsidies leave the rewards pool and enter the block's total rewards"},
		"core.Transfer":                                {map[string]int{"SubBalance": 1, "AddBalance": 1}, "sender debit = recipient credit"},
		"(core.MessageContext).buyGas":                 {map[string]int{"SubBalance": 1}, "gas bought at GasPrice; refunded by refundGas, the rest becomes gas rewards"},
		"(core.MessageContext).refundGas":              {map[string]int{"AddBalance": 1}, "unused gas at the same GasPrice"},
		"(core.Genesis).ToBlock":                       {map[string]int{"AddBalance": 1}, "genesis allocation"},
		"(internal/youapi.PublicBlockChainAPI).doCall": {map[string]int{"SetBalance": 1}, "simulated call on a throw-away state copy (never committed)"},
		"internal/youapi.DoCall":                       {map[string]int{"SetBalance": 1}, "simulated call on a throw-away state copy (never committed)"},
	}
	got := map[string]map[string]int{}
	pos := map[string]token.Pos{}
	for _, fn := range w.AllFuncs() {
		if fn.Pkg == nil {
			continue
		}
		path := fn.Pkg.Pkg.Path()
		f := w.fileOf(fn.Pos())
		if strings.HasSuffix(f, "_test.go") || path == full("core/vm") || path == full("core/state") || strings.HasPrefix(path, full("core/vm")+"/") {
			continue
		}
		if strings.HasPrefix(path, full("accounts")) || strings.HasPrefix(path, full("mobile")) || strings.HasPrefix(path, full("youclient")) {
			// simulated back ends and client bindings operate on private states
			continue
		}
		for _, ci := range callInstrs(fn) {
			o := calleeObj(ci)
			if o == nil || (o.Name() != "AddBalance" && o.Name() != "SubBalance" && o.Name() != "SetBalance") || recvName(o) == "" {
				continue
			}
			name := outerName(fname(fn))
			if _, tabled := table[name]; !tabled && rewardPayoutPaired(w, fn, ci) {
				// a site that carries its own counterpart: the credited amount is taken out of the record it was read from
				c.sites++
				c.Pass(name+"#reward-payout-paired", ci.Pos(), "credits a record's RewardsDistributable, then re-sets that field and stores the record on every path (emptied validator, P13)")
				continue
			}
			if got[name] == nil {
				got[name] = map[string]int{}
				pos[name] = ci.Pos()
			}
			got[name][o.Name()]++
		}
	}
	var names []string
	for n := range got {
		names = append(names, n)
	}
	sort.Strings(names)
	for _, n := range names {
		c.sites++
		e, ok := table[n]
		if !ok {
			c.Fail(n+"#balance-mutation", pos[n], fmt.Sprintf("a new function changes account balances (%v) outside the reviewed debit/credit inventory: its counterpart is unknown", got[n]))
			continue
		}
		same := true
		for k, v := range got[n] {
			if e.n[k] != v {
				same = false
			}
		}
		for k, v := range e.n {
			if got[n][k] != v {
				same = false
			}
		}
		c.Check(n+"#balance-mutation", pos[n], same, ifelse(same, "tabled: "+e.pair, fmt.Sprintf("the balance mutations of this function changed from the reviewed %v to %v", e.n, got[n])))
	}
	// a tabled debit/credit must still be there
	for n, e := range table {
		if _, has := got[n]; has {
			continue
		}
		// does the function still exist?
		exists := false
		for _, fn := range w.AllFuncs() {
			if outerName(fname(fn)) == n {
				exists = true
			}
		}
		if exists {
			c.Fail(n+"#balance-mutation", 0, fmt.Sprintf("the reviewed balance movement of this function (%v: %s) is gone: its counterpart is now unmatched", e.n, e.pair))
		}
	}
	// blockRewards: pool debit iff the same amount enters the total
	br := w.Fn("staking", "", "blockRewards")
	c.sawFunc(fname(br))
	for _, ci := range callInstrs(br) {
		if o := calleeObj(ci); o != nil && o.Name() == "SubBalance" {
			amt := callArgs(ci)[1]
			paired := false
			for _, cj := range callInstrs(br) {
				if oj := calleeObj(cj); oj != nil && oj.Name() == "Add" && recvName(oj) == "Int" {
					a := callArgs(cj)
					if len(a) == 2 && samePath(a[1], amt) && alwaysWith(ci, []ssa.Instruction{cj}) {
						paired = true
					}
				}
			}
			c.Check(fname(br)+"#subsidy-debit-enters-total", ci.Pos(), paired, ifelse(paired, "the amount taken from the rewards pool is added to the total on the same paths", "subsidies are taken from the rewards pool without entering the block's total rewards (or the reverse)"))
		}
	}
	// buyGas / refundGas: one price
	for _, n := range []string{"buyGas", "refundGas"} {
		fn := w.Fn("core", "MessageContext", n)
		c.sawFunc(fname(fn))
		usesPrice := false
		for _, ci := range callInstrs(fn) {
			if o := calleeObj(ci); o != nil && (o.Name() == "AddBalance" || o.Name() == "SubBalance") {
				if derivesFrom(callArgs(ci)[1], func(v ssa.Value) bool {
					cc, ok := v.(*ssa.Call)
					return ok && calleeObj(cc) != nil && calleeObj(cc).Name() == "Mul"
				}) {
					// the product: one operand derives from GasPrice()
					usesPrice = callChainMentions(callArgs(ci)[1], "GasPrice")
				}
			}
		}
		c.Check(fname(fn)+"#priced-with-GasPrice", fn.Pos(), usesPrice, ifelse(usesPrice, "the amount is gas × Msg.GasPrice()", n+" no longer prices gas with Msg.GasPrice(): what is bought and what is refunded use different prices"))
	}
}

// callChainMentions: the value was produced by big.Int calls one of whose
// operands (followed through earlier calls on the same receiver) is the result
// of a method with the given name.
func callChainMentions(v ssa.Value, method string) bool {
	found := false
	seen := map[ssa.Value]bool{}
	var walk func(v ssa.Value)
	walk = func(v ssa.Value) {
		if v == nil || seen[v] || found {
			return
		}
		seen[v] = true
		if cc, ok := v.(*ssa.Call); ok {
			if o := calleeObj(cc); o != nil && o.Name() == method {
				found = true
				return
			}
			for _, a := range cc.Call.Args {
				walk(a)
			}
			if cc.Call.IsInvoke() {
				walk(cc.Call.Value)
			}
			// an expression moved into a small helper is still that expression
			for _, r := range enterHelper(cc) {
				walk(r)
			}
			return
		}
		if in, ok := v.(ssa.Instruction); ok {
			for _, op := range in.Operands(nil) {
				if op != nil && *op != nil {
					walk(*op)
				}
			}
		}
		// other calls with v as receiver (x.Mul(a, b) mutates x)
		if refs := v.Referrers(); refs != nil {
			for _, r := range *refs {
				if cc, ok := r.(*ssa.Call); ok {
					if rv := callRecv(cc); rv == v {
						for _, a := range callArgs(cc) {
							walk(a)
						}
					}
				}
			}
		}
	}
	walk(v)
	return found
}

func c07Variants() []Variant {
	return []Variant{
		{Name: "settle-stale-record", File: "staking/endblock.go", Old: "			settleValidatorRewards(ctx, newVal, currRound)\n			settled[val.MainAddress()] = struct{}{}\n		}\n	}", New: "			settleValidatorRewards(ctx, val, currRound)\n			settled[val.MainAddress()] = struct{}{}\n		}\n	}", Rule: "C07.P1", Construct: "distributeRewards"},
		{Name: "no-refund-on-failed-deposit", File: "staking/take_effect_handler.go", Old: "		if ctx.Cfg.Version >= params.YouV5 {\n			// when deposit failed, return the detained tokens.\n			ctx.State.AddBalance(ctx.Msg.From(), tx.Value)\n		}\n", New: "", Rule: "C07.P2", Construct: "teDeposit#return"},
		{Name: "pay-without-finishing", File: "staking/endblock.go", Old: "				returnAmount.Set(record.FinalBalance)\n				record.Finished = 1\n", New: "				returnAmount.Set(record.FinalBalance)\n", Rule: "C07.P3", Construct: "pays-once"},
		{Name: "new-mint-site", File: "staking/endblock.go", Old: "	// collect the global residue\n	initStat.GetByKind(params.KindValidator).SetRewardsResidue(residue)", New: "	ctx.db.AddBalance(ctx.header.Coinbase, residue)\n	// collect the global residue\n	initStat.GetByKind(params.KindValidator).SetRewardsResidue(residue)", Rule: "C07.P4", Construct: "rewardsToPool#balance-mutation"},
		{Name: "subsidy-not-debited", File: "staking/endblock.go", Old: "		db.SubBalance(config.RewardsPoolAddress, subsidies) //from pool\n", New: "", Rule: "C07.P4", Construct: "blockRewards"},
		{Name: "pending-record-without-floor", File: "staking/delegation_handler.go", Old: "	if totalTokens.Sign() < 0 {", New: "	if totalTokens.Sign() < 0 && deltaTokens.Sign() > 0 {", Rule: "C07.P12", Construct: "checkAndUpdateTotalPendingStakesOfValidator"},
		{Name: "gas-rewards-compared-loosely", File: "core/state_processor.go", Old: "	if gasRewards.Cmp(header.GasRewards) != 0 {", New: "	if gasRewards.Cmp(header.GasRewards) > 0 {", Rule: "C07.P14", Construct: "Process"},
		{Name: "residue-of-emptied-validator-kept", File: "staking/take_effect_handler.go", Old: "		db.UpdateValidator(newVal, val)\n	}\n	newVal = payOutResidueOfEmptyValidator(ctx, newVal)\n", New: "		db.UpdateValidator(newVal, val)\n	}\n", Rule: "C07.P13", Construct: "teDelegationSub"},
	}
}

// allowedSigns: which of (-1, 0, +1) the facts leave possible for the integer result of call (Sign / Cmp).
func allowedSigns(atoms []Atom, call *ssa.Call) [3]bool {
	al := [3]bool{true, true, true}
	konst := func(v ssa.Value) (int64, bool) {
		if c, ok := v.(*ssa.Const); ok && c.Value != nil && c.Value.Kind() == constant.Int {
			if k, exact := constant.Int64Val(c.Value); exact {
				return k, true
			}
		}
		return 0, false
	}
	holds := func(x int64, op token.Token, k int64) bool {
		switch op {
		case token.LSS:
			return x < k
		case token.LEQ:
			return x <= k
		case token.GTR:
			return x > k
		case token.GEQ:
			return x >= k
		case token.EQL:
			return x == k
		}
		return true
	}
	flip := map[token.Token]token.Token{token.LSS: token.GTR, token.LEQ: token.GEQ, token.GTR: token.LSS, token.GEQ: token.LEQ, token.EQL: token.EQL}
	for _, a := range atoms {
		op := a.Op
		if a.Kind == "eq" {
			op = token.EQL
		} else if a.Kind != "cmp" {
			continue
		}
		var k int64
		var ok bool
		if stripConvNoBind(a.X) == ssa.Value(call) {
			k, ok = konst(a.Y)
		} else if a.Y != nil && stripConvNoBind(a.Y) == ssa.Value(call) {
			k, ok = konst(a.X)
			op = flip[op]
		} else {
			continue
		}
		if !ok {
			continue
		}
		for i, x := range []int64{-1, 0, 1} {
			if holds(x, op, k) != a.Truth {
				al[i] = false
			}
		}
	}
	return al
}

// rewardPayoutPaired: ci credits (AddBalance) an amount loaded from Validator.RewardsDistributable in a function that
// tests IsInvalid(), and on every path afterwards that field is re-set in a record and a record is stored with
// UpdateValidator: what is paid out is taken out of the record.
func rewardPayoutPaired(w *World, fn *ssa.Function, ci ssa.CallInstruction) bool {
	valT := w.Named(statePkg, "Validator")
	if fn == nil || fn.Blocks == nil || len(callsTo(fn, w.FuncObj(statePkg, "Validator", "IsInvalid"))) == 0 {
		return false
	}
	o := calleeObj(ci)
	if o == nil || o.Name() != "AddBalance" {
		return false
	}
	args := callArgs(ci)
	f, base := loadedField(stripConvNoBind(args[len(args)-1]))
	if f == nil || f.Name() != "RewardsDistributable" || base == nil || !types.Identical(deref(base.Type()), valT) {
		return false
	}
	var zeroes, stores []ssa.Instruction
	for _, cj := range callInstrs(fn) {
		oj := calleeObj(cj)
		if oj == nil {
			continue
		}
		if oj == w.FuncObj(statePkg, "StateDB", "UpdateValidator") {
			stores = append(stores, cj.(ssa.Instruction))
			continue
		}
		if oj.Pkg() == nil || oj.Pkg().Path() != "math/big" {
			continue
		}
		switch oj.Name() {
		case "SetUint64", "SetInt64", "Set", "Sub":
		default:
			continue
		}
		if r := callRecv(cj); r != nil {
			if f, base := loadedField(stripConvNoBind(r)); f != nil && f.Name() == "RewardsDistributable" && base != nil && types.Identical(deref(base.Type()), valT) {
				zeroes = append(zeroes, cj.(ssa.Instruction))
			}
		}
	}
	return len(zeroes) > 0 && len(stores) > 0 && mustPassAfter(ci.(ssa.Instruction), zeroes) && mustPassAfter(ci.(ssa.Instruction), stores)
}

package main

import (
	"fmt"
	"go/ast"
	"go/constant"
	"go/token"
	"go/types"
	"sort"
	"strings"

	"golang.org/x/tools/go/ssa"
)

// C15 — every computational opcode computes its 256-bit function.

func init() {
	register(&propDef{
		ID:          "C15",
		Explanation: "The arithmetic of the opcodes (DIV/SDIV/MOD/EXP/SAR results, signed edge cases), dynamic gas and memory/storage read-back are value properties and are not decided. Decided (structure, typed syntax and SSA of core/vm): the Istanbul jump table, evaluated from the layered constructor functions, maps every computational opcode to the handler tabled for it with the specified arity and constant gas, every other opcode to the specified arity, and marks exactly SSTORE, LOG0-4, CREATE, CREATE2 and SELFDESTRUCT as state-writing (X1); every non-closure handler, on every path that returns without error, changes the stack height by exactly (pushes − pops) and touches no item deeper than its declared pops (X2); integer-pool ownership: a value handed to intPool.put is not on the stack, is not used afterwards and is put once; every value pushed is owned — popped, from the pool or freshly allocated — never a *big.Int owned by the state, the contract or the EVM context (X3); a result produced by a range-escaping big.Int operation is passed through math.U256 before it stays on the stack (X4).",
		Assumptions: []string{"the reference arity/gas table in rules_c15.go is the EVM specification (Istanbul)", "big.Int methods return their receiver; math.U256 reduces in place and returns its argument"},
		Run:         runC15,
		Variants:    c15Variants,
	})
}

type opEntry struct {
	memSize      string
	execute      string
	gas          int64
	hasGas       bool
	pops, pushes int
	maxA, maxB   int
	hasMin       bool
	hasMax       bool
	flags        map[string]bool
	pos          token.Pos
}

func (e *opEntry) clone() *opEntry {
	c := *e
	c.flags = map[string]bool{}
	for k, v := range e.flags {
		c.flags[k] = v
	}
	return &c
}

// evalJumpTable evaluates a new…InstructionSet constructor from its syntax.
func evalJumpTable(w *World, name string, depth int) map[int64]*opEntry {
	if depth > 8 {
		undecided("jump table constructors nest too deeply")
	}
	decl := w.Decl("core/vm", "", name)
	info := w.Info("core/vm")
	tables := map[string]map[int64]*opEntry{}
	constInt := func(e ast.Expr) (int64, bool) {
		tv, ok := info.Types[e]
		if !ok || tv.Value == nil {
			return 0, false
		}
		return constant.Int64Val(constant.ToInt(tv.Value))
	}
	parseOp := func(cl *ast.CompositeLit, base *opEntry) *opEntry {
		e := &opEntry{flags: map[string]bool{}, pos: cl.Pos()}
		if base != nil {
			e = base.clone()
		}
		for _, el := range cl.Elts {
			kv, ok := el.(*ast.KeyValueExpr)
			if !ok {
				continue
			}
			k := kv.Key.(*ast.Ident).Name
			switch k {
			case "execute":
				switch v := kv.Value.(type) {
				case *ast.Ident:
					e.execute = v.Name
				case *ast.CallExpr:
					if id, ok := v.Fun.(*ast.Ident); ok {
						e.execute = "call:" + id.Name
					}
				}
			case "memorySize":
				if v, ok := kv.Value.(*ast.Ident); ok {
					e.memSize = v.Name
				}
			case "constantGas":
				if n, ok := constInt(kv.Value); ok {
					e.gas, e.hasGas = n, true
				}
			case "minStack", "maxStack":
				if call, ok := kv.Value.(*ast.CallExpr); ok && len(call.Args) >= 1 {
					a, ok1 := constInt(call.Args[0])
					b, ok2 := int64(0), false
					fname := ""
					if id, ok := call.Fun.(*ast.Ident); ok {
						fname = id.Name
					}
					switch {
					case len(call.Args) == 2 && (fname == "minStack" || fname == "maxStack"):
						b, ok2 = constInt(call.Args[1])
					case len(call.Args) == 1 && (fname == "minSwapStack" || fname == "maxSwapStack"):
						b, ok2 = a, ok1
					case len(call.Args) == 1 && (fname == "minDupStack" || fname == "maxDupStack"):
						b, ok2 = a+1, ok1
					}
					if (k == "minStack") != strings.HasPrefix(fname, "min") {
						ok1 = false // a max helper in the min slot or the reverse
					}
					if ok1 && ok2 {
						if k == "minStack" {
							e.pops, e.pushes, e.hasMin = int(a), int(b), true
						} else {
							e.maxA, e.maxB, e.hasMax = int(a), int(b), true
						}
					}
				}
			case "halts", "jumps", "writes", "valid", "reverts", "returns":
				if id, ok := kv.Value.(*ast.Ident); ok {
					e.flags[k] = id.Name == "true"
				}
			}
		}
		return e
	}
	var result map[int64]*opEntry
	for _, st := range decl.Body.List {
		switch s := st.(type) {
		case *ast.AssignStmt:
			// x := newPrev()
			if len(s.Lhs) == 1 && len(s.Rhs) == 1 {
				if id, ok := s.Lhs[0].(*ast.Ident); ok {
					if call, ok := s.Rhs[0].(*ast.CallExpr); ok {
						if fid, ok := call.Fun.(*ast.Ident); ok && strings.HasPrefix(fid.Name, "new") && strings.HasSuffix(fid.Name, "InstructionSet") {
							tables[id.Name] = evalJumpTable(w, fid.Name, depth+1)
							continue
						}
					}
				}
				// x[OP] = operation{…}
				if ix, ok := s.Lhs[0].(*ast.IndexExpr); ok {
					if id, ok := ix.X.(*ast.Ident); ok && tables[id.Name] != nil {
						op, okc := constInt(ix.Index)
						if cl, ok := s.Rhs[0].(*ast.CompositeLit); ok && okc {
							tables[id.Name][op] = parseOp(cl, nil)
							continue
						}
					}
				}
				// x[OP].field = v
				if sel, ok := s.Lhs[0].(*ast.SelectorExpr); ok {
					if ix, ok := sel.X.(*ast.IndexExpr); ok {
						if id, ok := ix.X.(*ast.Ident); ok && tables[id.Name] != nil {
							op, okc := constInt(ix.Index)
							if okc && tables[id.Name][op] != nil {
								e := tables[id.Name][op]
								switch sel.Sel.Name {
								case "constantGas":
									if n, ok := constInt(s.Rhs[0]); ok {
										e.gas, e.hasGas = n, true
									}
								case "execute":
									if v, ok := s.Rhs[0].(*ast.Ident); ok {
										e.execute = v.Name
									}
								case "memorySize":
									if v, ok := s.Rhs[0].(*ast.Ident); ok {
										e.memSize = v.Name
									}
								case "writes", "valid":
									if v, ok := s.Rhs[0].(*ast.Ident); ok {
										e.flags[sel.Sel.Name] = v.Name == "true"
									}
								}
								continue
							}
						}
					}
				}
			}
		case *ast.ReturnStmt:
			if len(s.Results) == 1 {
				switch r := s.Results[0].(type) {
				case *ast.Ident:
					result = tables[r.Name]
				case *ast.CompositeLit:
					result = map[int64]*opEntry{}
					for _, el := range r.Elts {
						kv, ok := el.(*ast.KeyValueExpr)
						if !ok {
							continue
						}
						op, okc := constInt(kv.Key)
						cl, okl := kv.Value.(*ast.CompositeLit)
						if okc && okl {
							result[op] = parseOp(cl, nil)
						}
					}
				}
			}
		}
	}
	if result == nil {
		undecided("jump table constructor %s could not be evaluated", name)
	}
	return result
}

type opSpec struct {
	handler      string
	pops, pushes int
	gas          int64 // -1: not checked
}

// the reference: opcode constant name -> specification (Istanbul)
func evmReference() map[string]opSpec {
	r := map[string]opSpec{
		"STOP": {"", 0, 0, -1},
		"ADD":  {"opAdd", 2, 1, 3}, "MUL": {"opMul", 2, 1, 5}, "SUB": {"opSub", 2, 1, 3}, "DIV": {"opDiv", 2, 1, 5}, "SDIV": {"opSdiv", 2, 1, 5},
		"MOD": {"opMod", 2, 1, 5}, "SMOD": {"opSmod", 2, 1, 5}, "ADDMOD": {"opAddmod", 3, 1, 8}, "MULMOD": {"opMulmod", 3, 1, 8},
		"EXP": {"opExp", 2, 1, -1}, "SIGNEXTEND": {"opSignExtend", 2, 1, 5},
		"LT": {"opLt", 2, 1, 3}, "GT": {"opGt", 2, 1, 3}, "SLT": {"opSlt", 2, 1, 3}, "SGT": {"opSgt", 2, 1, 3}, "EQ": {"opEq", 2, 1, 3}, "ISZERO": {"opIszero", 1, 1, 3},
		"AND": {"opAnd", 2, 1, 3}, "OR": {"opOr", 2, 1, 3}, "XOR": {"opXor", 2, 1, 3}, "NOT": {"opNot", 1, 1, 3}, "BYTE": {"opByte", 2, 1, 3},
		"SHL": {"opSHL", 2, 1, 3}, "SHR": {"opSHR", 2, 1, 3}, "SAR": {"opSAR", 2, 1, 3},
		"SHA3": {"", 2, 1, -1}, "ADDRESS": {"", 0, 1, -1}, "BALANCE": {"", 1, 1, -1}, "ORIGIN": {"", 0, 1, -1}, "CALLER": {"", 0, 1, -1}, "CALLVALUE": {"", 0, 1, -1},
		"CALLDATALOAD": {"", 1, 1, -1}, "CALLDATASIZE": {"", 0, 1, -1}, "CALLDATACOPY": {"", 3, 0, -1}, "CODESIZE": {"", 0, 1, -1}, "CODECOPY": {"", 3, 0, -1},
		"GASPRICE": {"", 0, 1, -1}, "EXTCODESIZE": {"", 1, 1, -1}, "EXTCODECOPY": {"", 4, 0, -1}, "RETURNDATASIZE": {"", 0, 1, -1}, "RETURNDATACOPY": {"", 3, 0, -1},
		"EXTCODEHASH": {"", 1, 1, -1}, "BLOCKHASH": {"", 1, 1, -1}, "COINBASE": {"", 0, 1, -1}, "TIMESTAMP": {"", 0, 1, -1}, "NUMBER": {"", 0, 1, -1},
		"DIFFICULTY": {"", 0, 1, -1}, "GASLIMIT": {"", 0, 1, -1}, "CHAINID": {"", 0, 1, -1}, "NETWORKID": {"", 0, 1, -1}, "SELFBALANCE": {"", 0, 1, -1},
		"POP": {"", 1, 0, -1}, "MLOAD": {"", 1, 1, -1}, "MSTORE": {"", 2, 0, -1}, "MSTORE8": {"", 2, 0, -1}, "SLOAD": {"", 1, 1, -1}, "SSTORE": {"", 2, 0, -1},
		"JUMP": {"", 1, 0, -1}, "JUMPI": {"", 2, 0, -1}, "PC": {"", 0, 1, -1}, "MSIZE": {"", 0, 1, -1}, "GAS": {"", 0, 1, -1}, "JUMPDEST": {"", 0, 0, -1},
		"CREATE": {"", 3, 1, -1}, "CALL": {"", 7, 1, -1}, "CALLCODE": {"", 7, 1, -1}, "RETURN": {"", 2, 0, -1}, "DELEGATECALL": {"", 6, 1, -1},
		"CREATE2": {"", 4, 1, -1}, "STATICCALL": {"", 6, 1, -1}, "REVERT": {"", 2, 0, -1}, "SELFDESTRUCT": {"", 1, 0, -1},
	}
	for i := 1; i <= 32; i++ {
		r[fmt.Sprintf("PUSH%d", i)] = opSpec{"", 0, 1, 3}
	}
	for i := 1; i <= 16; i++ {
		r[fmt.Sprintf("DUP%d", i)] = opSpec{"", i, i + 1, 3}
		r[fmt.Sprintf("SWAP%d", i)] = opSpec{"", i + 1, i + 1, 3}
	}
	for i := 0; i <= 4; i++ {
		r[fmt.Sprintf("LOG%d", i)] = opSpec{"", i + 2, 0, -1}
	}
	return r
}

func runC15(c *Ctx) {
	w := c.W
	// ------------------------------------------------------------ X1
	c.Rule("C15.X1", "EXHAUSTIVE", "the Istanbul jump table (evaluated from the constructor functions) equals the specification table: computational opcodes have the tabled handler, arity and constant gas; all valid opcodes the specified arity with minStack/maxStack built from the same (pops, pushes); the writes flag is set exactly on SSTORE, LOG0-4, CREATE, CREATE2, SELFDESTRUCT")
	c.Min(100)
	table := evalJumpTable(w, "newIstanbulInstructionSet", 0)
	// opcode names
	pkg := w.Pkg("core/vm")
	opT := w.Named("core/vm", "OpCode")
	nameOf := map[int64][]string{}
	isOpName := func(n string) bool {
		for _, r := range n {
			if !(r >= 'A' && r <= 'Z') && !(r >= '0' && r <= '9') {
				return false
			}
		}
		return len(n) >= 2
	}
	for _, n := range pkg.Types.Scope().Names() {
		cobj, ok := pkg.Types.Scope().Lookup(n).(*types.Const)
		if !ok || !isOpName(n) {
			continue
		}
		bt, isBasic := cobj.Type().(*types.Basic)
		if !types.Identical(cobj.Type(), opT) && !(isBasic && bt.Info()&types.IsUntyped != 0 && bt.Info()&types.IsInteger != 0) {
			continue
		}
		if v, ok := constant.Int64Val(constant.ToInt(cobj.Val())); ok && v >= 0 && v <= 255 {
			nameOf[v] = append(nameOf[v], n)
		}
	}
	ref := evmReference()
	seenRef := map[string]bool{}
	var ops []int64
	for op := range table {
		ops = append(ops, op)
	}
	sort.Slice(ops, func(i, j int) bool { return ops[i] < ops[j] })
	writesWant := map[string]bool{"SSTORE": true, "LOG0": true, "LOG1": true, "LOG2": true, "LOG3": true, "LOG4": true, "CREATE": true, "CREATE2": true, "SELFDESTRUCT": true}
	handlerArity := map[string][2]int{}
	for _, op := range ops {
		e := table[op]
		c.sites++
		names := nameOf[op]
		if len(names) == 0 {
			c.Fail(fmt.Sprintf("opcode-0x%02x", op), e.pos, "the jump table has an entry for an opcode without a constant name")
			continue
		}
		var spec opSpec
		found := ""
		for _, n := range names {
			if s, ok := ref[n]; ok {
				spec, found = s, n
			}
		}
		key := "jump-table[" + names[0] + "]"
		if found == "" {
			// not in the reference: only internal consistency
			ok := e.flags["valid"] && e.hasMin && e.hasMax && e.pops == e.maxA && e.pushes == e.maxB
			c.Check(key, e.pos, ok, ifelse(ok, "opcode outside the reference table: valid, minStack/maxStack consistent", "entry is not valid or its minStack/maxStack disagree"))
			continue
		}
		seenRef[found] = true
		var bad []string
		if !e.flags["valid"] {
			bad = append(bad, "not marked valid")
		}
		if !e.hasMin || e.pops != spec.pops || e.pushes != spec.pushes {
			bad = append(bad, fmt.Sprintf("minStack(%d,%d), specified (%d,%d)", e.pops, e.pushes, spec.pops, spec.pushes))
		}
		if !e.hasMax || e.maxA != spec.pops || e.maxB != spec.pushes {
			bad = append(bad, fmt.Sprintf("maxStack(%d,%d), specified (%d,%d)", e.maxA, e.maxB, spec.pops, spec.pushes))
		}
		if spec.handler != "" && e.execute != spec.handler {
			bad = append(bad, "handled by "+e.execute+", specified "+spec.handler)
		}
		if spec.gas >= 0 && (!e.hasGas || e.gas != spec.gas) {
			bad = append(bad, fmt.Sprintf("constant gas %d, specified %d", e.gas, spec.gas))
		}
		if e.flags["writes"] != writesWant[found] {
			bad = append(bad, fmt.Sprintf("writes=%v, specified %v", e.flags["writes"], writesWant[found]))
		}
		if !strings.HasPrefix(e.execute, "call:") && e.execute != "" {
			handlerArity[e.execute] = [2]int{spec.pops, spec.pushes}
		}
		c.Check(key, e.pos, len(bad) == 0, ifelse(len(bad) == 0, fmt.Sprintf("%s: (%d,%d) gas %d", e.execute, e.pops, e.pushes, e.gas), strings.Join(bad, "; ")))
	}
	var missing []string
	for n, s := range ref {
		if s.handler != "" && !seenRef[n] {
			missing = append(missing, n)
		}
	}
	sort.Strings(missing)
	c.Check("jump-table#computational-opcodes-present", 0, len(missing) == 0, ifelse(len(missing) == 0, "all computational opcodes present", "missing from the table: "+strings.Join(missing, ", ")))
	// the arity helpers mean what the table assumes
	mins := w.Fn("core/vm", "", "minStack")
	okMin := false
	for _, b := range mins.Blocks {
		if r, ok := b.Instrs[len(b.Instrs)-1].(*ssa.Return); ok && len(r.Results) == 1 && r.Results[0] == ssa.Value(mins.Params[0]) {
			okMin = true
		}
	}
	c.Check("core/vm.minStack#returns-pops", mins.Pos(), okMin, ifelse(okMin, "minStack(pops, push) = pops", "minStack no longer returns the number of operands popped: the interpreter's underflow check is off"))
	maxs := w.Fn("core/vm", "", "maxStack")
	okMax := false
	for _, b := range maxs.Blocks {
		if r, ok := b.Instrs[len(b.Instrs)-1].(*ssa.Return); ok && len(r.Results) == 1 {
			// limit + pop - push
			if sub, ok := stripConv(r.Results[0]).(*ssa.BinOp); ok && sub.Op == token.SUB && sub.Y == ssa.Value(maxs.Params[1]) {
				if add, ok := sub.X.(*ssa.BinOp); ok && add.Op == token.ADD && (add.Y == ssa.Value(maxs.Params[0]) || add.X == ssa.Value(maxs.Params[0])) {
					okMax = true
				}
			}
		}
	}
	c.Check("core/vm.maxStack#limit-plus-pop-minus-push", maxs.Pos(), okMax, ifelse(okMax, "maxStack(pop, push) = StackLimit + pop − push", "maxStack no longer computes StackLimit + pop − push: the interpreter's overflow check is off"))
	// the interpreter uses this table
	gj := w.Fn("core/vm", "", "GetJumpTable")
	usesIst := false
	for _, b := range gj.Blocks {
		for _, in := range b.Instrs {
			if u, ok := in.(*ssa.UnOp); ok {
				if g, ok := u.X.(*ssa.Global); ok && g.Name() == "istanbulInstructionSet" {
					usesIst = true
				}
			}
		}
	}
	c.Check("core/vm.GetJumpTable#istanbul", gj.Pos(), usesIst, "the interpreter's table is the evaluated Istanbul set")

	// ------------------------------------------------------------ X2
	c.Rule("C15.X2", "PATHS", "every non-closure opcode handler, on every feasible path that returns a nil error, changes the stack height by exactly pushes − pops and touches no stack item deeper than its declared pops")
	c.Min(60)
	var hnames []string
	for h := range handlerArity {
		hnames = append(hnames, h)
	}
	sort.Strings(hnames)
	for _, h := range hnames {
		fn := w.FnOpt("core/vm", "", h)
		if fn == nil {
			c.Undecided("core/vm."+h, 0, "handler named in the jump table does not resolve")
			continue
		}
		c.sawFunc(fname(fn))
		ar := handlerArity[h]
		ok, why := checkStackEffect(w, fn, ar[0], ar[1])
		c.sites++
		c.Check(fname(fn)+"#stack-effect", fn.Pos(), ok, ifelse(ok, fmt.Sprintf("net %+d, depth ≤ %d on all paths", ar[1]-ar[0], ar[0]), why))
	}

	// ------------------------------------------------------------ X3
	c.Rule("C15.X3", "OWNERSHIP", "integer-pool typestate per handler path: a value given to intPool.put is owned (popped, from the pool, or fresh), not on the stack, not used afterwards and put at most once; a value pushed is owned and not yet returned to the pool — never a *big.Int read from the state, the contract or the EVM context")
	c.Min(60)
	for _, h := range hnames {
		fn := w.FnOpt("core/vm", "", h)
		if fn == nil {
			continue
		}
		ok, why := checkPoolOwnership(w, fn)
		c.sites++
		c.Check(fname(fn)+"#pool-ownership", fn.Pos(), ok, ifelse(ok, "puts and pushes respect ownership on all paths", why))
	}

	// ------------------------------------------------------------ X4
	c.Rule("C15.X4", "DATAFLOW", "in the arithmetic handlers a value that was the receiver of a range-escaping big.Int operation (Add, Sub, Mul, Lsh, Neg, Not, Exp) is passed through math.U256 on the same paths before the handler returns with it on the stack")
	c.Min(8)
	for _, h := range []string{"opAdd", "opSub", "opMul", "opNot", "opSHL", "opAddmod", "opMulmod", "opExp", "opSignExtend", "opSdiv", "opSmod"} {
		fn := w.FnOpt("core/vm", "", h)
		if fn == nil {
			continue
		}
		ok, why := checkU256(w, fn)
		c.sites++
		c.Check(fname(fn)+"#reduced-mod-2^256", fn.Pos(), ok, ifelse(ok, "range-escaping results are reduced with math.U256 (or by a following modulo)", why))
	}

	// ------------------------------------------------------------ X5
	c.Rule("C15.X5", "GATE", "a 256-bit stack word is narrowed to a machine integer (Uint64/Int64) in an opcode handler only where its width was decided first: under a dominating branch on a wide test of the same word (Cmp, BitLen, IsUint64, validJumpdest), or at a stack position covered by the memory-size function of every jump-table entry that runs the handler (the interpreter rejects 64-bit overflow of those operands before executing)")
	c.Min(30)
	memPos := map[string]map[int]bool{} // handler -> stack positions covered by all its memory-size functions
	for _, e := range table {
		if e.execute == "" || strings.HasPrefix(e.execute, "call:") {
			continue
		}
		pos := map[int]bool{}
		if e.memSize != "" {
			if mf := w.FnOpt("core/vm", "", e.memSize); mf != nil {
				for _, ci := range callInstrs(mf) {
					if n, k, ok := stackOp(ci); ok && n == "Back" && k >= 0 {
						pos[k] = true
					}
				}
			}
		}
		if prev, has := memPos[e.execute]; has {
			for k := range prev {
				if !pos[k] {
					delete(prev, k)
				}
			}
		} else {
			memPos[e.execute] = pos
		}
	}
	// the jump-destination test the JUMP handlers rely on decides the width itself
	{
		has := w.Fn("core/vm", "destinations", "has")
		c.sawFunc(fname(has))
		c.sites++
		okHas := false
		for _, ci := range callInstrs(has) {
			if o := calleeObj(ci); o != nil && o.Name() == "BitLen" && callRecv(ci) == ssa.Value(has.Params[len(has.Params)-1]) {
				// every block that indexes the code with the narrowed destination is reached only past the BitLen test failing
				for _, b := range has.Blocks {
					for _, in := range b.Instrs {
						if _, isIdx := in.(*ssa.IndexAddr); isIdx {
							for _, a := range atomsOf(factsAt(b)) {
								if a.Kind == "cmp" && stripConv(a.X) == ci.Value() {
									op := a.Op
									if !a.Truth {
										op = negateCmp(op)
									}
									if n, isC := constInt(a.Y); isC && n <= 64 && (op == token.LSS || op == token.LEQ) {
										okHas = true
									}
								}
							}
						}
					}
				}
			}
		}
		c.Check(fname(has)+"#bounds-destination-width", has.Pos(), okHas, ifelse(okHas, "the code is indexed with the narrowed destination only under dest.BitLen() < 63", "destinations.has no longer rejects destinations wider than 63 bits before narrowing them: JUMP to 2^64+k lands on k"))
	}
	for _, h := range hnames {
		fn := w.FnOpt("core/vm", "", h)
		if fn == nil {
			continue
		}
		ai := bigIntAliases(fn)
		// stack position of each pop / peek / Back root
		position := func(root ssa.Value) (int, bool) {
			rc, ok := root.(*ssa.Call)
			if !ok {
				return 0, false
			}
			n, k, ok := stackOp(rc)
			if !ok {
				return 0, false
			}
			before := 0
			for _, ci := range callInstrs(fn) {
				if ci == ssa.CallInstruction(rc) {
					continue
				}
				if n2, _, ok2 := stackOp(ci); ok2 && n2 == "pop" {
					if instrDominates(ci, rc) {
						before++
					} else if ci.Block() != rc.Block() && !rc.Block().Dominates(ci.Block()) && !ci.Block().Dominates(rc.Block()) {
						continue
					}
				}
			}
			switch n {
			case "pop", "peek":
				return before, true
			case "Back":
				if k < 0 {
					return 0, false
				}
				return before + k, true
			}
			return 0, false
		}
		for _, ci := range callInstrs(fn) {
			o := calleeObj(ci)
			if o == nil || recvName(o) != "Int" || o.Pkg() == nil || o.Pkg().Path() != "math/big" || (o.Name() != "Uint64" && o.Name() != "Int64") {
				continue
			}
			recv := callRecv(ci)
			root := ai.class(recv)
			kind := originKind(root)
			if kind != "popped" && kind != "onstack" {
				continue // not a stack word (block number, fresh sums are judged at their operands)
			}
			c.sites++
			key := fmt.Sprintf("%s#%s@%s-width-decided", fname(fn), o.Name(), siteOrdinal(fn, ci, ""))
			// A: dominating wide test of the same word
			wide := false
			for _, f := range factsAtInstr(ci) {
				backward(f.Cond, func(v ssa.Value) bool {
					cc, ok := v.(*ssa.Call)
					if !ok {
						return true
					}
					co := calleeObj(cc)
					if co == nil {
						return false
					}
					switch co.Name() {
					case "Cmp", "BitLen", "IsUint64", "IsInt64", "validJumpdest", "has":
						var tested []ssa.Value
						if r := callRecv(cc); r != nil && isBigIntPtr(r.Type()) {
							tested = append(tested, r)
						}
						for _, a := range callArgs(cc) {
							if isBigIntPtr(a.Type()) {
								tested = append(tested, a)
							}
						}
						for _, tv := range tested {
							if ai.class(tv) == root {
								wide = true
							}
							// a wide test of a sum of non-negative words bounds each summand
							for _, ci2 := range callInstrs(fn) {
								if o2 := calleeObj(ci2); o2 != nil && o2.Name() == "Add" && recvName(o2) == "Int" && ci2.Value() != nil && ai.class(ci2.Value()) == ai.class(tv) && instrDominates(ci2, cc) {
									for _, a := range callArgs(ci2) {
										if ai.class(a) == root {
											wide = true
										}
									}
								}
							}
						}
					}
					return false
				})
			}
			if wide {
				c.Pass(key, ci.Pos(), "narrowed under a dominating wide test of the same word")
				continue
			}
			// B: memory operand
			if p, ok := position(root); ok && memPos[h][p] {
				c.Pass(key, ci.Pos(), fmt.Sprintf("stack position %d is covered by the memory-size function of every entry running %s", p, h))
				continue
			}
			if r, ok := map[string]string{
				"core/vm.opMstore8#Int64@1-width-decided": "MSTORE8 stores the word modulo 256: only the low byte of the narrowed value is used (val & 0xff)",
			}[key]; ok {
				c.Pass(key, ci.Pos(), "tabled: "+r)
				continue
			}
			c.Fail(key, ci.Pos(), "a 256-bit stack word is cut to 64 bits without its width having been decided: an operand of 2^64 or more behaves like its low 64 bits (BYTE(2^64, x) returns byte 0 instead of 0, a shift by 2^64 shifts by 0)")
		}
	}
	// ------------------------------------------------------------ X6
	c.Rule("C15.X6", "GATE", "memory writes store every byte of their range: math.ReadBits writes only the words its operand has (nothing at all for zero), so in package core/vm every ReadBits into EVM memory is dominated by clearing exactly that range (copy of zero bytes onto the same slice bounds) or writes into a buffer made in the same function — otherwise storing a smaller value leaves old bytes behind and MLOAD does not read back what was written")
	c.Min(1)
	{
		nRB := 0
		for _, fn := range w.FuncsIn("core/vm") {
			if strings.HasSuffix(w.fileOf(fn.Pos()), "_test.go") {
				continue
			}
			for _, ci := range callInstrs(fn) {
				o := calleeObj(ci)
				if o == nil || o.Name() != "ReadBits" || o.Pkg() == nil || !strings.HasSuffix(o.Pkg().Path(), "common/math") {
					continue
				}
				nRB++
				c.sites++
				c.sawFunc(fname(fn))
				dst := stripConv(callArgs(ci)[1])
				ok, how := false, ""
				if derivesFrom(dst, func(v ssa.Value) bool { _, isMk := v.(*ssa.MakeSlice); return isMk }) {
					if _, isSl := dst.(*ssa.Slice); !isSl {
						ok, how = true, "writes into a buffer made here"
					} else if ms, isMk := dst.(*ssa.Slice).X.(*ssa.MakeSlice); isMk && ms != nil {
						ok, how = true, "writes into a buffer made here"
					}
				}
				if dsl, isSl := dst.(*ssa.Slice); isSl && !ok {
					for _, cc := range callInstrs(fn) {
						call, isCall := cc.(*ssa.Call)
						if !isCall {
							continue
						}
						bi, isB := call.Call.Value.(*ssa.Builtin)
						if !isB || bi.Name() != "copy" {
							continue
						}
						csl, isSl2 := stripConv(call.Call.Args[0]).(*ssa.Slice)
						if !isSl2 || !samePath(csl.X, dsl.X) {
							continue
						}
						sameBound := func(a, b ssa.Value) bool {
							if a == nil || b == nil {
								return a == nil && b == nil
							}
							return a == b || termOf(a, 4) == termOf(b, 4)
						}
						if !sameBound(csl.Low, dsl.Low) || !sameBound(csl.High, dsl.High) {
							continue
						}
						// the source is all zero bytes
						zero := false
						if ssl, isS := stripConv(call.Call.Args[1]).(*ssa.Slice); isS {
							if al, isAl := ssl.X.(*ssa.Alloc); isAl {
								zero = true
								for _, r := range *al.Referrers() {
									ia, isIA := r.(*ssa.IndexAddr)
									if !isIA {
										continue
									}
									for _, rr := range *ia.Referrers() {
										if st, isSt := rr.(*ssa.Store); isSt && st.Addr == ssa.Value(ia) {
											if n, isC := constInt(st.Val); !isC || n != 0 {
												zero = false
											}
										}
									}
								}
							}
						}
						if zero && instrDominates(call, ci.(ssa.Instruction)) {
							ok, how = true, "the same range is cleared first"
						}
					}
				}
				c.Check(fmt.Sprintf("%s#ReadBits-into-cleared-range", fname(fn)), ci.Pos(), ok, ifelse(ok, how, "ReadBits writes into memory without the destination range having been cleared: a value with fewer words than the range (zero writes nothing) leaves the previous bytes in place, so a later load reads stale data"))
			}
		}
		if nRB == 0 {
			c.Undecided("core/vm#ReadBits-sites", token.NoPos, "no math.ReadBits call found in core/vm (Memory.Set32 is expected)")
		}
	}
	c15RoundE(c, c.W)
}

// stack operations of one call
func stackOp(ci ssa.CallInstruction) (name string, n int, ok bool) {
	o := calleeObj(ci)
	if o == nil || recvName(o) != "Stack" || o.Pkg() == nil || o.Pkg().Path() != full("core/vm") {
		return "", 0, false
	}
	switch o.Name() {
	case "pop", "push", "peek":
		return o.Name(), 0, true
	case "Back", "swap":
		a := callArgs(ci)
		if v, isC := constInt(a[0]); isC {
			return o.Name(), int(v), true
		}
		return o.Name(), -1, true
	case "dup":
		a := callArgs(ci)
		if v, isC := constInt(a[1]); isC {
			return o.Name(), int(v), true
		}
		return o.Name(), -1, true
	case "pushN":
		return o.Name(), -1, true
	}
	return "", 0, false
}

// checkStackEffect walks all feasible paths of a loop-free handler; handlers
// with loops are accepted only if no stack operation lies in a loop.
func checkStackEffect(w *World, fn *ssa.Function, pops, pushes int) (bool, string) {
	// stack ops in loops?
	for _, b := range fn.Blocks {
		if !inLoopBlock(b) {
			continue
		}
		for _, in := range b.Instrs {
			if ci, ok := in.(ssa.CallInstruction); ok {
				if _, _, isOp := stackOp(ci); isOp {
					return false, "a stack operation lies in a loop at " + w.Pos(ci.Pos()) + ": the stack effect depends on the trip count"
				}
			}
		}
	}
	// dataflow: (delta, deepest) per block entry must be unique
	type st struct {
		delta, deep int
		set         bool
	}
	in := make([]st, len(fn.Blocks))
	in[0] = st{0, 0, true}
	bad := ""
	work := []*ssa.BasicBlock{fn.Blocks[0]}
	visited := map[*ssa.BasicBlock]int{}
	for len(work) > 0 && bad == "" {
		b := work[len(work)-1]
		work = work[:len(work)-1]
		visited[b]++
		if visited[b] > 64 {
			break
		}
		cur := in[b.Index]
		for _, ins := range b.Instrs {
			ci, ok := ins.(ssa.CallInstruction)
			if !ok {
				continue
			}
			name, n, isOp := stackOp(ci)
			if !isOp {
				continue
			}
			touch := func(depthFromTop int) {
				d := depthFromTop - cur.delta
				if d > cur.deep {
					cur.deep = d
				}
			}
			switch name {
			case "pop":
				touch(1)
				cur.delta--
			case "push":
				cur.delta++
			case "peek":
				touch(1)
			case "Back":
				if n < 0 {
					bad = "Back with a non-constant depth at " + w.Pos(ci.Pos())
				}
				touch(n + 1)
			case "swap":
				if n < 0 {
					bad = "swap with a non-constant depth at " + w.Pos(ci.Pos())
				}
				touch(n)
			case "dup":
				if n < 0 {
					bad = "dup with a non-constant depth at " + w.Pos(ci.Pos())
				}
				touch(n)
				cur.delta++
			case "pushN":
				bad = "pushN at " + w.Pos(ci.Pos())
			}
		}
		if r, ok := b.Instrs[len(b.Instrs)-1].(*ssa.Return); ok && b != fn.Recover {
			// only returns whose error may be nil
			errNil := true
			if len(r.Results) == 2 {
				if cv, isC := stripConv(r.Results[1]).(*ssa.Const); !isC || !cv.IsNil() {
					errNil = false
					// forwarded errors of calls are failures for this purpose only if definitely non-nil
					if _, isCall := stripConv(r.Results[1]).(*ssa.Call); isCall {
						if !isErrorCtor(stripConv(r.Results[1]).(*ssa.Call)) {
							errNil = true
						}
					}
					if _, isPhi := stripConv(r.Results[1]).(*ssa.Phi); isPhi {
						errNil = true
					}
				}
			}
			if errNil {
				if cur.delta != pushes-pops {
					bad = fmt.Sprintf("a path returning at %s changes the stack height by %+d, declared %+d (pops %d, pushes %d)", w.Pos(r.Pos()), cur.delta, pushes-pops, pops, pushes)
				}
				if cur.deep > pops {
					bad = fmt.Sprintf("a path returning at %s touches stack depth %d, declared pops %d: it disturbs an item that is not its operand", w.Pos(r.Pos()), cur.deep, pops)
				}
			}
		}
		for _, s := range b.Succs {
			if !in[s.Index].set {
				in[s.Index] = st{cur.delta, cur.deep, true}
				work = append(work, s)
			} else if in[s.Index].delta != cur.delta {
				bad = fmt.Sprintf("paths joining at %s have different stack heights (%+d vs %+d)", w.Pos(s.Instrs[0].Pos()), in[s.Index].delta, cur.delta)
			} else if cur.deep > in[s.Index].deep {
				in[s.Index].deep = cur.deep
				work = append(work, s)
			}
		}
	}
	return bad == "", bad
}

func inLoopBlock(b *ssa.BasicBlock) bool {
	seen := map[*ssa.BasicBlock]bool{}
	work := append([]*ssa.BasicBlock(nil), b.Succs...)
	for len(work) > 0 {
		x := work[len(work)-1]
		work = work[:len(work)-1]
		if x == b {
			return true
		}
		if seen[x] {
			continue
		}
		seen[x] = true
		work = append(work, x.Succs...)
	}
	return false
}

// alias classes of big.Int values inside one handler
type aliasInfo struct {
	root map[ssa.Value]ssa.Value
}

func bigIntAliases(fn *ssa.Function) *aliasInfo {
	ai := &aliasInfo{root: map[ssa.Value]ssa.Value{}}
	var find func(v ssa.Value) ssa.Value
	find = func(v ssa.Value) ssa.Value {
		for {
			r, ok := ai.root[v]
			if !ok || r == v {
				return v
			}
			v = r
		}
	}
	union := func(a, b ssa.Value) {
		ra, rb := find(a), find(b)
		if ra != rb {
			ai.root[ra] = rb
		}
	}
	for _, b := range fn.Blocks {
		for _, in := range b.Instrs {
			switch x := in.(type) {
			case *ssa.Call:
				o := calleeObj(x)
				if o == nil {
					continue
				}
				if recvName(o) == "Int" && o.Pkg() != nil && o.Pkg().Path() == "math/big" {
					if isBigIntPtr(x.Type()) {
						if r := callRecv(x); r != nil {
							union(x, r)
						}
					}
				}
				if o.Pkg() != nil && o.Pkg().Path() == full("common/math") && (o.Name() == "U256" || o.Name() == "S256") {
					union(x, x.Call.Args[0])
				}
			case *ssa.Phi:
				for _, e := range x.Edges {
					if isBigIntPtr(e.Type()) {
						union(x, e)
					}
				}
			}
		}
	}
	for v := range ai.root {
		ai.root[v] = find(v)
	}
	return ai
}

func (ai *aliasInfo) class(v ssa.Value) ssa.Value {
	for {
		r, ok := ai.root[v]
		if !ok || r == v {
			return v
		}
		v = r
	}
}

func isBigIntPtr(t types.Type) bool {
	p, ok := t.(*types.Pointer)
	if !ok {
		return false
	}
	n, ok := p.Elem().(*types.Named)
	return ok && n.Obj().Name() == "Int" && n.Obj().Pkg() != nil && n.Obj().Pkg().Path() == "math/big"
}

// originKind classifies where an alias class comes from.
func originKind(root ssa.Value) string {
	switch x := root.(type) {
	case *ssa.Call:
		o := calleeObj(x)
		if o == nil {
			return "unknown:dynamic call"
		}
		switch {
		case recvName(o) == "Stack" && o.Name() == "pop":
			return "popped"
		case recvName(o) == "Stack" && (o.Name() == "peek" || o.Name() == "Back"):
			return "onstack"
		case recvName(o) == "intPool" && (o.Name() == "get" || o.Name() == "getZero"):
			return "pool"
		case o.Pkg() != nil && o.Pkg().Path() == "math/big" && (o.Name() == "NewInt"):
			return "fresh"
		case o.Pkg() != nil && o.Pkg().Path() == full("common/math") && o.Name() != "U256" && o.Name() != "S256":
			return "fresh"
		case o.Name() == "Big" || o.Name() == "BigPow" || o.Name() == "Big0" || o.Name() == "Big1" || o.Name() == "Big32" || o.Name() == "Big256" || o.Name() == "Big257":
			return "fresh"
		case o.Name() == "GetBalance" || o.Name() == "Balance" || o.Name() == "Value" || o.Name() == "GasPrice" || o.Name() == "GetDelegationBalance":
			return "foreign:" + o.Name() + "()"
		}
		return "foreign:" + o.Name() + "()"
	case *ssa.Alloc:
		return "fresh"
	case *ssa.UnOp:
		if f, _ := loadedField(x); f != nil {
			return "foreign:field " + f.Name()
		}
		if _, ok := x.X.(*ssa.Global); ok {
			return "foreign:global"
		}
	case *ssa.Parameter:
		return "foreign:parameter"
	}
	return "unknown"
}

// checkPoolOwnership runs the typestate along the handler's instructions in
// dominance order (handlers are small; joins take the union of states).
func checkPoolOwnership(w *World, fn *ssa.Function) (bool, string) {
	ai := bigIntAliases(fn)
	type state struct {
		put, pushed map[ssa.Value]bool
	}
	clone := func(s state) state {
		n := state{map[ssa.Value]bool{}, map[ssa.Value]bool{}}
		for k := range s.put {
			n.put[k] = true
		}
		for k := range s.pushed {
			n.pushed[k] = true
		}
		return n
	}
	in := map[*ssa.BasicBlock]state{fn.Blocks[0]: {map[ssa.Value]bool{}, map[ssa.Value]bool{}}}
	bad := ""
	// reverse postorder: every block is visited after all its predecessors (handlers have no stack
	// operations in loops), so a join sees the union of what its branches pushed and put
	var order []*ssa.BasicBlock
	{
		seen := map[*ssa.BasicBlock]bool{}
		var post []*ssa.BasicBlock
		var dfs func(b *ssa.BasicBlock)
		dfs = func(b *ssa.BasicBlock) {
			if seen[b] {
				return
			}
			seen[b] = true
			for _, s := range b.Succs {
				dfs(s)
			}
			post = append(post, b)
		}
		dfs(fn.Blocks[0])
		for i := len(post) - 1; i >= 0; i-- {
			order = append(order, post[i])
		}
	}
	putArgs := func(ci ssa.CallInstruction) []ssa.Value {
		var out []ssa.Value
		a := callArgs(ci)
		if len(a) != 1 {
			return out
		}
		if sl, ok := a[0].(*ssa.Slice); ok {
			if al, ok := sl.X.(*ssa.Alloc); ok {
				for _, r := range *al.Referrers() {
					if ia, ok := r.(*ssa.IndexAddr); ok {
						for _, r2 := range *ia.Referrers() {
							if st, ok := r2.(*ssa.Store); ok && st.Addr == ia {
								out = append(out, st.Val)
							}
						}
					}
				}
			}
		}
		return out
	}
	for _, b := range order {
		cur, ok := in[b]
		if !ok {
			// join of predecessors
			cur = state{map[ssa.Value]bool{}, map[ssa.Value]bool{}}
			for _, p := range b.Preds {
				if ps, has := in[p]; has {
					_ = ps
				}
			}
		}
		cur = clone(cur)
		for _, ins := range b.Instrs {
			// any use of a value in a put class
			if bad == "" {
				for _, op := range ins.Operands(nil) {
					if op == nil || *op == nil || !isBigIntPtr((*op).Type()) {
						continue
					}
					if cur.put[ai.class(*op)] {
						if ci, isCall := ins.(ssa.CallInstruction); isCall {
							if o := calleeObj(ci); o != nil && recvName(o) == "intPool" && o.Name() == "put" {
								continue
							}
						}
						if _, isStore := ins.(*ssa.Store); isStore {
							continue // filling the varargs array of a later put
						}
						bad = "a value is used at " + w.Pos(ins.Pos()) + " after it was returned to the integer pool: the pool may hand it out again"
					}
				}
			}
			ci, isCall := ins.(ssa.CallInstruction)
			if !isCall {
				continue
			}
			o := calleeObj(ci)
			if o == nil {
				continue
			}
			if _, isDefer := ins.(*ssa.Defer); isDefer {
				// a deferred put runs when the handler returns: ownership is
				// judged against everything pushed anywhere in the handler
				if recvName(o) == "intPool" && o.Name() == "put" {
					for _, v := range putArgs(ci) {
						cl := ai.class(v)
						k := originKind(cl)
						pushedAnywhere := false
						for _, b2 := range fn.Blocks {
							for _, in2 := range b2.Instrs {
								if c2, ok := in2.(*ssa.Call); ok {
									if o2 := calleeObj(c2); o2 != nil && recvName(o2) == "Stack" && o2.Name() == "push" && ai.class(callArgs(c2)[0]) == cl {
										pushedAnywhere = true
									}
								}
							}
						}
						switch {
						case pushedAnywhere || k == "onstack":
							bad = "a value that is on the stack when the handler returns is returned to the integer pool by the deferred put at " + w.Pos(ci.Pos())
						case strings.HasPrefix(k, "foreign"):
							bad = "a value not owned by the handler (" + k[8:] + ") is put into the integer pool at " + w.Pos(ci.Pos())
						}
					}
				}
				continue
			}
			switch {
			case recvName(o) == "intPool" && o.Name() == "put":
				for _, v := range putArgs(ci) {
					cl := ai.class(v)
					k := originKind(cl)
					switch {
					case cur.put[cl]:
						bad = "a value is returned to the integer pool twice at " + w.Pos(ci.Pos())
					case cur.pushed[cl] || k == "onstack":
						bad = "a value that is still on the stack is returned to the integer pool at " + w.Pos(ci.Pos()) + ": a later operation gets it from the pool and overwrites the stack item"
					case strings.HasPrefix(k, "foreign"):
						bad = "a value not owned by the handler (" + k[8:] + ") is put into the integer pool at " + w.Pos(ci.Pos())
					}
					cur.put[cl] = true
				}
			case recvName(o) == "Stack" && o.Name() == "push":
				v := callArgs(ci)[0]
				cl := ai.class(v)
				k := originKind(cl)
				switch {
				case cur.put[cl]:
					bad = "a value already returned to the integer pool is pushed at " + w.Pos(ci.Pos())
				case strings.HasPrefix(k, "foreign"):
					bad = "a *big.Int owned elsewhere (" + k[8:] + ") is pushed onto the stack at " + w.Pos(ci.Pos()) + ": the next opcode that writes into its operand rewrites that value in place"
				case strings.HasPrefix(k, "unknown"):
					bad = "the origin of the value pushed at " + w.Pos(ci.Pos()) + " cannot be classified (" + k + ")"
				}
				cur.pushed[cl] = true
			}
			if bad != "" {
				break
			}
		}
		for _, s := range b.Succs {
			if old, has := in[s]; has {
				// union
				for k := range cur.put {
					old.put[k] = true
				}
				for k := range cur.pushed {
					old.pushed[k] = true
				}
			} else {
				in[s] = clone(cur)
			}
		}
		if bad != "" {
			break
		}
	}
	return bad == "", bad
}

// checkU256: every class that receives a range-escaping operation and ends on
// the stack (pushed, or peeked and modified in place) is passed to math.U256
// (or reduced by Mod/And/SetUint64) on every path after the last such operation.
func checkU256(w *World, fn *ssa.Function) (bool, string) {
	ai := bigIntAliases(fn)
	escaping := map[string]bool{"Add": true, "Sub": true, "Mul": true, "Lsh": true, "Neg": true, "Not": true, "Exp": true}
	reducing := map[string]bool{"Mod": true, "And": true, "SetUint64": true, "Rsh": true, "Div": true, "SetBytes": true, "Set": true}
	for _, b := range fn.Blocks {
		for _, in := range b.Instrs {
			cc, ok := in.(*ssa.Call)
			if !ok {
				continue
			}
			o := calleeObj(cc)
			if o == nil || recvName(o) != "Int" || !escaping[o.Name()] {
				continue
			}
			r := callRecv(cc)
			if r == nil {
				continue
			}
			cl := ai.class(r)
			// does this class end on the stack?
			k := originKind(cl)
			onStack := k == "onstack"
			var reducers []ssa.Instruction
			for _, b2 := range fn.Blocks {
				for _, in2 := range b2.Instrs {
					c2, ok := in2.(ssa.CallInstruction)
					if !ok {
						continue
					}
					o2 := calleeObj(c2)
					if o2 == nil {
						continue
					}
					if recvName(o2) == "Stack" && o2.Name() == "push" && ai.class(callArgs(c2)[0]) == cl {
						onStack = true
					}
					if o2.Pkg() != nil && o2.Pkg().Path() == full("common/math") && o2.Name() == "U256" && ai.class(c2.Common().Args[0]) == cl {
						reducers = append(reducers, in2)
					}
					if recvName(o2) == "Int" && reducing[o2.Name()] {
						if r2 := callRecv(c2); r2 != nil && ai.class(r2) == cl {
							reducers = append(reducers, in2)
						}
					}
				}
			}
			if !onStack {
				continue
			}
			if !mustPassAfter(cc, reducers) {
				return false, "the result of big.Int." + o.Name() + " at " + w.Pos(cc.Pos()) + " stays on the stack without being reduced modulo 2^256 on some path"
			}
		}
	}
	return true, ""
}

func c15Variants() []Variant {
	jt := "core/vm/jump_table.go"
	ins := "core/vm/instructions.go"
	return []Variant{
		{Name: "mul-cheap", File: jt, Old: "		MUL: {\n			execute:     opMul,\n			constantGas: GasFastStep,", New: "		MUL: {\n			execute:     opMul,\n			constantGas: GasFastestStep,", Rule: "C15.X1", Construct: "MUL"},
		{Name: "sub-handled-by-add", File: jt, Old: "		SUB: {\n			execute:     opSub,", New: "		SUB: {\n			execute:     opAdd,", Rule: "C15.X1", Construct: "SUB"},
		{Name: "add-arity", File: jt, Old: "		ADD: {\n			execute:     opAdd,\n			constantGas: GasFastestStep,\n			minStack:    minStack(2, 1),", New: "		ADD: {\n			execute:     opAdd,\n			constantGas: GasFastestStep,\n			minStack:    minStack(1, 1),", Rule: "C15.X1", Construct: "ADD"},
		{Name: "lt-peeks-twice", File: ins, Old: "func opLt(pc *uint64, interpreter *EVMInterpreter, contract *Contract, memory *Memory, stack *Stack) ([]byte, error) {\n	x, y := stack.pop(), stack.peek()", New: "func opLt(pc *uint64, interpreter *EVMInterpreter, contract *Contract, memory *Memory, stack *Stack) ([]byte, error) {\n	x, y := stack.peek(), stack.peek()", Rule: "C15.X2", Construct: "opLt"},
		{Name: "add-puts-stack-item", File: ins, Old: "	math.U256(y.Add(x, y))\n\n	interpreter.intPool.put(x)", New: "	math.U256(y.Add(x, y))\n\n	interpreter.intPool.put(x, y)", Rule: "C15.X3", Construct: "opAdd"},
		{Name: "balance-pushed-itself", File: ins, Old: "	slot.Set(interpreter.evm.StateDB.GetBalance(common.BigToAddress(slot)))", New: "	stack.pop()\n	stack.push(interpreter.evm.StateDB.GetBalance(common.BigToAddress(slot)))", Rule: "C15.X3", Construct: "opBalance"},
		{Name: "add-without-reduction", File: ins, Old: "	x, y := stack.pop(), stack.peek()\n	math.U256(y.Add(x, y))\n", New: "	x, y := stack.pop(), stack.peek()\n	y.Add(x, y)\n", Rule: "C15.X4", Construct: "opAdd"},
	}
}

// c15RoundE: X7 (memory fee: the floor applies to one size's square) and X8 (EXP walks every bit of every word).
func c15RoundE(c *Ctx, w *World) {
	c.Rule("C15.X7", "SHAPE", "the specified gas: the memory fee is Cmem(new) − Cmem(old) with Cmem(w) = 3w + floor(w²/512), the floor taken for each size separately — in memoryGasCost every division by the quadratic divisor has the square of ONE word count as its dividend (w*w with both factors the same value). Dividing a difference of squares instead under-charges by 1 whenever new² mod 512 < old² mod 512 (memory grown in two steps to 23 words or more)")
	c.Min(1)
	{
		mg := w.Fn("core/vm", "", "memoryGasCost")
		c.sawFunc(fname(mg))
		n := 0
		for _, in := range allInstrs(mg) {
			bo, ok := in.(*ssa.BinOp)
			if !ok || bo.Op != token.QUO {
				continue
			}
			if k, isK := constInt(bo.Y); !isK || k != 512 {
				continue
			}
			n++
			c.sites++
			sq, isMul := stripConvNoBind(bo.X).(*ssa.BinOp)
			ok2 := isMul && sq.Op == token.MUL && stripConvNoBind(sq.X) == stripConvNoBind(sq.Y)
			c.Check(fmt.Sprintf("%s#quadratic-term-%d-floors-one-square", fname(mg), n), bo.Pos(), ok2, ifelse(ok2, "the dividend is the square of one word count", "the dividend of the quadratic term is not the square of a single word count: flooring a difference of squares is not the difference of the floored squares"))
		}
		if n == 0 {
			c.Undecided(fname(mg)+"#quadratic-term", mg.Pos(), "no division by the quadratic coefficient (512) found in memoryGasCost")
		}
	}

	c.Rule("C15.X8", "BOUND", "EXP for exponents wider than a machine word: math.Exp squares the base once per BIT POSITION of every exponent word — the loop around base.Mul(base, base) is a counted loop with a constant bound (wordBits), not one that stops when the rest of the word is zero. Stopping early skips the squarings for the leading zero bits of a lower word, so higher words act on the wrong power of the base: 2^(2^64) yields 2 instead of 0")
	c.Min(1)
	{
		ex := w.Fn("common/math", "", "Exp")
		c.sawFunc(fname(ex))
		n := 0
		type sq struct {
			fn *ssa.Function
			ci ssa.CallInstruction
		}
		var sqs []sq
		scope := []*ssa.Function{ex}
		for _, ci := range callInstrs(ex) {
			if g := ci.Common().StaticCallee(); g != nil && g.Pkg == ex.Pkg && g.Blocks != nil && g != ex {
				scope = append(scope, g) // the per-word loop split off into a helper
			}
		}
		for _, g := range scope {
			for _, ci := range callInstrs(g) {
				o := calleeObj(ci)
				if o == nil || o.Name() != "Mul" || o.Pkg() == nil || o.Pkg().Path() != "math/big" {
					continue
				}
				a := callArgs(ci)
				if len(a) != 2 || stripConvNoBind(a[0]) != stripConvNoBind(a[1]) {
					continue // not the squaring
				}
				sqs = append(sqs, sq{g, ci})
			}
		}
		for _, q := range sqs {
			ex, ci := q.fn, q.ci
			var hdr *ssa.BasicBlock
			for _, b := range ex.Blocks {
				if isLoopHeader(b) && naturalLoop(b)[ci.Block()] {
					if hdr == nil || naturalLoop(hdr)[b] {
						hdr = b
					}
				}
			}
			n++
			c.sites++
			counted := false
			if hdr != nil {
				loop := naturalLoop(hdr)
				for b := range loop {
					iff, isIf := b.Instrs[len(b.Instrs)-1].(*ssa.If)
					if !isIf {
						continue
					}
					exits := false
					for _, sc := range b.Succs {
						if !loop[sc] {
							exits = true
						}
					}
					if !exits {
						continue
					}
					if bo, isB := iff.Cond.(*ssa.BinOp); isB && (bo.Op == token.LSS || bo.Op == token.LEQ || bo.Op == token.GTR || bo.Op == token.GEQ || bo.Op == token.NEQ) {
						// a counter: a value of the loop head that is stepped by a constant each round and starts at a
						// constant, compared with a constant — not with anything that depends on the exponent word
						for _, side := range [][2]ssa.Value{{bo.X, bo.Y}, {bo.Y, bo.X}} {
							if _, isK := constInt(side[1]); !isK {
								continue
							}
							iv := stripConvNoBind(side[0])
							if st, isSt := iv.(*ssa.BinOp); isSt && (st.Op == token.ADD || st.Op == token.SUB) {
								iv = stripConvNoBind(st.X) // the test is made on the stepped value
							}
							ph, isPhi := iv.(*ssa.Phi)
							if !isPhi {
								continue
							}
							stepped, consts := false, true
							for _, e := range ph.Edges {
								e = stripConvNoBind(e)
								if st, isSt := e.(*ssa.BinOp); isSt && (st.Op == token.ADD || st.Op == token.SUB) && stripConvNoBind(st.X) == ssa.Value(ph) {
									if _, isK := constInt(st.Y); isK {
										stepped = true
										continue
									}
								}
								if _, isK := constInt(e); !isK {
									consts = false
								}
							}
							if stepped && consts {
								counted = true
							}
						}
					}
				}
			}
			c.Check(fmt.Sprintf("%s#squaring-%d-once-per-bit-position", fname(ex), n), ci.Pos(), counted, ifelse(counted, "the squaring sits in a loop counted up to the word size", "the loop around the squaring is not counted up to the word size: the squarings for the leading zero bits of an exponent word are skipped"))
		}
		if n == 0 {
			c.Undecided(fname(ex)+"#squaring", ex.Pos(), "no squaring base.Mul(base, base) found in math.Exp")
		}
	}
}

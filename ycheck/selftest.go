package main

import (
	"encoding/json"
	"fmt"
	"os"
	"path/filepath"
	"regexp"
	"runtime"
	"sort"
	"strings"
)

// Variant is one seeded edit of the current source, applied in memory through
// a go/packages overlay. Nothing is written to the repository and nothing is
// executed; the variant is only analysed. The named rule must fire on it.
type Variant struct {
	Name      string
	File      string // path relative to the repository root
	Old, New  string // first occurrence of Old is replaced by New
	Edits     [][2]string
	Patch     string // alternatively: a unified diff (path relative to the verif root) applied in memory
	Rule      string // rule expected to report a violation
	Construct string // substring expected in the violated construct ("" = any)
}

// runSelfTest analyses every variant of a property. A variant whose anchor
// text is no longer in the source is skipped (the source was edited; that is
// not a defect of the code). A variant on which the rule stays silent makes the
// run undecided: the checker, not the code, is at fault.
func runSelfTest(c *Ctx, p *propDef, verif string) {
	base := map[string]bool{}
	for _, o := range c.Obs {
		if o.Status == Violated {
			base[o.Rule+"|"+o.Construct] = true
		}
	}
	variants := append(p.Variants(), seededVariants(verif, p.ID)...)
	for _, v := range variants {
		res := SelfTestResult{Variant: v.Name, Rule: v.Rule, Expect: v.Construct}
		overlay := map[string][]byte{}
		stale := false
		if v.Patch != "" {
			files, err := parseUnifiedDiff(filepath.Join(verif, v.Patch))
			if err != nil {
				res.Skipped = "patch unreadable: " + err.Error()
				c.selfTest = append(c.selfTest, res)
				continue
			}
			for rel, hunks := range files {
				path := filepath.Join(c.W.RepoDir, rel)
				src, err := os.ReadFile(path)
				if err != nil {
					stale = true
					break
				}
				text := string(src)
				for _, h := range hunks {
					if !strings.Contains(text, h[0]) {
						stale = true
						break
					}
					text = strings.Replace(text, h[0], h[1], 1)
				}
				overlay[path] = []byte(text)
			}
		} else {
			path := filepath.Join(c.W.RepoDir, v.File)
			src, err := os.ReadFile(path)
			if err != nil {
				res.Skipped = "file not present: " + v.File
				c.selfTest = append(c.selfTest, res)
				continue
			}
			edits := v.Edits
			if v.Old != "" {
				edits = append([][2]string{{v.Old, v.New}}, edits...)
			}
			text := string(src)
			for _, e := range edits {
				if !strings.Contains(text, e[0]) {
					stale = true
					break
				}
				text = strings.Replace(text, e[0], e[1], 1)
			}
			overlay[path] = []byte(text)
		}
		if stale {
			fmt.Printf("  selftest: variant %s skipped: its anchor text is not in the current source\n", v.Name)
			res.Skipped = "anchor text of the variant is not in the current source"
			c.selfTest = append(c.selfTest, res)
			continue
		}
		w2, err := loadWorld(c.W.RepoDir, overlay, "")
		if err != nil {
			res.Skipped = "variant does not load: " + firstLine(err.Error())
			c.selfTest = append(c.selfTest, res)
			c.curRule = v.Rule
			c.add("selftest:"+v.Name, 0, Undecided, "seeded variant does not type-check: "+err.Error())
			continue
		}
		c2 := runRules(w2, p, "quick")
		theWorld = c.W
		for _, o := range c2.Obs {
			if o.Status == Violated && o.Rule == v.Rule && strings.Contains(o.Construct, v.Construct) && !base[o.Rule+"|"+o.Construct] {
				res.Fired = true
				res.Detail = o.Construct + ": " + o.Detail
				break
			}
		}
		if !res.Fired {
			var others []string
			for _, o := range c2.Obs {
				if o.Status != Discharged {
					others = append(others, fmt.Sprintf("%s/%s/%s", o.Rule, o.Construct, o.Status))
				}
			}
			res.Detail = "rule stayed silent; non-discharged on the variant: " + strings.Join(others, ", ")
			c.curRule = v.Rule
			c.add("selftest:"+v.Name, 0, Undecided, "the rule did not fire on a seeded variant that breaks it ("+res.Detail+")")
		}
		c.selfTest = append(c.selfTest, res)
		w2 = nil
		c2 = nil
		runtime.GC()
	}
}

// runNeutralTest analyses the behaviour-preserving refactorings filed for the
// property (<verif>/neutral/<id>-k and w2-<id>-k): applied in memory (with the
// rename normalisation, as in a normal run), the property's rules must report
// nothing they do not report on the working tree. A rule that speaks up makes
// the run undecided: the checker, not the code, is at fault.
func runNeutralTest(c *Ctx, p *propDef, verif string) {
	base := map[string]bool{}
	for _, o := range c.Obs {
		if o.Status == Violated || o.Status == Undecided {
			base[o.Rule+"|"+o.Construct] = true
		}
	}
	var dirs []string
	for _, pat := range []string{p.ID + "-*", "w?-" + p.ID + "-*"} {
		m, _ := filepath.Glob(filepath.Join(verif, "neutral", pat, "patch.diff"))
		dirs = append(dirs, m...)
	}
	sort.Strings(dirs)
	for _, pf := range dirs {
		name := "neutral:" + filepath.Base(filepath.Dir(pf))
		res := SelfTestResult{Variant: name, Rule: "(none may fire)", Expect: "silence"}
		files, err := parseUnifiedDiff(pf)
		if err != nil {
			res.Skipped = "patch unreadable"
			c.selfTest = append(c.selfTest, res)
			continue
		}
		overlay := map[string][]byte{}
		stale := false
		for rel, hunks := range files {
			path := filepath.Join(c.W.RepoDir, rel)
			src, err := os.ReadFile(path)
			text := string(src)
			if err != nil {
				// a file the refactoring creates
				text = ""
			}
			for _, h := range hunks {
				if h[0] == "" && text == "" {
					text = h[1]
					continue
				}
				if !strings.Contains(text, h[0]) {
					stale = true
					break
				}
				text = strings.Replace(text, h[0], h[1], 1)
			}
			overlay[path] = []byte(text)
		}
		if stale {
			res.Skipped = "the context of the refactoring is not in the current source"
			c.selfTest = append(c.selfTest, res)
			continue
		}
		w2, err := loadWorldNormalized(c.W.RepoDir, overlay, "")
		if err != nil {
			res.Skipped = "variant does not load: " + firstLine(err.Error())
			c.selfTest = append(c.selfTest, res)
			theWorld = c.W
			continue
		}
		c2 := runRules(w2, p, "quick")
		theWorld = c.W
		var spoke []string
		for _, o := range c2.Obs {
			if (o.Status == Violated || o.Status == Undecided) && !base[o.Rule+"|"+o.Construct] {
				spoke = append(spoke, fmt.Sprintf("%s/%s/%s", o.Rule, o.Construct, o.Status))
			}
		}
		res.Fired = len(spoke) == 0 // "fired" = behaved as expected
		if len(spoke) > 0 {
			res.Detail = "reported on a behaviour-preserving refactoring: " + strings.Join(spoke, ", ")
			c.curRule = p.ID + ".neutral"
			c.add("selftest:"+name, 0, Undecided, res.Detail)
		} else {
			res.Detail = "silent, as it must be"
		}
		c.selfTest = append(c.selfTest, res)
		w2, c2 = nil, nil
		runtime.GC()
	}
}

func firstLine(s string) string {
	if i := strings.IndexByte(s, '\n'); i >= 0 {
		return s[:i]
	}
	return s
}

// seededVariants turns every filed seeded change of a property
// (<verif>/seeded/<id>/{patch.diff,meta.json}) into a self-test variant: the
// rule named first in meta.detected_by must fire on the patched source.
func seededVariants(verif, prop string) []Variant {
	dirs, _ := filepath.Glob(filepath.Join(verif, "seeded", "*", "meta.json"))
	sort.Strings(dirs)
	ruleRe := regexp.MustCompile(`C\d\d\.[A-Z]\d+`)
	var out []Variant
	for _, m := range dirs {
		b, err := os.ReadFile(m)
		if err != nil {
			continue
		}
		var meta struct {
			ID         string `json:"id"`
			Property   string `json:"property"`
			DetectedBy string `json:"detected_by"`
		}
		if json.Unmarshal(b, &meta) != nil || meta.Property != prop {
			continue
		}
		rule := ruleRe.FindString(meta.DetectedBy)
		if rule == "" || !strings.HasPrefix(rule, prop+".") {
			continue
		}
		out = append(out, Variant{Name: "seeded:" + meta.ID, Patch: filepath.Join("seeded", meta.ID, "patch.diff"), Rule: rule})
	}
	return out
}

// parseUnifiedDiff returns, per file, the (old block, new block) text pairs of
// the hunks of a git diff. Blocks include the context lines, so a hunk applies
// only where its surroundings are unchanged.
func parseUnifiedDiff(path string) (map[string][][2]string, error) {
	b, err := os.ReadFile(path)
	if err != nil {
		return nil, err
	}
	out := map[string][][2]string{}
	var file string
	var oldB, newB strings.Builder
	inHunk := false
	flush := func() {
		if inHunk && file != "" {
			out[file] = append(out[file], [2]string{oldB.String(), newB.String()})
		}
		oldB.Reset()
		newB.Reset()
		inHunk = false
	}
	for _, ln := range strings.SplitAfter(string(b), "\n") {
		switch {
		case strings.HasPrefix(ln, "diff --git"), strings.HasPrefix(ln, "index "), strings.HasPrefix(ln, "--- "):
			flush()
		case strings.HasPrefix(ln, "+++ "):
			flush()
			file = strings.TrimSpace(strings.TrimPrefix(strings.TrimPrefix(ln, "+++ "), "b/"))
		case strings.HasPrefix(ln, "@@"):
			flush()
			inHunk = true
		case inHunk && strings.HasPrefix(ln, " "):
			oldB.WriteString(ln[1:])
			newB.WriteString(ln[1:])
		case inHunk && strings.HasPrefix(ln, "-"):
			oldB.WriteString(ln[1:])
		case inHunk && strings.HasPrefix(ln, "+"):
			newB.WriteString(ln[1:])
		case inHunk && strings.HasPrefix(ln, "\\"):
			// "\ No newline at end of file"
		}
	}
	flush()
	if len(out) == 0 {
		return nil, fmt.Errorf("no hunks in %s", path)
	}
	return out, nil
}

package main

import (
	"fmt"
	"go/constant"
	"go/token"
	"go/types"
	"sort"
	"strings"

	"golang.org/x/tools/go/ssa"
)

// C17 — transactions are authentic, applied at most once, charged exactly.

func init() {
	register(&propDef{
		ID:          "C17",
		Explanation: "The balance equation as arithmetic is not decided. Decided (structure, SSA of core/types, core, staking): the signing hash covers every field of the transaction payload except the signature values and the cached hash, plus the network id (T1); sender recovery is dominated by the replay-protection and network-id tests, always demands low-s (homestead) signatures, validates the signature values before recovering, and the sender cache is consulted only for an equal signer and filled only after a successful recovery (T2); preCheck/buyGas refuse before touching balance, gas pool or gas counters, the nonce comparison dominates the purchase, and GasPool.SubGas mutates only when it succeeds (T3); each converter raises the sender's nonce by exactly one before dispatching to a handler / the EVM (T4); the gas figure that becomes receipt.GasUsed, block gas used and gas rewards is one value, is what the sender finally paid for, and refundGas returns the same remaining gas to the sender and to the block gas pool with the refund capped at half the gas used (T5 — open finding F18: the figure is taken before the refund).",
		Assumptions: []string{"crypto.ValidateSignatureValues rejects high-s when homestead is true", "crypto.Ecrecover recovers the key that signed the hash"},
		Run:         runC17,
		Variants:    c17Variants,
	})
}

func runC17(c *Ctx) {
	w := c.W
	// ------------------------------------------------------------ T1
	c.Rule("C17.T1", "EXHAUSTIVE", "YouSigner.Hash reads every field of txdata except V, R, S and Hash, and the signer's network id")
	c.Min(1)
	hf := w.Fn("core/types", "YouSigner", "Hash")
	c.sawFunc(fname(hf))
	td := w.Struct("core/types", "txdata")
	read := map[string]bool{}
	netID := false
	for _, b := range hf.Blocks {
		for _, in := range b.Instrs {
			if v := valueOf(in); v != nil {
				if f, _ := loadedField(v); f != nil {
					if ownerOfField(td, f) {
						read[f.Name()] = true
					}
					if f.Name() == "networkId" {
						netID = true
					}
				}
			}
			if fv, ok := in.(*ssa.Field); ok {
				if f := structField(fv.X.Type(), fv.Field); f != nil && f.Name() == "networkId" {
					netID = true
				}
			}
		}
	}
	var missing, extra []string
	for i := 0; i < td.NumFields(); i++ {
		n := td.Field(i).Name()
		sig := n == "V" || n == "R" || n == "S" || n == "Hash"
		if !sig && !read[n] {
			missing = append(missing, n)
		}
		if sig && read[n] {
			extra = append(extra, n)
		}
	}
	sort.Strings(missing)
	c.sites++
	ok1 := len(missing) == 0 && len(extra) == 0 && netID
	c.Check(fname(hf)+"#signed-fields", hf.Pos(), ok1, ifelse(ok1, "all payload fields and the network id are hashed", "the signing hash omits "+strings.Join(missing, ", ")+ifelse(netID, "", " networkId")+ifelse(len(extra) > 0, " and includes signature field(s) "+strings.Join(extra, ","), "")+": that field can be changed without invalidating the signature"))

	// ------------------------------------------------------------ T2
	c.Rule("C17.T2", "GATE", "YouSigner.Sender recovers only a protected transaction of its own network id and demands homestead (low-s) rules; recoverPlain validates the signature values with the homestead flag before Ecrecover; types.Sender returns a cached sender only for an equal signer and caches only a successfully recovered sender")
	c.Min(5)
	sf := w.Fn("core/types", "YouSigner", "Sender")
	rp := w.Fn("core/types", "", "recoverPlain")
	c.sawFunc(fname(sf))
	c.sawFunc(fname(rp))
	for _, ci := range callsTo(sf, rp.Object().(*types.Func)) {
		atoms := atomsOf(factsAtInstr(ci))
		prot, net := false, false
		for _, a := range atoms {
			if a.Kind == "true" && a.Truth {
				if cc, ok := stripConv(a.X).(*ssa.Call); ok && calleeObj(cc) != nil && calleeObj(cc).Name() == "Protected" {
					prot = true
				}
			}
			if a.Kind == "eq" && a.Truth {
				if cc, ok := stripConv(a.X).(*ssa.Call); ok && calleeObj(cc) != nil && calleeObj(cc).Name() == "Cmp" {
					if n, isC := constInt(a.Y); isC && n == 0 && callChainMentions(cc, "NetworkId") {
						net = true
					}
				}
			}
		}
		// the homestead (low-s) flag that reaches ValidateSignatureValues on this path is the constant true:
		// either recoverPlain passes true itself, or it passes a parameter for which this call supplies true
		isTrue := func(v ssa.Value) bool {
			cv, ok := v.(*ssa.Const)
			return ok && cv.Value != nil && cv.Value.Kind() == constant.Bool && constant.BoolVal(cv.Value)
		}
		hs := false
		for _, vc := range callInstrs(rp) {
			if o := calleeObj(vc); o == nil || o.Name() != "ValidateSignatureValues" {
				continue
			}
			va := callArgs(vc)
			if len(va) < 4 {
				continue
			}
			flag := stripConv(va[3])
			if isTrue(flag) {
				hs = true
			}
			for i, prm := range rp.Params {
				if ssa.Value(prm) == flag && i < len(callArgs(ci)) && isTrue(callArgs(ci)[i]) {
					hs = true
				}
			}
		}
		hashOK := false
		if cc, ok := stripConv(callArgs(ci)[0]).(*ssa.Call); ok && sameFunc(calleeObj(cc), hf.Object().(*types.Func)) {
			hashOK = true
		}
		c.sites += 3
		c.Check(fname(sf)+"#replay-protection-gates", ci.Pos(), prot && net, ifelse(prot && net, "dominated by Protected() and NetworkId == signer's", fmt.Sprintf("a sender is recovered without the replay tests (protected=%v network-id=%v): a transaction of another network is accepted", prot, net)))
		c.Check(fname(sf)+"#low-s-only", ci.Pos(), hs, ifelse(hs, "ValidateSignatureValues runs with homestead = true on the Sender path", "high-s signatures are accepted: a third party can produce a second valid encoding of the same transaction"))
		c.Check(fname(sf)+"#recovers-over-signing-hash", ci.Pos(), hashOK, ifelse(hashOK, "recovers over s.Hash(tx)", "the sender is recovered over something else than the signing hash"))
	}
	var vsv, ecr ssa.CallInstruction
	for _, ci := range callInstrs(rp) {
		if o := calleeObj(ci); o != nil {
			switch o.Name() {
			case "ValidateSignatureValues":
				vsv = ci
			case "Ecrecover":
				ecr = ci
			}
		}
	}
	okv := vsv != nil && ecr != nil && gatedByBool(ecr, vsv, 0, true)
	c.Check(fname(rp)+"#validate-before-recover", rp.Pos(), okv, ifelse(okv, "Ecrecover is dominated by ValidateSignatureValues(V, R, S, ·) == true", "signature values are not validated before recovery"))
	snd := w.Fn("core/types", "", "Sender")
	c.sawFunc(fname(snd))
	var eq, sndCall ssa.CallInstruction
	for _, ci := range callInstrs(snd) {
		if o := calleeObj(ci); o != nil {
			switch {
			case o.Name() == "Equal" && ci.Common().IsInvoke():
				eq = ci
			case o.Name() == "Sender" && ci.Common().IsInvoke():
				sndCall = ci
			}
		}
	}
	cacheOK := true
	whyCache := ""
	for _, rpth := range returnPaths(snd, 1) {
		if rpth.Kind != RetNil {
			continue
		}
		// success return: either the cached address under Equal == true, or after a successful recovery
		a := rpth.Atoms()
		if !((eq != nil && hasBoolResult(a, eq, 0, true)) || (sndCall != nil && hasErrNil(a, sndCall))) {
			cacheOK = false
			whyCache = "a sender is returned without an equal-signer cache hit or a successful recovery"
		}
	}
	for _, ci := range callInstrs(snd) {
		if o := calleeObj(ci); o != nil && o.Name() == "Store" {
			if sndCall == nil || !gatedByErrNil(ci, sndCall) {
				cacheOK = false
				whyCache = "the sender cache is filled without a successful recovery"
			}
		}
	}
	// … and Equal really compares the two signers: the network id of the receiver with that of the argument
	{
		eqf := w.Fn("core/types", "YouSigner", "Equal")
		c.sawFunc(fname(eqf))
		c.sites++
		fromRecv, fromArg := false, false
		for _, ci := range callInstrs(eqf) {
			o := calleeObj(ci)
			if o == nil || o.Name() != "Cmp" {
				continue
			}
			for _, v := range []ssa.Value{callRecv(ci), callArgs(ci)[0]} {
				f, base := loadedField(stripConv(v))
				if f == nil || f.Name() != "networkId" {
					continue
				}
				// the receiver is a value receiver (possibly spilled to a local); the argument arrives by type assertion
				isArg := derivesFrom(base, func(x ssa.Value) bool { _, ok := x.(*ssa.TypeAssert); return ok })
				isRecv := !isArg && derivesFrom(base, func(x ssa.Value) bool { return x == ssa.Value(eqf.Params[0]) })
				if isArg {
					fromArg = true
				}
				if isRecv {
					fromRecv = true
				}
			}
		}
		okEq := fromRecv && fromArg
		c.Check(fname(eqf)+"#compares-receiver-with-argument", eqf.Pos(), okEq, ifelse(okEq, "networkId of the receiver is compared with networkId of the argument", fmt.Sprintf("Equal does not compare the receiver's network id with the argument's (receiver side=%v, argument side=%v): any two signers are equal, and a sender cached under one network id is handed out under every other — replay protection is gone for a transaction object whose sender was derived once", fromRecv, fromArg)))
	}
	c.Check(fname(snd)+"#cache-discipline", snd.Pos(), cacheOK && eq != nil && sndCall != nil, ifelse(cacheOK, "cache hit only under signer.Equal, fill only after signer.Sender == nil", whyCache))

	// ------------------------------------------------------------ T3
	c.Rule("C17.T3", "NO-EFFECT-BEFORE", "buyGas and preCheck return an error only before any change of balance, gas pool or gas counters; the nonce comparison dominates the purchase; GasPool.SubGas changes the pool only when it succeeds")
	c.Min(4)
	bg := w.Fn("core", "MessageContext", "buyGas")
	pc := w.Fn("core", "MessageContext", "preCheck")
	sg := w.Fn("core", "GasPool", "SubGas")
	c.sawFunc(fname(bg))
	c.sawFunc(fname(pc))
	c.sawFunc(fname(sg))
	noFailAfter := func(fn *ssa.Function, effects []ssa.Instruction, onNilOnly map[ssa.Instruction]bool) (bool, string) {
		for _, e := range effects {
			for _, rpth := range returnPaths(fn, errResultIdx(fn)) {
				if rpth.Kind == RetNil {
					continue
				}
				if !reachesWithoutRedefinition(e, rpth.Ret, nil) && !(e.Block() == rpth.Ret.Block() && instrIndex(e) < instrIndex(rpth.Ret)) {
					continue
				}
				if onNilOnly[e] {
					// a callee that mutates only when it returns nil: a failing return under its non-nil error is fine
					if ci, ok := e.(ssa.CallInstruction); ok {
						nonNil := false
						for _, a := range rpth.Atoms() {
							if a.Kind == "isnil" && !a.Truth && resultOf(a.X, ci, errIdx(ci)) {
								nonNil = true
							}
						}
						if nonNil || (rpth.Kind == RetForward && rpth.Call == ci) {
							continue
						}
					}
				}
				return false, "an error return at " + fn.Prog.Fset.Position(rpth.Ret.Pos()).String() + " can follow the state change at " + fn.Prog.Fset.Position(e.Pos()).String()
			}
		}
		return true, ""
	}
	// SubGas: the store to the pool happens only on the nil path
	var sgEffects []ssa.Instruction
	for _, b := range sg.Blocks {
		for _, in := range b.Instrs {
			if st, ok := in.(*ssa.Store); ok {
				if st.Addr == ssa.Value(sg.Params[0]) || derivesFrom(st.Addr, func(v ssa.Value) bool { return v == ssa.Value(sg.Params[0]) }) {
					sgEffects = append(sgEffects, in)
				}
			}
		}
	}
	okS, whyS := noFailAfter(sg, sgEffects, nil)
	c.Check(fname(sg)+"#mutates-only-on-success", sg.Pos(), okS && len(sgEffects) > 0, ifelse(okS, "the pool is reduced only on the path that returns nil", whyS))
	var bgEffects []ssa.Instruction
	nilOnly := map[ssa.Instruction]bool{}
	for _, ci := range callInstrs(bg) {
		if o := calleeObj(ci); o != nil {
			switch o.Name() {
			case "SubBalance", "AddBalance", "SetNonce":
				bgEffects = append(bgEffects, ci)
			case "SubGas":
				bgEffects = append(bgEffects, ci)
				nilOnly[ci] = true
			}
		}
	}
	for _, fw := range fieldWrites(bg) {
		bgEffects = append(bgEffects, fw.Instr)
	}
	okB, whyB := noFailAfter(bg, bgEffects, nilOnly)
	c.Check(fname(bg)+"#refuses-before-mutating", bg.Pos(), okB && len(bgEffects) >= 3, ifelse(okB, "every error return precedes the balance, pool and counter changes", whyB+": a refused transaction leaves a trace"))
	// balance check dominates SubBalance
	balOK := false
	for _, ci := range callInstrs(bg) {
		if o := calleeObj(ci); o != nil && o.Name() == "SubBalance" {
			for _, a := range atomsOf(factsAtInstr(ci)) {
				if a.Kind == "cmp" {
					if cc, ok := stripConv(a.X).(*ssa.Call); ok && calleeObj(cc) != nil && calleeObj(cc).Name() == "Cmp" && callChainMentions(cc, "GetBalance") {
						balOK = true
					}
				}
			}
		}
	}
	c.Check(fname(bg)+"#funds-checked", bg.Pos(), balOK, ifelse(balOK, "SubBalance is dominated by the comparison of the balance with gas × price", "gas is bought without checking that the sender can pay for it"))
	// preCheck: nonce comparison dominates buyGas
	for _, ci := range callsTo(pc, bg.Object().(*types.Func)) {
		okN := allPathsPassEdge(pc, ci.Block(), func(from, to *ssa.BasicBlock) bool {
			f, isIf := edgeFact(from, to)
			if !isIf {
				return false
			}
			// CheckNonce() false, or the second nonce comparison false (nonce equal)
			as := atomsOf([]Fact{f})[0]
			if as.Kind == "true" && !as.Truth {
				if cc, ok := stripConv(as.X).(*ssa.Call); ok && calleeObj(cc) != nil && calleeObj(cc).Name() == "CheckNonce" {
					return true
				}
			}
			if as.Kind == "cmp" && !as.Truth && as.Op == token.GTR {
				// reached only after `nonce < msg.Nonce()` was false as well
				for _, pf := range atomsOf(factsAt(from)) {
					if pf.Kind == "cmp" && !pf.Truth && pf.Op == token.LSS {
						return true
					}
				}
			}
			return false
		})
		c.Check(fname(pc)+"#nonce-before-purchase", ci.Pos(), okN, ifelse(okN, "buyGas is reached only with nonce == msg.Nonce() (or nonce checking off)", "gas is bought for a transaction whose nonce was not compared with the account's"))
	}

	// ------------------------------------------------------------ T4
	c.Rule("C17.T4", "GATE", "the EVM converter raises the sender's nonce by one before evm.Call (creation: evm.create does it before run); the staking converter does it before dispatching to a handler; both use SetNonce(from, GetNonce(from)+1)")
	c.Min(3)
	isNonceBump := func(ci ssa.CallInstruction) bool {
		o := calleeObj(ci)
		if o == nil || o.Name() != "SetNonce" {
			return false
		}
		bo, ok := stripConv(callArgs(ci)[1]).(*ssa.BinOp)
		if !ok || bo.Op != token.ADD {
			return false
		}
		if n, isC := constInt(bo.Y); !isC || n != 1 {
			return false
		}
		cc, ok := stripConv(bo.X).(*ssa.Call)
		return ok && calleeObj(cc) != nil && calleeObj(cc).Name() == "GetNonce"
	}
	// the bump itself, or the call of a helper (no other caller) that contains it
	bumpSites := func(fn *ssa.Function) []ssa.Instruction {
		return sitesVia(w, fn, func(in ssa.Instruction) bool {
			ci, ok := in.(ssa.CallInstruction)
			return ok && isNonceBump(ci)
		})
	}
	tdb := w.Fn("core", "StateTransition", "TransitionDb")
	c.sawFunc(fname(tdb))
	for _, ci := range callInstrs(tdb) {
		if o := calleeObj(ci); o != nil && o.Name() == "Call" && recvName(o) == "EVM" {
			ok := false
			for _, cj := range bumpSites(tdb) {
				if instrDominates(cj, ci) {
					ok = true
				}
			}
			c.sites++
			c.Check(fname(tdb)+"#nonce-before-call", ci.Pos(), ok, ifelse(ok, "SetNonce(from, GetNonce+1) dominates evm.Call", "a message call is executed without the sender's nonce having been raised: the transaction can be applied again"))
		}
	}
	crt := w.Fn("core/vm", "EVM", "create")
	okc := false
	for _, ci := range callsTo(crt, w.FuncObj("core/vm", "", "run")) {
		for _, cj := range bumpSites(crt) {
			if instrDominates(cj, ci) {
				okc = true
			}
		}
	}
	c.Check(fname(crt)+"#nonce-before-run", crt.Pos(), okc, ifelse(okc, "the creator's nonce is raised before the init code runs", "contract creation does not raise the creator's nonce"))
	sam := w.Fn("staking", "TxConverter", "ApplyMessage")
	c.sawFunc(fname(sam))
	gh := w.FuncObj("staking", "", "getHandler")
	for _, ci := range callInstrs(sam) {
		// the dynamic call of the handler returned by getHandler
		if ci.Common().StaticCallee() != nil || ci.Common().IsInvoke() {
			continue
		}
		if cc, ok := ci.Common().Value.(*ssa.Call); ok && sameFunc(calleeObj(cc), gh) {
			ok2 := false
			for _, cj := range bumpSites(sam) {
				if instrDominates(cj, ci) {
					ok2 = true
				}
			}
			c.sites++
			c.Check(fname(sam)+"#nonce-before-handler", ci.Pos(), ok2, ifelse(ok2, "SetNonce(from, GetNonce+1) dominates the handler dispatch", "a staking transaction is handled without the sender's nonce having been raised: it can be applied again"))
		}
	}
	// every return that reports the transaction as included (nil error: it is charged and gets a receipt, also when
	// it "failed") has passed the bump — or, in the EVM converter, the creation call that contains it
	for _, fn := range []*ssa.Function{tdb, sam} {
		gates := append([]ssa.Instruction(nil), bumpSites(fn)...)
		for _, ci := range callInstrs(fn) {
			if o := calleeObj(ci); o != nil && o.Name() == "Create" && recvName(o) == "EVM" {
				gates = append(gates, ci.(ssa.Instruction))
			}
		}
		k := 0
		for _, b := range fn.Blocks {
			ret, isRet := b.Instrs[len(b.Instrs)-1].(*ssa.Return)
			if !isRet || len(ret.Results) == 0 {
				continue
			}
			ev := ret.Results[len(ret.Results)-1]
			if cv, isC := ev.(*ssa.Const); !isC || !cv.IsNil() {
				// an error value: skip the return when it is known to be non-nil here
				known := false
				if _, isC := ev.(*ssa.Const); !isC {
					for _, a := range atomsOf(factsAt(b)) {
						if a.Kind == "isnil" && a.X == ev && !a.Truth {
							known = true
						}
					}
					if _, isMI := ev.(*ssa.MakeInterface); isMI {
						known = true
					}
					if u, isU := ev.(*ssa.UnOp); isU {
						if _, isG := u.X.(*ssa.Global); isG {
							known = true // a package-level error value
						}
					}
				}
				if known {
					continue
				}
			}
			c.sites++
			ok := mustPassBefore(ret, gates)
			c.Check(fmt.Sprintf("%s#included-return-%d-after-nonce-bump", fname(fn), k), ret.Pos(), ok, ifelse(ok, "the return is reached only after the sender's nonce was raised", "the converter can report the transaction as included (nil error: gas is charged, a receipt is made) on a path that did not raise the sender's nonce: the same signed transaction can be applied again and again"))
			k++
		}
	}
	// the raised nonce survives a failed execution: the bump is not inside a snapshot that the same function reverts
	for _, fn := range []*ssa.Function{tdb, crt, sam} {
		for _, bump := range bumpSites(fn) {
			c.sites++
			bad := ""
			for _, sn := range callInstrs(fn) {
				o := calleeObj(sn)
				if o == nil || o.Name() != "Snapshot" || sn.Value() == nil {
					continue
				}
				reverted := false
				for _, rv := range callInstrs(fn) {
					if ro := calleeObj(rv); ro != nil && ro.Name() == "RevertToSnapshot" {
						for _, a := range callArgs(rv) {
							if derivesFrom(a, func(v ssa.Value) bool { return v == ssa.Value(sn.Value()) }) {
								reverted = true
							}
						}
					}
				}
				if !reverted {
					continue
				}
				// can the snapshot be taken before the bump?
				before := false
				if sn.Block() == bump.Block() {
					before = instrIndex(sn) < instrIndex(bump)
				} else {
					seen := map[*ssa.BasicBlock]bool{}
					work := append([]*ssa.BasicBlock(nil), sn.Block().Succs...)
					for len(work) > 0 {
						b := work[len(work)-1]
						work = work[:len(work)-1]
						if seen[b] {
							continue
						}
						seen[b] = true
						if b == bump.Block() {
							before = true
							break
						}
						work = append(work, b.Succs...)
					}
				}
				if before {
					bad = w.Pos(sn.Pos())
				}
			}
			c.Check(fname(fn)+"#nonce-bump-outside-reverted-snapshot", bump.Pos(), bad == "", ifelse(bad == "", "no snapshot that this function reverts is taken before the bump", "the snapshot taken at "+bad+" precedes the sender's nonce bump and is reverted when execution fails: a failed (but included and charged) transaction leaves the nonce unchanged and can be applied again"))
		}
	}
	// no other nonce write of the sender under ApplyMessageEntry: SetNonce call sites in core, staking
	for _, fn := range append(w.FuncsIn("core"), w.FuncsIn("staking")...) {
		if strings.HasSuffix(w.fileOf(fn.Pos()), "_test.go") {
			continue
		}
		for _, ci := range callInstrs(fn) {
			if o := calleeObj(ci); o != nil && o.Name() == "SetNonce" && recvName(o) != "" {
				n := outerName(fname(fn))
				tabled := func(n string) bool {
					return n == "(core.StateTransition).TransitionDb" || n == "(staking.TxConverter).ApplyMessage" || n == "(core.Genesis).ToBlock"
				}
				ok := tabled(n)
				if !ok && splitOffHelper(w, fn) {
					// a part of a tabled writer split off into a helper with no other caller
					for _, caller := range w.Callers(fn) {
						if tabled(outerName(fname(caller.Parent()))) {
							ok = true
						}
					}
				}
				c.Check(n+"#SetNonce", ci.Pos(), ok, ifelse(ok, "tabled nonce writer", "a new function writes account nonces during transaction application"))
			}
		}
	}

	// ------------------------------------------------------------ T5
	c.Rule("C17.T5", "SAME-VALUE+EXIT", "ApplyTransaction adds to the block's used gas, multiplies into the gas rewards and stores in the receipt the one gas figure returned by ApplyMessageEntry; that figure is computed after the refund (it is what the sender finally paid for); refundGas caps the refund at GasUsed()/2 and returns the same AvailableGas to the sender (× GasPrice) and to the block gas pool")
	c.Min(3)
	at := w.Fn("core", "StateProcessor", "ApplyTransaction")
	ame := w.Fn("core", "StateProcessor", "ApplyMessageEntry")
	c.sawFunc(fname(at))
	c.sawFunc(fname(ame))
	ameCalls := callsTo(at, ame.Object().(*types.Func))
	if len(ameCalls) != 1 {
		c.Undecided(fname(at)+"#gas-figure", at.Pos(), "expected one ApplyMessageEntry call")
	} else {
		ac := ameCalls[0]
		isFig := func(v ssa.Value) bool {
			return derivesFrom(v, func(x ssa.Value) bool {
				e, ok := x.(*ssa.Extract)
				return ok && e.Tuple == ssa.Value(ac.Value()) && e.Index == 1
			})
		}
		used, rewards, receipt := false, false, false
		for _, b := range at.Blocks {
			for _, in := range b.Instrs {
				switch x := in.(type) {
				case *ssa.Store:
					if x.Addr == ssa.Value(paramNamed(at, "usedGas")) && isFig(x.Val) {
						used = true
					}
					if fa, ok := x.Addr.(*ssa.FieldAddr); ok && fieldOfAddr(fa).Name() == "GasUsed" && ownerName(fa.X.Type()) == "Receipt" && isFig(x.Val) {
						receipt = true
					}
				case *ssa.Call:
					if o := calleeObj(x); o != nil && o.Name() == "Add" && recvName(o) == "Int" && stripConv(callRecv(x)) == ssa.Value(paramNamed(at, "gasRewards")) {
						if callChainMentionsValue(callArgs(x)[1], isFig) && callChainMentions(callArgs(x)[1], "GasPrice") {
							rewards = true
						}
					}
				}
			}
		}
		c.sites++
		okF := used && rewards && receipt
		c.Check(fname(at)+"#one-gas-figure", ac.Pos(), okF, ifelse(okF, "usedGas, gasRewards (× GasPrice) and receipt.GasUsed all take result 1 of ApplyMessageEntry", fmt.Sprintf("block gas used, gas rewards and the receipt do not use one gas figure (usedGas=%v rewards=%v receipt=%v): fees paid and rewards credited differ", used, rewards, receipt)))
	}
	reportedGasAfterRefund(c, w)
	converterGasFigures(c, w)
	rg := w.Fn("core", "MessageContext", "refundGas")
	c.sawFunc(fname(rg))
	capOK, sameGas := false, false
	for _, b := range rg.Blocks {
		for _, in := range b.Instrs {
			if bo, ok := in.(*ssa.BinOp); ok && bo.Op == token.QUO {
				if n, isC := constInt(bo.Y); isC && n == 2 {
					if cc, ok := stripConv(bo.X).(*ssa.Call); ok && calleeObj(cc) != nil && calleeObj(cc).Name() == "GasUsed" {
						capOK = true
					}
				}
			}
		}
	}
	var addBal, addGas ssa.CallInstruction
	for _, ci := range callInstrs(rg) {
		if o := calleeObj(ci); o != nil {
			switch o.Name() {
			case "AddBalance":
				addBal = ci
			case "AddGas":
				addGas = ci
			}
		}
	}
	if addBal != nil && addGas != nil {
		f, _ := loadedField(stripConv(callArgs(addGas)[0]))
		sameGas = f != nil && f.Name() == "AvailableGas" && callChainMentionsValue(callArgs(addBal)[1], func(v ssa.Value) bool {
			f2, _ := loadedField(stripConv(v))
			return f2 != nil && f2.Name() == "AvailableGas"
		})
	}
	c.Check(fname(rg)+"#refund-cap-and-same-gas", rg.Pos(), capOK && sameGas, ifelse(capOK && sameGas, "refund ≤ GasUsed()/2; sender and block pool get the same AvailableGas", fmt.Sprintf("refund discipline broken (cap=%v same-gas=%v)", capOK, sameGas)))
	c.Rule("C17.T7", "PROVENANCE", "gas is priced in full precision: the amounts that buyGas compares with the balance and debits, that refundGas credits, and that ApplyTransaction adds to the block's gas rewards are big.Int products — none of them derives from a machine-integer multiplication or from a big.Int truncated with Uint64()/Int64(). With limit x price computed in uint64 a pair like (2^20, 2^44) wraps to ~0: a sender that cannot pay is applied, and the full-precision refund mints the difference")
	c.Min(3)
	{
		truncates := func(v ssa.Value) string {
			why := ""
			derivesFrom(v, func(x ssa.Value) bool {
				switch y := x.(type) {
				case *ssa.BinOp:
					if b, ok := y.Type().Underlying().(*types.Basic); ok && b.Info()&types.IsInteger != 0 && (y.Op == token.MUL || y.Op == token.SHL) {
						why = "a machine-integer " + y.Op.String() + " at " + w.Pos(y.Pos())
						return true
					}
				case *ssa.Call:
					if o := calleeObj(y); o != nil && o.Pkg() != nil && o.Pkg().Path() == "math/big" && recvName(o) == "Int" && (o.Name() == "Uint64" || o.Name() == "Int64") {
						why = "a big.Int truncated with " + o.Name() + "() at " + w.Pos(y.Pos())
						return true
					}
				}
				return false
			})
			return why
		}
		for _, spec := range []struct{ rel, recv, name string }{{"core", "MessageContext", "buyGas"}, {"core", "MessageContext", "refundGas"}, {"core", "StateProcessor", "ApplyTransaction"}} {
			fn := w.Fn(spec.rel, spec.recv, spec.name)
			c.sawFunc(fname(fn))
			k := 0
			for _, ci := range callInstrs(fn) {
				o := calleeObj(ci)
				if o == nil {
					continue
				}
				var amounts []ssa.Value
				switch {
				case o.Name() == "AddBalance" || o.Name() == "SubBalance":
					args := callArgs(ci)
					amounts = append(amounts, args[len(args)-1])
				case o.Pkg() != nil && o.Pkg().Path() == "math/big" && o.Name() == "Cmp" && spec.name == "buyGas":
					amounts = append(amounts, callArgs(ci)...)
				case o.Pkg() != nil && o.Pkg().Path() == "math/big" && o.Name() == "Add" && spec.name == "ApplyTransaction":
					amounts = append(amounts, callArgs(ci)...)
				default:
					continue
				}
				c.sites++
				why := ""
				for _, a := range amounts {
					if y := truncates(a); y != "" {
						why = y
					}
				}
				c.Check(fmt.Sprintf("%s#amount-%d-full-precision", fname(fn), k), ci.Pos(), why == "", ifelse(why == "", "the amount is built from big.Int products only", "the amount derives from "+why+": limit x price wraps modulo 2^64 while the other side of the purchase / refund is computed in full precision"))
				k++
			}
		}
	}

	// ------------------------------------------------------------ T8
	c.Rule("C17.T8", "EXIT", "a transaction refused with an error gets no receipt and changes nothing — neither the state nor the block's gas pool: ApplyMessageEntry takes a state snapshot and the gas-pool level before preCheck, and the error it hands to its caller is non-nil only on paths that reverted to that snapshot and restored the pool. preCheck buys the gas (debit, pool) before the intrinsic-gas test, and the EVM converter raises the nonce before CanTransfer fails with \"insufficient balance for transfer\": without the revert the miner — which reverts the state itself but not its pool — leaks the gas limit of every such transaction, and direct callers see nonce and balance changed by a transaction that was refused")
	c.Min(1)
	{
		ame := w.Fn("core", "StateProcessor", "ApplyMessageEntry")
		c.sawFunc(fname(ame))
		var snaps []ssa.Value
		var reverts []ssa.CallInstruction
		for _, ci := range callInstrs(ame) {
			o := calleeObj(ci)
			if o == nil {
				continue
			}
			if o.Name() == "Snapshot" && ci.Value() != nil {
				snaps = append(snaps, ci.Value())
			}
			if o.Name() == "RevertToSnapshot" {
				reverts = append(reverts, ci)
			}
		}
		// stores through the gas-pool parameter (or a setter on it)
		var gp *ssa.Parameter
		for _, prm := range ame.Params {
			if nt, ok := deref(prm.Type()).(*types.Named); ok && nt.Obj().Name() == "GasPool" {
				gp = prm
			}
		}
		var poolRestores []ssa.Instruction
		for _, in := range allInstrs(ame) {
			if st, ok := in.(*ssa.Store); ok && gp != nil && stripConvNoBind(st.Addr) == ssa.Value(gp) {
				poolRestores = append(poolRestores, st)
			}
			if ci, ok := in.(ssa.CallInstruction); ok && gp != nil {
				if o := calleeObj(ci); o != nil && (o.Name() == "SetGas" || o.Name() == "AddGas") && callRecv(ci) != nil && stripConvNoBind(callRecv(ci)) == ssa.Value(gp) {
					poolRestores = append(poolRestores, ci.(ssa.Instruction))
				}
			}
		}
		c.sites++
		why := ""
		var goodReverts []ssa.Instruction
		for _, rv := range reverts {
			for _, a := range callArgs(rv) {
				for _, sn := range snaps {
					if derivesFrom(a, func(x ssa.Value) bool { return x == sn }) {
						goodReverts = append(goodReverts, rv.(ssa.Instruction))
					}
				}
			}
		}
		if len(goodReverts) == 0 {
			why = "ApplyMessageEntry takes no snapshot that it reverts to"
		} else if len(poolRestores) == 0 {
			why = "ApplyMessageEntry never restores the gas pool"
		} else {
			// the revert and the pool restore sit on the non-nil side of a test of the error that is returned
			gated := func(ev ssa.Value) bool {
				for _, g := range goodReverts {
					for _, fa := range atomsOf(factsAt(g.Block())) {
						if fa.Kind == "isnil" && !fa.Truth && stripConvNoBind(fa.X) == stripConvNoBind(ev) {
							for _, pr := range poolRestores {
								for _, fb := range atomsOf(factsAt(pr.Block())) {
									if fb.Kind == "isnil" && !fb.Truth && stripConvNoBind(fb.X) == stripConvNoBind(ev) {
										return true
									}
								}
							}
						}
					}
				}
				return false
			}
			idx := errResultIdx(ame)
			complete := enumPaths(ame, 4096, func(pr PathResult) {
				ev := pr.Resolve(pr.Ret.Results[idx])
				if cv, isC := ev.(*ssa.Const); isC && cv.IsNil() {
					return
				}
				known := 0 // +1 nil, -1 non-nil
				for _, a := range atomsOf(pr.Facts) {
					if a.Kind == "isnil" && stripConvNoBind(a.X) == stripConvNoBind(ev) {
						if a.Truth {
							known = 1
						} else {
							known = -1
						}
					}
				}
				if known == 1 {
					return // success path: nothing to undo
				}
				if !(known == -1 && gated(ev)) {
					why = "the return at " + w.Pos(pr.Ret.Pos()) + " can hand an error to the caller on a path that did not revert the state and restore the gas pool"
				}
			})
			if !complete && why == "" {
				why = "the paths of ApplyMessageEntry could not be enumerated"
			}
		}
		c.Check(fname(ame)+"#refused-means-unchanged", ame.Pos(), why == "", ifelse(why == "", "an error leaves ApplyMessageEntry only after RevertToSnapshot(snapshot) and the restore of the gas pool", why))
	}

	// ------------------------------------------------------------ T6
	c.Rule("C17.T6", "NO-EFFECT-BEFORE", "a staking transaction that fails is charged its gas and nothing else: every registered staking handler (no snapshot surrounds them; a handler error marks the transaction failed but included) changes state only on its success tail — after the first state change (debit of the staked value, record, validator update) no error return is reachable. Shared with C09.J4")
	c.Min(9)
	stakingHandlersSuccessTail(c, w)
}

func paramNamed(fn *ssa.Function, name string) *ssa.Parameter {
	for _, p := range fn.Params {
		if p.Name() == name {
			return p
		}
	}
	undecided("parameter %s of %s does not resolve", name, fname(fn))
	return nil
}

// callChainMentionsValue: like callChainMentions with a predicate on values.
func callChainMentionsValue(v ssa.Value, pred func(ssa.Value) bool) bool {
	found := false
	seen := map[ssa.Value]bool{}
	var walk func(v ssa.Value)
	walk = func(v ssa.Value) {
		if v == nil || seen[v] || found {
			return
		}
		seen[v] = true
		if pred(v) {
			found = true
			return
		}
		if in, ok := v.(ssa.Instruction); ok {
			for _, op := range in.Operands(nil) {
				if op != nil && *op != nil {
					walk(*op)
				}
			}
		}
		if refs := v.Referrers(); refs != nil {
			for _, r := range *refs {
				if cc, ok := r.(*ssa.Call); ok {
					if rv := callRecv(cc); rv == v {
						for _, a := range callArgs(cc) {
							walk(a)
						}
					}
				}
			}
		}
	}
	walk(v)
	return found
}

func c17Variants() []Variant {
	return []Variant{
		{Name: "gaslimit-not-signed", File: "core/types/transaction_signing.go", Old: "		tx.data.Price,\n		tx.data.GasLimit,\n		tx.data.Recipient,", New: "		tx.data.Price,\n		tx.data.Recipient,", Rule: "C17.T1", Construct: "signed-fields"},
		{Name: "high-s-accepted", File: "core/types/transaction_signing.go", Old: "	return recoverPlain(s.Hash(tx), tx.data.R, tx.data.S, V, true)", New: "	return recoverPlain(s.Hash(tx), tx.data.R, tx.data.S, V, false)", Rule: "C17.T2", Construct: "low-s-only"},
		{Name: "no-network-id-test", File: "core/types/transaction_signing.go", Old: "	if tx.NetworkId().Cmp(s.networkId) != 0 {\n		return common.Address{}, ErrInvalidNetworkId\n	}\n	V := new(big.Int).Sub(tx.data.V, s.networkIdMul)", New: "	V := new(big.Int).Sub(tx.data.V, s.networkIdMul)", Rule: "C17.T2", Construct: "replay-protection-gates"},
		{Name: "debit-before-pool", File: "core/message_context.go", Old: "	if err := mc.GP.SubGas(mc.Msg.Gas()); err != nil {\n		return err\n	}\n	mc.AvailableGas = mc.Msg.Gas()\n	mc.InitialGas = mc.Msg.Gas()\n	mc.State.SubBalance(from, mgval)", New: "	mc.State.SubBalance(from, mgval)\n	if err := mc.GP.SubGas(mc.Msg.Gas()); err != nil {\n		return err\n	}\n	mc.AvailableGas = mc.Msg.Gas()\n	mc.InitialGas = mc.Msg.Gas()", Rule: "C17.T3", Construct: "buyGas#refuses-before-mutating"},
		{Name: "staking-without-nonce", File: "staking/tx_converter.go", Old: "	msgCtx.State.SetNonce(from, msgCtx.State.GetNonce(from)+1)\n", New: "	_ = from\n", Rule: "C17.T4", Construct: "nonce-before-handler"},
		{Name: "rewards-from-gas-limit", File: "core/state_processor.go", Old: "new(big.Int).Mul(tx.GasPrice(), new(big.Int).SetUint64(gas)))", New: "new(big.Int).Mul(tx.GasPrice(), new(big.Int).SetUint64(msg.Gas())))", Rule: "C17.T5", Construct: "one-gas-figure"},
		{Name: "refused-message-not-reverted", File: "core/state_processor.go", Old: "		statedb.RevertToSnapshot(snapshot)\n", New: "		_ = snapshot\n", Rule: "C17.T8", Construct: "ApplyMessageEntry"},
	}
}

// converterGasFigures: what a converter reports as used gas must be what
// refundGas will leave consumed (shared by C17.T5 and C07.P6).
func converterGasFigures(c *Ctx, w *World) {
	// what a converter reports as used must be what refundGas will leave consumed
	var work []*ssa.Function
	for _, cv := range []struct{ pkg, recv, name string }{{"staking", "TxConverter", "ApplyMessage"}, {"core", "StateTransition", "TransitionDb"}} {
		work = append(work, w.Fn(cv.pkg, cv.recv, cv.name))
	}
	seenFn := map[*ssa.Function]bool{}
	for len(work) > 0 {
		fn := work[0]
		work = work[1:]
		if seenFn[fn] {
			continue
		}
		seenFn[fn] = true
		c.sawFunc(fname(fn))
		v4 := constOf(w, "params", "YouV4")
		for _, b := range fn.Blocks {
			r, ok := b.Instrs[len(b.Instrs)-1].(*ssa.Return)
			if !ok || b == fn.Recover {
				continue
			}
			res := r.Results[1]
			// defer-spilled result
			if u, isU := res.(*ssa.UnOp); isU {
				if a, isA := u.X.(*ssa.Alloc); isA && u.Block() == b {
					for i := instrIndex(u) - 1; i >= 0; i-- {
						if st, isSt := b.Instrs[i].(*ssa.Store); isSt && st.Addr == a {
							res = st.Val
							break
						}
					}
				}
			}
			fig := stripConv(res)
			c.sites++
			key := fmt.Sprintf("%s#reported-gas@%s", fname(fn), blockOrdinal(fn, b))
			// the whole result is that of a helper of this package (return h(...)): judged at the helper's returns
			if ex, isEx := fig.(*ssa.Extract); isEx && ex.Index == 1 {
				if cc, isCall := ex.Tuple.(*ssa.Call); isCall {
					if g := cc.Call.StaticCallee(); g != nil && g.Pkg == fn.Pkg && g.Blocks != nil && len(seenFn) < 6 && g.Signature.Results().Len() == fn.Signature.Results().Len() {
						work = append(work, g)
						c.Pass(key, r.Pos(), "reports what "+fname(g)+" reports (judged at its returns)")
						continue
					}
				}
			}
			if n, isC := constInt(fig); isC && n == 0 {
				// refused before anything was charged (error return)
				c.Pass(key, r.Pos(), "reports 0 together with an error")
				continue
			}
			if cc, isCall := fig.(*ssa.Call); isCall && calleeObj(cc) != nil && calleeObj(cc).Name() == "GasUsed" {
				c.Pass(key, r.Pos(), "reports GasUsed() at the return")
				continue
			}
			if f, _ := loadedField(fig); f != nil && f.Name() == "InitialGas" {
				// all gas must have been consumed: UseGas(AvailableGas) on every path, or pre-V4 history
				consumeAll := func(x *ssa.BasicBlock) bool {
					for _, in := range x.Instrs {
						if ci, ok := in.(ssa.CallInstruction); ok {
							if o := calleeObj(ci); o != nil && o.Name() == "UseGas" {
								if af, _ := loadedField(stripConv(callArgs(ci)[0])); af != nil && af.Name() == "AvailableGas" {
									return true
								}
							}
						}
					}
					return false
				}
				ok := consumeAll(b) || allPathsPassEdge(fn, b, func(from, to *ssa.BasicBlock) bool {
					if consumeAll(from) || (to != b && consumeAll(to)) {
						return true
					}
					f, isIf := edgeFact(from, to)
					if !isIf {
						return false
					}
					a := atomsOf([]Fact{f})[0]
					if a.Kind == "cmp" {
						op := a.Op
						if !a.Truth {
							op = negateCmp(op)
						}
						if vf, _ := loadedField(stripConv(a.X)); vf != nil && vf.Name() == "Version" && op == token.LSS {
							if cvv, isC := stripConv(a.Y).(*ssa.Const); isC && cvv.Value != nil && constant.Compare(constant.ToInt(cvv.Value), token.EQL, constant.ToInt(v4)) {
								return true // pre-V4 protocol: historic behaviour
							}
						}
					}
					return false
				})
				c.Check(key, r.Pos(), ok, ifelse(ok, "reports InitialGas after consuming all available gas (or under a pre-V4 protocol)", "the whole gas limit is reported as used although the remaining gas was not consumed: refundGas returns it to the sender while receipt, block gas and gas rewards count it — rewards exceed fees"))
				continue
			}
			c.Fail(key, r.Pos(), "the gas figure reported by the converter is neither GasUsed() nor the fully consumed InitialGas")
		}
	}
}

// reportedGasAfterRefund (C17.T5 clause, = C07.P17): the gas figure that ApplyMessageEntry reports is computed after
// the refund. The body may live in a helper split off from ApplyMessageEntry.
func reportedGasAfterRefund(c *Ctx, w *World) {
	entry := w.Fn("core", "StateProcessor", "ApplyMessageEntry")
	ame := entry
	hasRefund := func(fn *ssa.Function) bool {
		for _, ci := range callInstrs(fn) {
			if o := calleeObj(ci); o != nil && o.Name() == "refundGas" {
				return true
			}
		}
		return false
	}
	if !hasRefund(ame) {
		for _, ci := range callInstrs(entry) {
			if g := ci.Common().StaticCallee(); g != nil && g.Pkg == entry.Pkg && g.Blocks != nil && hasRefund(g) && onlyCalledFrom(w, g, entry) {
				ame = g
			}
		}
	}
	c.sawFunc(fname(ame))
	key := fname(entry) + "#reported-gas-after-refund"
	var refundCall ssa.CallInstruction
	for _, ci := range callInstrs(ame) {
		if o := calleeObj(ci); o != nil && o.Name() == "refundGas" {
			refundCall = ci
		}
	}
	if refundCall == nil {
		c.Fail(key, ame.Pos(), "ApplyMessageEntry does not refund unused gas")
	} else {
		okAfter := true
		for _, b := range ame.Blocks {
			r, ok := b.Instrs[len(b.Instrs)-1].(*ssa.Return)
			if !ok || b == ame.Recover || !refundCall.Block().Dominates(b) {
				continue
			}
			// result 1 must be computed by something the refund dominates
			fig := stripConv(r.Results[1])
			if in, isIn := fig.(ssa.Instruction); isIn {
				src := in
				if e, isE := fig.(*ssa.Extract); isE {
					if ti, ok := e.Tuple.(ssa.Instruction); ok {
						src = ti
					}
				}
				if !instrDominates(refundCall, src) {
					okAfter = false
				}
			}
		}
		c.sites++
		c.Check(key, refundCall.Pos(), okAfter, ifelse(okAfter, "the reported gas is computed after refundGas", "the gas figure reported to the caller is taken before refundGas adds the refund counter back: the sender pays for (used − refund) gas while receipt, block gas used and gas rewards count the unreduced figure, so rewards credited exceed fees paid by refund × price"))
	}
}

package main

import (
	"fmt"
	"go/token"
	"go/types"
	"sort"
	"strings"
	"time"

	"golang.org/x/tools/go/ssa"
)

// runInventory prints candidate rule instances. It is a development aid: the
// tables in the rules are filled by reading these lists, never at run time.
func runInventory(w *World, what string) {
	parts := strings.SplitN(what, ":", 2)
	arg := ""
	if len(parts) > 1 {
		arg = parts[1]
	}
	switch parts[0] {
	case "fieldwrites":
		// fieldwrites:<pkg>[:Type,Type]
		sub := strings.Split(arg, ":")
		pkg := sub[0]
		var typesWanted map[string]bool
		if len(sub) > 1 {
			typesWanted = map[string]bool{}
			for _, t := range strings.Split(sub[1], ",") {
				typesWanted[t] = true
			}
		}
		var lines []string
		for _, fn := range w.FuncsIn(pkg) {
			for _, fw := range fieldWrites(fn) {
				owner := fieldOwner(w, fw.Field)
				if typesWanted != nil && !typesWanted[owner] {
					continue
				}
				lines = append(lines, fmt.Sprintf("%s.%s\t%s\t%s\t%s", owner, fw.Field.Name(), fw.Kind, fname(fn), w.Pos(fw.Instr.Pos())))
			}
		}
		sort.Strings(lines)
		for _, l := range lines {
			fmt.Println(l)
		}
	case "callers":
		// callers:<pkg>.<Recv>.<Name>
		p := strings.Split(arg, ",")
		obj := w.FuncObj(p[0], p[1], p[2])
		for _, fn := range w.AllFuncs() {
			for _, ci := range callsTo(fn, obj) {
				fmt.Printf("%s\t%s\n", fname(fn), w.Pos(ci.Pos()))
			}
		}
	case "maprange":
		for _, fn := range w.FuncsIn(strings.Split(arg, ",")...) {
			for _, b := range fn.Blocks {
				for _, in := range b.Instrs {
					if r, ok := in.(*ssa.Range); ok {
						if _, ok := r.X.Type().Underlying().(*types.Map); ok {
							fmt.Printf("%s\t%s\n", fname(fn), w.Pos(r.Pos()))
						}
					}
				}
			}
		}
	case "c06":
		inventoryC06(w)
	default:
		fmt.Println("unknown inventory", what)
	}
}

// fieldOwner names the struct type declaring a field ("" if anonymous). When
// several named types share the struct (type Alias T), the one whose
// declaration encloses the field is chosen.
func fieldOwner(w *World, f *types.Var) string {
	if f == nil || f.Pkg() == nil {
		return ""
	}
	sc := f.Pkg().Scope()
	best := ""
	var bestPos token.Pos
	for _, n := range sc.Names() {
		tn, ok := sc.Lookup(n).(*types.TypeName)
		if !ok {
			continue
		}
		st, ok := tn.Type().Underlying().(*types.Struct)
		if !ok {
			continue
		}
		for i := 0; i < st.NumFields(); i++ {
			if st.Field(i) == f {
				if tn.Pos() < f.Pos() && tn.Pos() > bestPos {
					best, bestPos = n, tn.Pos()
				} else if best == "" {
					best = n
				}
			}
		}
	}
	return best
}

func inventoryC06(w *World) {
	roots := c06Roots(w)
	t0 := time.Now()
	reach := w.ReachableFrom(roots, nil)
	fmt.Println("reachable", len(reach), time.Since(t0))
	var names []string
	for fn := range reach {
		for _, b := range fn.Blocks {
			for _, in := range b.Instrs {
				if r, ok := in.(*ssa.Range); ok {
					if _, ok := r.X.Type().Underlying().(*types.Map); ok {
						names = append(names, fmt.Sprintf("%s\t%s", fname(fn), w.Pos(r.Pos())))
					}
				}
				if ci, ok := in.(ssa.CallInstruction); ok {
					if o := calleeObj(ci); o != nil && o.Pkg() != nil {
						k := o.Pkg().Path() + "." + o.Name()
						switch {
						case k == "time.Now", o.Pkg().Path() == "math/rand", k == "os.Getenv", o.Name() == "CurrentHeader", o.Name() == "CurrentBlock":
							names = append(names, fmt.Sprintf("SOURCE %s\t%s\t%s", k, fname(fn), w.Pos(ci.Pos())))
						}
					}
				}
			}
		}
	}
	sort.Strings(names)
	for _, n := range names {
		fmt.Println(n)
	}
}

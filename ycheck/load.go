package main

import (
	_ "embed"
	"encoding/json"
	"fmt"
	"go/ast"
	"go/token"
	"go/types"
	"os"
	"sort"
	"strings"

	"golang.org/x/tools/go/callgraph"
	"golang.org/x/tools/go/packages"
	"golang.org/x/tools/go/ssa"
	"golang.org/x/tools/go/ssa/ssautil"
)

const modPath = "github.com/youchainhq/go-youchain"

// minPackages is the number of packages `./...` resolves to on the pinned
// tree. Loading fewer means the build was not covered: the run is undecided.
const minPackages = 79

// World is the resolved program every rule works on: the type-checked syntax
// of every package of the repository (dependencies come from export data) and
// its SSA form.
type World struct {
	Fset    *token.FileSet
	Pkgs    map[string]*packages.Package // by import path
	Prog    *ssa.Program
	SSAPkgs map[string]*ssa.Package
	RepoDir string

	allFuncs    []*ssa.Function // every function with a body, closures included
	declOf      map[*types.Func]*ast.FuncDecl
	callersOf   map[*ssa.Function][]*ssa.CallInstruction
	callerIdx   map[*ssa.Function][]ssa.CallInstruction // lazily built static call index
	Tags        string
	cg          *callgraph.Graph
	RenameNotes []string // what the rename normalisation took to be renamed
}

// undecidedErr is raised (by panic) when an anchor named in a rule table does
// not resolve. It is never turned into a pass or into a violation.
type undecidedErr struct{ msg string }

func (u undecidedErr) Error() string { return u.msg }

func undecided(format string, args ...interface{}) {
	panic(undecidedErr{fmt.Sprintf(format, args...)})
}

func loadWorld(repo string, overlay map[string][]byte, tags string) (*World, error) {
	// per-world scratch state (values of an earlier world must not be kept alive or matched)
	paramBind = map[*ssa.Parameter]ssa.Value{}
	paramSubst = map[*ssa.Parameter]ssa.Value{}
	renamedFns = map[*types.Func]string{}
	env := append(os.Environ(), "GOFLAGS=-mod=mod", "GOPROXY=off", "GOSUMDB=off", "GOTOOLCHAIN=local", "GOWORK=off")
	cfg := &packages.Config{
		Mode:    packages.LoadSyntax | packages.NeedCompiledGoFiles | packages.NeedModule,
		Dir:     repo,
		Env:     env,
		Overlay: overlay,
		Tests:   false,
	}
	if tags != "" {
		cfg.BuildFlags = []string{"-tags=" + tags}
	}
	pkgs, err := packages.Load(cfg, "./...")
	if err != nil {
		return nil, fmt.Errorf("packages.Load: %v", err)
	}
	var errs []string
	for _, p := range pkgs {
		for _, e := range p.Errors {
			errs = append(errs, p.PkgPath+": "+e.Error())
		}
	}
	if len(errs) > 0 {
		sort.Strings(errs)
		if len(errs) > 12 {
			errs = errs[:12]
		}
		return nil, fmt.Errorf("load/type errors (no verdict):\n  %s", strings.Join(errs, "\n  "))
	}
	if len(pkgs) < minPackages {
		return nil, fmt.Errorf("only %d packages loaded, expected at least %d", len(pkgs), minPackages)
	}
	w := &World{Pkgs: map[string]*packages.Package{}, SSAPkgs: map[string]*ssa.Package{}, RepoDir: repo, Tags: tags}
	w.Fset = pkgs[0].Fset
	prog, spkgs := ssautil.Packages(pkgs, ssa.InstantiateGenerics)
	prog.Build()
	w.Prog = prog
	for i, p := range pkgs {
		w.Pkgs[p.PkgPath] = p
		if spkgs[i] == nil {
			return nil, fmt.Errorf("no SSA package for %s", p.PkgPath)
		}
		w.SSAPkgs[p.PkgPath] = spkgs[i]
	}
	w.declOf = map[*types.Func]*ast.FuncDecl{}
	for _, p := range pkgs {
		for _, f := range p.Syntax {
			for _, d := range f.Decls {
				if fd, ok := d.(*ast.FuncDecl); ok {
					if obj, ok := p.TypesInfo.Defs[fd.Name].(*types.Func); ok {
						w.declOf[obj] = fd
					}
				}
			}
		}
	}
	for fn := range ssautil.AllFunctions(prog) {
		if fn.Blocks != nil && fn.Pkg != nil && w.SSAPkgs[fn.Pkg.Pkg.Path()] == fn.Pkg {
			w.allFuncs = append(w.allFuncs, fn)
		}
	}
	sort.Slice(w.allFuncs, func(i, j int) bool { return w.allFuncs[i].String() < w.allFuncs[j].String() })
	theWorld = w
	return w, nil
}

func full(rel string) string {
	if rel == "" {
		return modPath
	}
	if strings.HasPrefix(rel, modPath) {
		return rel
	}
	return modPath + "/" + rel
}

// Pkg resolves a repository package by its path relative to the module root.
func (w *World) Pkg(rel string) *packages.Package {
	p := w.Pkgs[full(rel)]
	if p == nil {
		undecided("anchor package %q does not resolve", rel)
	}
	return p
}

func (w *World) SSAPkg(rel string) *ssa.Package {
	p := w.SSAPkgs[full(rel)]
	if p == nil {
		undecided("anchor package %q does not resolve", rel)
	}
	return p
}

// Named resolves a named type of a repository package.
func (w *World) Named(rel, name string) *types.Named {
	p := w.Pkg(rel)
	obj := p.Types.Scope().Lookup(name)
	tn, ok := obj.(*types.TypeName)
	if !ok {
		undecided("anchor type %s.%s does not resolve", rel, name)
	}
	n, ok := tn.Type().(*types.Named)
	if !ok {
		undecided("anchor type %s.%s is not a named type", rel, name)
	}
	return n
}

func (w *World) Struct(rel, name string) *types.Struct {
	s, ok := w.Named(rel, name).Underlying().(*types.Struct)
	if !ok {
		undecided("anchor type %s.%s is not a struct", rel, name)
	}
	return s
}

// Field resolves a struct field object.
func (w *World) Field(rel, typ, field string) *types.Var {
	s := w.Struct(rel, typ)
	for i := 0; i < s.NumFields(); i++ {
		if s.Field(i).Name() == field {
			return s.Field(i)
		}
	}
	undecided("anchor field %s.%s.%s does not resolve", rel, typ, field)
	return nil
}

// FuncObj resolves a package-level function (recv == "") or a method declared
// on recv or *recv.
func (w *World) FuncObj(rel, recv, name string) *types.Func {
	f := w.funcObjOpt(rel, recv, name)
	if f == nil {
		if g := w.renamedAnchor(rel, recv, name); g != nil {
			return g
		}
		undecided("anchor function %s.%s.%s does not resolve", rel, recv, name)
	}
	w.recordAnchor(rel, recv, name, f)
	return f
}

// ---- rename tracking of anchors ------------------------------------------------
//
// The rules name the functions they judge. A behaviour-preserving rename of an
// unexported function would leave the rule without its construct. anchors.json
// (written by `ycheck -property all -snapshot-anchors`, committed, embedded) keeps
// for every anchor its receiver, its signature (types only) and the set of
// callees; when a name no longer resolves, the one function of the same package
// with the same receiver and signature whose callee set is closest to the
// recorded one (Jaccard ≥ 0.6, clearly ahead of the runner-up, and not itself a
// recorded anchor) is taken to be the renamed anchor, and the run says so.

type anchorFP struct {
	Sig     string   `json:"sig"`
	Callees []string `json:"callees"`
}

//go:embed anchors.json
var anchorsJSON []byte

var (
	anchorSnap   map[string]anchorFP
	anchorRecord = map[string]anchorFP{}
	anchorNotes  []string
)

func sigString(sig *types.Signature) string {
	var b strings.Builder
	q := func(p *types.Package) string { return p.Path() }
	for i := 0; i < sig.Params().Len(); i++ {
		b.WriteString(types.TypeString(sig.Params().At(i).Type(), q))
		b.WriteString(",")
	}
	if sig.Variadic() {
		b.WriteString("...")
	}
	b.WriteString("->")
	for i := 0; i < sig.Results().Len(); i++ {
		b.WriteString(types.TypeString(sig.Results().At(i).Type(), q))
		b.WriteString(",")
	}
	return b.String()
}

func (w *World) fingerprint(f *types.Func) (anchorFP, bool) {
	fn := w.Prog.FuncValue(f)
	if fn == nil || fn.Blocks == nil {
		return anchorFP{}, false
	}
	set := map[string]bool{}
	for _, x := range withClosures(fn) {
		for _, ci := range callInstrs(x) {
			if o := calleeObj(ci); o != nil {
				n := o.Name()
				if r := recvName(o); r != "" {
					n = r + "." + n
				}
				set[n] = true
			}
		}
	}
	var cs []string
	for n := range set {
		cs = append(cs, n)
	}
	sort.Strings(cs)
	return anchorFP{Sig: sigString(f.Type().(*types.Signature)), Callees: cs}, true
}

func (w *World) recordAnchor(rel, recv, name string, f *types.Func) {
	k := rel + "|" + recv + "|" + name
	if _, has := anchorRecord[k]; has {
		return
	}
	if fp, ok := w.fingerprint(f); ok {
		anchorRecord[k] = fp
	}
}

func (w *World) renamedAnchor(rel, recv, name string) *types.Func {
	if anchorSnap == nil {
		anchorSnap = map[string]anchorFP{}
		_ = json.Unmarshal(anchorsJSON, &anchorSnap)
	}
	want, has := anchorSnap[rel+"|"+recv+"|"+name]
	if !has {
		return nil
	}
	p := w.Pkgs[full(rel)]
	if p == nil {
		return nil
	}
	var cands []*types.Func
	if recv == "" {
		for _, n := range p.Types.Scope().Names() {
			if f, ok := p.Types.Scope().Lookup(n).(*types.Func); ok {
				cands = append(cands, f)
			}
		}
	} else if tn, ok := p.Types.Scope().Lookup(recv).(*types.TypeName); ok {
		if named, ok := tn.Type().(*types.Named); ok {
			for i := 0; i < named.NumMethods(); i++ {
				cands = append(cands, named.Method(i))
			}
		}
	}
	wantSet := map[string]bool{}
	for _, c := range want.Callees {
		wantSet[c] = true
	}
	best, second := 0.0, 0.0
	var bestF *types.Func
	for _, f := range cands {
		if _, isAnchor := anchorSnap[rel+"|"+recv+"|"+f.Name()]; isAnchor {
			continue // a function that is an anchor under its own name
		}
		fp, ok := w.fingerprint(f)
		if !ok || fp.Sig != want.Sig {
			continue
		}
		inter, union := 0, len(wantSet)
		for _, c := range fp.Callees {
			if wantSet[c] {
				inter++
			} else {
				union++
			}
		}
		score := 1.0
		if union > 0 {
			score = float64(inter) / float64(union)
		}
		if score > best {
			best, second, bestF = score, best, f
		} else if score > second {
			second = score
		}
	}
	if bestF == nil || best < 0.6 || best-second < 0.15 {
		return nil
	}
	note := fmt.Sprintf("anchor %s.%s.%s does not resolve; taken to be renamed to %s (same receiver and signature, %.0f%% of the recorded callees)", rel, recv, name, bestF.Name(), best*100)
	anchorNotes = append(anchorNotes, note)
	fmt.Println("NOTE:", note)
	renamedFns[bestF] = name
	return bestF
}

func (w *World) funcObjOpt(rel, recv, name string) *types.Func {
	p := w.Pkgs[full(rel)]
	if p == nil {
		return nil
	}
	if recv == "" {
		f, _ := p.Types.Scope().Lookup(name).(*types.Func)
		return f
	}
	tn, ok := p.Types.Scope().Lookup(recv).(*types.TypeName)
	if !ok {
		return nil
	}
	named, ok := tn.Type().(*types.Named)
	if !ok {
		return nil
	}
	for i := 0; i < named.NumMethods(); i++ {
		if named.Method(i).Name() == name {
			return named.Method(i)
		}
	}
	// interface method
	if it, ok := named.Underlying().(*types.Interface); ok {
		for i := 0; i < it.NumMethods(); i++ {
			if it.Method(i).Name() == name {
				return it.Method(i)
			}
		}
	}
	return nil
}

// Fn resolves the SSA function of a declared function or method.
func (w *World) Fn(rel, recv, name string) *ssa.Function {
	obj := w.FuncObj(rel, recv, name)
	fn := w.Prog.FuncValue(obj)
	if fn == nil || fn.Blocks == nil {
		undecided("anchor function %s.%s.%s has no SSA body", rel, recv, name)
	}
	return fn
}

func (w *World) FnOpt(rel, recv, name string) *ssa.Function {
	obj := w.funcObjOpt(rel, recv, name)
	if obj == nil {
		return nil
	}
	fn := w.Prog.FuncValue(obj)
	if fn == nil || fn.Blocks == nil {
		return nil
	}
	return fn
}

// Decl returns the syntax of a declared function.
func (w *World) Decl(rel, recv, name string) *ast.FuncDecl {
	obj := w.FuncObj(rel, recv, name)
	d := w.declOf[obj]
	if d == nil || d.Body == nil {
		undecided("anchor function %s.%s.%s has no syntax", rel, recv, name)
	}
	return d
}

func (w *World) Info(rel string) *types.Info { return w.Pkg(rel).TypesInfo }

// InfoFor returns the types.Info of the package that declares fn.
func (w *World) InfoFor(fn *ssa.Function) *types.Info {
	for fn.Parent() != nil {
		fn = fn.Parent()
	}
	if fn.Pkg == nil {
		return nil
	}
	p := w.Pkgs[fn.Pkg.Pkg.Path()]
	if p == nil {
		return nil
	}
	return p.TypesInfo
}

// Pos renders a position relative to the repository root.
func (w *World) Pos(p token.Pos) string {
	if !p.IsValid() {
		return "-"
	}
	pos := w.Fset.Position(p)
	f := strings.TrimPrefix(pos.Filename, w.RepoDir+"/")
	return fmt.Sprintf("%s:%d", f, pos.Line)
}

// FuncsIn returns every function with a body (closures included) declared in
// the given repository packages.
func (w *World) FuncsIn(rels ...string) []*ssa.Function {
	want := map[string]bool{}
	for _, r := range rels {
		w.Pkg(r)
		want[full(r)] = true
	}
	var out []*ssa.Function
	for _, fn := range w.allFuncs {
		if want[fn.Pkg.Pkg.Path()] {
			out = append(out, fn)
		}
	}
	return out
}

func (w *World) AllFuncs() []*ssa.Function { return w.allFuncs }

// fname gives a stable, position-free key of a function:
// pkg.(Recv).Name or pkg.Name, closures as parent$N.
func fname(fn *ssa.Function) string {
	if fn == nil {
		return "<nil>"
	}
	s := fn.String()
	s = strings.ReplaceAll(s, modPath+"/", "")
	s = strings.ReplaceAll(s, "(*", "(")
	// a renamed anchor (and its closures) keeps the recorded name in tables and obligation keys
	for root := fn; root != nil; root = root.Parent() {
		if o, ok := root.Object().(*types.Func); ok {
			if old, has := renamedFns[o]; has {
				s = strings.Replace(s, "."+o.Name(), "."+old, 1)
				s = strings.Replace(s, ")."+o.Name(), ")."+old, 1)
			}
		}
	}
	return s
}

var renamedFns = map[*types.Func]string{}

// theWorld is the world loaded last (for helpers that have no Ctx at hand).
var theWorld *World

// isTestHelperFile reports whether a position lies in a file that is compiled
// into a production package but is a test helper by its own declaration.
func (w *World) fileOf(p token.Pos) string {
	if !p.IsValid() {
		return ""
	}
	return strings.TrimPrefix(w.Fset.Position(p).Filename, w.RepoDir+"/")
}

// Callers returns the static call sites of fn in the repository.
func (w *World) Callers(fn *ssa.Function) []ssa.CallInstruction {
	if w.callersOf == nil {
		w.callersOf = map[*ssa.Function][]*ssa.CallInstruction{}
		w.callerIdx = map[*ssa.Function][]ssa.CallInstruction{}
		for _, f := range w.allFuncs {
			for _, b := range f.Blocks {
				for _, in := range b.Instrs {
					if ci, ok := in.(ssa.CallInstruction); ok {
						if callee := ci.Common().StaticCallee(); callee != nil {
							w.callerIdx[callee] = append(w.callerIdx[callee], ci)
						}
					}
				}
			}
		}
	}
	return w.callerIdx[fn]
}

#!/bin/sh
# Development aid: applies a patch to /repo, runs every quick check in one process, undoes the patch.
# usage: eval_patch.sh <patch.diff>   (the evidence files it writes are regenerated afterwards by the caller)
export GOFLAGS=-mod=mod GOPROXY=off GOSUMDB=off GOTOOLCHAIN=local
unset GOWORK
P="$1"
cd /repo || exit 2
git diff --quiet || { echo "repo working tree not clean"; exit 2; }
git apply "$P" || { echo "patch does not apply"; exit 2; }
/verif/bin/ycheck -property all -tier quick -evidence-dir /tmp/evalpatch-evidence 2>&1 | grep -v "^KNOWN-FINDING" | grep -E "^  violated|^  undecided|^VIOLATION|^UNDECIDED" | cut -c1-400
git checkout -- . 
git diff --quiet && echo "(repo restored)"

#!/bin/sh
# Builds the checker from files on disk only and warms Go's build cache so that
# export data of /repo's dependencies (incl. the cgo packages) exists.
set -e
export GOFLAGS=-mod=mod GOPROXY=off GOSUMDB=off GOTOOLCHAIN=local
unset GOWORK
cd /verif/ycheck
go build -o /verif/bin/ycheck .
cd /repo
go build ./... >/dev/null 2>&1 || go build ./...
echo "setup ok"
